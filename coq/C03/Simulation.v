(** C03 — compile_correct, first fragment: expression evaluation without calls.

    FULL STATEMENT (goal, not proved in general):
      compile_correct :
        forall fuel prog v st', eval_program fuel prog st0 = SVal v st' ->
        exists fuel' v' s', run_program fuel' prog [] [] = Done v' s' /\ vrel (heap s') v' v
      (and the same for error outcomes), i.e. [Sem.eval e = v -> Vm.run (generate e) = v].

    PROVED HERE ([compile_correct_partial]): the simulation for the fragment [pure]:
      literals, global references, references to unboxed variables of the current frame,
      conditionals, sequences, applications of the inlined unary / binary opcodes except eq?.
    For such an e, if the SPEC interpreter gives a value (with any fuel), then running the code
    [generate tl svs (Some c) e], placed anywhere inside the current procedure's code, on the
    model VM takes finitely many steps, leaves a value related to the SPEC's on top of the stack,
    leaves the stack below, the frame pointer, the globals and the existing heap cells unchanged
    (the heap only grows), and ends exactly at the instruction after the code.
    MISSING for the full statement: set! / boxes, closure creation and closure references,
    general application (make_call / RET / TAIL-CALL), eq? on pairs (the SPEC leaves it open),
    error outcomes, the top-level driver [run_program].  These are only tested (model compiler +
    model VM vs SPEC on every generated program, props/C03.py "model-compile-correct"). *)
From Coq Require Import ZArith List Bool Arith Lia.
From ChibiV Require Import C03.Defs C03.Model C03.Spec.
Import ListNotations.
Local Open Scope nat_scope.

(* ------------------------------------------------------------------ values *)

(** a VM value represents a SPEC value in heap h (data only: literals and pair trees) *)
Fixpoint vrel (h : list hobj) (v : value) (w : sval) {struct w} : Prop :=
  match w with
  | SLit l => v = VLit l
  | SPair x y => exists a vx vy, v = VPair a /\ nth_error h a = Some (HPair vx vy) /\ vrel h vx x /\ vrel h vy y
  | SClo _ _ _ _ _ _ => False
  end.

Lemma vrel_ext : forall w h h' v, vrel h v w -> vrel (h ++ h') v w.
Proof.
  induction w as [l | x IHx y IHy | ]; simpl; intros h h' v H; auto.
  destruct H as (a & vx & vy & -> & Hn & H1 & H2). exists a, vx, vy.
  repeat split; auto. rewrite nth_error_app1; auto. apply nth_error_Some. congruence.
Qed.

(* ------------------------------------------------------------------ finitely many VM steps *)

Fixpoint nsteps (n : nat) (s : state) : option state :=
  match n with
  | 0 => Some s
  | S m => match step s with Next s' => nsteps m s' | _ => None end
  end.

Lemma nsteps_app : forall n m s s1 s2,
  nsteps n s = Some s1 -> nsteps m s1 = Some s2 -> nsteps (n + m) s = Some s2.
Proof.
  induction n as [|n IH]; simpl; intros m s s1 s2 H1 H2.
  - inversion H1; subst; auto.
  - destruct (step s) as [s'| |]; try discriminate. eapply IH; eauto.
Qed.

Lemma nsteps_one : forall s s', step s = Next s' -> nsteps 1 s = Some s'.
Proof. intros s s' H; simpl; rewrite H; reflexivity. Qed.

(** [nsteps] is a prefix of [run] *)
Lemma run_nsteps : forall n f s s', nsteps n s = Some s' -> run (n + f) s = run f s'.
Proof.
  induction n as [|n IH]; simpl; intros f s s' H.
  - inversion H; reflexivity.
  - destruct (step s) as [s1| |]; try discriminate. apply IH; auto.
Qed.

(* ------------------------------------------------------------------ the fragment *)

Definition pure_prim (p : prim) : bool := match p with PEq => false | _ => true end.

Fixpoint pure (id : nat) (sv : list name) (e : ast) {struct e} : bool :=
  match e with
  | Lit _ => true
  | Ref x Global => true
  | Ref x (Local m) => Nat.eqb m id && negb (memn x sv)
  | Cnd t p f => pure id sv t && pure id sv p && pure id sv f
  | Seq es => match es with [] => false | _ :: _ => forallb (pure id sv) es end
  | OpApp p args => pure_prim p && Nat.eqb (length args) (prim_arity p) && forallb (pure id sv) args
  | SetV _ _ _ | Lam _ _ _ _ _ _ _ | App _ _ => false
  end.

(** the frame and the globals of VM state s represent SPEC environment env / store st for the
    variables the fragment can mention *)
Definition env_ok (c : lctx) (svs : nat -> list name) (env : senv) (st : sstore) (s : state) : Prop :=
  (forall x a w, memn x (svs (l_id c)) = false ->
     env_lookup (x, Local (l_id c)) env = Some a -> nth_error (cells st) a = Some w ->
     exists k v, slot (fp s) (param_index (l_params c) (l_rest c) (l_locals c) x) = Some k
                 /\ sget (stk s) k = Some v /\ vrel (heap s) v w)
  /\ (forall g w, glob_lookup g (sglobals st) = Some w ->
        exists v, assoc_nat g (globals s) = Some v /\ vrel (heap s) v w).

Lemma sget_app : forall vs st k v, sget st k = Some v -> sget (vs ++ st) k = Some v.
Proof.
  unfold sget; intros vs st k v H.
  destruct (k <? length st) eqn:E; try discriminate. apply Nat.ltb_lt in E.
  rewrite app_length.
  assert (E2 : (k <? length vs + length st) = true) by (apply Nat.ltb_lt; lia).
  rewrite E2. rewrite nth_error_app2 by lia.
  replace (length vs + length st - 1 - k - length vs) with (length st - 1 - k) by lia. exact H.
Qed.

Lemma env_ok_ext : forall c svs env st s s1 vs hx,
  env_ok c svs env st s ->
  fp s1 = fp s -> globals s1 = globals s -> stk s1 = vs ++ stk s -> heap s1 = heap s ++ hx ->
  env_ok c svs env st s1.
Proof.
  intros c svs env st s s1 vs hx [HL HG] Hfp Hgl Hstk Hheap. split.
  - intros x a w Hm He Hc. destruct (HL x a w Hm He Hc) as (k & v & Hs & Hg & Hv).
    exists k, v. rewrite Hfp, Hstk, Hheap. repeat split; auto using sget_app, vrel_ext.
  - intros g w Hg. destruct (HG g w Hg) as (v & Ha & Hv). exists v. rewrite Hgl, Hheap. auto using vrel_ext.
Qed.

(* ------------------------------------------------------------------ equations for generate / eval *)

Definition gen_seq (tl : bool) (svs : nat -> list name) (cur : option lctx) : list ast -> code :=
  fix go (l : list ast) : code :=
    match l with
    | [] => []
    | e :: r =>
        match r with
        | [] => generate tl svs cur e
        | _ :: _ => (if is_lit e then [] else drop_prev e (generate false svs cur e)) ++ go r
        end
    end.

Lemma generate_Seq : forall tl svs cur es, generate tl svs cur (Seq es) = gen_seq tl svs cur es.
Proof. reflexivity. Qed.

Definition eval_seq (f : nat) (env : senv) : list ast -> sstore -> sres :=
  fix go (l : list ast) (st : sstore) : sres :=
    match l with
    | [] => SVal (SLit LVoid) st
    | a :: r =>
        match r with
        | [] => eval f a env st
        | _ :: _ => match eval f a env st with SVal _ st1 => go r st1 | x => x end
        end
    end.

Lemma eval_Seq : forall f es env st, eval (S f) (Seq es) env st = eval_seq f env es st.
Proof. reflexivity. Qed.

Lemma eval_Lit : forall f l env st, eval (S f) (Lit l) env st = SVal (SLit (lit_value l)) st.
Proof. reflexivity. Qed.

Lemma eval_Cnd : forall f t p e env st,
  eval (S f) (Cnd t p e) env st =
  match eval f t env st with
  | SVal (SLit (LBool false)) st1 => eval f e env st1
  | SVal _ st1 => eval f p env st1
  | r => r
  end.
Proof. reflexivity. Qed.

Lemma eval_OpApp : forall f p args env st,
  eval (S f) (OpApp p args) env st =
  match evlist (eval f) (if prim_inverse p then args else rev args) env st with
  | inr x => x
  | inl (rvs, st1) =>
      match prim_sem p (if prim_inverse p then rvs else rev rvs) with
      | inl (Some v) => SVal v st1
      | inl None => SErr EStuck
      | inr e => SErr e
      end
  end.
Proof. intros f p args env st. destruct p; reflexivity. Qed.

Lemma gen_op1 : forall tl svs cur p a, prim_arity p = 1 ->
  generate tl svs cur (OpApp p [a]) = generate false svs cur a ++ [IPrim p].
Proof. intros tl svs cur p a H; destruct p; try discriminate; simpl; rewrite ?app_nil_r; reflexivity. Qed.

Lemma gen_op2 : forall tl svs cur p a b, prim_arity p = 2 ->
  generate tl svs cur (OpApp p [a; b]) =
  if prim_inverse p
  then generate false svs cur a ++ generate false svs cur b ++ [IPrim (prim_opcode p)]
  else generate false svs cur b ++ generate false svs cur a ++ [IPrim p].
Proof.
  intros tl svs cur p a b H; destruct p; try discriminate; simpl; rewrite <- ?app_assoc, ?app_nil_r; reflexivity.
Qed.

(* ------------------------------------------------------------------ single instructions *)

Ltac solve_len := simpl; repeat (progress (rewrite ?app_length; simpl)); lia.
Ltac norm_code := repeat (progress (rewrite <- ?app_assoc; cbn [app])); reflexivity.

Definition at_code (s : state) (pre c post : code) : Prop :=
  code_of (self s) = pre ++ c ++ post /\ ip s = length pre.

Lemma fetch : forall s pre i post, at_code s pre [i] post -> nth_error (code_of (self s)) (ip s) = Some i.
Proof.
  intros s pre i post [Hc Hi]. rewrite Hc, Hi. rewrite nth_error_app2 by lia. rewrite Nat.sub_diag. reflexivity.
Qed.

Definition upd (s : state) (st : list value) (ip' : nat) (h : list hobj) : state :=
  mkst st (fp s) (self s) ip' h (globals s).

Lemma step_push : forall s pre l post, at_code s pre [IPush l] post ->
  step s = Next (upd s (VLit l :: stk s) (S (ip s)) (heap s)).
Proof. intros s pre l post H. unfold step. rewrite (fetch _ _ _ _ H). reflexivity. Qed.

Lemma step_drop : forall s pre post v r, at_code s pre [IDrop] post -> stk s = v :: r ->
  step s = Next (upd s r (S (ip s)) (heap s)).
Proof. intros s pre post v r H Hs. unfold step. rewrite (fetch _ _ _ _ H), Hs. reflexivity. Qed.

Lemma step_jump : forall s pre n post, at_code s pre [IJump n] post ->
  step s = Next (upd s (stk s) (S (ip s) + n) (heap s)).
Proof. intros s pre n post H. unfold step. rewrite (fetch _ _ _ _ H). reflexivity. Qed.

Lemma step_jump_unless_false : forall s pre n post r, at_code s pre [IJumpUnless n] post ->
  stk s = VLit (LBool false) :: r ->
  step s = Next (upd s r (S (ip s) + n) (heap s)).
Proof. intros s pre n post r H Hs. unfold step. rewrite (fetch _ _ _ _ H), Hs. reflexivity. Qed.

Lemma step_jump_unless_true : forall s pre n post v r, at_code s pre [IJumpUnless n] post ->
  stk s = v :: r -> v <> VLit (LBool false) ->
  step s = Next (upd s r (S (ip s)) (heap s)).
Proof.
  intros s pre n post v r H Hs Hv. unfold step. rewrite (fetch _ _ _ _ H), Hs.
  destruct v as [[z|[|]| | | | |o|nd]| | | |]; try reflexivity. congruence.
Qed.

Lemma step_local_ref : forall s pre k post a v, at_code s pre [ILocalRef k] post ->
  slot (fp s) k = Some a -> sget (stk s) a = Some v ->
  step s = Next (upd s (v :: stk s) (S (ip s)) (heap s)).
Proof. intros s pre k post a v H Hs Hg. unfold step. rewrite (fetch _ _ _ _ H), Hs, Hg. reflexivity. Qed.

Lemma step_global_ref : forall s pre g post v, at_code s pre [IGlobalRef g] post ->
  assoc_nat g (globals s) = Some v ->
  step s = Next (upd s (v :: stk s) (S (ip s)) (heap s)).
Proof. intros s pre g post v H Hg. unfold step. rewrite (fetch _ _ _ _ H), Hg. reflexivity. Qed.

Lemma step_prim : forall s pre p post st' h', at_code s pre [IPrim p] post ->
  prim_step p (stk s) (heap s) = inl (Some (st', h')) ->
  step s = Next (upd s st' (S (ip s)) h').
Proof. intros s pre p post st' h' H Hp. unfold step. rewrite (fetch _ _ _ _ H), Hp. reflexivity. Qed.

(* ------------------------------------------------------------------ primitives: opcode body vs SPEC table *)

Lemma vrel_lit_inv : forall h v l, vrel h v (SLit l) -> v = VLit l.
Proof. intros; assumption. Qed.

Lemma prim1_ok : forall p h v w r stk0,
  prim_arity p = 1 -> vrel h v w -> prim_sem p [w] = inl (Some r) ->
  exists r', prim_step p (v :: stk0) h = inl (Some (r' :: stk0, h)) /\ vrel h r' r.
Proof.
  intros p h v w r stk0 Ha Hv Hs.
  destruct p; try discriminate Ha; destruct w as [l | x y | ]; simpl in Hv; try contradiction;
    try (destruct Hv as (a & vx & vy & -> & Hn & H1 & H2)); subst; simpl in Hs; try discriminate;
    inversion Hs; subst; simpl; rewrite ?Hn; eexists; split; try reflexivity; simpl; auto;
    try (destruct l as [z|[|]| | | | |o|nd]; reflexivity).
Qed.

Lemma prim2_ok : forall p h v1 v2 w1 w2 r stk0,
  prim_arity p = 2 -> pure_prim p = true -> vrel h v1 w1 -> vrel h v2 w2 ->
  prim_sem p [w1; w2] = inl (Some r) ->
  exists r' hx,
    (if prim_inverse p then prim_step (prim_opcode p) (v2 :: v1 :: stk0) h
     else prim_step p (v1 :: v2 :: stk0) h) = inl (Some (r' :: stk0, h ++ hx))
    /\ vrel (h ++ hx) r' r.
Proof.
  intros p h v1 v2 w1 w2 r stk0 Ha Hp H1 H2 Hs.
  destruct p; try discriminate Ha; try discriminate Hp.
  all: try (destruct w1 as [[a| | | | | | |] | |]; simpl in Hs; try discriminate;
            destruct w2 as [[b| | | | | | |] | |]; simpl in Hs; try discriminate;
            simpl in H1, H2; subst; inversion Hs; subst; simpl;
            eexists; exists []; rewrite app_nil_r; split; reflexivity).
  (* cons *)
  simpl in Hs. inversion Hs; subst. simpl. eexists; exists [HPair v1 v2]. split; [reflexivity|].
  simpl. exists (length h), v1, v2. repeat split; auto using vrel_ext.
  rewrite nth_error_app2 by lia. rewrite Nat.sub_diag. reflexivity.
Qed.

(* ------------------------------------------------------------------ the simulation *)

Definition final (s : state) (v' : value) (pre c : code) (hx : list hobj) : state :=
  upd s (v' :: stk s) (length pre + length c) (heap s ++ hx).

Definition sim_at (c : lctx) (svs : nat -> list name) (f : nat) (e : ast) : Prop :=
  forall env st v st', pure (l_id c) (svs (l_id c)) e = true ->
  eval f e env st = SVal v st' ->
  forall tl s pre post,
  at_code s pre (generate tl svs (Some c) e) post ->
  env_ok c svs env st s ->
  st' = st /\ exists n v' hx,
    nsteps n s = Some (final s v' pre (generate tl svs (Some c) e) hx) /\ vrel (heap s ++ hx) v' v.

Lemma at_code_upd : forall s st ip' h pre c post,
  code_of (self s) = pre ++ c ++ post -> ip' = length pre -> at_code (upd s st ip' h) pre c post.
Proof. intros; split; simpl; auto. Qed.

Lemma sval_false_dec : forall h v w, vrel h v w ->
  (w = SLit (LBool false) /\ v = VLit (LBool false)) \/ (w <> SLit (LBool false) /\ v <> VLit (LBool false)).
Proof.
  intros h v w H. destruct w as [l | x y | ]; simpl in H; try contradiction.
  - subst. destruct l as [z|[|]| | | | |o|nd]; try (right; split; congruence). left; auto.
  - destruct H as (a & vx & vy & -> & _). right; split; congruence.
Qed.

Section Sim.
  Variable c : lctx.
  Variable svs : nat -> list name.

  Lemma sim_seq : forall f, (forall e, sim_at c svs f e) ->
    forall es env st v st', es <> [] -> forallb (pure (l_id c) (svs (l_id c))) es = true ->
    eval_seq f env es st = SVal v st' ->
    forall tl s pre post,
    at_code s pre (gen_seq tl svs (Some c) es) post ->
    env_ok c svs env st s ->
    st' = st /\ exists n v' hx,
      nsteps n s = Some (final s v' pre (gen_seq tl svs (Some c) es) hx) /\ vrel (heap s ++ hx) v' v.
  Proof.
    intros f IH es. induction es as [|a r IHr]; intros env st v st' Hne Hp He tl s pre post Hat Hok.
    - congruence.
    - simpl in Hp. apply andb_true_iff in Hp. destruct Hp as [Hpa Hpr].
      destruct r as [|b r'].
      + (* last element *) simpl in He, Hat |- *. eapply IH; eauto.
      + (* a non-final element: evaluated, dropped *)
        change (eval_seq f env (a :: b :: r') st) with
          (match eval f a env st with SVal _ st1 => eval_seq f env (b :: r') st1 | x => x end) in He.
        destruct (eval f a env st) as [va st1| |] eqn:Ea; try discriminate.
        change (gen_seq tl svs (Some c) (a :: b :: r')) with
          ((if is_lit a then [] else drop_prev a (generate false svs (Some c) a)) ++ gen_seq tl svs (Some c) (b :: r')) in *.
        destruct (is_lit a) eqn:La.
        * (* a literal emits no code *)
          destruct a; try discriminate La. destruct f; [discriminate Ea|]. rewrite eval_Lit in Ea. inversion Ea; subst st1.
          simpl app in *. eapply IHr; eauto. congruence.
        * assert (Hd : drop_prev a (generate false svs (Some c) a) = generate false svs (Some c) a ++ [IDrop]).
          { unfold drop_prev. destruct a; simpl in La, Hpa |- *; try discriminate; reflexivity. }
          rewrite Hd in *. set (ca := generate false svs (Some c) a) in *.
          set (cr := gen_seq tl svs (Some c) (b :: r')) in *.
          destruct Hat as [Hcode Hip].
          assert (Hat1 : at_code s pre ca ([IDrop] ++ cr ++ post)).
          { split; auto. rewrite Hcode. norm_code. }
          destruct (IH a env st va st1 Hpa Ea false s pre _ Hat1 Hok) as (-> & n1 & v1 & h1 & Hn1 & Hv1).
          fold ca in Hn1.
          set (s1 := final s v1 pre ca h1) in *.
          assert (Hat2 : at_code s1 (pre ++ ca) [IDrop] (cr ++ post)).
          { split; simpl; [|rewrite app_length; reflexivity]. rewrite Hcode. norm_code. }
          pose proof (step_drop s1 _ _ v1 (stk s) Hat2 eq_refl) as Hstep.
          set (s2 := upd s1 (stk s) (S (ip s1)) (heap s1)) in *.
          assert (Hat3 : at_code s2 (pre ++ ca ++ [IDrop]) cr post).
          { split; simpl; [|solve_len]. rewrite Hcode. norm_code. }
          assert (Hok2 : env_ok c svs env st s2).
          { eapply (env_ok_ext c svs env st s s2 [] h1); eauto. }
          assert (Hne2 : b :: r' <> []) by congruence.
          destruct (IHr env st v st' Hne2 Hpr He tl s2 _ post Hat3 Hok2) as (-> & n2 & v2 & h2 & Hn2 & Hv2).
          fold cr in Hn2.
          split; auto. exists (n1 + (1 + n2)), v2, (h1 ++ h2). split.
          -- eapply nsteps_app; [exact Hn1|]. eapply nsteps_app; [apply nsteps_one; exact Hstep|].
             rewrite Hn2. f_equal. unfold final, upd; simpl. f_equal.
             ++ solve_len.
             ++ rewrite app_assoc. reflexivity.
          -- simpl in Hv2. rewrite <- app_assoc in Hv2. exact Hv2.
  Qed.

  Lemma sim_all : forall f e, sim_at c svs f e.
  Proof.
    induction f as [|f IH]; intros e env st v st' Hp He tl s pre post Hat Hok.
    - discriminate He.
    - destruct e as [l | x o | x o e1 | t p e2 | es | id ps r ls sv fv b | g args | p args]; try discriminate Hp.
      + (* Lit *)
        rewrite eval_Lit in He. inversion He; subst. split; auto.
        exists 1, (VLit (lit_value l)), []. split; [|rewrite app_nil_r; reflexivity].
        apply nsteps_one. simpl generate in *. rewrite (step_push _ _ _ _ Hat).
        unfold final, upd; simpl. destruct Hat as [_ ->]. rewrite app_nil_r. f_equal. f_equal. lia.
      + (* Ref *)
        destruct o as [|m].
        * (* global *)
          simpl in He. destruct (glob_lookup x (sglobals st)) as [w|] eqn:Eg; try discriminate.
          inversion He; subst. split; auto.
          destruct Hok as [_ HG]. destruct (HG x v Eg) as (v' & Ha & Hv).
          exists 1, v', []. split; [|rewrite app_nil_r; exact Hv].
          apply nsteps_one. simpl generate in *. rewrite (step_global_ref _ _ _ _ _ Hat Ha).
          unfold final, upd; simpl. destruct Hat as [_ ->]. rewrite app_nil_r. f_equal. f_equal. lia.
        * (* unboxed variable of the current frame *)
          simpl in Hp. apply andb_true_iff in Hp. destruct Hp as [Hm Hsv].
          apply Nat.eqb_eq in Hm. subst m. apply negb_true_iff in Hsv.
          simpl in He. destruct (env_lookup (x, Local (l_id c)) env) as [a|] eqn:El; try discriminate.
          destruct (nth_error (cells st) a) as [w|] eqn:Ec; try discriminate.
          inversion He; subst. split; auto.
          destruct Hok as [HL _]. destruct (HL x a v Hsv El Ec) as (k & v' & Hs & Hg & Hv).
          assert (Hgen : generate tl svs (Some c) (Ref x (Local (l_id c)))
                         = [ILocalRef (param_index (l_params c) (l_rest c) (l_locals c) x)]).
          { simpl. unfold gen_non_global_ref. simpl. rewrite Nat.eqb_refl, Hsv. reflexivity. }
          rewrite Hgen in *.
          exists 1, v', []. split; [|rewrite app_nil_r; exact Hv].
          apply nsteps_one. rewrite (step_local_ref _ _ _ _ _ _ Hat Hs Hg).
          unfold final, upd; simpl. destruct Hat as [_ ->]. rewrite app_nil_r. f_equal. f_equal. lia.
      + (* Cnd *)
        simpl in Hp. apply andb_true_iff in Hp. destruct Hp as [Hp Hpf]. apply andb_true_iff in Hp. destruct Hp as [Hpt Hpp].
        rewrite eval_Cnd in He.
        destruct (eval f t env st) as [vt st1| |] eqn:Et; try discriminate.
        simpl generate in *.
        set (ct := generate false svs (Some c) t) in *.
        set (cp := generate tl svs (Some c) p) in *.
        set (cf := generate tl svs (Some c) e2) in *.
        destruct Hat as [Hcode Hip].
        assert (Hat1 : at_code s pre ct (([IJumpUnless (S (length cp))] ++ cp ++ [IJump (length cf)] ++ cf) ++ post)).
        { split; auto. rewrite Hcode. norm_code. }
        destruct (IH t env st vt st1 Hpt Et false s pre _ Hat1 Hok) as (-> & n1 & v1 & h1 & Hn1 & Hv1).
        fold ct in Hn1. set (s1 := final s v1 pre ct h1) in *.
        assert (Hat2 : at_code s1 (pre ++ ct) [IJumpUnless (S (length cp))] (cp ++ [IJump (length cf)] ++ cf ++ post)).
        { split; simpl; [|rewrite app_length; reflexivity]. rewrite Hcode. norm_code. }
        destruct (sval_false_dec _ _ _ Hv1) as [[-> ->] | [Hw Hv]].
        * (* test false: jump to the else branch *)
          pose proof (step_jump_unless_false s1 _ _ _ (stk s) Hat2 eq_refl) as Hstep.
          set (s2 := upd s1 (stk s) (S (ip s1) + S (length cp)) (heap s1)) in *.
          assert (Hat3 : at_code s2 (pre ++ ct ++ [IJumpUnless (S (length cp))] ++ cp ++ [IJump (length cf)]) cf post).
          { split; simpl; [|solve_len]. rewrite Hcode. norm_code. }
          assert (Hok2 : env_ok c svs env st s2) by (eapply (env_ok_ext c svs env st s s2 [] h1); eauto).
          destruct (IH e2 env st v st' Hpf He tl s2 _ post Hat3 Hok2) as (-> & n2 & v2 & h2 & Hn2 & Hv2).
          fold cf in Hn2.
          split; auto. exists (n1 + (1 + n2)), v2, (h1 ++ h2). split.
          -- eapply nsteps_app; [exact Hn1|]. eapply nsteps_app; [apply nsteps_one; exact Hstep|].
             rewrite Hn2. f_equal. unfold final, upd; simpl. f_equal.
             ++ solve_len.
             ++ rewrite app_assoc. reflexivity.
          -- simpl in Hv2. rewrite <- app_assoc in Hv2. exact Hv2.
        * (* test true: fall into the then branch, jump over the else branch *)
          assert (Hep : eval f p env st = SVal v st').
          { destruct vt as [[z|[|]| | | | |o|nd] | |]; try exact He; congruence. }
          pose proof (step_jump_unless_true s1 _ _ _ v1 (stk s) Hat2 eq_refl Hv) as Hstep.
          set (s2 := upd s1 (stk s) (S (ip s1)) (heap s1)) in *.
          assert (Hat3 : at_code s2 (pre ++ ct ++ [IJumpUnless (S (length cp))]) cp ([IJump (length cf)] ++ cf ++ post)).
          { split; simpl; [|solve_len]. rewrite Hcode. norm_code. }
          assert (Hok2 : env_ok c svs env st s2) by (eapply (env_ok_ext c svs env st s s2 [] h1); eauto).
          destruct (IH p env st v st' Hpp Hep tl s2 _ _ Hat3 Hok2) as (-> & n2 & v2 & h2 & Hn2 & Hv2).
          fold cp in Hn2.
          set (s3 := final s2 v2 (pre ++ ct ++ [IJumpUnless (S (length cp))]) cp h2) in *.
          assert (Hat4 : at_code s3 (pre ++ ct ++ [IJumpUnless (S (length cp))] ++ cp) [IJump (length cf)] (cf ++ post)).
          { split; simpl; [|solve_len]. rewrite Hcode. norm_code. }
          pose proof (step_jump s3 _ _ _ Hat4) as Hstep2.
          split; auto. exists (n1 + (1 + (n2 + 1))), v2, (h1 ++ h2). split.
          -- eapply nsteps_app; [exact Hn1|]. eapply nsteps_app; [apply nsteps_one; exact Hstep|].
             eapply nsteps_app; [exact Hn2|]. rewrite (nsteps_one _ _ Hstep2).
             f_equal. unfold final, upd; simpl. f_equal.
             ++ solve_len.
             ++ rewrite app_assoc. reflexivity.
          -- simpl in Hv2. rewrite <- app_assoc in Hv2. exact Hv2.
      + (* Seq *)
        rewrite eval_Seq in He. rewrite generate_Seq in *.
        simpl in Hp. destruct es as [|a r]; try discriminate Hp.
        eapply (sim_seq f IH (a :: r)); eauto. congruence.
      + (* OpApp *)
        simpl in Hp. apply andb_true_iff in Hp. destruct Hp as [Hp Hall]. apply andb_true_iff in Hp. destruct Hp as [Hpp Hlen].
        apply Nat.eqb_eq in Hlen. rewrite eval_OpApp in He.
        destruct args as [|a [|b [|c0 args]]]; simpl in Hlen.
        * destruct p; discriminate Hlen.
        * (* unary *)
          assert (Ha1 : prim_arity p = 1) by auto.
          assert (Hinv : (if prim_inverse p then [a] else rev [a]) = [a]) by (destruct (prim_inverse p); reflexivity).
          rewrite Hinv in He. simpl evlist in He. simpl in Hall. apply andb_true_iff in Hall. destruct Hall as [Hpa _].
          destruct (eval f a env st) as [va st1| |] eqn:Ea; try discriminate.
          assert (Hinv2 : (if prim_inverse p then [va] else rev [va]) = [va]) by (destruct (prim_inverse p); reflexivity).
          rewrite Hinv2 in He.
          destruct (prim_sem p [va]) as [[rv|]|] eqn:Eprim; try discriminate. inversion He; subst rv st'. clear He.
          rewrite gen_op1 in * by auto.
          set (ca := generate false svs (Some c) a) in *.
          destruct Hat as [Hcode Hip].
          assert (Hat1 : at_code s pre ca ([IPrim p] ++ post)).
          { split; auto. rewrite Hcode. norm_code. }
          destruct (IH a env st va st1 Hpa Ea false s pre _ Hat1 Hok) as (-> & n1 & v1 & h1 & Hn1 & Hv1).
          fold ca in Hn1. set (s1 := final s v1 pre ca h1) in *.
          destruct (prim1_ok p _ _ _ _ (stk s) Ha1 Hv1 Eprim) as (r' & Hps & Hr).
          assert (Hat2 : at_code s1 (pre ++ ca) [IPrim p] post).
          { split; simpl; [|rewrite app_length; reflexivity]. rewrite Hcode. norm_code. }
          pose proof (step_prim s1 _ _ _ _ _ Hat2 Hps) as Hstep.
          split; auto. exists (n1 + 1), r', h1. split; auto.
          eapply nsteps_app; [exact Hn1|]. rewrite (nsteps_one _ _ Hstep).
          f_equal. unfold final, upd; simpl. f_equal. solve_len.
        * (* binary *)
          assert (Ha2 : prim_arity p = 2) by auto.
          simpl in Hall. apply andb_true_iff in Hall. destruct Hall as [Hpa Hall].
          apply andb_true_iff in Hall. destruct Hall as [Hpb _].
          rewrite gen_op2 in * by auto.
          destruct Hat as [Hcode Hip].
          destruct (prim_inverse p) eqn:Einv.
          -- (* > >= : operands left to right *)
             simpl evlist in He.
             destruct (eval f a env st) as [va st1| |] eqn:Ea; try discriminate.
             destruct (eval f b env st1) as [vb st2| |] eqn:Eb; try discriminate.
             destruct (prim_sem p [va; vb]) as [[rv|]|] eqn:Eprim; try discriminate. inversion He; subst rv st'. clear He.
             set (ca := generate false svs (Some c) a) in *. set (cb := generate false svs (Some c) b) in *.
             assert (Hat1 : at_code s pre ca ((cb ++ [IPrim (prim_opcode p)]) ++ post)).
             { split; auto. rewrite Hcode. norm_code. }
             destruct (IH a env st va st1 Hpa Ea false s pre _ Hat1 Hok) as (-> & n1 & v1 & h1 & Hn1 & Hv1).
             fold ca in Hn1. set (s1 := final s v1 pre ca h1) in *.
             assert (Hat2 : at_code s1 (pre ++ ca) cb ([IPrim (prim_opcode p)] ++ post)).
             { split; simpl; [|rewrite app_length; reflexivity]. rewrite Hcode. norm_code. }
             assert (Hok1 : env_ok c svs env st s1) by (eapply (env_ok_ext c svs env st s s1 [v1] h1); eauto).
             destruct (IH b env st vb st2 Hpb Eb false s1 _ _ Hat2 Hok1) as (-> & n2 & v2 & h2 & Hn2 & Hv2).
             fold cb in Hn2. set (s2 := final s1 v2 (pre ++ ca) cb h2) in *.
             simpl in Hv2. assert (Hv1' : vrel ((heap s ++ h1) ++ h2) v1 va) by auto using vrel_ext.
             pose proof (prim2_ok p _ _ _ _ _ _ (stk s) Ha2 Hpp Hv1' Hv2 Eprim) as (r' & hx & Hps & Hr).
             rewrite Einv in Hps.
             assert (Hat3 : at_code s2 (pre ++ ca ++ cb) [IPrim (prim_opcode p)] post).
             { split; simpl; [|solve_len]. rewrite Hcode. norm_code. }
             pose proof (step_prim s2 _ _ _ _ _ Hat3 Hps) as Hstep.
             split; auto. exists (n1 + (n2 + 1)), r', (h1 ++ h2 ++ hx). split.
             ++ eapply nsteps_app; [exact Hn1|]. eapply nsteps_app; [exact Hn2|]. rewrite (nsteps_one _ _ Hstep).
                f_equal. unfold final, upd; simpl. f_equal.
                ** solve_len.
                ** rewrite <- !app_assoc. reflexivity.
             ++ rewrite <- !app_assoc in Hr. exact Hr.
          -- (* operands right to left *)
             simpl evlist in He.
             destruct (eval f b env st) as [vb st1| |] eqn:Eb; try discriminate.
             destruct (eval f a env st1) as [va st2| |] eqn:Ea; try discriminate.
             simpl rev in He.
             destruct (prim_sem p [va; vb]) as [[rv|]|] eqn:Eprim; try discriminate. inversion He; subst rv st'. clear He.
             set (ca := generate false svs (Some c) a) in *. set (cb := generate false svs (Some c) b) in *.
             assert (Hat1 : at_code s pre cb ((ca ++ [IPrim p]) ++ post)).
             { split; auto. rewrite Hcode. norm_code. }
             destruct (IH b env st vb st1 Hpb Eb false s pre _ Hat1 Hok) as (-> & n1 & v1 & h1 & Hn1 & Hv1).
             fold cb in Hn1. set (s1 := final s v1 pre cb h1) in *.
             assert (Hat2 : at_code s1 (pre ++ cb) ca ([IPrim p] ++ post)).
             { split; simpl; [|rewrite app_length; reflexivity]. rewrite Hcode. norm_code. }
             assert (Hok1 : env_ok c svs env st s1) by (eapply (env_ok_ext c svs env st s s1 [v1] h1); eauto).
             destruct (IH a env st va st2 Hpa Ea false s1 _ _ Hat2 Hok1) as (-> & n2 & v2 & h2 & Hn2 & Hv2).
             fold ca in Hn2. set (s2 := final s1 v2 (pre ++ cb) ca h2) in *.
             simpl in Hv2. assert (Hv1' : vrel ((heap s ++ h1) ++ h2) v1 vb) by auto using vrel_ext.
             pose proof (prim2_ok p _ _ _ _ _ _ (stk s) Ha2 Hpp Hv2 Hv1' Eprim) as (r' & hx & Hps & Hr).
             rewrite Einv in Hps.
             assert (Hat3 : at_code s2 (pre ++ cb ++ ca) [IPrim p] post).
             { split; simpl; [|solve_len]. rewrite Hcode. norm_code. }
             pose proof (step_prim s2 _ _ _ _ _ Hat3 Hps) as Hstep.
             split; auto. exists (n1 + (n2 + 1)), r', (h1 ++ h2 ++ hx). split.
             ++ eapply nsteps_app; [exact Hn1|]. eapply nsteps_app; [exact Hn2|]. rewrite (nsteps_one _ _ Hstep).
                f_equal. unfold final, upd; simpl. f_equal.
                ** solve_len.
                ** rewrite <- !app_assoc. reflexivity.
             ++ rewrite <- !app_assoc in Hr. exact Hr.
        * destruct p; discriminate Hlen.
  Qed.
End Sim.

(** the theorem in closed form *)
Theorem compile_correct_pure_fragment : forall c svs fuel e env st v st' tl s pre post,
  pure (l_id c) (svs (l_id c)) e = true ->
  eval fuel e env st = SVal v st' ->
  code_of (self s) = pre ++ generate tl svs (Some c) e ++ post -> ip s = length pre ->
  env_ok c svs env st s ->
  st' = st /\
  exists n v' hx,
    nsteps n s = Some (mkst (v' :: stk s) (fp s) (self s) (length pre + length (generate tl svs (Some c) e))
                            (heap s ++ hx) (globals s))
    /\ vrel (heap s ++ hx) v' v.
Proof.
  intros c svs fuel e env st v st' tl s pre post Hp He Hc Hi Hok.
  exact (sim_all c svs fuel e env st v st' Hp He tl s pre post (conj Hc Hi) Hok).
Qed.

(** and in terms of [run]: the VM continues from the state after the code *)
Corollary compile_correct_pure_run : forall c svs fuel e env st v st' tl s pre post,
  pure (l_id c) (svs (l_id c)) e = true ->
  eval fuel e env st = SVal v st' ->
  code_of (self s) = pre ++ generate tl svs (Some c) e ++ post -> ip s = length pre ->
  env_ok c svs env st s ->
  exists n v' hx, vrel (heap s ++ hx) v' v /\
    forall k, run (n + k) s =
              run k (mkst (v' :: stk s) (fp s) (self s) (length pre + length (generate tl svs (Some c) e))
                          (heap s ++ hx) (globals s)).
Proof.
  intros c svs fuel e env st v st' tl s pre post Hp He Hc Hi Hok.
  destruct (compile_correct_pure_fragment c svs fuel e env st v st' tl s pre post Hp He Hc Hi Hok)
    as (_ & n & v' & hx & Hn & Hv).
  exists n, v', hx. split; auto. intro k. apply run_nsteps; exact Hn.
Qed.

(* ------------------------------------------------------------------ the hypotheses are satisfiable *)

(** (lambda (x) (if (< x 1) (cons x '()) (begin 1 (+ x (car (cons 2 g)))))) in a frame made by make_call for the
    argument 5, with the global g = 7: the SPEC gives 7, the theorem's hypotheses hold, and the VM indeed reaches
    the state the theorem promises *)
Module Example.
  Definition c0 : lctx := mk_lctx 0 [0] None [] [].
  Definition svs0 : nat -> list name := fun _ => [].
  Definition e0 : ast :=
    Cnd (OpApp PLt [Ref 0 (Local 0); Lit (LInt 1)])
        (OpApp PCons [Ref 0 (Local 0); Lit LNil])
        (Seq [Lit (LInt 1); OpApp PAdd [Ref 0 (Local 0); OpApp PCar [OpApp PCons [Lit (LInt 2); Ref 9 Global]]]]).
  Definition env0 : senv := [((0, Local 0), 0)].
  Definition st0 : sstore := mkstore [SLit (LInt 5)] [(9, SLit (LInt 7))].
  Definition code0 : code := generate true svs0 (Some c0) e0 ++ [IRet].
  Definition s0 : state :=
    mkst [vint 0; VLit LVoid; vint 0; vint 1; VLit (LInt 5)] 1 (VProc 0 1 code0 (VLit LVoid)) 0 [] [(9, VLit (LInt 7))].

  Example pure_e0 : pure (l_id c0) (svs0 (l_id c0)) e0 = true.
  Proof. reflexivity. Qed.

  Example eval_e0 : eval 10 e0 env0 st0 = SVal (SLit (LInt 7)) st0.
  Proof. vm_compute. reflexivity. Qed.

  Example env_ok_0 : env_ok c0 svs0 env0 st0 s0.
  Proof.
    split.
    - intros x a w _ He Hc. simpl in He. unfold vref_eqb in He. simpl in He.
      destruct (Nat.eqb x 0) eqn:E; simpl in He; try discriminate. apply Nat.eqb_eq in E. subst x.
      inversion He; subst a. simpl in Hc. inversion Hc; subst w.
      exists 0, (VLit (LInt 5)). repeat split.
    - intros g w Hg. simpl in Hg. destruct (Nat.eqb g 9) eqn:E; try discriminate. apply Nat.eqb_eq in E. subst g.
      inversion Hg; subst w. exists (VLit (LInt 7)). split; reflexivity.
  Qed.

  Example run_e0 : exists n hx,
    nsteps n s0 = Some (mkst (VLit (LInt 7) :: stk s0) 1 (self s0) (length (generate true svs0 (Some c0) e0)) hx (globals s0)).
  Proof. exists 10. eexists. vm_compute. reflexivity. Qed.
End Example.
