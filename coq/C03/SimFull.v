(** C03 — GROUNDWORK (no main theorem yet, not used by Properties_C03.v) for compile_correct with ASSIGNMENTS, BOXES,
    INTERNAL DEFINES, CLOSURES AND CALLS TOGETHER.  What is here is proved (nothing is assumed): the fragment [fragA], the
    world-indexed value relation [vrelW] (nested inductive), world extension [wext] with reflexivity / transitivity,
    monotonicity of [vrelW] / [varrel] / [fvrelW] / [vec_ok] along [wext], and the stack-slot lemmas (sget / sset /
    below) that the entry code (PUSH undef per local, then LOCAL-REF; PUSH name; CONS; LOCAL-SET per sv variable) needs.

    PLAN for the next step (see notes/C03.md "round 2", hand-over):
      WINV W      := wbounds W /\ (forall loc bx, wb W loc = Some bx -> exists nm v w, heap[bx] = HPair nm v /\
                     cells[loc] = w /\ vrelW W v w) /\ wb injective
      env_okA     := per frame variable x: SPEC location loc, slot k, slot value v, [varrel W (x, Local id) loc v];
                     the closure vector represents fv ([fvrelW]); globals related
      simA_at f e := eval f e env st = SVal v st' -> code at (pre, post) in s, W.heap = heap s, W.cells = cells st,
                     WINV W, env_okA ->  exists W' v', wext W W' /\ W'.cells = cells st' /\ WINV W' /\ vrelW W' v' v /\
                     (falls through with v' pushed and heap W'.heap  \/  returned after a TAIL-CALL)
      new lemmas  : box_loop (the boxing loop over sv, using param_index_injective_in_frame for distinct slots),
                    enter_frame (make_call_fixed; PUSH undef; box_loop => fresh boxes, wb extended, env_okA for the callee),
                    set_box (SET-CDR on a box = cell_set on its location: wext, WINV re-established by injectivity),
                    the SimClos lemmas (fetch_var, fill_loop, call_closedF) re-done over worlds.

    Fragment [fragA] (fixed-arity lambdas): literals, global references, references to variables of the current
    frame (parameters and internal defines) and to free variables listed in the current lambda's fv, set! of such
    variables when they are in their owner's sv list (boxed), if, begin, the inlined opcodes except eq?, lambda
    expressions with parameters, internal defines (locals), sv = the global assignment table, any fetchable fv list,
    applications (CALL / TAIL-CALL).  This is the language of named let, letrec, internal defines, counters ...
    Not included: rest parameters (SimRest.v / SimClos.v), set! of globals (SimBoxes.v), eq? on pairs, errors. *)
From Coq Require Import ZArith List Bool Arith Lia.
From ChibiV Require Import C03.Defs C03.Model C03.Spec C03.Proofs C03.Simulation C03.SimCalls C03.SimBoxes C03.SimRest C03.SimClos.
Import ListNotations.
Local Open Scope nat_scope.

Section Full.

  (** the assigned variables (sv) of every lambda, by id: one table for the whole program *)
  Variable SV : nat -> list name.

  Definition agrees (svs : nat -> list name) : Prop := forall m, svs m = SV m.

  Definition boxedv (x : name) (m : nat) : bool := memn x (SV m).

  Record world := mkW { wh : list hobj; wc : list sval; wb : nat -> option nat }.

  Definition is_box (W : world) (a : nat) : Prop := exists loc, wb W loc = Some a.

  (* ---------------------------------------------------------------- the fragment *)

  (** current lambda: id, parameters, internal defines, free-variable list *)
  Definition fctxA := option (nat * list name * list name * list vref).

  Definition lctxA (cur : fctxA) : option lctx :=
    match cur with Some (id, ps, ls, fv) => Some (mk_lctx id ps None ls fv) | None => None end.

  Definition resolvableA (cur : fctxA) (x : name) (m : nat) : bool :=
    match cur with
    | Some (id, ps, ls, fv) => if Nat.eqb m id then memn x (ps ++ ls) else in_fv (x, Local m) fv
    | None => false
    end.

  Definition fv_okA (cur : fctxA) (id : nat) (fv : list vref) : bool :=
    forallb (fun p => match snd p with
                      | Local m => negb (Nat.eqb m id) && resolvableA cur (fst p) m
                      | Global => false
                      end) fv.

  Fixpoint names_eqb (a b : list name) : bool :=
    match a, b with
    | [], [] => true
    | x :: r, y :: t => Nat.eqb x y && names_eqb r t
    | _, _ => false
    end.

  Lemma names_eqb_eq : forall a b, names_eqb a b = true -> a = b.
  Proof.
    induction a as [|x r IH]; intros [|y t] H; simpl in H; try discriminate; auto.
    apply andb_true_iff in H. destruct H as [H1 H2]. apply Nat.eqb_eq in H1. f_equal; auto.
  Qed.

  Fixpoint fragA (cur : fctxA) (e : ast) {struct e} : bool :=
    match e with
    | Lit _ => true
    | Ref x Global => true
    | Ref x (Local m) => resolvableA cur x m
    | SetV x (Local m) v => resolvableA cur x m && boxedv x m && fragA cur v
    | SetV x Global v => false
    | Cnd t p f => fragA cur t && fragA cur p && fragA cur f
    | Seq es => match es with [] => false | _ :: _ => forallb (fragA cur) es end
    | OpApp p args => pure_prim p && Nat.eqb (length args) (prim_arity p) && forallb (fragA cur) args
    | Lam id ps None ls sv fv b =>
        nodupb (ps ++ ls) && names_eqb sv (SV id) && forallb (fun x => memn x (ps ++ ls)) sv
        && fv_okA cur id fv && fragA (Some (id, ps, ls, fv)) b
    | Lam _ _ (Some _) _ _ _ _ => false
    | App f args => fragA cur f && forallb (fragA cur) args
    end.

  (** entry code of a lambda (vm.c generate_lambda): locals, boxing of sv, body, RET *)
  Definition entryA (svs : nat -> list name) (id : nat) (ps ls : list name) (fv : list vref) (b : ast) : code :=
    repeat (IPush LUndef) (length ls) ++ box_code ps None ls (SV id)
    ++ generate true svs (Some (mk_lctx id ps None ls fv)) b ++ [IRet].

  (* ---------------------------------------------------------------- values in a world *)

  Definition vec_ok (W : world) (fv : list vref) (vars : value) (els : list value) : Prop :=
    match fv with
    | [] => vars = VLit LVoid /\ els = []
    | _ :: _ => exists a, vars = VVec a /\ nth_error (wh W) a = Some (HVec els) /\ ~ is_box W a
    end.

  Inductive vrelW (W : world) : value -> sval -> Prop :=
  | VW_lit : forall l, vrelW W (VLit l) (SLit l)
  | VW_pair : forall a vx vy x y,
      nth_error (wh W) a = Some (HPair vx vy) -> ~ is_box W a -> vrelW W vx x -> vrelW W vy y ->
      vrelW W (VPair a) (SPair x y)
  | VW_clo : forall id ps ls b cenv fv svs' vars els,
      nodupb (ps ++ ls) = true ->
      forallb (fun x => memn x (ps ++ ls)) (SV id) = true ->
      fragA (Some (id, ps, ls, fv)) b = true ->
      agrees svs' ->
      (forall p, In p fv -> exists m, snd p = Local m /\ m <> id) ->
      vec_ok W fv vars els ->
      Forall2 (fun p v => exists loc m, env_lookup p cenv = Some loc /\ snd p = Local m /\
                 ((boxedv (fst p) m = true /\ exists bx, v = VPair bx /\ wb W loc = Some bx)
                  \/ (boxedv (fst p) m = false /\ wb W loc = None /\
                      exists w, nth_error (wc W) loc = Some w /\ vrelW W v w))) fv els ->
      vrelW W (VProc 0 (length ps) (entryA svs' id ps ls fv b) vars) (SClo id ps None ls b cenv).

  (** how a variable p of SPEC location loc is represented by the VM value v (slot content / vector element) *)
  Definition varrel (W : world) (p : vref) (loc : nat) (v : value) : Prop :=
    exists m, snd p = Local m /\
      ((boxedv (fst p) m = true /\ exists bx, v = VPair bx /\ wb W loc = Some bx)
       \/ (boxedv (fst p) m = false /\ wb W loc = None /\ exists w, nth_error (wc W) loc = Some w /\ vrelW W v w)).

  Definition fvrelW (W : world) (env : senv) (fv : list vref) (els : list value) : Prop :=
    Forall2 (fun p v => exists loc, env_lookup p env = Some loc /\ varrel W p loc v) fv els.

  Lemma fvrelW_of_clo : forall W cenv fv els,
    Forall2 (fun p v => exists loc m, env_lookup p cenv = Some loc /\ snd p = Local m /\
                 ((boxedv (fst p) m = true /\ exists bx, v = VPair bx /\ wb W loc = Some bx)
                  \/ (boxedv (fst p) m = false /\ wb W loc = None /\
                      exists w, nth_error (wc W) loc = Some w /\ vrelW W v w))) fv els <-> fvrelW W cenv fv els.
  Proof.
    intros W cenv fv els. unfold fvrelW, varrel. split; intro H; induction H as [|p v fvr elr Hp Hr IH]; constructor; auto.
    - destruct Hp as (loc & m & Hl & Hs & Hd). exists loc. split; auto. exists m. auto.
    - destruct Hp as (loc & Hl & m & Hs & Hd). exists loc, m. auto.
  Qed.

  (** world extension: box contents and boxed locations may change, everything else is kept, new cells are fresh *)
  Definition wext (W W' : world) : Prop :=
    length (wh W) <= length (wh W') /\
    (forall a, a < length (wh W) -> ~ is_box W a -> nth_error (wh W') a = nth_error (wh W) a) /\
    length (wc W) <= length (wc W') /\
    (forall loc, loc < length (wc W) -> wb W loc = None -> nth_error (wc W') loc = nth_error (wc W) loc) /\
    (forall loc, loc < length (wc W) -> wb W' loc = wb W loc) /\
    (forall loc bx, wb W' loc = Some bx -> length (wc W) <= loc -> length (wh W) <= bx).

  (** bounds every world we build satisfies: boxes and boxed locations exist *)
  Definition wbounds (W : world) : Prop :=
    forall loc bx, wb W loc = Some bx -> loc < length (wc W) /\ bx < length (wh W).

  Lemma wext_refl : forall W, wbounds W -> wext W W.
  Proof.
    intros W HB. repeat split; auto. intros loc bx H Hle. destruct (HB loc bx H). lia.
  Qed.

  Lemma not_box_mono : forall W W' a, wext W W' -> a < length (wh W) -> ~ is_box W a -> ~ is_box W' a.
  Proof.
    intros W W' a (_ & _ & _ & _ & H5 & H6) Ha Hn [loc Hl].
    destruct (Nat.lt_ge_cases loc (length (wc W))) as [Hlt|Hge].
    - rewrite H5 in Hl by exact Hlt. apply Hn. exists loc; exact Hl.
    - specialize (H6 loc a Hl Hge). lia.
  Qed.

  Lemma wext_trans : forall A B C, wext A B -> wext B C -> wext A C.
  Proof.
    intros A B C HAB HBC. pose proof HAB as (L1 & H2 & L3 & H4 & H5 & H6). pose proof HBC as (L1' & H2' & L3' & H4' & H5' & H6').
    repeat split; try lia.
    - intros a Ha Hn. rewrite H2' by (try lia; eapply not_box_mono; eauto). apply H2; auto.
    - intros loc Hl Hb. rewrite H4' by (try lia; rewrite H5; auto). apply H4; auto.
    - intros loc Hl. rewrite H5' by lia. apply H5; auto.
    - intros loc bx Hb Hle. destruct (Nat.lt_ge_cases loc (length (wc B))) as [Hlt|Hge].
      + rewrite H5' in Hb by exact Hlt. apply (H6 loc bx Hb Hle).
      + specialize (H6' loc bx Hb Hge). lia.
  Qed.

  Lemma vec_ok_mono : forall W W' fv vars els, wext W W' -> vec_ok W fv vars els -> vec_ok W' fv vars els.
  Proof.
    intros W W' fv vars els HE H. destruct fv; simpl in *; auto. destruct H as (a & -> & Hn & Hb).
    assert (Ha : a < length (wh W)) by (apply nth_error_Some; congruence).
    exists a. repeat split; [|eapply not_box_mono; eauto].
    destruct HE as (_ & H2 & _). rewrite H2; auto.
  Qed.

  Lemma vrelW_mono : forall W W', wbounds W -> wext W W' -> forall v w, vrelW W v w -> vrelW W' v w.
  Proof.
    intros W W' HB HE. pose proof HE as (L1 & H2 & L3 & H4 & H5 & H6). fix IH 3. intros v w H.
    destruct H as [l | a vx vy x y Hn Hnb H1 H2' | id ps ls b cenv fv svs' vars els Hnd Hsvin Hfr Hag Hown Hvec HF].
    - constructor.
    - assert (Ha : a < length (wh W)) by (apply nth_error_Some; congruence).
      econstructor; eauto. + rewrite H2; auto. + eapply not_box_mono; eauto.
    - assert (HF' : Forall2 (fun p v => exists loc m, env_lookup p cenv = Some loc /\ snd p = Local m /\
                 ((boxedv (fst p) m = true /\ exists bx, v = VPair bx /\ wb W' loc = Some bx)
                  \/ (boxedv (fst p) m = false /\ wb W' loc = None /\
                      exists w, nth_error (wc W') loc = Some w /\ vrelW W' v w))) fv els).
      { clear - IH HF HB H4 H5. revert fv els HF. fix IH2 3. intros fv els HF. destruct HF as [|p v0 fvr elr Hp Hr]; constructor.
        - destruct Hp as (loc & m & Hl & Hs & [(Hbx & bx & -> & Hb) | (Hbx & Hb & w0 & Hc & Hv)]); exists loc, m; repeat split; auto.
          + left. split; auto. exists bx. split; auto. destruct (HB loc bx Hb). rewrite H5; auto.
          + right. assert (Hlt : loc < length (wc W)) by (apply nth_error_Some; congruence).
            split; auto. split; [rewrite H5; auto|]. exists w0. split; [rewrite H4; auto|]. apply IH. exact Hv.
        - apply IH2. exact Hr. }
      econstructor; eauto using vec_ok_mono.
  Qed.

  Lemma varrel_mono : forall W W' p loc v, wbounds W -> wext W W' -> varrel W p loc v -> varrel W' p loc v.
  Proof.
    intros W W' p loc v HB HE H. pose proof HE as (L1 & H2 & L3 & H4 & H5 & H6). unfold varrel in *.
    destruct H as (m & Hs & [(Hbx & bx & -> & Hb) | (Hbx & Hb & w0 & Hc & Hv)]); exists m; split; auto.
    - left. split; auto. exists bx. split; auto. destruct (HB loc bx Hb). rewrite H5; auto.
    - right. assert (Hlt : loc < length (wc W)) by (apply nth_error_Some; congruence).
      split; auto. split; [rewrite H5; auto|]. exists w0. split; [rewrite H4; auto|]. eapply vrelW_mono; eauto.
  Qed.

  Lemma fvrelW_mono : forall W W' env fv els, wbounds W -> wext W W' -> fvrelW W env fv els -> fvrelW W' env fv els.
  Proof.
    intros W W' env fv els HB HE H. unfold fvrelW in *. induction H as [|p v fvr elr Hp Hr IH]; constructor; auto.
    destruct Hp as (loc & Hl & Hv). exists loc. split; auto. eapply varrel_mono; eauto.
  Qed.

  Lemma Forall2_vrelW_mono : forall W W' vs ws, wbounds W -> wext W W' ->
    Forall2 (vrelW W) vs ws -> Forall2 (vrelW W') vs ws.
  Proof. intros W W' vs ws HB HE H. induction H; constructor; eauto using vrelW_mono. Qed.


  (* ---------------------------------------------------------------- stack slots: sget / sset *)

  Lemma sset_length : forall st k v st', sset st k v = Some st' -> length st' = length st.
  Proof.
    unfold sset; intros st k v st' H. destruct (k <? length st); try discriminate. inversion H. apply list_set_length.
  Qed.

  Lemma sget_sset_same : forall st k v st', sset st k v = Some st' -> sget st' k = Some v.
  Proof.
    unfold sset, sget; intros st k v st' H. destruct (k <? length st) eqn:E; try discriminate. inversion H; subst.
    rewrite list_set_length, E. apply Nat.ltb_lt in E. apply list_set_same. lia.
  Qed.

  Lemma sget_sset_other : forall st k k' v st', sset st k v = Some st' -> k' <> k -> sget st' k' = sget st k'.
  Proof.
    unfold sset, sget; intros st k k' v st' H Hne. destruct (k <? length st) eqn:E; try discriminate. inversion H; subst.
    rewrite list_set_length. destruct (k' <? length st) eqn:E'; auto.
    apply Nat.ltb_lt in E. apply Nat.ltb_lt in E'. apply list_set_other. lia.
  Qed.

  Lemma sset_some : forall st k v, k < length st -> exists st', sset st k v = Some st'.
  Proof. intros st k v H. unfold sset. apply Nat.ltb_lt in H. rewrite H. eauto. Qed.

  Lemma skipn_list_set : forall {A} (l : list A) n i v, i < n -> skipn n (list_set l i v) = skipn n l.
  Proof.
    intros A l. induction l as [|x r IH]; intros [|n] [|i] v H; simpl; auto; try lia. apply IH. lia.
  Qed.

  Lemma below_sset : forall st k v st' m, sset st k v = Some st' -> m <= k -> below m st' = below m st.
  Proof.
    unfold sset, below; intros st k v st' m H Hle. destruct (k <? length st) eqn:E; try discriminate. inversion H; subst.
    apply Nat.ltb_lt in E. rewrite list_set_length. apply skipn_list_set. lia.
  Qed.

  Lemma step_local_set : forall s pre k post v r a r', at_code s pre [ILocalSet k] post ->
    stk s = v :: r -> slot (fp s) k = Some a -> sset r a v = Some r' ->
    step s = Next (upd s r' (S (ip s)) (heap s)).
  Proof. intros s pre k post v r a r' H Hs Hsl Hss. unfold step. rewrite (fetch _ _ _ _ H), Hs, Hsl, Hss. reflexivity. Qed.

  Lemma step_cons : forall s pre post a d r, at_code s pre [ICons] post -> stk s = a :: d :: r ->
    step s = Next (upd s (VPair (length (heap s)) :: r) (S (ip s)) (heap s ++ [HPair a d])).
  Proof. intros s pre post a d r H Hs. unfold step. rewrite (fetch _ _ _ _ H), Hs. reflexivity. Qed.

End Full.
