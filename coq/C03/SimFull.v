(** C03 — compile_correct with ASSIGNMENTS (LOCALS AND GLOBALS), BOXES, INTERNAL DEFINES, CLOSURES, CALLS AND REST
    PARAMETERS TOGETHER.

    Fragment [fragA]: literals, global references, references to variables of the current frame (parameters, the rest
    parameter, internal defines) and to free variables listed in the current lambda's fv, set! of such variables (they
    are in their owner's sv list, i.e. boxed), set! / define of GLOBALS anywhere ([SetV x Global e]: PUSH the cell,
    SET-CDR = [assoc_set] on the VM globals, [glob_set] in the SPEC), if, begin (incl. generate_drop_prev's rewind after a non-final set!), the
    inlined opcodes except eq?, lambda expressions with parameters, an optional REST PARAMETER (it may be assigned, hence
    boxed by the entry code like any parameter, and captured by inner closures), internal defines (locals), sv = the
    global assignment table SV, any fetchable fv list, applications (CALL / TAIL-CALL) through all three argument
    protocols of make_call (vm.c:1305-1356): exact arity; rest list consed from the surplus arguments ('() inserted when
    there are none); UNUSED_REST (flag set by [lam_flags] when [rest_unused true id r body]): the surplus arguments stay
    on the stack, the frame header records the real argument count and RET / TAIL-CALL pop them.  This is the language
    of named let, letrec, internal defines, do loops, counters, variadic procedures, writer procedures for globals.
    Not included here: eq? on pairs, error outcomes (SimErr.v).

    GLOBALS are looked up by name at run time on both sides (no closure captures one, the world holds none): the
    relation [globrel W sg gl] (every SPEC global has a VM global representing it) is a separate hypothesis of the
    simulation and every result re-establishes it for the final VM globals gl' ([resA], [fallH] / [retH] carry gl' as
    they carry the final heap); [globrel_mono] along [wext], [globrel_set] for an assignment.

    A rest parameter flagged UNUSED_REST has NO slot in the VM frame while the SPEC binds it to a location.  The current
    lambda's context therefore carries the LIVE rest parameter [live_of id r body] ([] when flagged): [resolvableA],
    [env_okA] and the sv condition speak about the variables that have a slot (ps ++ live ++ ls), the SPEC frame is
    [frame_vars ps r ls].  By [Proofs.rest_unused_sound] a flagged rest parameter is never mentioned in the body
    ([dead_rest_not_mentioned]), so the analyser's output never fails [fragA] for that reason.

    Boxes are shared between frames and closure vectors and are mutated, SPEC locations are assigned: the simulation
    relation is indexed by a WORLD (heap, SPEC cells, partial injection location -> box address):
      vrelW W      values: literals, pairs (cells that are not boxes), closures (per free variable: a boxed one is
                   related by the link location <-> box only, an unboxed one by value) -- nested inductive
      wext W W'    only box contents / boxed locations change, new cells and new boxes are fresh; refl, trans,
                   every relation is monotone along it
      WINV W       every box holds a value representing the content of its location; wb is injective; bounds
      env_okA      frame slots (varrel), the closure vector (fvrelW)
    Entry code of a procedure (PUSH undef per local; LOCAL-REF, PUSH name, CONS, LOCAL-SET per sv variable): [box_loop]
    (distinct slots by param_index_injective), world [wenter] ([wenter_ext], [wenter_INV]); assignment = [wset];
    allocation of pairs / vectors = [walloc]; the rest list consed by make_call = [build_list_relW] (walloc steps);
    the call itself = [call_closedA] (SimRest.make_call_protocol).  Main theorem [simA_all] by strong induction on the
    SPEC's fuel. *)
From Coq Require Import ZArith List Bool Arith Lia.
From ChibiV Require Import C03.Defs C03.Model C03.Spec C03.Proofs C03.Simulation C03.SimCalls C03.SimBoxes C03.SimRest C03.SimClos.
Import ListNotations.
Local Open Scope nat_scope.

Section Full.

  (** the assigned variables (sv) of every lambda, by id: one table for the whole program *)
  Variable SV : nat -> list name.

  Definition agrees (svs : nat -> list name) : Prop := forall m, svs m = SV m.

  Definition boxedv (x : name) (m : nat) : bool := memn x (SV m).

  Record world := mkW { wh : list hobj; wc : list sval; wb : nat -> option nat }.

  Definition is_box (W : world) (a : nat) : Prop := exists loc, wb W loc = Some a.

  (* ---------------------------------------------------------------- the fragment *)

  (** current lambda: id, parameters, rest parameter, LIVE rest parameter ([] when there is none or when the procedure
      is flagged UNUSED_REST: the VM then has no slot for it), internal defines, free-variable list *)
  Definition fctxA := option (nat * list name * option name * list name * list name * list vref).

  Definition lctxA (cur : fctxA) : option lctx :=
    match cur with Some (id, ps, r, lr, ls, fv) => Some (mk_lctx id ps r ls fv) | None => None end.

  (** the rest parameter when it has a slot (vm.c:718-720, make_call): not flagged UNUSED_REST *)
  Definition live_of (id : nat) (r : option name) (b : ast) : list name :=
    if rest_unused_p true id r (SV id) b then [] else rest_list r.

  Definition resolvableA (cur : fctxA) (x : name) (m : nat) : bool :=
    match cur with
    | Some (id, ps, r, lr, ls, fv) => if Nat.eqb m id then memn x (ps ++ lr ++ ls) else in_fv (x, Local m) fv
    | None => false
    end.

  Definition fv_okA (cur : fctxA) (id : nat) (fv : list vref) : bool :=
    forallb (fun p => match snd p with
                      | Local m => negb (Nat.eqb m id) && resolvableA cur (fst p) m
                      | Global => false
                      end) fv.

  Fixpoint names_eqb (a b : list name) : bool :=
    match a, b with
    | [], [] => true
    | x :: r, y :: t => Nat.eqb x y && names_eqb r t
    | _, _ => false
    end.

  Lemma names_eqb_eq : forall a b, names_eqb a b = true -> a = b.
  Proof.
    induction a as [|x r IH]; intros [|y t] H; simpl in H; try discriminate; auto.
    apply andb_true_iff in H. destruct H as [H1 H2]. apply Nat.eqb_eq in H1. f_equal; auto.
  Qed.

  (** A variable without a slot (the rest parameter of a procedure flagged UNUSED_REST) is not resolvable; by
      [Proofs.rest_unused_sound] the flag is only set when the body never mentions it, so this excludes nothing the
      analyser produces. *)
  Fixpoint fragA (cur : fctxA) (e : ast) {struct e} : bool :=
    match e with
    | Lit _ => true
    | Ref x Global => true
    | Ref x (Local m) => resolvableA cur x m
    | SetV x (Local m) v => resolvableA cur x m && boxedv x m && fragA cur v
    | SetV x Global v => fragA cur v
    | Cnd t p f => fragA cur t && fragA cur p && fragA cur f
    | Seq es => match es with [] => false | _ :: _ => forallb (fragA cur) es end
    | OpApp p args => pure_prim p && Nat.eqb (length args) (prim_arity p) && forallb (fragA cur) args
    | Lam id ps r ls sv fv b =>
        nodupb (frame_vars ps r ls) && names_eqb sv (SV id) && nodupb sv
        && forallb (fun x => memn x (ps ++ live_of id r b ++ ls)) sv
        && fv_okA cur id fv && fragA (Some (id, ps, r, live_of id r b, ls, fv)) b
    | App f args => fragA cur f && forallb (fragA cur) args
    end.

  (** entry code of a lambda (vm.c generate_lambda): locals, boxing of sv, body, RET *)
  Definition entryA (svs : nat -> list name) (id : nat) (ps : list name) (r : option name) (ls : list name)
             (fv : list vref) (b : ast) : code :=
    repeat (IPush LUndef) (length ls) ++ box_code ps r ls (SV id)
    ++ generate true svs (Some (mk_lctx id ps r ls fv)) b ++ [IRet].

  (* ---------------------------------------------------------------- values in a world *)

  Definition vec_ok (W : world) (fv : list vref) (vars : value) (els : list value) : Prop :=
    match fv with
    | [] => vars = VLit LVoid /\ els = []
    | _ :: _ => exists a, vars = VVec a /\ nth_error (wh W) a = Some (HVec els) /\ ~ is_box W a
    end.

  Inductive vrelW (W : world) : value -> sval -> Prop :=
  | VW_lit : forall l, vrelW W (VLit l) (SLit l)
  | VW_pair : forall a vx vy x y,
      nth_error (wh W) a = Some (HPair vx vy) -> ~ is_box W a -> vrelW W vx x -> vrelW W vy y ->
      vrelW W (VPair a) (SPair x y)
  | VW_clo : forall id ps r ls b cenv fv svs' vars els,
      nodupb (frame_vars ps r ls) = true ->
      nodupb (SV id) = true ->
      forallb (fun x => memn x (ps ++ live_of id r b ++ ls)) (SV id) = true ->
      fragA (Some (id, ps, r, live_of id r b, ls, fv)) b = true ->
      agrees svs' ->
      (forall p, In p fv -> exists m, snd p = Local m /\ m <> id) ->
      vec_ok W fv vars els ->
      Forall2 (fun p v => exists loc m, env_lookup p cenv = Some loc /\ snd p = Local m /\
                 ((boxedv (fst p) m = true /\ exists bx, v = VPair bx /\ wb W loc = Some bx)
                  \/ (boxedv (fst p) m = false /\ wb W loc = None /\
                      exists w, nth_error (wc W) loc = Some w /\ vrelW W v w))) fv els ->
      vrelW W (VProc (lam_flags_sv id r (SV id) b) (length ps) (entryA svs' id ps r ls fv b) vars) (SClo id ps r ls b cenv).

  (** how a variable p of SPEC location loc is represented by the VM value v (slot content / vector element) *)
  Definition varrel (W : world) (p : vref) (loc : nat) (v : value) : Prop :=
    exists m, snd p = Local m /\
      ((boxedv (fst p) m = true /\ exists bx, v = VPair bx /\ wb W loc = Some bx)
       \/ (boxedv (fst p) m = false /\ wb W loc = None /\ exists w, nth_error (wc W) loc = Some w /\ vrelW W v w)).

  Definition fvrelW (W : world) (env : senv) (fv : list vref) (els : list value) : Prop :=
    Forall2 (fun p v => exists loc, env_lookup p env = Some loc /\ varrel W p loc v) fv els.

  Lemma fvrelW_of_clo : forall W cenv fv els,
    Forall2 (fun p v => exists loc m, env_lookup p cenv = Some loc /\ snd p = Local m /\
                 ((boxedv (fst p) m = true /\ exists bx, v = VPair bx /\ wb W loc = Some bx)
                  \/ (boxedv (fst p) m = false /\ wb W loc = None /\
                      exists w, nth_error (wc W) loc = Some w /\ vrelW W v w))) fv els <-> fvrelW W cenv fv els.
  Proof.
    intros W cenv fv els. unfold fvrelW, varrel. split; intro H; induction H as [|p v fvr elr Hp Hr IH]; constructor; auto.
    - destruct Hp as (loc & m & Hl & Hs & Hd). exists loc. split; auto. exists m. auto.
    - destruct Hp as (loc & Hl & m & Hs & Hd). exists loc, m. auto.
  Qed.

  (** world extension: box contents and boxed locations may change, everything else is kept, new cells are fresh *)
  Definition wext (W W' : world) : Prop :=
    length (wh W) <= length (wh W') /\
    (forall a, a < length (wh W) -> ~ is_box W a -> nth_error (wh W') a = nth_error (wh W) a) /\
    length (wc W) <= length (wc W') /\
    (forall loc, loc < length (wc W) -> wb W loc = None -> nth_error (wc W') loc = nth_error (wc W) loc) /\
    (forall loc, loc < length (wc W) -> wb W' loc = wb W loc) /\
    (forall loc bx, wb W' loc = Some bx -> length (wc W) <= loc -> length (wh W) <= bx).

  (** bounds every world we build satisfies: boxes and boxed locations exist *)
  Definition wbounds (W : world) : Prop :=
    forall loc bx, wb W loc = Some bx -> loc < length (wc W) /\ bx < length (wh W).

  Lemma wext_refl : forall W, wbounds W -> wext W W.
  Proof.
    intros W HB. repeat split; auto. intros loc bx H Hle. destruct (HB loc bx H). lia.
  Qed.

  Lemma not_box_mono : forall W W' a, wext W W' -> a < length (wh W) -> ~ is_box W a -> ~ is_box W' a.
  Proof.
    intros W W' a (_ & _ & _ & _ & H5 & H6) Ha Hn [loc Hl].
    destruct (Nat.lt_ge_cases loc (length (wc W))) as [Hlt|Hge].
    - rewrite H5 in Hl by exact Hlt. apply Hn. exists loc; exact Hl.
    - specialize (H6 loc a Hl Hge). lia.
  Qed.

  Lemma wext_trans : forall A B C, wext A B -> wext B C -> wext A C.
  Proof.
    intros A B C HAB HBC. pose proof HAB as (L1 & H2 & L3 & H4 & H5 & H6). pose proof HBC as (L1' & H2' & L3' & H4' & H5' & H6').
    repeat split; try lia.
    - intros a Ha Hn. rewrite H2' by (try lia; eapply not_box_mono; eauto). apply H2; auto.
    - intros loc Hl Hb. rewrite H4' by (try lia; rewrite H5; auto). apply H4; auto.
    - intros loc Hl. rewrite H5' by lia. apply H5; auto.
    - intros loc bx Hb Hle. destruct (Nat.lt_ge_cases loc (length (wc B))) as [Hlt|Hge].
      + rewrite H5' in Hb by exact Hlt. apply (H6 loc bx Hb Hle).
      + specialize (H6' loc bx Hb Hge). lia.
  Qed.

  Lemma vec_ok_mono : forall W W' fv vars els, wext W W' -> vec_ok W fv vars els -> vec_ok W' fv vars els.
  Proof.
    intros W W' fv vars els HE H. destruct fv; simpl in *; auto. destruct H as (a & -> & Hn & Hb).
    assert (Ha : a < length (wh W)) by (apply nth_error_Some; congruence).
    exists a. repeat split; [|eapply not_box_mono; eauto].
    destruct HE as (_ & H2 & _). rewrite H2; auto.
  Qed.

  Lemma vrelW_mono : forall W W', wbounds W -> wext W W' -> forall v w, vrelW W v w -> vrelW W' v w.
  Proof.
    intros W W' HB HE. pose proof HE as (L1 & H2 & L3 & H4 & H5 & H6). fix IH 3. intros v w H.
    destruct H as [l | a vx vy x y Hn Hnb H1 H2' | id ps r ls b cenv fv svs' vars els Hnd Hndsv Hsvin Hfr Hag Hown Hvec HF].
    - constructor.
    - assert (Ha : a < length (wh W)) by (apply nth_error_Some; congruence).
      econstructor; eauto. + rewrite H2; auto. + eapply not_box_mono; eauto.
    - assert (HF' : Forall2 (fun p v => exists loc m, env_lookup p cenv = Some loc /\ snd p = Local m /\
                 ((boxedv (fst p) m = true /\ exists bx, v = VPair bx /\ wb W' loc = Some bx)
                  \/ (boxedv (fst p) m = false /\ wb W' loc = None /\
                      exists w, nth_error (wc W') loc = Some w /\ vrelW W' v w))) fv els).
      { clear - IH HF HB H4 H5. revert fv els HF. fix IH2 3. intros fv els HF. destruct HF as [|p v0 fvr elr Hp Hr]; constructor.
        - destruct Hp as (loc & m & Hl & Hs & [(Hbx & bx & -> & Hb) | (Hbx & Hb & w0 & Hc & Hv)]); exists loc, m; repeat split; auto.
          + left. split; auto. exists bx. split; auto. destruct (HB loc bx Hb). rewrite H5; auto.
          + right. assert (Hlt : loc < length (wc W)) by (apply nth_error_Some; congruence).
            split; auto. split; [rewrite H5; auto|]. exists w0. split; [rewrite H4; auto|]. apply IH. exact Hv.
        - apply IH2. exact Hr. }
      econstructor; eauto using vec_ok_mono.
  Qed.

  Lemma varrel_mono : forall W W' p loc v, wbounds W -> wext W W' -> varrel W p loc v -> varrel W' p loc v.
  Proof.
    intros W W' p loc v HB HE H. pose proof HE as (L1 & H2 & L3 & H4 & H5 & H6). unfold varrel in *.
    destruct H as (m & Hs & [(Hbx & bx & -> & Hb) | (Hbx & Hb & w0 & Hc & Hv)]); exists m; split; auto.
    - left. split; auto. exists bx. split; auto. destruct (HB loc bx Hb). rewrite H5; auto.
    - right. assert (Hlt : loc < length (wc W)) by (apply nth_error_Some; congruence).
      split; auto. split; [rewrite H5; auto|]. exists w0. split; [rewrite H4; auto|]. eapply vrelW_mono; eauto.
  Qed.

  Lemma fvrelW_mono : forall W W' env fv els, wbounds W -> wext W W' -> fvrelW W env fv els -> fvrelW W' env fv els.
  Proof.
    intros W W' env fv els HB HE H. unfold fvrelW in *. induction H as [|p v fvr elr Hp Hr IH]; constructor; auto.
    destruct Hp as (loc & Hl & Hv). exists loc. split; auto. eapply varrel_mono; eauto.
  Qed.

  Lemma Forall2_vrelW_mono : forall W W' vs ws, wbounds W -> wext W W' ->
    Forall2 (vrelW W) vs ws -> Forall2 (vrelW W') vs ws.
  Proof. intros W W' vs ws HB HE H. induction H; constructor; eauto using vrelW_mono. Qed.

  (** every SPEC global has a VM global representing it in world W (globals are looked up by name at run time on both
      sides: no closure captures one, the world holds none) *)
  Definition globrel (W : world) (sg : list (nat * sval)) (gl : list (nat * value)) : Prop :=
    forall g w, glob_lookup g sg = Some w -> exists v0, assoc_nat g gl = Some v0 /\ vrelW W v0 w.

  Lemma globrel_mono : forall W W' sg gl, wbounds W -> wext W W' -> globrel W sg gl -> globrel W' sg gl.
  Proof.
    intros W W' sg gl HB HE H g w Hg.
    destruct (H g w Hg) as (v0 & Ha & Hv). exists v0. split; [exact Ha|]. eapply vrelW_mono; eauto.
  Qed.

  Lemma glob_lookup_set : forall g x w l,
    glob_lookup g (glob_set x w l) = if Nat.eqb g x then Some w else glob_lookup g l.
  Proof.
    intros g x w l. induction l as [|[k u] t IH]; cbn [glob_set glob_lookup].
    - destruct (Nat.eqb g x); reflexivity.
    - destruct (Nat.eqb x k) eqn:E; cbn [glob_lookup].
      + apply Nat.eqb_eq in E. subst k. destruct (Nat.eqb g x); reflexivity.
      + rewrite IH. destruct (Nat.eqb g k) eqn:E2; [|reflexivity].
        apply Nat.eqb_eq in E2. subst k. rewrite Nat.eqb_sym, E. reflexivity.
  Qed.

  Lemma assoc_nat_set : forall {A} g x (w : A) l,
    assoc_nat g (assoc_set x w l) = if Nat.eqb g x then Some w else assoc_nat g l.
  Proof.
    intros A g x w l. induction l as [|[k u] t IH]; cbn [assoc_set assoc_nat].
    - destruct (Nat.eqb g x); reflexivity.
    - destruct (Nat.eqb x k) eqn:E; cbn [assoc_nat].
      + apply Nat.eqb_eq in E. subst k. destruct (Nat.eqb g x); reflexivity.
      + rewrite IH. destruct (Nat.eqb g k) eqn:E2; [|reflexivity].
        apply Nat.eqb_eq in E2. subst k. rewrite Nat.eqb_sym, E. reflexivity.
  Qed.

  Lemma globrel_set : forall W sg gl x v' w, globrel W sg gl -> vrelW W v' w ->
    globrel W (glob_set x w sg) (assoc_set x v' gl).
  Proof.
    intros W sg gl x v' w H Hv g w0 Hg. rewrite glob_lookup_set in Hg. rewrite assoc_nat_set.
    destruct (Nat.eqb g x).
    - inversion Hg; subst w0. exists v'. split; [reflexivity|exact Hv].
    - apply H. exact Hg.
  Qed.

  Lemma step_push_cell : forall s pre g post, at_code s pre [IPushCell g] post ->
    step s = Next (upd s (VCell g :: stk s) (S (ip s)) (heap s)).
  Proof. intros s pre g post H. unfold step. rewrite (fetch _ _ _ _ H). reflexivity. Qed.

  Lemma step_set_cdr_cell : forall s pre post g v r, at_code s pre [ISetCdr] post -> stk s = VCell g :: v :: r ->
    step s = Next (mkst r (fp s) (self s) (S (ip s)) (heap s) (assoc_set g v (globals s))).
  Proof. intros s pre post g v r H Hs. unfold step. rewrite (fetch _ _ _ _ H), Hs. reflexivity. Qed.

  (** like [upd], with new globals *)
  Definition updg (s : state) (st : list value) (ip' : nat) (h : list hobj) (g : list (nat * value)) : state :=
    mkst st (fp s) (self s) ip' h g.


  (* ---------------------------------------------------------------- stack slots: sget / sset *)

  Lemma sset_length : forall st k v st', sset st k v = Some st' -> length st' = length st.
  Proof.
    unfold sset; intros st k v st' H. destruct (k <? length st); try discriminate. inversion H. apply list_set_length.
  Qed.

  Lemma sget_sset_same : forall st k v st', sset st k v = Some st' -> sget st' k = Some v.
  Proof.
    unfold sset, sget; intros st k v st' H. destruct (k <? length st) eqn:E; try discriminate. inversion H; subst.
    rewrite list_set_length, E. apply Nat.ltb_lt in E. apply list_set_same. lia.
  Qed.

  Lemma sget_sset_other : forall st k k' v st', sset st k v = Some st' -> k' <> k -> sget st' k' = sget st k'.
  Proof.
    unfold sset, sget; intros st k k' v st' H Hne. destruct (k <? length st) eqn:E; try discriminate. inversion H; subst.
    rewrite list_set_length. destruct (k' <? length st) eqn:E'; auto.
    apply Nat.ltb_lt in E. apply Nat.ltb_lt in E'. apply list_set_other. lia.
  Qed.

  Lemma sset_some : forall st k v, k < length st -> exists st', sset st k v = Some st'.
  Proof. intros st k v H. unfold sset. apply Nat.ltb_lt in H. rewrite H. eauto. Qed.

  Lemma skipn_list_set : forall {A} (l : list A) n i v, i < n -> skipn n (list_set l i v) = skipn n l.
  Proof.
    intros A l. induction l as [|x r IH]; intros [|n] [|i] v H; simpl; auto; try lia. apply IH. lia.
  Qed.

  Lemma below_sset : forall st k v st' m, sset st k v = Some st' -> m <= k -> below m st' = below m st.
  Proof.
    unfold sset, below; intros st k v st' m H Hle. destruct (k <? length st) eqn:E; try discriminate. inversion H; subst.
    apply Nat.ltb_lt in E. rewrite list_set_length. apply skipn_list_set. lia.
  Qed.

  Lemma step_local_set : forall s pre k post v r a r', at_code s pre [ILocalSet k] post ->
    stk s = v :: r -> slot (fp s) k = Some a -> sset r a v = Some r' ->
    step s = Next (upd s r' (S (ip s)) (heap s)).
  Proof. intros s pre k post v r a r' H Hs Hsl Hss. unfold step. rewrite (fetch _ _ _ _ H), Hs, Hsl, Hss. reflexivity. Qed.

  Lemma step_cons : forall s pre post a d r, at_code s pre [ICons] post -> stk s = a :: d :: r ->
    step s = Next (upd s (VPair (length (heap s)) :: r) (S (ip s)) (heap s ++ [HPair a d])).
  Proof. intros s pre post a d r H Hs. unfold step. rewrite (fetch _ _ _ _ H), Hs. reflexivity. Qed.


  (* ---------------------------------------------------------------- invariants *)

  Definition WINV (W : world) : Prop :=
    wbounds W /\
    (forall loc bx, wb W loc = Some bx ->
       exists nm v w, nth_error (wh W) bx = Some (HPair nm v) /\ nth_error (wc W) loc = Some w /\ vrelW W v w) /\
    (forall l1 l2 b, wb W l1 = Some b -> wb W l2 = Some b -> l1 = l2).

  (** frame / closure-vector relation for the procedure being executed (the globals: [globrel]) *)
  Definition env_okA (cur : fctxA) (env : senv) (W : world) (s : state) : Prop :=
    (forall id ps r lr ls fv, cur = Some (id, ps, r, lr, ls, fv) -> forall x, memn x (ps ++ lr ++ ls) = true ->
       exists loc k v, env_lookup (x, Local id) env = Some loc /\
                       slot (fp s) (param_index ps r ls x) = Some k /\ sget (stk s) k = Some v /\
                       varrel W (x, Local id) loc v)
    /\ (forall id ps r lr ls fv, cur = Some (id, ps, r, lr, ls, fv) ->
          exists els, vec_ok W fv (vars_of (self s)) els /\ fvrelW W env fv els).

  Lemma env_okA_mono : forall cur env W W' s s1 vs,
    env_okA cur env W s -> wbounds W -> wext W W' ->
    fp s1 = fp s -> self s1 = self s -> stk s1 = vs ++ stk s ->
    env_okA cur env W' s1.
  Proof.
    intros cur env W W' s s1 vs (HP & HV) HB HE Hfp Hself Hstk. split.
    - intros id ps r lr ls fv Hc x Hm. destruct (HP id ps r lr ls fv Hc x Hm) as (loc & k & v & Hl & Hs & Hg & Hv).
      exists loc, k, v. rewrite Hfp, Hstk. repeat split; auto using sget_app. eapply varrel_mono; eauto.
    - intros id ps r lr ls fv Hc. destruct (HV id ps r lr ls fv Hc) as (els & Hvo & Hfv). exists els. rewrite Hself.
      split; [eapply vec_ok_mono; eauto | eapply fvrelW_mono; eauto].
  Qed.

  (* ---------------------------------------------------------------- world updates *)

  (** a new non-box cell (pair, vector) at the end of the heap *)
  Definition walloc (W : world) (o : hobj) : world := mkW (wh W ++ [o]) (wc W) (wb W).

  Lemma walloc_ext : forall W o, wbounds W -> wext W (walloc W o).
  Proof.
    intros W o HB. unfold walloc. repeat split; simpl; auto.
    - rewrite app_length; lia.
    - intros a Ha _. apply nth_error_app1; auto.
    - intros loc bx Hb Hle. destruct (HB loc bx Hb). lia.
  Qed.

  Lemma walloc_not_box : forall W o, wbounds W -> ~ is_box (walloc W o) (length (wh W)).
  Proof. intros W o HB [loc Hl]. simpl in Hl. destruct (HB loc _ Hl). lia. Qed.

  Lemma cell_set_length : forall l n x, length (cell_set l n x) = length l.
  Proof. induction l as [|y r IH]; intros [|n] x; simpl; auto. Qed.

  Lemma WINV_ext_same_b : forall W W', WINV W -> wext W W' -> wb W' = wb W ->
    length (wc W') = length (wc W) ->
    (forall l bx, wb W l = Some bx -> nth_error (wh W') bx = nth_error (wh W) bx /\ nth_error (wc W') l = nth_error (wc W) l) ->
    WINV W'.
  Proof.
    intros W W' (HB & HI & HJ) HE Hb Hlc Hsame. pose proof HE as (L1 & _). split; [|split].
    - intros l bx H. rewrite Hb in H. destruct (HB l bx H). lia.
    - intros l bx H. rewrite Hb in H. destruct (HI l bx H) as (nm & v & w & H1 & H2 & H3).
      destruct (Hsame l bx H) as [E1 E2]. exists nm, v, w. rewrite E1, E2. repeat split; auto. eapply vrelW_mono; eauto.
    - intros l1 l2 b H1 H2. rewrite Hb in H1, H2. eauto.
  Qed.

  Lemma walloc_INV : forall W o, WINV W -> WINV (walloc W o).
  Proof.
    intros W o HI. pose proof HI as (HB & _). eapply WINV_ext_same_b; eauto using walloc_ext.
    intros l bx Hb. destruct (HB l bx Hb). split; auto. simpl. apply nth_error_app1; auto.
  Qed.

  (** SET-CDR on the box of location l = assignment to l *)
  Definition wset (W : world) (l bx : nat) (nm v : value) (w : sval) : world :=
    mkW (list_set (wh W) bx (HPair nm v)) (cell_set (wc W) l w) (wb W).

  Lemma wset_ext : forall W l bx nm v w, wbounds W -> wb W l = Some bx -> wext W (wset W l bx nm v w).
  Proof.
    intros W l bx nm v w HB Hb. unfold wset. split; [|split; [|split; [|split; [|split]]]]; simpl.
    - rewrite list_set_length; lia.
    - intros a Ha Hn. apply list_set_other. intro E; subst. apply Hn. exists l; auto.
    - rewrite cell_set_length; lia.
    - intros l0 Hl Hn. apply cell_set_other. intro E; subst. congruence.
    - auto.
    - intros l0 b Hb' Hle. destruct (HB l0 b Hb'). lia.
  Qed.

  Lemma wset_INV : forall W l bx nm v w, WINV W -> wb W l = Some bx -> vrelW W v w -> WINV (wset W l bx nm v w).
  Proof.
    intros W l bx nm v w (HB & HI & HJ) Hb Hv.
    assert (HE : wext W (wset W l bx nm v w)) by (apply wset_ext; auto).
    destruct (HB l bx Hb) as [Hll Hlb].
    split; [|split].
    - intros l0 b H. simpl in *. rewrite list_set_length, cell_set_length. apply HB; auto.
    - intros l0 b H. simpl in H. destruct (Nat.eq_dec l0 l) as [->|Hne].
      + rewrite Hb in H. inversion H; subst b. exists nm, v, w. simpl. repeat split.
        * apply list_set_same; auto.
        * apply cell_set_same; auto.
        * eapply vrelW_mono; eauto.
      + destruct (HI l0 b H) as (nm0 & v0 & w0 & H1 & H2 & H3). exists nm0, v0, w0. simpl. repeat split.
        * rewrite list_set_other; auto. intro E; subst b. apply Hne. eapply HJ; eauto.
        * rewrite cell_set_other; auto.
        * eapply vrelW_mono; eauto.
    - intros l1 l2 b H1 H2. simpl in *. eauto.
  Qed.


  (* ---------------------------------------------------------------- the boxing loop of the entry code *)

  Definition box1 (ps : list name) (r : option name) (ls : list name) (x : name) : code :=
    [ILocalRef (param_index ps r ls x); IPush (LSym x); ICons; ILocalSet (param_index ps r ls x)].

  Lemma box_code_cons : forall ps r ls x xs, box_code ps r ls (x :: xs) = box1 ps r ls x ++ box_code ps r ls xs.
  Proof. reflexivity. Qed.

  Lemma box_loop : forall ps r ls xs s pre post,
    at_code s pre (box_code ps r ls xs) post ->
    NoDup xs ->
    (forall x, In x xs -> exists k v, slot (fp s) (param_index ps r ls x) = Some k /\ sget (stk s) k = Some v) ->
    (forall x y k, In x xs -> In y xs -> slot (fp s) (param_index ps r ls x) = Some k ->
                   slot (fp s) (param_index ps r ls y) = Some k -> x = y) ->
    exists stk' boxes,
      reaches s (mkst stk' (fp s) (self s) (length pre + length (box_code ps r ls xs)) (heap s ++ boxes) (globals s)) /\
      length stk' = length (stk s) /\ length boxes = length xs /\
      (forall k, (forall x, In x xs -> slot (fp s) (param_index ps r ls x) <> Some k) -> sget stk' k = sget (stk s) k) /\
      (forall m, (forall x k, In x xs -> slot (fp s) (param_index ps r ls x) = Some k -> m <= k) ->
                 below m stk' = below m (stk s)) /\
      (forall i x, nth_error xs i = Some x ->
         exists k v, slot (fp s) (param_index ps r ls x) = Some k /\ sget (stk s) k = Some v /\
                     sget stk' k = Some (VPair (length (heap s) + i)) /\
                     nth_error (heap s ++ boxes) (length (heap s) + i) = Some (HPair (VLit (LSym x)) v)).
  Proof.
    intros ps r ls xs. induction xs as [|x rest IH]; intros s pre post Hat Hnd Hsl Hinj.
    - exists (stk s), []. destruct Hat as [_ Hip]. simpl. repeat split; auto.
      + rewrite app_nil_r, Nat.add_0_r, <- Hip. destruct s; apply reaches_refl.
      + intros i x H. destruct i; discriminate H.
    - rewrite box_code_cons in *. set (k0 := param_index ps r ls x) in *.
      set (cr := box_code ps r ls rest) in *.
      inversion Hnd as [|x' r' Hnotin Hnd']; subst x' r'.
      destruct (Hsl x (or_introl eq_refl)) as (k & v & Hk & Hv). fold k0 in Hk.
      destruct Hat as [Hcode Hip]. unfold box1 in Hcode. fold k0 in Hcode.
      assert (Hat1 : at_code s pre [ILocalRef k0] (([IPush (LSym x); ICons; ILocalSet k0] ++ cr) ++ post)).
      { split; auto; rewrite Hcode; norm_code. }
      pose proof (step_local_ref s _ _ _ _ _ Hat1 Hk Hv) as Hst1.
      set (s1 := upd s (v :: stk s) (S (ip s)) (heap s)) in *.
      assert (Hat2 : at_code s1 (pre ++ [ILocalRef k0]) [IPush (LSym x)] (([ICons; ILocalSet k0] ++ cr) ++ post)).
      { split; simpl; [|solve_len]. rewrite Hcode. norm_code. }
      pose proof (step_push s1 _ _ _ Hat2) as Hst2.
      set (s2 := upd s1 (VLit (LSym x) :: stk s1) (S (ip s1)) (heap s1)) in *.
      assert (Hat3 : at_code s2 (pre ++ [ILocalRef k0; IPush (LSym x)]) [ICons] (([ILocalSet k0] ++ cr) ++ post)).
      { split; simpl; [|solve_len]. rewrite Hcode. norm_code. }
      pose proof (step_cons s2 _ _ (VLit (LSym x)) v (stk s) Hat3 eq_refl) as Hst3.
      set (s3 := upd s2 (VPair (length (heap s2)) :: stk s) (S (ip s2)) (heap s2 ++ [HPair (VLit (LSym x)) v])) in *.
      assert (Hat4 : at_code s3 (pre ++ [ILocalRef k0; IPush (LSym x); ICons]) [ILocalSet k0] (cr ++ post)).
      { split; simpl; [|solve_len]. rewrite Hcode. norm_code. }
      assert (Hklt : k < length (stk s)) by (eapply sget_Some_lt; eauto).
      destruct (sset_some (stk s) k (VPair (length (heap s))) Hklt) as (r' & Hss).
      pose proof (step_local_set s3 _ _ _ (VPair (length (heap s))) (stk s) k r' Hat4 eq_refl Hk Hss) as Hst4.
      set (s4 := upd s3 r' (S (ip s3)) (heap s3)) in *.
      assert (Hat5 : at_code s4 (pre ++ [ILocalRef k0; IPush (LSym x); ICons; ILocalSet k0]) cr post).
      { split; simpl; [|solve_len]. rewrite Hcode. norm_code. }
      assert (Hsl4 : forall y, In y rest -> exists ky vy, slot (fp s4) (param_index ps r ls y) = Some ky /\ sget (stk s4) ky = Some vy).
      { intros y Hy. destruct (Hsl y (or_intror Hy)) as (ky & vy & Hky & Hvy). exists ky, vy. split; auto.
        simpl. rewrite (sget_sset_other _ _ ky _ _ Hss); auto.
        intro E; subst ky. assert (y = x) by (eapply (Hinj y x k); simpl; auto). subst y. contradiction. }
      assert (Hinj4 : forall y z kk, In y rest -> In z rest -> slot (fp s4) (param_index ps r ls y) = Some kk ->
                                     slot (fp s4) (param_index ps r ls z) = Some kk -> y = z).
      { intros y z kk Hy Hz. apply Hinj; simpl; auto. }
      destruct (IH s4 _ post Hat5 Hnd' Hsl4 Hinj4) as (stk' & boxes & Hreach & Hlen & Hlb & Hunch & Hbel & Hbox).
      fold cr in Hreach.
      exists stk', (HPair (VLit (LSym x)) v :: boxes).
      assert (Hheap4 : heap s4 = heap s ++ [HPair (VLit (LSym x)) v]) by reflexivity.
      split; [|split; [|split; [|split; [|split]]]].
      + eapply reaches_trans; [apply reaches_step; exact Hst1|].
        eapply reaches_trans; [apply reaches_step; exact Hst2|].
        eapply reaches_trans; [apply reaches_step; exact Hst3|].
        eapply reaches_trans; [apply reaches_step; exact Hst4|].
        replace (mkst stk' (fp s) (self s) (length pre + length (box1 ps r ls x ++ cr)) (heap s ++ HPair (VLit (LSym x)) v :: boxes) (globals s))
          with (mkst stk' (fp s4) (self s4) (length (pre ++ [ILocalRef k0; IPush (LSym x); ICons; ILocalSet k0]) + length cr)
                     (heap s4 ++ boxes) (globals s4)); [exact Hreach|].
        rewrite Hheap4. simpl. f_equal; [solve_len | rewrite <- app_assoc; reflexivity].
      + rewrite Hlen. simpl. eapply sset_length; eauto.
      + simpl. lia.
      + intros kk Hkk. rewrite Hunch.
        * simpl. apply (sget_sset_other _ _ kk _ _ Hss). intro E; subst kk. apply (Hkk x); simpl; auto.
        * intros y Hy. apply Hkk. simpl; auto.
      + intros m Hm. rewrite Hbel.
        * simpl. eapply below_sset; eauto. apply (Hm x k); simpl; auto.
        * intros y ky Hy. apply Hm. simpl; auto.
      + intros i y Hi. destruct i as [|i]; simpl in Hi.
        * inversion Hi; subst y. exists k, v. repeat split; auto.
          -- rewrite Hunch. { simpl. rewrite Nat.add_0_r. eapply sget_sset_same; eauto. }
             intros y Hy E. simpl in E. fold k0 in Hk. assert (y = x) by (eapply (Hinj y x k); simpl; auto). subst y. contradiction.
          -- rewrite Nat.add_0_r. rewrite nth_error_app2 by lia. rewrite Nat.sub_diag. reflexivity.
        * destruct (Hbox i y Hi) as (ky & vy & Hky & Hvy & Hvy' & Hhb). exists ky, vy.
          assert (Hyin : In y rest) by (eapply nth_error_In; eauto).
          assert (Hne : ky <> k).
          { intro E; subst ky. assert (y = x) by (eapply (Hinj y x k); simpl; auto). subst y. contradiction. }
          repeat split; auto.
          -- simpl in Hvy. rewrite (sget_sset_other _ _ ky _ _ Hss) in Hvy; auto.
          -- rewrite Hheap4, app_length in Hvy'. simpl in Hvy'. replace (length (heap s) + S i) with (length (heap s) + 1 + i) by lia. exact Hvy'.
          -- rewrite Hheap4, app_length in Hhb. simpl in Hhb. rewrite <- app_assoc in Hhb. simpl in Hhb.
             replace (length (heap s) + S i) with (length (heap s) + 1 + i) by lia. exact Hhb.
  Qed.


  (* ---------------------------------------------------------------- entering a frame: the world after the entry code *)

  Lemma index_of_nth : forall x l j, index_of x l = Some j -> nth_error l j = Some x.
  Proof.
    intros x l. induction l as [|y r IH]; intros j H; simpl in *; try discriminate.
    destruct (Nat.eqb y x) eqn:E.
    - inversion H; subst. apply Nat.eqb_eq in E. subst; reflexivity.
    - destruct (index_of x r) as [k|]; simpl in H; try discriminate. inversion H; subst. simpl. auto.
  Qed.

  Lemma nth_index_of_nodup : forall l i x, NoDup l -> nth_error l i = Some x -> index_of x l = Some i.
  Proof.
    induction l as [|y r IH]; intros i x Hnd H; destruct i; simpl in *; try discriminate.
    - inversion H; subst. rewrite Nat.eqb_refl. reflexivity.
    - inversion Hnd as [|y' r' Hnin Hnd']; subst. destruct (Nat.eqb y x) eqn:E.
      + apply Nat.eqb_eq in E. subst. exfalso. apply Hnin. eapply nth_error_In; eauto.
      + rewrite (IH i x Hnd' H). reflexivity.
  Qed.

  Lemma nodupb_NoDup : forall l, nodupb l = true -> NoDup l.
  Proof.
    induction l as [|x r IH]; simpl; intro H; constructor.
    - apply andb_true_iff in H. destruct H as [H _]. apply negb_true_iff in H. intro Hin.
      apply memn_In in Hin. congruence.
    - apply IH. apply andb_true_iff in H. tauto.
  Qed.

  Definition wbE (W : world) (frame svid : list name) (l : nat) : option nat :=
    if l <? length (wc W) then wb W l
    else match nth_error frame (l - length (wc W)) with
         | Some x => match index_of x svid with Some j => Some (length (wh W) + j) | None => None end
         | None => None
         end.

  Definition wenter (W : world) (frame svid : list name) (vals : list sval) (boxes : list hobj) : world :=
    mkW (wh W ++ boxes) (wc W ++ vals) (wbE W frame svid).

  Lemma wenter_ext : forall W frame svid vals boxes, wbounds W -> wext W (wenter W frame svid vals boxes).
  Proof.
    intros W frame svid vals boxes HB. unfold wenter. split; [|split; [|split; [|split; [|split]]]]; simpl.
    - rewrite app_length; lia.
    - intros a Ha _. apply nth_error_app1; auto.
    - rewrite app_length; lia.
    - intros l Hl _. apply nth_error_app1; auto.
    - intros l Hl. unfold wbE. apply Nat.ltb_lt in Hl. rewrite Hl. reflexivity.
    - intros l bx Hb Hle. unfold wbE in Hb. assert (E : (l <? length (wc W)) = false) by (apply Nat.ltb_ge; lia).
      rewrite E in Hb. destruct (nth_error frame (l - length (wc W))) as [x|]; try discriminate.
      destruct (index_of x svid) as [j|]; try discriminate. inversion Hb. lia.
  Qed.

  Lemma index_of_lt : forall x l j, index_of x l = Some j -> j < length l.
  Proof. intros x l j H. apply index_of_nth in H. apply nth_error_Some. congruence. Qed.

  Lemma wenter_INV : forall W frame svid vals boxes,
    WINV W -> NoDup frame -> length vals = length frame -> length boxes = length svid ->
    (forall j x, nth_error svid j = Some x ->
       exists i v w, index_of x frame = Some i /\ nth_error boxes j = Some (HPair (VLit (LSym x)) v) /\
                     nth_error vals i = Some w /\ vrelW W v w) ->
    WINV (wenter W frame svid vals boxes).
  Proof.
    intros W frame svid vals boxes (HB & HI & HJ) Hnd Hlv Hlb Hbox.
    assert (HE : wext W (wenter W frame svid vals boxes)) by (apply wenter_ext; auto).
    split; [|split].
    - intros l b H. simpl in *. rewrite !app_length. unfold wbE in H.
      destruct (l <? length (wc W)) eqn:E.
      + destruct (HB l b H). lia.
      + apply Nat.ltb_ge in E. destruct (nth_error frame (l - length (wc W))) as [x|] eqn:En; try discriminate.
        destruct (index_of x svid) as [j|] eqn:Ej; try discriminate. inversion H; subst b.
        apply index_of_lt in Ej. assert (l - length (wc W) < length frame) by (apply nth_error_Some; congruence). lia.
    - intros l b H. simpl in H. unfold wbE in H. destruct (l <? length (wc W)) eqn:E.
      + destruct (HI l b H) as (nm & v & w & H1 & H2 & H3). destruct (HB l b H).
        exists nm, v, w. simpl. repeat split.
        * rewrite nth_error_app1; auto.
        * rewrite nth_error_app1; auto.
        * eapply vrelW_mono; eauto.
      + apply Nat.ltb_ge in E. destruct (nth_error frame (l - length (wc W))) as [x|] eqn:En; try discriminate.
        destruct (index_of x svid) as [j|] eqn:Ej; try discriminate. inversion H; subst b.
        destruct (Hbox j x (index_of_nth _ _ _ Ej)) as (i & v & w & Hi & Hbj & Hvi & Hv).
        rewrite (nth_index_of_nodup _ _ _ Hnd En) in Hi. inversion Hi; subst i.
        exists (VLit (LSym x)), v, w. simpl. repeat split.
        * rewrite nth_error_app2 by lia. replace (length (wh W) + j - length (wh W)) with j by lia. exact Hbj.
        * rewrite nth_error_app2 by lia. exact Hvi.
        * eapply vrelW_mono; eauto.
    - intros l1 l2 b H1 H2. simpl in H1, H2. unfold wbE in H1, H2.
      destruct (l1 <? length (wc W)) eqn:E1; destruct (l2 <? length (wc W)) eqn:E2.
      + eauto.
      + exfalso. destruct (HB l1 b H1). destruct (nth_error frame (l2 - length (wc W))) as [x|]; try discriminate.
        destruct (index_of x svid) as [j|]; try discriminate. inversion H2. lia.
      + exfalso. destruct (HB l2 b H2). destruct (nth_error frame (l1 - length (wc W))) as [x|]; try discriminate.
        destruct (index_of x svid) as [j|]; try discriminate. inversion H1. lia.
      + apply Nat.ltb_ge in E1. apply Nat.ltb_ge in E2.
        destruct (nth_error frame (l1 - length (wc W))) as [x1|] eqn:En1; try discriminate.
        destruct (nth_error frame (l2 - length (wc W))) as [x2|] eqn:En2; try discriminate.
        destruct (index_of x1 svid) as [j1|] eqn:Ej1; try discriminate.
        destruct (index_of x2 svid) as [j2|] eqn:Ej2; try discriminate.
        inversion H1; inversion H2. assert (j1 = j2) by lia. subst j2.
        apply index_of_nth in Ej1. apply index_of_nth in Ej2. rewrite Ej1 in Ej2. inversion Ej2; subst x2.
        pose proof (nth_index_of_nodup _ _ _ Hnd En1) as I1. pose proof (nth_index_of_nodup _ _ _ Hnd En2) as I2.
        rewrite I1 in I2. inversion I2. lia.
  Qed.


  (* ---------------------------------------------------------------- the statement *)

  Definition fallH (s : state) (v' : value) (pre c : code) (h' : list hobj) (g' : list (nat * value)) : state :=
    mkst (v' :: stk s) (fp s) (self s) (length pre + length c) h' g'.

  Definition retH (s : state) (v' : value) (j rip : nat) (rself : value) (rfp : nat) (h' : list hobj)
             (g' : list (nat * value)) : state :=
    mkst (v' :: below (fp s - j) (stk s)) rfp rself rip h' g'.

  Definition outcomeH (tl : bool) (s : state) (pre c : code) (v' : value) (h' : list hobj) (g' : list (nat * value)) : Prop :=
    reaches s (fallH s v' pre c h' g') \/
    (tl = true /\ forall j rip rself rfp, frame_info s = Some (j, rip, rself, rfp) -> j <= fp s ->
       reaches s (retH s v' j rip rself rfp h' g')).

  Lemma outcomeH_false : forall s pre c v' h' g', outcomeH false s pre c v' h' g' -> reaches s (fallH s v' pre c h' g').
  Proof. intros s pre c v' h' g' [H | [H _]]; [exact H | discriminate]. Qed.

  (** the result: a later world with the cells of st', a value, and VM globals representing the SPEC's globals *)
  Definition resA (tl : bool) (s : state) (pre c : code) (W : world) (v : sval) (st' : sstore) : Prop :=
    exists W' v' g', wext W W' /\ wc W' = cells st' /\ WINV W' /\ vrelW W' v' v /\
                     globrel W' (sglobals st') g' /\ outcomeH tl s pre c v' (wh W') g'.

  Definition simA_at (f : nat) (e : ast) : Prop :=
    forall cur env st v st', fragA cur e = true -> eval f e env st = SVal v st' ->
    forall tl svs s pre post W, agrees svs ->
    at_code s pre (generate tl svs (lctxA cur) e) post ->
    wh W = heap s -> wc W = cells st -> WINV W ->
    env_okA cur env W s -> globrel W (sglobals st) (globals s) ->
    resA tl s pre (generate tl svs (lctxA cur) e) W v st'.

  (** continuing after an intermediate state s2 of the same frame (same stack, fp, self) *)
  Lemma outcomeH_lift : forall tl s s2 pre pre2 c c2 v' h' g',
    reaches s s2 ->
    stk s2 = stk s -> fp s2 = fp s -> self s2 = self s ->
    reaches (fallH s2 v' pre2 c2 h' g') (fallH s v' pre c h' g') ->
    outcomeH tl s2 pre2 c2 v' h' g' -> outcomeH tl s pre c v' h' g'.
  Proof.
    intros tl s s2 pre pre2 c c2 v' h' g' Hr Hs Hf Hse Hcont [Ho | [Htl Ho]].
    - left. eapply reaches_trans; [exact Hr|]. eapply reaches_trans; [exact Ho|exact Hcont].
    - right. split; auto. intros j rip rself rfp Hfi Hj.
      assert (Hfi2 : frame_info s2 = Some (j, rip, rself, rfp)).
      { eapply (frame_info_app s s2 []); eauto. }
      rewrite <- Hf in Hj. specialize (Ho j rip rself rfp Hfi2 Hj).
      eapply reaches_trans; [exact Hr|].
      replace (retH s v' j rip rself rfp h' g') with (retH s2 v' j rip rself rfp h' g'); auto.
      unfold retH. rewrite Hs, Hf. reflexivity.
  Qed.

  Lemma fallH_eq : forall s s2 v' pre pre2 c c2 h' g',
    stk s2 = stk s -> fp s2 = fp s -> self s2 = self s ->
    length pre2 + length c2 = length pre + length c ->
    fallH s2 v' pre2 c2 h' g' = fallH s v' pre c h' g'.
  Proof. intros s s2 v' pre pre2 c c2 h' g' Hs Hf Hse Hl. unfold fallH. rewrite Hs, Hf, Hse, Hl. reflexivity. Qed.

  Lemma leafH : forall tl s pre i post v',
    at_code s pre [i] post -> step s = Next (upd s (v' :: stk s) (S (ip s)) (heap s)) ->
    outcomeH tl s pre [i] v' (heap s) (globals s).
  Proof.
    intros tl s pre i post v' [_ Hip] Hstep. left. apply reaches_step. rewrite Hstep.
    unfold fallH, upd. rewrite Hip. simpl. f_equal. f_equal. lia.
  Qed.

  (* ---------------------------------------------------------------- slots of locals; the header *)

  Lemma param_index_local : forall ps r ls x j, index_of x (ps ++ rest_list r) = None -> index_of x ls = Some j ->
    param_index ps r ls x = (- Z.of_nat j - 5)%Z.
  Proof.
    intros ps r ls x j H1 H2. unfold param_index.
    destruct (index_of x ps) as [i|] eqn:E; [rewrite (index_of_app_l _ _ (rest_list r) _ E) in H1; discriminate H1|].
    rewrite index_of_app_r in H1 by exact E.
    destruct r as [y|]; simpl in H1.
    - destruct (Nat.eqb y x); [discriminate H1|]. rewrite H2. reflexivity.
    - rewrite H2. reflexivity.
  Qed.

  (** parameters and the rest parameter (any locals) *)
  Lemma param_index_args : forall ps r ls x k, index_of x (ps ++ rest_list r) = Some k ->
    param_index ps r ls x = Z.of_nat k.
  Proof.
    intros ps r ls x k H. unfold param_index.
    destruct (index_of x ps) as [i|] eqn:E.
    - rewrite (index_of_app_l _ _ (rest_list r) _ E) in H. congruence.
    - rewrite index_of_app_r in H by exact E.
      destruct r as [y|]; simpl in H; try discriminate.
      destruct (Nat.eqb y x); simpl in H; try discriminate. inversion H. f_equal. lia.
  Qed.

  Lemma slot_local : forall n j, slot n (- Z.of_nat j - 5)%Z = Some (n + 4 + j).
  Proof.
    intros n j. unfold slot. destruct (Z.ltb_spec (Z.of_nat n - 1 - (- Z.of_nat j - 5)) 0); [lia|]. f_equal. lia.
  Qed.

  Lemma slot_inj : forall n k1 k2 a, slot n k1 = Some a -> slot n k2 = Some a -> k1 = k2.
  Proof.
    unfold slot; intros n k1 k2 a H1 H2.
    destruct (Z.ltb_spec (Z.of_nat n - 1 - k1) 0); try discriminate.
    destruct (Z.ltb_spec (Z.of_nat n - 1 - k2) 0); try discriminate.
    inversion H1; inversion H2. lia.
  Qed.

  Lemma frame_info_same : forall s s', fp s' = fp s ->
    (forall t, t < 4 -> sget (stk s') (fp s + t) = sget (stk s) (fp s + t)) -> frame_info s' = frame_info s.
  Proof.
    intros s s' Hf H. unfold frame_info. rewrite Hf.
    pose proof (H 0 ltac:(lia)) as H0. rewrite Nat.add_0_r in H0.
    rewrite H0, (H 1), (H 2), (H 3) by lia. reflexivity.
  Qed.

  Lemma push_undefs : forall n s pre post, at_code s pre (repeat (IPush LUndef) n) post ->
    reaches s (upd s (repeat (VLit LUndef) n ++ stk s) (length pre + n) (heap s)).
  Proof.
    induction n as [|n IH]; intros s pre post Hat.
    - simpl. destruct Hat as [_ Hip]. rewrite Nat.add_0_r, <- Hip. destruct s; apply reaches_refl.
    - simpl repeat in Hat. destruct Hat as [Hcode Hip].
      assert (Hat1 : at_code s pre [IPush LUndef] (repeat (IPush LUndef) n ++ post)).
      { split; auto; rewrite Hcode; norm_code. }
      pose proof (step_push s _ _ _ Hat1) as Hst.
      set (s1 := upd s (VLit LUndef :: stk s) (S (ip s)) (heap s)) in *.
      assert (Hat2 : at_code s1 (pre ++ [IPush LUndef]) (repeat (IPush LUndef) n) post).
      { split; simpl; [|solve_len]. rewrite Hcode. norm_code. }
      eapply reaches_trans; [apply reaches_step; exact Hst|].
      eapply reaches_trans; [apply (IH s1 _ _ Hat2)|].
      replace (upd s1 (repeat (VLit LUndef) n ++ stk s1) (length (pre ++ [IPush LUndef]) + n) (heap s1))
        with (upd s (repeat (VLit LUndef) (S n) ++ stk s) (length pre + S n) (heap s)); [apply reaches_refl|].
      unfold upd; simpl. f_equal.
      + change (VLit LUndef :: repeat (VLit LUndef) n ++ stk s) with ((VLit LUndef :: repeat (VLit LUndef) n) ++ stk s).
        rewrite (repeat_cons n (VLit LUndef)). rewrite <- app_assoc. reflexivity.
      + solve_len.
  Qed.


  (* ---------------------------------------------------------------- calling a procedure of the fragment *)

  Lemma index_of_app_inv : forall x l1 l2 i, index_of x (l1 ++ l2) = Some i -> i < length l1 -> index_of x l1 = Some i.
  Proof.
    intros x l1 l2 i H Hlt. destruct (index_of x l1) as [k|] eqn:E.
    - rewrite (index_of_app_l _ _ l2 _ E) in H. exact H.
    - rewrite index_of_app_r in H by exact E. destruct (index_of x l2); simpl in H; inversion H. lia.
  Qed.

  Lemma index_of_app_inv2 : forall x l1 l2 i, index_of x (l1 ++ l2) = Some i -> length l1 <= i ->
    index_of x l1 = None /\ index_of x l2 = Some (i - length l1).
  Proof.
    intros x l1 l2 i H Hle. destruct (index_of x l1) as [k|] eqn:E.
    - rewrite (index_of_app_l _ _ l2 _ E) in H. inversion H; subst. apply index_of_lt in E. lia.
    - split; auto. rewrite index_of_app_r in H by exact E. destruct (index_of x l2) as [k|]; simpl in H; inversion H.
      f_equal. lia.
  Qed.

  Lemma memn_false_index_of : forall x l, memn x l = false -> index_of x l = None.
  Proof.
    intros x l. induction l as [|y r IH]; simpl; intro H; auto.
    apply orb_false_iff in H. destruct H as [H1 H2]. rewrite Nat.eqb_sym, H1. rewrite IH; auto.
  Qed.

  Lemma nth_error_repeat_lt : forall {A} (a : A) n k, k < n -> nth_error (repeat a n) k = Some a.
  Proof. intros A a n. induction n as [|n IH]; intros [|k] H; simpl; auto; try lia. apply IH. lia. Qed.

  Lemma spec_bind_eqA : forall {T} id ps r ls vs cenv cs (F : senv -> list sval -> T), length ps <= length vs ->
    (let '(e1, c1) := bind_all id ps (firstn (length ps) vs) cenv cs in
     let '(e2, c2) := match r with
                      | Some x => bind_all id [x] [slist (skipn (length ps) vs)] e1 c1
                      | None => (e1, c1)
                      end in
     let '(e3, c3) := bind_all id ls (repeat (SLit LUndef) (length ls)) e2 c2 in F e3 c3)
    = F (fst (bind_all id ((ps ++ rest_list r) ++ ls) (spec_vals (length ps) r vs ++ repeat (SLit LUndef) (length ls)) cenv cs))
        (snd (bind_all id ((ps ++ rest_list r) ++ ls) (spec_vals (length ps) r vs ++ repeat (SLit LUndef) (length ls)) cenv cs)).
  Proof.
    intros T id ps r ls vs cenv cs F Hle.
    assert (Hl : length (spec_vals (length ps) r vs) = length (ps ++ rest_list r)).
    { rewrite spec_vals_length by exact Hle. rewrite app_length. reflexivity. }
    rewrite bind_all_app by exact Hl.
    unfold spec_vals.
    assert (Hl1 : length (firstn (length ps) vs) = length ps) by (apply firstn_length_le; exact Hle).
    rewrite bind_all_app by exact Hl1.
    destruct (bind_all id ps (firstn (length ps) vs) cenv cs) as [e1 c1]. simpl fst. simpl snd.
    destruct r as [x|]; cbn [rest_list bind_all fst snd].
    - destruct (bind_all id ls (repeat (SLit LUndef) (length ls)) (((x, Local id), length c1) :: e1)
                         (c1 ++ [slist (skipn (length ps) vs)])) as [e3 c3]. reflexivity.
    - destruct (bind_all id ls (repeat (SLit LUndef) (length ls)) e1 c1) as [e3 c3]. reflexivity.
  Qed.

  Lemma NoDup_app_notin_l : forall (a b : list name) x, NoDup (a ++ b) -> In x b -> ~ In x a.
  Proof.
    induction a as [|y a IH]; intros b x Hnd Hb Ha; simpl in *; [exact Ha|].
    inversion Hnd as [|y' l' Hnin Hnd']; subst. destruct Ha as [->|Ha].
    - apply Hnin. apply in_or_app. right; exact Hb.
    - exact (IH b x Hnd' Hb Ha).
  Qed.

  Lemma live_of_sub : forall id r b x, memn x (live_of id r b) = true -> memn x (rest_list r) = true.
  Proof. intros id r b x. unfold live_of. destruct (rest_unused_p true id r (SV id) b); [discriminate|auto]. Qed.

  (** make_call's three protocols for the flags the compiler really computes ([lam_flags_sv]: the set-vars are
      consulted before usedp, simplify.c:190-201): a rest parameter listed in SV id always gets its slot *)
  Lemma make_call_protocolA : forall s id r b nargs c vars vargs X rip rself rfp,
    nargs <= length vargs -> (r = None -> length vargs = nargs) ->
    exists vargs' h',
      make_call s (VProc (lam_flags_sv id r (SV id) b) nargs c vars) (vargs ++ X) (length vargs) rip rself rfp =
        Next (mkst (vint rfp :: rself :: vint rip :: vint (length vargs') :: vargs' ++ X) (length (vargs' ++ X))
                   (VProc (lam_flags_sv id r (SV id) b) nargs c vars) 0 h' (globals s))
      /\ ((live_of id r b = [] /\ vargs' = vargs /\ h' = heap s)
          \/ (exists x l, r = Some x /\ live_of id r b = rest_list r /\
                          build_list (heap s) (skipn nargs vargs) = (h', l) /\ vargs' = firstn nargs vargs ++ [l])).
  Proof.
    intros s id r b nargs c vars vargs X rip rself rfp Hle Hfix.
    destruct (rest_in_sv r (SV id)) eqn:Esv.
    - (* listed in the set-vars: VARIADIC only, the rest list is always built *)
      destruct r as [x|]; [|discriminate Esv].
      assert (Efl : lam_flags_sv id (Some x) (SV id) b = lam_flags id (Some x) (Ref x (Local id))).
      { rewrite (Proofs.lam_flags_sv_stale id x (SV id) b Esv). unfold lam_flags, rest_unused. simpl.
        rewrite !Nat.eqb_refl. reflexivity. }
      assert (Elive : live_of id (Some x) b = rest_list (Some x)).
      { unfold live_of, rest_unused_p. rewrite Esv. reflexivity. }
      assert (Edead : dead_of id (Some x) (Ref x (Local id)) = []).
      { unfold dead_of, rest_unused. simpl. rewrite !Nat.eqb_refl. reflexivity. }
      rewrite Efl.
      destruct (make_call_protocol s id (Some x) (Ref x (Local id)) nargs c vars vargs X rip rself rfp Hle Hfix)
        as (vargs' & h' & Hmc & Hcase).
      exists vargs', h'. split; [exact Hmc|].
      destruct Hcase as [(Hd & _) | (x0 & l & Hr & _ & Hb & Hv)].
      + rewrite Edead in Hd. discriminate Hd.
      + right. exists x0, l. repeat split; auto.
    - assert (Efl : lam_flags_sv id r (SV id) b = lam_flags id r b).
      { apply Proofs.lam_flags_sv_eq. rewrite Esv. discriminate. }
      assert (Elive : live_of id r b = if rest_unused true id r b then [] else rest_list r).
      { unfold live_of, rest_unused_p. rewrite Esv. reflexivity. }
      rewrite Efl.
      destruct (make_call_protocol s id r b nargs c vars vargs X rip rself rfp Hle Hfix)
        as (vargs' & h' & Hmc & Hcase).
      exists vargs', h'. split; [exact Hmc|]. rewrite Elive. unfold dead_of in Hcase.
      destruct (rest_unused true id r b).
      + destruct Hcase as [(Hd & Hv & Hh) | (x0 & l & Hr & Hd & _)].
        * left. auto.
        * subst r. discriminate Hd.
      + destruct Hcase as [(Hd & Hv & Hh) | (x0 & l & Hr & Hd & Hb & Hv)].
        * left. split; [symmetry; exact Hd|auto].
        * right. exists x0, l. auto.
  Qed.

  (** a rest parameter without a slot is never referenced or assigned in the body (nested lambdas included) *)
  Lemma dead_rest_not_mentioned : forall id x b, live_of id (Some x) b = [] -> mentions id x b = false.
  Proof.
    intros id x b H. unfold live_of in H. destruct (rest_unused_p true id (Some x) (SV id) b) eqn:E; [|discriminate H].
    exact (proj1 (Proofs.rest_unused_p_sound id x (SV id) b E)).
  Qed.

  (** the rest list consed by make_call (vm.c:1326-1328): fresh pairs at the end of the heap, no box involved *)
  Lemma build_list_relW : forall W vl wl, WINV W -> Forall2 (vrelW W) vl wl ->
    forall h' l, build_list (wh W) vl = (h', l) ->
    exists W', wext W W' /\ WINV W' /\ wc W' = wc W /\ wh W' = h' /\ vrelW W' l (slist wl).
  Proof.
    intros W vl wl HI H. pose proof HI as (HB & _). induction H as [|v w vr wr Hvw Hr IH]; intros h' l Hb; simpl in Hb.
    - inversion Hb; subst. exists W. split; [apply wext_refl; exact HB|]. split; [exact HI|]. split; [reflexivity|].
      split; [reflexivity|constructor].
    - destruct (build_list (wh W) vr) as [h1 tl] eqn:E. destruct (IH h1 tl eq_refl) as (W1 & HE1 & HI1 & HWc1 & HWh1 & Htl).
      unfold alloc in Hb. inversion Hb; subst h' l. pose proof HI1 as (HB1 & _).
      exists (walloc W1 (HPair v tl)).
      assert (HE2 : wext W1 (walloc W1 (HPair v tl))) by (apply walloc_ext; exact HB1).
      split; [eapply wext_trans; eauto|]. split; [apply walloc_INV; exact HI1|]. split; [exact HWc1|].
      split; [simpl; rewrite HWh1; reflexivity|].
      simpl slist. rewrite <- HWh1. eapply VW_pair.
      + simpl. rewrite nth_error_app2 by lia. rewrite Nat.sub_diag. reflexivity.
      + apply walloc_not_box; exact HB1.
      + eapply vrelW_mono; [exact HB1|exact HE2|]. exact (vrelW_mono W W1 HB HE1 v w Hvw).
      + exact (vrelW_mono W1 _ HB1 HE2 _ _ Htl).
  Qed.

  Lemma call_closedA : forall f, (forall e, simA_at f e) ->
    forall s0 W0 id ps r ls b fv svs' vars els vargs vs X rfp rself rip cenv st2 v st',
    agrees svs' -> nodupb (frame_vars ps r ls) = true -> nodupb (SV id) = true ->
    forallb (fun x => memn x (ps ++ live_of id r b ++ ls)) (SV id) = true ->
    fragA (Some (id, ps, r, live_of id r b, ls, fv)) b = true ->
    (forall p, In p fv -> exists m, snd p = Local m /\ m <> id) ->
    vec_ok W0 fv vars els -> fvrelW W0 cenv fv els ->
    wh W0 = heap s0 -> wc W0 = cells st2 -> WINV W0 ->
    length ps <= length vs -> (r = None -> length vs = length ps) -> Forall2 (vrelW W0) vargs vs ->
    globrel W0 (sglobals st2) (globals s0) ->
    eval f b (fst (bind_all id ((ps ++ rest_list r) ++ ls) (spec_vals (length ps) r vs ++ repeat (SLit LUndef) (length ls)) cenv (cells st2)))
             (mkstore (snd (bind_all id ((ps ++ rest_list r) ++ ls) (spec_vals (length ps) r vs ++ repeat (SLit LUndef) (length ls)) cenv (cells st2))) (sglobals st2))
      = SVal v st' ->
    exists sc W' v' g',
      make_call s0 (VProc (lam_flags_sv id r (SV id) b) (length ps) (entryA svs' id ps r ls fv b) vars) (vargs ++ X) (length vargs) rip rself rfp = Next sc /\
      wext W0 W' /\ wc W' = cells st' /\ WINV W' /\ vrelW W' v' v /\ globrel W' (sglobals st') g' /\
      reaches sc (mkst (v' :: X) rfp rself rip (wh W') g').
  Proof.
    intros f IH s0 W0 id ps r ls b fv svs' vars els vargs vs X rfp rself rip cenv st2 v st'
           Hag Hnd0 Hndsv Hsvin Hfr Hown Hvec0 Hfvr0 HWh0 HWc0 HINV0 Hle Hfix Hargs0 Hgl0 He.
    pose proof HINV0 as (HB0 & _).
    set (n := length ps) in *. set (nl := length ls) in *.
    set (pr := ps ++ rest_list r) in *.
    set (frame := pr ++ ls) in *. set (svid := SV id) in *.
    set (live := live_of id r b) in *.
    set (sv' := spec_vals n r vs) in *.
    set (vals := sv' ++ repeat (SLit LUndef) nl) in *.
    assert (Hnd : nodupb frame = true).
    { unfold frame, pr. rewrite <- app_assoc. exact Hnd0. }
    assert (Hlva : length vargs = length vs) by exact (Forall2_len _ _ _ Hargs0).
    assert (Hlsv : length sv' = length pr).
    { unfold sv', pr. rewrite spec_vals_length by exact Hle. rewrite app_length. reflexivity. }
    assert (Hlvals : length vals = length frame).
    { unfold vals, frame. rewrite !app_length, repeat_length, Hlsv. reflexivity. }
    set (entry := entryA svs' id ps r ls fv b) in *.
    destruct (make_call_protocolA s0 id r b n entry vars vargs X rip rself rfp
                ltac:(lia) ltac:(intro Hr; rewrite Hlva; auto)) as (vargs' & h' & Hmc & Hcase).
    set (proc := VProc (lam_flags_sv id r (SV id) b) n entry vars) in *.
    (* the world after the rest list has been consed; the parameters that have a slot are represented *)
    assert (Hlive : exists W, wext W0 W /\ WINV W /\ wc W = wc W0 /\ wh W = h' /\
              n <= length vargs' /\
              forall x k, memn x (ps ++ live) = true -> index_of x pr = Some k ->
                          exists va w, nth_error vargs' k = Some va /\ nth_error sv' k = Some w /\ vrelW W va w).
    { fold live in Hcase.
      destruct Hcase as [(Hd & -> & ->) | (x0 & l & -> & Hd & Hb & ->)].
      - exists W0. split; [apply wext_refl; exact HB0|]. split; [exact HINV0|]. split; [reflexivity|]. split; [exact HWh0|].
        split; [lia|]. intros x k Hm Hk. rewrite Hd, app_nil_r in Hm.
        destruct (memn_index_of x ps Hm) as (k' & Hk' & Hkl').
        unfold pr in Hk. rewrite (index_of_app_l _ _ (rest_list r) _ Hk') in Hk. inversion Hk; subst k'.
        destruct (nth_error vs k) as [w|] eqn:Ew; [|apply nth_error_None in Ew; lia].
        destruct (Forall2_nth _ _ _ _ _ Hargs0 Ew) as (va & Hva & Hrel).
        exists va, w. split; [exact Hva|]. split; [|exact Hrel].
        unfold sv', spec_vals. rewrite nth_error_app1 by (rewrite firstn_length_le; lia).
        rewrite nth_error_firstn_lt by exact Hkl'. exact Ew.
      - pose proof (Forall2_skipn _ n _ _ Hargs0) as Hsk.
        rewrite <- HWh0 in Hb.
        destruct (build_list_relW W0 _ _ HINV0 Hsk _ _ Hb) as (W & HE & HI & HWc & HWh & Hl).
        exists W. split; [exact HE|]. split; [exact HI|]. split; [exact HWc|]. split; [exact HWh|].
        split; [rewrite app_length, firstn_length_le by lia; simpl; lia|].
        intros x k _ Hk.
        assert (HF : Forall2 (vrelW W) (firstn n vargs ++ [l]) sv').
        { unfold sv', spec_vals. apply Forall2_app2.
          - eapply Forall2_vrelW_mono; eauto. apply Forall2_firstn. exact Hargs0.
          - constructor; [exact Hl|constructor]. }
        assert (Hkl : k < length sv') by (rewrite Hlsv; eapply index_of_lt; eauto).
        destruct (nth_error sv' k) as [w|] eqn:Ew; [|apply nth_error_None in Ew; lia].
        destruct (Forall2_nth _ _ _ _ _ HF Ew) as (va & Hva & Hrel). exists va, w. auto. }
    destruct Hlive as (W & HE0 & HINV & HWc1 & HWh & Hnv & Hlive).
    pose proof HINV as (HB & _).
    assert (HWc : wc W = cells st2) by congruence.
    assert (Hvec : vec_ok W fv vars els) by exact (vec_ok_mono W0 W fv vars els HE0 Hvec0).
    assert (Hfvr : fvrelW W cenv fv els) by exact (fvrelW_mono W0 W cenv fv els HB0 HE0 Hfvr0).
    assert (Hgl : globrel W (sglobals st2) (globals s0)) by exact (globrel_mono W0 W _ _ HB0 HE0 Hgl0).
    remember (length vargs') as nv eqn:Hnvdef.
    set (hdr := [vint rfp; rself; vint rip; vint nv]).
    set (sc := mkst (hdr ++ vargs' ++ X) (length (vargs' ++ X)) proc 0 h' (globals s0)).
    assert (Hmc' : make_call s0 proc (vargs ++ X) (length vargs) rip rself rfp = Next sc) by exact Hmc.
    set (pushes := repeat (IPush LUndef) nl).
    set (boxc := box_code ps r ls svid).
    set (body := generate true svs' (lctxA (Some (id, ps, r, live, ls, fv))) b).
    assert (Hcode : code_of (self sc) = pushes ++ boxc ++ body ++ [IRet]) by reflexivity.
    (* phase 1: the locals *)
    assert (Hat0 : at_code sc [] pushes (boxc ++ body ++ [IRet])) by (split; [exact Hcode|reflexivity]).
    pose proof (push_undefs nl sc [] _ Hat0) as Hr1.
    set (U := repeat (VLit LUndef) nl) in *.
    set (s1 := upd sc (U ++ stk sc) (length (@nil instr) + nl) (heap sc)) in *.
    set (fp1 := length (vargs' ++ X)) in *.
    assert (Hfp1 : fp1 = nv + length X) by (unfold fp1; rewrite app_length; lia).
    (* the frame slots after phase 1 *)
    assert (FS : forall x, memn x (ps ++ live ++ ls) = true ->
              exists i k va w, index_of x frame = Some i /\ slot fp1 (param_index ps r ls x) = Some k /\
                               sget (stk s1) k = Some va /\ nth_error vals i = Some w /\ vrelW W va w /\
                               fp1 - nv <= k /\ (forall t, t < 4 -> k <> fp1 + t)).
    { intros x Hm. rewrite app_assoc, memn_app in Hm.
      destruct (memn x (ps ++ live)) eqn:Epl.
      - assert (Hpr : memn x pr = true).
        { unfold pr. rewrite memn_app in Epl |- *. apply orb_true_iff in Epl. apply orb_true_iff.
          destruct Epl as [Hp|Hl]; [left; exact Hp | right; apply (live_of_sub id r b); exact Hl]. }
        destruct (memn_index_of x pr Hpr) as (i & Hi & Hil).
        destruct (Hlive x i Epl Hi) as (va & w & Hva & Hw & Hrel).
        assert (Hiv : i < nv) by (rewrite Hnvdef; apply nth_error_Some; congruence).
        exists i, (fp1 - 1 - i), va, w. split; [apply index_of_app_l; exact Hi|].
        split; [rewrite (param_index_args _ _ _ _ _ Hi); apply slot_arg; lia|].
        split; [|split; [|split; [exact Hrel|split; [lia|intros t Ht; lia]]]].
        + unfold s1, sc, upd; cbn [stk]. rewrite app_assoc. unfold fp1.
          rewrite sget_arg by (rewrite app_length; lia). rewrite nth_error_app1 by lia. exact Hva.
        + unfold vals. rewrite nth_error_app1 by (rewrite Hlsv; exact Hil). exact Hw.
      - simpl in Hm.
        assert (Hnpr : index_of x pr = None).
        { apply memn_false_index_of. destruct (memn x pr) eqn:Epr; auto. exfalso.
          apply memn_In in Epr. apply memn_In in Hm.
          exact (NoDup_app_notin_l pr ls x (nodupb_NoDup _ Hnd) Hm Epr). }
        destruct (memn_index_of x ls Hm) as (j & Hj & Hjl). fold nl in Hjl.
        exists (length pr + j), (fp1 + 4 + j), (VLit LUndef), (SLit LUndef).
        split; [unfold frame; rewrite index_of_app_r by exact Hnpr; rewrite Hj; reflexivity|].
        split; [rewrite (param_index_local _ _ _ _ _ Hnpr Hj); apply slot_local|].
        split; [|split; [|split; [constructor|split; [lia|intros t Ht; lia]]]].
        + unfold s1, sc, upd; cbn [stk].
          replace (fp1 + 4 + j) with (length (hdr ++ vargs' ++ X) + j) by (unfold hdr, fp1; simpl; lia).
          rewrite sget_hdr by (unfold U; rewrite repeat_length; exact Hjl).
          unfold U. rewrite repeat_length. apply nth_error_repeat_lt. lia.
        + unfold vals. rewrite nth_error_app2 by lia. rewrite Hlsv. replace (length pr + j - length pr) with j by lia.
          apply nth_error_repeat_lt. exact Hjl. }
    assert (Hinframe : forall x, In x svid -> memn x (ps ++ live ++ ls) = true).
    { intros x Hx. rewrite forallb_forall in Hsvin. apply Hsvin. exact Hx. }
    assert (Hlivein : forall x, memn x (ps ++ live ++ ls) = true -> In x (frame_vars ps r ls)).
    { intros x Hm. destruct (FS x Hm) as (i & k & va & w & Hi & _).
      apply index_of_nth in Hi. apply nth_error_In in Hi. unfold frame, pr in Hi. rewrite <- app_assoc in Hi. exact Hi. }
    assert (Hslotinj : forall x y k, memn x (ps ++ live ++ ls) = true -> memn y (ps ++ live ++ ls) = true ->
              slot fp1 (param_index ps r ls x) = Some k -> slot fp1 (param_index ps r ls y) = Some k -> x = y).
    { intros x y k Hx Hy H1 H2. pose proof (slot_inj _ _ _ _ H1 H2) as Hpi.
      apply (Proofs.param_index_injective ps r ls x y); auto. }
    (* phase 2: boxing *)
    assert (Hat1 : at_code s1 pushes boxc (body ++ [IRet])).
    { split; [exact Hcode|]. unfold s1; simpl. unfold pushes. rewrite repeat_length. reflexivity. }
    destruct (box_loop ps r ls svid s1 pushes _ Hat1 (nodupb_NoDup _ Hndsv)) as (stk' & boxes & Hr2 & Hlstk & Hlbx & Hunch & Hbel & Hbox).
    { intros x Hx. destruct (FS x (Hinframe x Hx)) as (i & k & va & w & _ & Hk & Hva & _). exists k, va. auto. }
    { intros x y k Hx Hy. apply Hslotinj; auto. }
    fold boxc in Hr2.
    set (s2 := mkst stk' (fp s1) (self s1) (length pushes + length boxc) (heap s1 ++ boxes) (globals s1)) in *.
    (* the world of the new frame *)
    set (We := wenter W frame svid vals boxes).
    assert (HEe : wext W We) by (apply wenter_ext; exact HB).
    assert (HINVe : WINV We).
    { apply wenter_INV; auto using nodupb_NoDup.
      intros j x Hjx. assert (Hxin : In x svid) by (eapply nth_error_In; eauto).
      destruct (FS x (Hinframe x Hxin)) as (i & k & va & w & Hi & Hk & Hva & Hw & Hrel & _).
      destruct (Hbox j x Hjx) as (k' & v' & Hk' & Hv' & _ & Hhb).
      change (fp s1) with fp1 in Hk'. rewrite Hk in Hk'. inversion Hk'; subst k'. rewrite Hva in Hv'. inversion Hv'; subst v'.
      exists i, va, w. repeat split; auto.
      rewrite nth_error_app2 in Hhb by lia. replace (length (heap s1) + j - length (heap s1)) with j in Hhb by lia. exact Hhb. }
    set (e3 := fst (bind_all id frame vals cenv (cells st2))) in *.
    assert (Hcells : snd (bind_all id frame vals cenv (cells st2)) = cells st2 ++ vals) by (apply bind_all_cells; exact Hlvals).
    rewrite Hcells in He.
    assert (Hgle : globrel We (sglobals st2) (globals s2)) by exact (globrel_mono W We _ _ HB HEe Hgl).
    assert (Hoke : env_okA (Some (id, ps, r, live, ls, fv)) e3 We s2).
    { split.
      - intros id0 ps0 r0 lr0 ls0 fv0 Hc x Hm. inversion Hc; subst id0 ps0 r0 lr0 ls0 fv0.
        destruct (FS x Hm) as (i & k & va & w & Hi & Hk & Hva & Hw & Hrel & _).
        destruct (bind_all_lookup id frame vals cenv (cells st2) x i Hnd Hlvals Hi) as [Hl Hn].
        fold e3 in Hl.
        destruct (memn x svid) eqn:Ebx.
        + destruct (memn_index_of x svid Ebx) as (j & Hj & Hjl).
          destruct (Hbox j x (index_of_nth _ _ _ Hj)) as (k' & v' & Hk' & _ & Hstk' & _).
          change (fp s1) with fp1 in Hk'. rewrite Hk in Hk'. inversion Hk'; subst k'.
          exists (length (cells st2) + i), k, (VPair (length (heap s1) + j)). repeat split; auto.
          exists id. split; auto. left. split; [exact Ebx|]. exists (length (heap s1) + j). split; auto.
          simpl. unfold wbE. rewrite HWc. assert (E : (length (cells st2) + i <? length (cells st2)) = false) by (apply Nat.ltb_ge; lia).
          rewrite E. replace (length (cells st2) + i - length (cells st2)) with i by lia.
          rewrite (index_of_nth _ _ _ Hi). fold svid. rewrite Hj. rewrite HWh. reflexivity.
        + exists (length (cells st2) + i), k, va. repeat split; auto.
          * simpl. rewrite Hunch; auto. intros y Hy E. change (fp s1) with fp1 in E.
            assert (y = x) by (apply (Hslotinj y x k); auto). subst y. apply memn_In in Hy. congruence.
          * exists id. split; auto. right. split; [exact Ebx|]. split.
            -- simpl. unfold wbE. rewrite HWc. assert (E : (length (cells st2) + i <? length (cells st2)) = false) by (apply Nat.ltb_ge; lia).
               rewrite E. replace (length (cells st2) + i - length (cells st2)) with i by lia.
               rewrite (index_of_nth _ _ _ Hi). fold svid. rewrite (memn_false_index_of _ _ Ebx). reflexivity.
            -- exists w. split; [|eapply vrelW_mono; eauto]. simpl. rewrite HWc. rewrite nth_error_app2 by lia.
               replace (length (cells st2) + i - length (cells st2)) with i by lia. exact Hw.
      - intros id0 ps0 r0 lr0 ls0 fv0 Hc. inversion Hc; subst id0 ps0 r0 lr0 ls0 fv0. exists els. split.
        + eapply vec_ok_mono; eauto.
        + eapply fvrelW_mono; eauto. unfold fvrelW in *. clear - Hfvr Hown.
          induction Hfvr as [|p v0 fvr elr Hp Hr IHf]; constructor.
          * destruct Hp as (l & Hl & Hv0). exists l. split; auto.
            destruct (Hown p (or_introl eq_refl)) as (m & Hsnd & Hne). destruct p as [px po]. simpl in Hsnd. subst po.
            unfold e3. rewrite bind_all_other_owner by exact Hne. exact Hl.
          * apply IHf. intros p0 Hin. apply Hown. right; exact Hin. }
    (* phase 3: the body *)
    assert (Hat2 : at_code s2 (pushes ++ boxc) body [IRet]).
    { split; [|simpl; rewrite app_length; reflexivity]. simpl. rewrite <- app_assoc. exact Hcode. }
    assert (HWhe : wh We = heap s2) by (simpl; rewrite HWh; reflexivity).
    assert (HWce : wc We = cells (mkstore (cells st2 ++ vals) (sglobals st2))) by (simpl; rewrite HWc; reflexivity).
    destruct (IH b (Some (id, ps, r, live, ls, fv)) e3 _ v st' Hfr He true svs' s2 _ _ We Hag Hat2 HWhe HWce HINVe Hoke Hgle)
      as (W' & v' & g' & HE' & HWc' & HINV' & Hv' & Hg' & Hout).
    exists sc, W', v', g'. split; [exact Hmc'|].
    split; [eapply wext_trans; [exact HE0|eapply wext_trans; eauto]|].
    split; [exact HWc'|]. split; [exact HINV'|]. split; [exact Hv'|]. split; [exact Hg'|].
    (* phase 4: RET *)
    assert (Hfi1 : frame_info s1 = Some (nv, rip, rself, rfp)).
    { eapply (frame_info_app sc s1 U); [apply frame_info_entry| |]; reflexivity. }
    assert (Hfi2 : frame_info s2 = Some (nv, rip, rself, rfp)).
    { rewrite <- Hfi1. apply frame_info_same; [reflexivity|]. intros t Ht. simpl. apply Hunch.
      intros x Hx E. change (fp s1) with fp1 in E.
      destruct (FS x (Hinframe x Hx)) as (i & k & va & w & _ & Hk & _ & _ & _ & _ & Hne).
      rewrite Hk in E. inversion E. apply (Hne t Ht). exact H0. }
    assert (Hnfp : nv <= fp s2) by (change (fp s2) with fp1; lia).
    assert (Hbase : below (fp s2 - nv) stk' = X).
    { rewrite Hbel.
      - unfold s1, sc; cbn [stk fp]. change (fp s2) with fp1.
        replace (fp1 - nv) with (length X) by lia.
        rewrite !app_assoc. apply below_exact.
      - intros x k Hx Hk. change (fp s1) with fp1 in Hk. change (fp s2) with fp1.
        destruct (FS x (Hinframe x Hx)) as (i & k' & va & w & _ & Hk' & _ & _ & _ & Hge & _).
        rewrite Hk in Hk'. inversion Hk'; subst k'. exact Hge. }
    eapply reaches_trans; [exact Hr1|]. eapply reaches_trans; [exact Hr2|].
    destruct Hout as [Hfall | [_ Hret]].
    - eapply reaches_trans; [exact Hfall|].
      set (se := fallH s2 v' (pushes ++ boxc) body (wh W') g') in *.
      assert (Hate : at_code se ((pushes ++ boxc) ++ body) [IRet] []).
      { split; [|simpl; rewrite !app_length; lia]. simpl. rewrite <- !app_assoc. exact Hcode. }
      assert (Hfie : frame_info se = Some (nv, rip, rself, rfp)).
      { eapply (frame_info_app s2 se [v']); eauto. }
      pose proof (step_ret se _ _ v' stk' nv rip rself rfp Hate eq_refl Hfie Hnfp) as Hstep.
      apply reaches_step. etransitivity; [exact Hstep|]. f_equal. f_equal. f_equal.
      change (v' :: stk') with ([v'] ++ stk'). rewrite below_app.
      + exact Hbase.
      + change (fp se) with (fp s2). apply frame_info_lt in Hfi2. simpl in Hfi2. simpl. lia.
    - specialize (Hret nv rip rself rfp Hfi2 Hnfp).
      replace (mkst (v' :: X) rfp rself rip (wh W') g') with (retH s2 v' nv rip rself rfp (wh W') g'); auto.
      unfold retH. f_equal. f_equal. exact Hbase.
  Qed.


  (* ---------------------------------------------------------------- primitives *)

  Lemma vrelW_lit_inv : forall W v l, vrelW W v (SLit l) -> v = VLit l.
  Proof. intros W v l H. inversion H; reflexivity. Qed.

  Lemma vrelW_pair_inv : forall W v x y, vrelW W v (SPair x y) ->
    exists a vx vy, v = VPair a /\ nth_error (wh W) a = Some (HPair vx vy) /\ vrelW W vx x /\ vrelW W vy y.
  Proof. intros W v x y H. inversion H; subst. eauto 8. Qed.

  Lemma vrelW_clo_proc : forall W v id ps r ls b cenv, vrelW W v (SClo id ps r ls b cenv) ->
    exists fl n c vars, v = VProc fl n c vars.
  Proof. intros W v id ps r ls b cenv H. inversion H; subst. eauto. Qed.

  Lemma prim1_okW : forall p W v w r stk0,
    prim_arity p = 1 -> vrelW W v w -> prim_sem p [w] = inl (Some r) ->
    exists r', prim_step p (v :: stk0) (wh W) = inl (Some (r' :: stk0, wh W)) /\ vrelW W r' r.
  Proof.
    intros p W v w r stk0 Ha Hv Hs.
    destruct w as [l | x y | id ps rr ls b env].
    - apply vrelW_lit_inv in Hv. subst v.
      destruct p; try discriminate Ha; simpl in Hs; try discriminate; inversion Hs; subst; simpl;
        eexists; split; try reflexivity; try (destruct l as [z|[|]| | | | |o|nd]; constructor).
    - destruct (vrelW_pair_inv _ _ _ _ Hv) as (a & vx & vy & -> & Hn & H1 & H2).
      destruct p; try discriminate Ha; simpl in Hs; try discriminate; inversion Hs; subst; simpl; rewrite ?Hn;
        eexists; split; try reflexivity; auto; constructor.
    - destruct (vrelW_clo_proc _ _ _ _ _ _ _ _ Hv) as (fl & n & c & vars & ->).
      destruct p; try discriminate Ha; simpl in Hs; try discriminate; inversion Hs; subst; simpl;
        eexists; split; try reflexivity; constructor.
  Qed.

  Lemma prim2_okW : forall p W v1 v2 w1 w2 r stk0,
    WINV W -> prim_arity p = 2 -> pure_prim p = true -> vrelW W v1 w1 -> vrelW W v2 w2 ->
    prim_sem p [w1; w2] = inl (Some r) ->
    exists r' W', wext W W' /\ WINV W' /\ wc W' = wc W /\
      (if prim_inverse p then prim_step (prim_opcode p) (v2 :: v1 :: stk0) (wh W)
       else prim_step p (v1 :: v2 :: stk0) (wh W)) = inl (Some (r' :: stk0, wh W'))
      /\ vrelW W' r' r.
  Proof.
    intros p W v1 v2 w1 w2 r stk0 HI Ha Hp H1 H2 Hs. pose proof HI as (HB & _).
    destruct p; try discriminate Ha; try discriminate Hp.
    all: try (destruct w1 as [[a| | | | | | |] | |]; simpl in Hs; try discriminate;
              destruct w2 as [[b| | | | | | |] | |]; simpl in Hs; try discriminate;
              apply vrelW_lit_inv in H1; apply vrelW_lit_inv in H2; subst; inversion Hs; subst; simpl;
              eexists; exists W; split; [apply wext_refl; exact HB|]; split; [exact HI|]; split; [reflexivity|]; split; [reflexivity|constructor]).
    simpl in Hs. inversion Hs; subst. simpl.
    exists (VPair (length (wh W))), (walloc W (HPair v1 v2)).
    split; [apply walloc_ext; auto|]. split; [apply walloc_INV; auto|]. split; [reflexivity|]. split; [reflexivity|].
    econstructor.
    - simpl. rewrite nth_error_app2 by lia. rewrite Nat.sub_diag. reflexivity.
    - apply walloc_not_box; auto.
    - eapply vrelW_mono; eauto using walloc_ext.
    - eapply vrelW_mono; eauto using walloc_ext.
  Qed.

  Lemma sval_false_decW : forall W v w, vrelW W v w ->
    (w = SLit (LBool false) /\ v = VLit (LBool false)) \/ (w <> SLit (LBool false) /\ v <> VLit (LBool false)).
  Proof.
    intros W v w H. destruct H as [l | a vx vy x y Hn Hnb H1 H2 | ].
    - destruct l as [z|[|]| | | | |o|nd]; try (right; split; congruence). left; auto.
    - right; split; congruence.
    - right; split; congruence.
  Qed.

  (* ---------------------------------------------------------------- composing results *)

  (** the evaluation continues from a state s2 of the same frame in a later world W1 *)
  Lemma resA_cont : forall tl s s2 pre pre2 c c2 W W1 v st',
    reaches s s2 -> stk s2 = stk s -> fp s2 = fp s -> self s2 = self s ->
    wext W W1 ->
    (forall v' h' g', reaches (fallH s2 v' pre2 c2 h' g') (fallH s v' pre c h' g')) ->
    resA tl s2 pre2 c2 W1 v st' -> resA tl s pre c W v st'.
  Proof.
    intros tl s s2 pre pre2 c c2 W W1 v st' Hr Hs Hf Hse HE Hcont (W' & v' & g' & HE' & Hc' & HI' & Hv' & Hg' & Hout).
    exists W', v', g'. split; [eapply wext_trans; eauto|]. split; [exact Hc'|]. split; [exact HI'|]. split; [exact Hv'|].
    split; [exact Hg'|]. eapply outcomeH_lift; eauto.
  Qed.


  (* ---------------------------------------------------------------- fetching a variable; the closure fill loop *)

  Lemma gen_fetchA : forall svs id ps r lr ls cfv x m,
    gen_non_global_ref svs (lctxA (Some (id, ps, r, lr, ls, cfv))) x (Local m) false =
    if Nat.eqb m id then [ILocalRef (param_index ps r ls x)] else [IClosureRef (closure_index (x, Local m) cfv)].
  Proof. intros. unfold gen_non_global_ref. simpl. destruct (Nat.eqb m id); reflexivity. Qed.

  Lemma gen_fetchA_length : forall svs cur x m, resolvableA cur x m = true ->
    length (gen_non_global_ref svs (lctxA cur) x (Local m) false) = 1.
  Proof.
    intros svs [[[[[[id ps] r] lr] ls] cfv]|] x m Hr; simpl in Hr; try discriminate.
    rewrite gen_fetchA. destruct (Nat.eqb m id); reflexivity.
  Qed.

  Lemma fetch_varA : forall cur env W0 s0 svs s vs hx x m pre post,
    env_okA cur env W0 s0 -> resolvableA cur x m = true ->
    fp s = fp s0 -> self s = self s0 -> stk s = vs ++ stk s0 -> heap s = wh W0 ++ hx ->
    at_code s pre (gen_non_global_ref svs (lctxA cur) x (Local m) false) post ->
    exists v l, env_lookup (x, Local m) env = Some l /\ varrel W0 (x, Local m) l v /\
                step s = Next (upd s (v :: stk s) (S (ip s)) (heap s)).
  Proof.
    intros cur env W0 s0 svs s vs hx x m pre post (HP & HV) Hr Hfp Hself Hstk Hheap Hat.
    destruct cur as [[[[[[id ps] r] lr] ls] cfv]|]; simpl in Hr; try discriminate.
    rewrite gen_fetchA in Hat.
    destruct (Nat.eqb m id) eqn:Em.
    - apply Nat.eqb_eq in Em. subst m.
      destruct (HP id ps r lr ls cfv eq_refl x Hr) as (l & k & v & Hl & Hs & Hg & Hv).
      exists v, l. repeat split; auto.
      eapply step_local_ref; eauto; [rewrite Hfp; exact Hs | rewrite Hstk; apply sget_app; exact Hg].
    - destruct (HV id ps r lr ls cfv eq_refl) as (els & Hvo & Hfv).
      pose proof (closure_index_nth _ _ Hr) as Hidx.
      destruct cfv as [|p0 cfv']; [discriminate Hr|].
      destruct Hvo as (a & Hvars & Hha & _).
      destruct (Forall2_nth1 _ _ _ _ _ Hfv Hidx) as (v & Hv & l & Hl & Hrel).
      exists v, l. repeat split; auto.
      eapply step_closure_ref; eauto.
      + rewrite Hself. exact Hvars.
      + rewrite Hheap. rewrite nth_error_app1; auto. apply nth_error_Some. congruence.
  Qed.

  Lemma fill_loopA : forall cur env W0 s0 svs newid, env_okA cur env W0 s0 ->
    forall fvs k els s pre post a,
    fv_okA cur newid fvs = true ->
    at_code s pre (closure_fill svs (lctxA cur) k fvs) post ->
    fp s = fp s0 -> self s = self s0 ->
    stk s = VVec a :: stk s0 -> a = length (wh W0) -> heap s = wh W0 ++ [HVec els] ->
    k + length fvs = length els ->
    exists vals,
      reaches s (upd s (stk s) (length pre + length (closure_fill svs (lctxA cur) k fvs))
                     (wh W0 ++ [HVec (firstn k els ++ vals)]))
      /\ fvrelW W0 env fvs vals.
  Proof.
    intros cur env W0 s0 svs newid Hok fvs.
    induction fvs as [|[x o] rest IH]; intros k els s pre post a Hfv Hat Hfp Hself Hstk Ha Hheap Hlen.
    - exists []. split; [|constructor]. simpl in *. destruct Hat as [_ Hip].
      assert (k = length els) by lia. subst k. rewrite firstn_all, app_nil_r, Nat.add_0_r.
      destruct s; simpl in *; subst. apply reaches_refl.
    - simpl in Hfv. apply andb_true_iff in Hfv. destruct Hfv as [Hp Hrest].
      destruct o as [|m]; [discriminate Hp|]. simpl in Hp. apply andb_true_iff in Hp. destruct Hp as [Hne Hres].
      simpl closure_fill in *.
      set (cf := gen_non_global_ref svs (lctxA cur) x (Local m) false) in *.
      set (cr := closure_fill svs (lctxA cur) (S k) rest) in *.
      assert (Hcfl : length cf = 1) by (apply gen_fetchA_length; auto).
      destruct Hat as [Hcode Hip].
      assert (Hat1 : at_code s pre cf (([IPush (LInt (Z.of_nat k)); IStackRef 3; IVectorSet] ++ cr) ++ post)).
      { split; auto; rewrite Hcode; norm_code. }
      destruct (fetch_varA cur env W0 s0 svs s [VVec a] [HVec els] x m pre _ Hok Hres Hfp Hself Hstk Hheap Hat1)
        as (v & l & Hl & Hrel & Hstep1).
      set (s1 := upd s (v :: stk s) (S (ip s)) (heap s)) in *.
      assert (Hat2 : at_code s1 (pre ++ cf) [IPush (LInt (Z.of_nat k))] ([IStackRef 3; IVectorSet] ++ cr ++ post)).
      { split; simpl; [|rewrite app_length; lia]. rewrite Hcode. norm_code. }
      pose proof (step_push s1 _ _ _ Hat2) as Hstep2.
      set (s2 := upd s1 (VLit (LInt (Z.of_nat k)) :: stk s1) (S (ip s1)) (heap s1)) in *.
      assert (Hat3 : at_code s2 (pre ++ cf ++ [IPush (LInt (Z.of_nat k))]) [IStackRef 3] ([IVectorSet] ++ cr ++ post)).
      { split; simpl; [|rewrite !app_length; simpl; lia]. rewrite Hcode. norm_code. }
      assert (Hn3 : nth_error (stk s2) 2 = Some (VVec a)) by (simpl; rewrite Hstk; reflexivity).
      pose proof (step_stack_ref s2 _ _ 2 _ Hat3 Hn3) as Hstep3.
      set (s3 := upd s2 (VVec a :: stk s2) (S (ip s2)) (heap s2)) in *.
      assert (Hat4 : at_code s3 (pre ++ cf ++ [IPush (LInt (Z.of_nat k)); IStackRef 3]) [IVectorSet] (cr ++ post)).
      { split; simpl; [|rewrite !app_length; simpl; lia]. rewrite Hcode. norm_code. }
      assert (Hh3 : nth_error (heap s3) a = Some (HVec els)).
      { simpl. rewrite Hheap, Ha. rewrite nth_error_app2 by lia. rewrite Nat.sub_diag. reflexivity. }
      assert (Hstk3 : stk s3 = VVec a :: VLit (LInt (Z.of_nat k)) :: v :: (VVec a :: stk s0)) by (simpl; rewrite Hstk; reflexivity).
      pose proof (step_vector_set s3 _ _ a k v _ els Hat4 Hstk3 Hh3 ltac:(simpl in Hlen; lia)) as Hstep4.
      set (els' := list_set els k v) in *.
      set (s4 := upd s3 (VVec a :: stk s0) (S (ip s3)) (list_set (heap s3) a (HVec els'))) in *.
      assert (Hheap4 : heap s4 = wh W0 ++ [HVec els']).
      { simpl. rewrite Hheap, Ha. apply list_set_app_last. }
      assert (Hat5 : at_code s4 (pre ++ cf ++ [IPush (LInt (Z.of_nat k)); IStackRef 3; IVectorSet]) cr post).
      { split; simpl; [|rewrite !app_length; simpl; lia]. rewrite Hcode. norm_code. }
      assert (Hlen' : S k + length rest = length els') by (unfold els'; rewrite list_set_length; simpl in Hlen; lia).
      destruct (IH (S k) els' s4 _ post a Hrest Hat5 Hfp Hself eq_refl Ha Hheap4 Hlen') as (vals & Hreach & Hvals).
      fold cr in Hreach.
      exists (v :: vals). split.
      + eapply reaches_trans; [apply reaches_step; exact Hstep1|].
        eapply reaches_trans; [apply reaches_step; exact Hstep2|].
        eapply reaches_trans; [apply reaches_step; exact Hstep3|].
        eapply reaches_trans; [apply reaches_step; exact Hstep4|].
        replace (upd s (stk s) (length pre + length (cf ++ IPush (LInt (Z.of_nat k)) :: IStackRef 3 :: IVectorSet :: cr))
                     (wh W0 ++ [HVec (firstn k els ++ v :: vals)]))
          with (upd s4 (stk s4) (length (pre ++ cf ++ [IPush (LInt (Z.of_nat k)); IStackRef 3; IVectorSet]) + length cr)
                    (wh W0 ++ [HVec ((firstn k els ++ [v]) ++ vals)])).
        { assert (Hfs : firstn (S k) els' = firstn k els ++ [v]) by (apply firstn_list_set_S; simpl in Hlen; lia).
          rewrite Hfs in Hreach. exact Hreach. }
        unfold upd; simpl. rewrite Hstk. f_equal.
        * solve_len.
        * rewrite <- app_assoc. reflexivity.
      + constructor; auto. exists l. auto.
  Qed.


  (* ---------------------------------------------------------------- operands *)

  Lemma simA_args : forall f, (forall e, simA_at f e) ->
    forall cur args env st rvs st1, forallb (fragA cur) args = true ->
    evlist (eval f) (rev args) env st = inl (rvs, st1) ->
    forall svs s pre post W, agrees svs ->
    at_code s pre (gen_args svs (lctxA cur) args) post ->
    wh W = heap s -> wc W = cells st -> WINV W -> env_okA cur env W s -> globrel W (sglobals st) (globals s) ->
    exists W1 vargs g1, wext W W1 /\ wc W1 = cells st1 /\ WINV W1 /\ Forall2 (vrelW W1) vargs (rev rvs) /\
      globrel W1 (sglobals st1) g1 /\
      reaches s (updg s (vargs ++ stk s) (length pre + length (gen_args svs (lctxA cur) args)) (wh W1) g1).
  Proof.
    intros f IH cur args. induction args as [|a r IHr]; intros env st rvs st1 Hp He svs s pre post W Hag Hat HWh HWc HI Hok Hgl.
    - simpl in He. inversion He; subst. exists W, [], (globals s). pose proof HI as (HB & _).
      split; [apply wext_refl; auto|]. split; auto. split; auto. split; [constructor|]. split; [exact Hgl|].
      destruct Hat as [_ Hip]. simpl. rewrite Nat.add_0_r, <- Hip, HWh. destruct s; apply reaches_refl.
    - simpl in Hp. apply andb_true_iff in Hp. destruct Hp as [Hpa Hpr].
      simpl rev in He. rewrite evlist_app in He.
      destruct (evlist (eval f) (rev r) env st) as [[rvs_r st_r]|x] eqn:Er; try discriminate.
      simpl evlist in He.
      destruct (eval f a env st_r) as [wa st_a| |] eqn:Ea; try discriminate.
      inversion He; subst rvs st1. clear He.
      change (gen_args svs (lctxA cur) (a :: r)) with
        (gen_args svs (lctxA cur) r ++ generate false svs (lctxA cur) a) in *.
      set (cr := gen_args svs (lctxA cur) r) in *. set (ca := generate false svs (lctxA cur) a) in *.
      destruct Hat as [Hcode Hip].
      assert (Hat1 : at_code s pre cr (ca ++ post)) by (split; auto; rewrite Hcode; norm_code).
      destruct (IHr env st rvs_r st_r Hpr Er svs s pre _ W Hag Hat1 HWh HWc HI Hok Hgl) as (W1 & vr & g1 & HE1 & HWc1 & HI1 & Hvr & Hg1 & Hr1).
      fold cr in Hr1. set (s1 := updg s (vr ++ stk s) (length pre + length cr) (wh W1) g1) in *.
      assert (Hat2 : at_code s1 (pre ++ cr) ca post).
      { split; simpl; [|rewrite app_length; reflexivity]. rewrite Hcode. norm_code. }
      pose proof HI as (HB & _).
      assert (Hok1 : env_okA cur env W1 s1).
      { eapply (env_okA_mono cur env W W1 s s1 vr); eauto. }
      destruct (IH a cur env st_r wa st_a Hpa Ea false svs s1 _ _ W1 Hag Hat2 eq_refl HWc1 HI1 Hok1 Hg1)
        as (W2 & va & g2 & HE2 & HWc2 & HI2 & Hva & Hg2 & Hout).
      apply outcomeH_false in Hout. fold ca in Hout.
      exists W2, (va :: vr), g2.
      split; [eapply wext_trans; eauto|]. split; [exact HWc2|]. split; [exact HI2|]. split; [|split; [exact Hg2|]].
      + rewrite rev_app_distr. simpl. constructor; auto.
        pose proof HI1 as (HB1 & _). eapply Forall2_vrelW_mono; eauto.
      + eapply reaches_trans; [exact Hr1|]. eapply reaches_trans; [exact Hout|].
        replace (fallH s1 va (pre ++ cr) ca (wh W2) g2)
          with (updg s ((va :: vr) ++ stk s) (length pre + length (cr ++ ca)) (wh W2) g2); [apply reaches_refl|].
        unfold fallH, updg; simpl. f_equal. solve_len.
  Qed.

  (* ---------------------------------------------------------------- assignment *)

  Lemma eval_SetVA : forall f x o e1 env st,
    eval (S f) (SetV x o e1) env st =
    match eval f e1 env st with
    | SVal w st1 =>
        match o with
        | Global => SVal (SLit LVoid) (mkstore (cells st1) (glob_set x w (sglobals st1)))
        | Local _ =>
            match env_lookup (x, o) env with
            | Some a => SVal (SLit LVoid) (mkstore (cell_set (cells st1) a w) (sglobals st1))
            | None => SErr EStuck
            end
        end
    | r => r
    end.
  Proof. reflexivity. Qed.

  Definition set_coreA (svs : nat -> list name) (cur : fctxA) (x : name) (o : loc) (e1 : ast) : code :=
    generate false svs (lctxA cur) e1
    ++ match o with Local m => gen_non_global_ref svs (lctxA cur) x (Local m) false | Global => [IPushCell x] end
    ++ [ISetCdr].

  Lemma generate_SetVA : forall tl svs cur x o e1, agrees svs -> fragA cur (SetV x o e1) = true ->
    generate tl svs (lctxA cur) (SetV x o e1) = set_coreA svs cur x o e1 ++ [IPush LVoid].
  Proof.
    intros tl svs cur x [|m] e1 Hag H.
    - unfold set_coreA. simpl. rewrite <- !app_assoc. reflexivity.
    - simpl in H. apply andb_true_iff in H. destruct H as [H _].
      apply andb_true_iff in H. destruct H as [Hres Hbx]. unfold boxedv in Hbx.
      destruct cur as [[[[[[id ps] r] lr] ls] cfv]|]; [|discriminate Hres].
      unfold set_coreA. simpl. rewrite (Hag m), Hbx. unfold gen_ref. rewrite <- !app_assoc. reflexivity.
  Qed.

  Lemma core_stepA : forall f, (forall e, simA_at f e) ->
    forall cur x o e1 env st v st', fragA cur (SetV x o e1) = true ->
    eval (S f) (SetV x o e1) env st = SVal v st' ->
    forall svs s pre post W, agrees svs ->
    at_code s pre (set_coreA svs cur x o e1) post ->
    wh W = heap s -> wc W = cells st -> WINV W -> env_okA cur env W s -> globrel W (sglobals st) (globals s) ->
    v = SLit LVoid /\
    exists W' g', wext W W' /\ wc W' = cells st' /\ WINV W' /\ globrel W' (sglobals st') g' /\
               reaches s (updg s (stk s) (length pre + length (set_coreA svs cur x o e1)) (wh W') g').
  Proof.
    intros f IH cur x o e1 env st v st' Hp He svs s pre post W Hag Hat HWh HWc HI Hok Hgl.
    rewrite eval_SetVA in He.
    destruct (eval f e1 env st) as [w1 st1| |] eqn:E1; try discriminate.
    pose proof HI as (HB & _).
    destruct o as [|m].
    - (* a global: PUSH its cell, SET-CDR *)
      simpl in Hp. inversion He; subst v st'. split; auto.
      unfold set_coreA in *.
      set (c1 := generate false svs (lctxA cur) e1) in *.
      destruct Hat as [Hcode Hip].
      assert (Hat1 : at_code s pre c1 (([IPushCell x] ++ [ISetCdr]) ++ post)) by (split; auto; rewrite Hcode; norm_code).
      destruct (IH e1 cur env st w1 st1 Hp E1 false svs s pre _ W Hag Hat1 HWh HWc HI Hok Hgl)
        as (W1 & v1 & g1 & HE1 & HWc1 & HI1 & Hv1 & Hg1 & Hout1).
      apply outcomeH_false in Hout1. fold c1 in Hout1. set (s1 := fallH s v1 pre c1 (wh W1) g1) in *.
      assert (Hat2 : at_code s1 (pre ++ c1) [IPushCell x] ([ISetCdr] ++ post)).
      { split; simpl; [|rewrite app_length; reflexivity]. rewrite Hcode. norm_code. }
      pose proof (step_push_cell s1 _ _ _ Hat2) as Hstep2.
      set (s2 := upd s1 (VCell x :: stk s1) (S (ip s1)) (heap s1)) in *.
      assert (Hat3 : at_code s2 (pre ++ c1 ++ [IPushCell x]) [ISetCdr] post).
      { split; simpl; [|solve_len]. rewrite Hcode. norm_code. }
      pose proof (step_set_cdr_cell s2 _ _ x v1 (stk s) Hat3 eq_refl) as Hstep3.
      exists W1, (assoc_set x v1 g1). split; [exact HE1|]. split; [exact HWc1|]. split; [exact HI1|].
      split; [simpl; apply globrel_set; assumption|].
      eapply reaches_trans; [exact Hout1|]. eapply reaches_trans; [apply reaches_step; exact Hstep2|].
      apply reaches_step. etransitivity; [exact Hstep3|]. unfold updg; simpl. f_equal. f_equal. solve_len.
    - simpl in Hp. apply andb_true_iff in Hp. destruct Hp as [Hp Hp1]. apply andb_true_iff in Hp. destruct Hp as [Hres Hbx].
      unfold set_coreA in *.
      set (c1 := generate false svs (lctxA cur) e1) in *.
      set (cf := gen_non_global_ref svs (lctxA cur) x (Local m) false) in *.
      assert (Hcfl : length cf = 1) by (apply gen_fetchA_length; auto).
      destruct Hat as [Hcode Hip].
      assert (Hat1 : at_code s pre c1 ((cf ++ [ISetCdr]) ++ post)) by (split; auto; rewrite Hcode; norm_code).
      destruct (IH e1 cur env st w1 st1 Hp1 E1 false svs s pre _ W Hag Hat1 HWh HWc HI Hok Hgl)
        as (W1 & v1 & g1 & HE1 & HWc1 & HI1 & Hv1 & Hg1 & Hout1).
      apply outcomeH_false in Hout1. fold c1 in Hout1. set (s1 := fallH s v1 pre c1 (wh W1) g1) in *.
      assert (Hok1 : env_okA cur env W1 s1) by (eapply (env_okA_mono cur env W W1 s s1 [v1]); eauto).
      assert (Hat2 : at_code s1 (pre ++ c1) cf ([ISetCdr] ++ post)).
      { split; simpl; [|rewrite app_length; reflexivity]. rewrite Hcode. norm_code. }
      destruct (fetch_varA cur env W1 s1 svs s1 [] [] x m _ _ Hok1 Hres eq_refl eq_refl eq_refl
                  (eq_sym (app_nil_r _)) Hat2) as (vb & l & Hl & Hvr & Hstep2).
      destruct Hvr as (m' & Hm' & [(_ & bx & -> & Hwb) | (Hnb & _)]); simpl in Hm'; inversion Hm'; subst m';
        [|unfold boxedv in *; simpl in Hnb; congruence].
      rewrite Hl in He. inversion He; subst v st'. split; auto.
      pose proof HI1 as (HB1 & HI1b & HJ1). destruct (HI1b l bx Hwb) as (nm & vold & wold & Hhb & Hcl & _).
      set (s2 := upd s1 (VPair bx :: stk s1) (S (ip s1)) (heap s1)) in *.
      assert (Hat3 : at_code s2 (pre ++ c1 ++ cf) [ISetCdr] post).
      { split; simpl; [|solve_len]. rewrite Hcode. norm_code. }
      pose proof (step_set_cdr_box s2 _ _ bx v1 (stk s) nm vold Hat3 eq_refl Hhb) as Hstep3.
      set (W2 := wset W1 l bx nm v1 w1).
      assert (HE2 : wext W1 W2) by (apply wset_ext; auto).
      exists W2, g1. split; [eapply wext_trans; [exact HE1|exact HE2]|].
      split; [simpl; rewrite HWc1; reflexivity|].
      split; [apply wset_INV; auto|].
      split; [simpl; exact (globrel_mono W1 W2 _ _ HB1 HE2 Hg1)|].
      eapply reaches_trans; [exact Hout1|]. eapply reaches_trans; [apply reaches_step; exact Hstep2|].
      apply reaches_step. etransitivity; [exact Hstep3|]. unfold updg, upd; simpl. f_equal. f_equal. solve_len.
  Qed.


  (* ---------------------------------------------------------------- sequences *)

  Lemma simA_seq : forall f, (forall f', f' <= f -> forall e, simA_at f' e) ->
    forall cur es env st v st', es <> [] -> forallb (fragA cur) es = true ->
    eval_seq f env es st = SVal v st' ->
    forall tl svs s pre post W, agrees svs ->
    at_code s pre (gen_seq tl svs (lctxA cur) es) post ->
    wh W = heap s -> wc W = cells st -> WINV W -> env_okA cur env W s -> globrel W (sglobals st) (globals s) ->
    resA tl s pre (gen_seq tl svs (lctxA cur) es) W v st'.
  Proof.
    intros f IHle cur es. induction es as [|a r IHr]; intros env st v st' Hne Hp He tl svs s pre post W Hag Hat HWh HWc HI Hok Hgl.
    - congruence.
    - simpl in Hp. apply andb_true_iff in Hp. destruct Hp as [Hpa Hpr].
      destruct r as [|b r'].
      + simpl in He, Hat |- *. eapply (IHle f (le_n f)); eauto.
      + change (eval_seq f env (a :: b :: r') st) with
          (match eval f a env st with SVal _ st1 => eval_seq f env (b :: r') st1 | x => x end) in He.
        destruct (eval f a env st) as [va st1| |] eqn:Ea; try discriminate.
        change (gen_seq tl svs (lctxA cur) (a :: b :: r')) with
          ((if is_lit a then [] else drop_prev a (generate false svs (lctxA cur) a)) ++ gen_seq tl svs (lctxA cur) (b :: r')) in *.
        assert (Hne2 : b :: r' <> []) by congruence.
        set (cr := gen_seq tl svs (lctxA cur) (b :: r')) in *.
        pose proof HI as (HB & _).
        destruct Hat as [Hcode Hip].
        (* the rest of the sequence from a state with the stack of s *)
        assert (Hcont : forall ca W1 g1, code_of (self s) = pre ++ (ca ++ cr) ++ post ->
                  reaches s (updg s (stk s) (length pre + length ca) (wh W1) g1) ->
                  wext W W1 -> wc W1 = cells st1 -> WINV W1 -> globrel W1 (sglobals st1) g1 ->
                  resA tl s pre (ca ++ cr) W v st').
        { intros ca W1 g1 Hcode1 Hreach HE1 HWc1 HI1 Hg1.
          set (s2 := updg s (stk s) (length pre + length ca) (wh W1) g1) in *.
          assert (Hat3 : at_code s2 (pre ++ ca) cr post).
          { split; simpl; [|solve_len]. rewrite Hcode1. norm_code. }
          assert (Hok2 : env_okA cur env W1 s2).
          { eapply (env_okA_mono cur env W W1 s s2 []); eauto. }
          pose proof (IHr env st1 v st' Hne2 Hpr He tl svs s2 _ post W1 Hag Hat3 eq_refl HWc1 HI1 Hok2 Hg1) as Hres.
          fold cr in Hres.
          eapply (resA_cont tl s s2 pre (pre ++ ca) (ca ++ cr) cr W W1); eauto.
          intros v0 h0 g0. rewrite (fallH_eq s s2 v0 pre (pre ++ ca) (ca ++ cr) cr h0 g0); auto; [apply reaches_refl | solve_len]. }
        destruct (is_lit a) eqn:La.
        * destruct a; try discriminate La. destruct f; [discriminate Ea|]. rewrite eval_Lit in Ea. inversion Ea; subst st1.
          assert (Hre : reaches s (updg s (stk s) (length pre + length (@nil instr)) (wh W) (globals s))).
          { simpl. rewrite Nat.add_0_r, <- Hip, HWh. destruct s; apply reaches_refl. }
          exact (Hcont [] W (globals s) Hcode Hre (wext_refl W HB) HWc HI Hgl).
        * destruct (is_set_or_lit a) eqn:Esl.
          -- (* a set!: the trailing PUSH is rewound *)
             destruct a as [l | x o | x o e1 | | | | | ]; try discriminate Esl; try discriminate La.
             assert (Hd : drop_prev (SetV x o e1) (generate false svs (lctxA cur) (SetV x o e1))
                          = set_coreA svs cur x o e1).
             { unfold drop_prev. simpl is_set_or_lit. cbv iota. rewrite generate_SetVA by auto. apply removelast_last. }
             rewrite Hd in *. set (ca := set_coreA svs cur x o e1) in *.
             destruct f as [|f0]; [discriminate Ea|].
             assert (Hat1 : at_code s pre ca (cr ++ post)) by (split; auto; rewrite Hcode; norm_code).
             assert (IH0 : forall e, simA_at f0 e) by (intro e; apply IHle; lia).
             destruct (core_stepA f0 IH0 cur x o e1 env st va st1 Hpa Ea svs s pre _ W Hag Hat1 HWh HWc HI Hok Hgl)
               as (_ & W1 & g1 & HE1 & HWc1 & HI1 & Hg1 & Hreach).
             assert (Hc1 : code_of (self s) = pre ++ (ca ++ cr) ++ post) by (rewrite Hcode; norm_code).
             exact (Hcont ca W1 g1 Hc1 Hreach HE1 HWc1 HI1 Hg1).
          -- (* any other expression: evaluated, dropped *)
             assert (Hd : drop_prev a (generate false svs (lctxA cur) a) = generate false svs (lctxA cur) a ++ [IDrop]).
             { unfold drop_prev. rewrite Esl. reflexivity. }
             rewrite Hd in *. set (ca := generate false svs (lctxA cur) a) in *.
             assert (Hat1 : at_code s pre ca ([IDrop] ++ cr ++ post)) by (split; auto; rewrite Hcode; norm_code).
             destruct (IHle f (le_n f) a cur env st va st1 Hpa Ea false svs s pre _ W Hag Hat1 HWh HWc HI Hok Hgl)
               as (W1 & v1 & g1 & HE1 & HWc1 & HI1 & Hv1 & Hg1 & Hout1).
             apply outcomeH_false in Hout1. fold ca in Hout1. set (s1 := fallH s v1 pre ca (wh W1) g1) in *.
             assert (Hat2 : at_code s1 (pre ++ ca) [IDrop] (cr ++ post)).
             { split; simpl; [|rewrite app_length; reflexivity]. rewrite Hcode. norm_code. }
             pose proof (step_drop s1 _ _ v1 (stk s) Hat2 eq_refl) as Hstep.
             assert (Hc1 : code_of (self s) = pre ++ ((ca ++ [IDrop]) ++ cr) ++ post) by (rewrite Hcode; norm_code).
             assert (Hre : reaches s (updg s (stk s) (length pre + length (ca ++ [IDrop])) (wh W1) g1)).
             { eapply reaches_trans; [exact Hout1|]. apply reaches_step. etransitivity; [exact Hstep|].
               unfold updg, upd; simpl. f_equal. f_equal. solve_len. }
             exact (Hcont (ca ++ [IDrop]) W1 g1 Hc1 Hre HE1 HWc1 HI1 Hg1).
  Qed.


  (* ---------------------------------------------------------------- the main induction *)

  Lemma generate_Lam_A : forall tl svs cur id ps r ls fv b,
    generate tl svs cur (Lam id ps r ls (SV id) fv b) =
    let body := entryA (fun m => if Nat.eqb m id then SV id else svs m) id ps r ls fv b in
    match fv with
    | [] => [IPushProc (lam_flags_sv id r (SV id) b) (length ps) body]
    | _ :: _ => [IPush LVoid; IPush (LInt (Z.of_nat (length fv))); IMakeVector]
                ++ closure_fill svs cur 0 fv ++ [IMakeProc (lam_flags_sv id r (SV id) b) (length ps) body]
    end.

  Proof. intros. destruct fv; reflexivity. Qed.

  Lemma fragA_Lam : forall cur id ps r ls sv fv b,
    fragA cur (Lam id ps r ls sv fv b) =
    nodupb (frame_vars ps r ls) && names_eqb sv (SV id) && nodupb sv
    && forallb (fun x => memn x (ps ++ live_of id r b ++ ls)) sv
    && fv_okA cur id fv && fragA (Some (id, ps, r, live_of id r b, ls, fv)) b.
  Proof. reflexivity. Qed.

  Lemma vrelW_clo_inv : forall W v id ps r ls b cenv, vrelW W v (SClo id ps r ls b cenv) ->
    nodupb (frame_vars ps r ls) = true /\ nodupb (SV id) = true /\
    forallb (fun x => memn x (ps ++ live_of id r b ++ ls)) (SV id) = true /\
    exists fv svs' vars els,
      fragA (Some (id, ps, r, live_of id r b, ls, fv)) b = true /\ agrees svs' /\
      (forall p, In p fv -> exists m, snd p = Local m /\ m <> id) /\
      vec_ok W fv vars els /\ fvrelW W cenv fv els /\
      v = VProc (lam_flags_sv id r (SV id) b) (length ps) (entryA svs' id ps r ls fv b) vars.
  Proof.
    intros W v id ps r ls b cenv H.
    inversion H as [| | id0 ps0 r0 ls0 b0 cenv0 fv svs' vars els Hnd Hndsv Hsvin Hfr Hag Hown Hvec HF]; subst.
    split; [exact Hnd|]. split; [exact Hndsv|]. split; [exact Hsvin|].
    exists fv, svs', vars, els. split; [exact Hfr|]. split; [exact Hag|]. split; [exact Hown|]. split; [exact Hvec|].
    split; [apply fvrelW_of_clo; exact HF | reflexivity].
  Qed.

  Lemma simA_step : forall f, (forall f', f' <= f -> forall e, simA_at f' e) -> forall e, simA_at (S f) e.
  Proof.
    intros f IHle e cur env st v st' Hp He tl svs s pre post W Hag Hat HWh HWc HI Hok Hgl.
    assert (IH : forall e, simA_at f e) by (intro e0; apply IHle; lia).
    pose proof HI as (HB & HIb & HIj).
    destruct e as [l | x o | x o e1 | t p e2 | es | id ps r ls sv fv b | g args | p args]; try discriminate Hp.
    - (* Lit *)
      rewrite eval_Lit in He. inversion He; subst.
      exists W, (VLit (lit_value l)), (globals s). split; [apply wext_refl; auto|]. split; auto. split; auto. split; [constructor|].
      split; [exact Hgl|].
      simpl generate in *. rewrite HWh. eapply leafH; eauto. eapply step_push; eauto.
    - (* Ref *)
      destruct o as [|m].
      + rewrite eval_Ref_global in He. destruct (glob_lookup x (sglobals st)) as [w|] eqn:Eg; try discriminate.
        inversion He; subst.
        destruct (Hgl x v Eg) as (v' & Ha & Hv).
        exists W, v', (globals s). split; [apply wext_refl; auto|]. split; auto. split; auto. split; auto. split; [exact Hgl|].
        simpl generate in *. rewrite HWh. eapply leafH; eauto. eapply step_global_ref; eauto.
      + simpl in Hp.
        assert (Hgen : generate tl svs (lctxA cur) (Ref x (Local m))
                       = gen_non_global_ref svs (lctxA cur) x (Local m) false ++ (if boxedv x m then [ICdr] else [])).
        { destruct cur as [[[[[[id0 ps0] r0] lr0] ls0] cfv0]|]; [|discriminate Hp].
          simpl. unfold gen_non_global_ref. simpl. rewrite (Hag m). unfold boxedv.
          destruct (memn x (SV m)); rewrite <- ?app_assoc; reflexivity. }
        set (cf := gen_non_global_ref svs (lctxA cur) x (Local m) false) in *.
        rewrite Hgen in *.
        assert (Hcfl : length cf = 1) by (apply gen_fetchA_length; auto).
        destruct Hat as [Hcode Hip].
        assert (Hat1 : at_code s pre cf ((if boxedv x m then [ICdr] else []) ++ post)) by (split; auto; rewrite Hcode; norm_code).
        destruct (fetch_varA cur env W s svs s [] [] x m pre _ Hok Hp eq_refl eq_refl eq_refl
                    (eq_trans (eq_sym HWh) (eq_sym (app_nil_r _))) Hat1) as (vb & l & Hl & Hvr & Hstep1).
        rewrite eval_Ref_local, Hl in He.
        destruct Hvr as (m' & Hm' & Hcase). simpl in Hm'. inversion Hm'; subst m'. simpl fst in Hcase.
        destruct Hcase as [(Hbx & bx & -> & Hwb) | (Hbx & Hwb & w & Hcw & Hvw)]; rewrite Hbx in *.
        * (* boxed: the content of the box *)
          destruct (HIb l bx Hwb) as (nm & vc & wc0 & Hhb & Hcl & Hvc).
          rewrite HWc in Hcl. rewrite Hcl in He. inversion He; subst.
          set (s1 := upd s (VPair bx :: stk s) (S (ip s)) (heap s)) in *.
          assert (Hat2 : at_code s1 (pre ++ cf) [ICdr] post).
          { split; simpl; [|solve_len]. rewrite Hcode. norm_code. }
          assert (Hhb1 : nth_error (heap s1) bx = Some (HPair nm vc)) by (simpl; rewrite <- HWh; exact Hhb).
          pose proof (step_cdr s1 _ _ bx (stk s) nm vc Hat2 eq_refl Hhb1) as Hstep2.
          exists W, vc, (globals s). split; [apply wext_refl; auto|]. split; auto. split; auto. split; auto. split; [exact Hgl|].
          left. eapply reaches_trans; [apply reaches_step; exact Hstep1|]. apply reaches_step.
          etransitivity; [exact Hstep2|]. unfold fallH, upd; simpl. rewrite HWh. f_equal. f_equal. solve_len.
        * rewrite HWc in Hcw. rewrite Hcw in He. inversion He; subst.
          exists W, vb, (globals s). split; [apply wext_refl; auto|]. split; auto. split; auto. split; auto. split; [exact Hgl|].
          left. apply reaches_step. etransitivity; [exact Hstep1|].
          unfold fallH, upd; simpl. rewrite HWh, app_nil_r. f_equal. f_equal. lia.
    - (* SetV *)
      rewrite generate_SetVA in * by auto.
      set (cc := set_coreA svs cur x o e1) in *.
      destruct Hat as [Hcode Hip].
      assert (Hat1 : at_code s pre cc ([IPush LVoid] ++ post)) by (split; auto; rewrite Hcode; norm_code).
      destruct (core_stepA f IH cur x o e1 env st v st' Hp He svs s pre _ W Hag Hat1 HWh HWc HI Hok Hgl)
        as (-> & W1 & g1 & HE1 & HWc1 & HI1 & Hg1 & Hreach).
      set (s1 := updg s (stk s) (length pre + length cc) (wh W1) g1) in *.
      assert (Hat2 : at_code s1 (pre ++ cc) [IPush LVoid] post).
      { split; simpl; [|rewrite app_length; reflexivity]. rewrite Hcode. norm_code. }
      pose proof (step_push s1 _ _ _ Hat2) as Hstep.
      exists W1, (VLit LVoid), g1. split; auto. split; auto. split; auto. split; [constructor|]. split; [exact Hg1|].
      left. eapply reaches_trans; [exact Hreach|]. apply reaches_step. etransitivity; [exact Hstep|].
      unfold fallH, upd; simpl. f_equal. f_equal. solve_len.
    - (* Cnd *)
      simpl in Hp. apply andb_true_iff in Hp. destruct Hp as [Hp Hpf]. apply andb_true_iff in Hp. destruct Hp as [Hpt Hpp].
      rewrite eval_Cnd in He.
      destruct (eval f t env st) as [vt st1| |] eqn:Et; try discriminate.
      simpl generate in *.
      set (ct := generate false svs (lctxA cur) t) in *.
      set (cp := generate tl svs (lctxA cur) p) in *.
      set (cf := generate tl svs (lctxA cur) e2) in *.
      destruct Hat as [Hcode Hip].
      assert (Hat1 : at_code s pre ct (([IJumpUnless (S (length cp))] ++ cp ++ [IJump (length cf)] ++ cf) ++ post)).
      { split; auto; rewrite Hcode; norm_code. }
      destruct (IH t cur env st vt st1 Hpt Et false svs s pre _ W Hag Hat1 HWh HWc HI Hok Hgl)
        as (W1 & v1 & g1 & HE1 & HWc1 & HI1 & Hv1 & Hg1 & Hout1).
      apply outcomeH_false in Hout1. fold ct in Hout1. set (s1 := fallH s v1 pre ct (wh W1) g1) in *.
      assert (Hat2 : at_code s1 (pre ++ ct) [IJumpUnless (S (length cp))] (cp ++ [IJump (length cf)] ++ cf ++ post)).
      { split; simpl; [|rewrite app_length; reflexivity]. rewrite Hcode. norm_code. }
      destruct (sval_false_decW _ _ _ Hv1) as [[-> ->] | [Hw Hv]].
      + pose proof (step_jump_unless_false s1 _ _ _ (stk s) Hat2 eq_refl) as Hstep.
        set (s2 := upd s1 (stk s) (S (ip s1) + S (length cp)) (heap s1)) in *.
        assert (Hat3 : at_code s2 (pre ++ ct ++ [IJumpUnless (S (length cp))] ++ cp ++ [IJump (length cf)]) cf post).
        { split; simpl; [|solve_len]. rewrite Hcode. norm_code. }
        assert (Hok2 : env_okA cur env W1 s2).
        { eapply (env_okA_mono cur env W W1 s s2 []); eauto. }
        pose proof (IH e2 cur env st1 v st' Hpf He tl svs s2 _ post W1 Hag Hat3 eq_refl HWc1 HI1 Hok2 Hg1) as Hres.
        fold cf in Hres.
        eapply (resA_cont tl s s2 pre _ _ cf W W1); eauto.
        * eapply reaches_trans; [exact Hout1|]. apply reaches_step. exact Hstep.
        * intros v0 h0 g0. rewrite (fallH_eq s s2 v0 pre _ (ct ++ IJumpUnless (S (length cp)) :: cp ++ IJump (length cf) :: cf) cf h0 g0); auto;
            [apply reaches_refl | solve_len].
      + assert (Hep : eval f p env st1 = SVal v st').
        { destruct vt as [[z|[|]| | | | |o|nd] | |]; try exact He; congruence. }
        pose proof (step_jump_unless_true s1 _ _ _ v1 (stk s) Hat2 eq_refl Hv) as Hstep.
        set (s2 := upd s1 (stk s) (S (ip s1)) (heap s1)) in *.
        assert (Hat3 : at_code s2 (pre ++ ct ++ [IJumpUnless (S (length cp))]) cp ([IJump (length cf)] ++ cf ++ post)).
        { split; simpl; [|solve_len]. rewrite Hcode. norm_code. }
        assert (Hok2 : env_okA cur env W1 s2).
        { eapply (env_okA_mono cur env W W1 s s2 []); eauto. }
        pose proof (IH p cur env st1 v st' Hpp Hep tl svs s2 _ _ W1 Hag Hat3 eq_refl HWc1 HI1 Hok2 Hg1) as Hres.
        fold cp in Hres.
        eapply (resA_cont tl s s2 pre _ _ cp W W1); eauto.
        * eapply reaches_trans; [exact Hout1|]. apply reaches_step. exact Hstep.
        * intros v0 h0 g0.
          set (s3 := fallH s2 v0 (pre ++ ct ++ [IJumpUnless (S (length cp))]) cp h0 g0).
          assert (Hat4 : at_code s3 (pre ++ ct ++ [IJumpUnless (S (length cp))] ++ cp) [IJump (length cf)] (cf ++ post)).
          { split; simpl; [|solve_len]. rewrite Hcode. norm_code. }
          apply reaches_step. rewrite (step_jump s3 _ _ _ Hat4).
          unfold fallH, upd; simpl. f_equal. f_equal. solve_len.
    - (* Seq *)
      rewrite eval_Seq in He. rewrite generate_Seq in *.
      simpl in Hp. destruct es as [|a r0]; try discriminate Hp.
      eapply (simA_seq f IHle cur (a :: r0)); eauto. congruence.
    - (* Lam *)
      rewrite fragA_Lam in Hp.
      apply andb_true_iff in Hp. destruct Hp as [Hp Hfb]. apply andb_true_iff in Hp. destruct Hp as [Hp Hfvok].
      apply andb_true_iff in Hp. destruct Hp as [Hp Hsvin]. apply andb_true_iff in Hp. destruct Hp as [Hp Hndsv].
      apply andb_true_iff in Hp. destruct Hp as [Hnd Hsveq]. apply names_eqb_eq in Hsveq. subst sv.
      rewrite eval_Lam in He. inversion He; subst.
      rewrite generate_Lam_A in *. cbv zeta in *.
      set (svs' := fun m => if Nat.eqb m id then SV id else svs m) in *.
      assert (Hag' : agrees svs').
      { intro m. unfold svs'. destruct (Nat.eqb m id) eqn:E; auto. apply Nat.eqb_eq in E. subst; reflexivity. }
      assert (Hown : forall p, In p fv -> exists m, snd p = Local m /\ m <> id).
      { intros p Hin. unfold fv_okA in Hfvok. rewrite forallb_forall in Hfvok. specialize (Hfvok p Hin).
        destruct (snd p) as [|m]; [discriminate|]. apply andb_true_iff in Hfvok. destruct Hfvok as [Hne _].
        exists m. split; auto. apply negb_true_iff in Hne. apply Nat.eqb_neq in Hne. exact Hne. }
      set (body := entryA svs' id ps r ls fv b) in *. set (fl := lam_flags_sv id r (SV id) b) in *.
      destruct fv as [|p0 fvt].
      + exists W, (VProc fl (length ps) body (VLit LVoid)), (globals s). split; [apply wext_refl; auto|]. split; auto. split; auto.
        split; [|split; [exact Hgl|]].
        * eapply (VW_clo W id ps r ls b env [] svs' (VLit LVoid) []); eauto; try (simpl; auto); try constructor.
        * rewrite HWh. eapply leafH; eauto. eapply step_push_proc; eauto.
      + set (fv := p0 :: fvt) in *. set (n := length fv) in *.
        set (cfill := closure_fill svs (lctxA cur) 0 fv) in *.
        set (imk := IMakeProc fl (length ps) body) in *.
        set (a := length (wh W)).
        destruct Hat as [Hcode Hip].
        assert (Hat1 : at_code s pre [IPush LVoid] (([IPush (LInt (Z.of_nat n)); IMakeVector] ++ cfill ++ [imk]) ++ post)).
        { split; auto; rewrite Hcode; norm_code. }
        pose proof (step_push s _ _ _ Hat1) as Hstep1.
        set (s1 := upd s (VLit LVoid :: stk s) (S (ip s)) (heap s)) in *.
        assert (Hat2 : at_code s1 (pre ++ [IPush LVoid]) [IPush (LInt (Z.of_nat n))] (([IMakeVector] ++ cfill ++ [imk]) ++ post)).
        { split; simpl; [|solve_len]. rewrite Hcode. norm_code. }
        pose proof (step_push s1 _ _ _ Hat2) as Hstep2.
        set (s2 := upd s1 (VLit (LInt (Z.of_nat n)) :: stk s1) (S (ip s1)) (heap s1)) in *.
        assert (Hat3 : at_code s2 (pre ++ [IPush LVoid; IPush (LInt (Z.of_nat n))]) [IMakeVector] ((cfill ++ [imk]) ++ post)).
        { split; simpl; [|solve_len]. rewrite Hcode. norm_code. }
        pose proof (step_make_vector s2 _ _ n (VLit LVoid) (stk s) Hat3 eq_refl) as Hstep3.
        set (s3 := upd s2 (VVec (length (heap s2)) :: stk s) (S (ip s2)) (heap s2 ++ [HVec (repeat (VLit LVoid) n)])) in *.
        assert (Hat4 : at_code s3 (pre ++ [IPush LVoid; IPush (LInt (Z.of_nat n)); IMakeVector]) cfill ([imk] ++ post)).
        { split; simpl; [|solve_len]. rewrite Hcode. norm_code. }
        assert (Hstk3 : stk s3 = VVec a :: stk s) by (simpl; unfold a; rewrite HWh; reflexivity).
        assert (Hheap3 : heap s3 = wh W ++ [HVec (repeat (VLit LVoid) n)]) by (simpl; rewrite HWh; reflexivity).
        destruct (fill_loopA cur env W s svs id Hok fv 0 (repeat (VLit LVoid) n) s3 _ _ a Hfvok Hat4
                    eq_refl eq_refl Hstk3 eq_refl Hheap3 ltac:(rewrite repeat_length; reflexivity)) as (vals & Hreach & Hvals).
        fold cfill in Hreach. simpl firstn in Hreach. simpl app in Hreach.
        set (s4 := upd s3 (stk s3) (length (pre ++ [IPush LVoid; IPush (LInt (Z.of_nat n)); IMakeVector]) + length cfill)
                       (wh W ++ [HVec vals])) in *.
        assert (Hat5 : at_code s4 (pre ++ [IPush LVoid; IPush (LInt (Z.of_nat n)); IMakeVector] ++ cfill) [imk] post).
        { split; simpl; [|solve_len]. rewrite Hcode. norm_code. }
        pose proof (step_make_proc s4 _ _ _ _ _ (VVec a) (stk s) Hat5 Hstk3) as Hstep5.
        set (W1 := walloc W (HVec vals)).
        assert (HE1 : wext W W1) by (apply walloc_ext; auto).
        exists W1, (VProc fl (length ps) body (VVec a)), (globals s). split; auto. split; auto. split; [apply walloc_INV; auto|].
        split; [|split; [exact (globrel_mono W W1 _ _ HB HE1 Hgl)|]].
        * eapply (VW_clo W1 id ps r ls b env fv svs' (VVec a) vals); eauto.
          -- simpl. exists a. split; auto. split; [unfold a; rewrite nth_error_app2 by lia; rewrite Nat.sub_diag; reflexivity|].
             apply walloc_not_box; auto.
          -- apply fvrelW_of_clo. eapply fvrelW_mono; eauto.
        * left. eapply reaches_trans; [apply reaches_step; exact Hstep1|].
          eapply reaches_trans; [apply reaches_step; exact Hstep2|].
          eapply reaches_trans; [apply reaches_step; exact Hstep3|].
          eapply reaches_trans; [exact Hreach|].
          apply reaches_step. etransitivity; [exact Hstep5|]. unfold fallH, upd; simpl. f_equal. f_equal. solve_len.
    - (* App *)
      simpl in Hp. apply andb_true_iff in Hp. destruct Hp as [Hpg Hpa].
      rewrite eval_App in He.
      destruct (evlist (eval f) (rev args) env st) as [[rvs st1]|x] eqn:Eargs;
        [|exfalso; exact (evlist_inr _ _ _ _ _ Eargs _ _ He)].
      cbv zeta in He.
      destruct (eval f g env st1) as [wf st2| |] eqn:Eg; [| simpl in He; discriminate He | simpl in He; discriminate He].
      rewrite generate_App in *.
      set (cargs := gen_args svs (lctxA cur) args) in *.
      set (cg := generate false svs (lctxA cur) g) in *.
      set (icall := if tl then ITailCall (length args) else ICall (length args)) in *.
      destruct Hat as [Hcode Hip].
      assert (Hat1 : at_code s pre cargs ((cg ++ [icall]) ++ post)) by (split; auto; rewrite Hcode; norm_code).
      destruct (simA_args f IH cur args env st rvs st1 Hpa Eargs svs s pre _ W Hag Hat1 HWh HWc HI Hok Hgl)
        as (W1 & vargs & g1 & HE1 & HWc1 & HI1 & Hvargs & Hg1 & Hr1).
      fold cargs in Hr1. set (s1 := updg s (vargs ++ stk s) (length pre + length cargs) (wh W1) g1) in *.
      assert (Hat2 : at_code s1 (pre ++ cargs) cg ([icall] ++ post)).
      { split; simpl; [|rewrite app_length; reflexivity]. rewrite Hcode. norm_code. }
      assert (Hok1 : env_okA cur env W1 s1).
      { eapply (env_okA_mono cur env W W1 s s1 vargs); eauto. }
      destruct (IH g cur env st1 wf st2 Hpg Eg false svs s1 _ _ W1 Hag Hat2 eq_refl HWc1 HI1 Hok1 Hg1)
        as (W2 & vg & g2 & HE2 & HWc2 & HI2 & Hvg & Hg2 & Hout2).
      apply outcomeH_false in Hout2. fold cg in Hout2. set (s2 := fallH s1 vg (pre ++ cargs) cg (wh W2) g2) in *.
      destruct wf as [lw | xw yw | cid cps cr cls cb cenv]; try discriminate He.
      destruct (vrelW_clo_inv _ _ _ _ _ _ _ _ Hvg) as (Hnd & Hndsv & Hsvin & cfv & svs' & cvars & cels & Hfb & Hag' & Hown & Hcvars & Hcfv & ->).
      set (vs := rev rvs) in *.
      destruct (length vs <? length cps) eqn:E1; try discriminate He.
      destruct (match cr with None => length cps <? length vs | Some _ => false end) eqn:E2; try discriminate He.
      apply Nat.ltb_ge in E1.
      assert (Hfix : cr = None -> length vs = length cps).
      { intro Hc. subst cr. apply Nat.ltb_ge in E2. lia. }
      rewrite (spec_bind_eqA cid cps cr cls vs cenv (cells st2) (fun e3 c3 => eval f cb e3 (mkstore c3 (sglobals st2))) E1) in He.
      assert (Hlargs : length args = length vargs).
      { rewrite (Forall2_len _ _ _ Hvargs). unfold vs. rewrite rev_length. pose proof (evlist_length _ _ _ _ _ _ Eargs) as Hl.
        rewrite rev_length in Hl. symmetry; exact Hl. }
      pose proof HI1 as (HB1 & _). pose proof HI2 as (HB2 & _).
      assert (Hvargs2 : Forall2 (vrelW W2) vargs vs) by exact (Forall2_vrelW_mono W1 W2 vargs vs HB1 HE2 Hvargs).
      assert (HE02 : wext W W2) by (eapply wext_trans; eauto).
      assert (Hgl2 : globrel W2 (sglobals st2) (globals s2)) by exact Hg2.
      set (proc := VProc (lam_flags_sv cid cr (SV cid) cb) (length cps) (entryA svs' cid cps cr cls cfv cb) cvars) in *.
      assert (Hat3 : at_code s2 (pre ++ cargs ++ cg) [icall] post).
      { split; simpl; [|solve_len]. rewrite Hcode. norm_code. }
      assert (Hstk2 : stk s2 = proc :: (vargs ++ stk s)) by reflexivity.
      assert (Hreach2 : reaches s s2) by (eapply reaches_trans; eauto).
      destruct tl.
      + (* TAIL-CALL *)
        destruct (frame_info s) as [[[[j rip] rself] rfp]|] eqn:Hfi.
        * set (base := below (fp s - j) (stk s)).
          destruct (call_closedA f IH s2 W2 cid cps cr cls cb cfv svs' cvars cels vargs vs base rfp rself rip cenv st2 v st'
                      Hag' Hnd Hndsv Hsvin Hfb Hown Hcvars Hcfv eq_refl HWc2 HI2 E1 Hfix Hvargs2 Hgl2 He)
            as (sc & W' & v' & g' & Hmc & HE' & HWc' & HI' & Hv' & Hg' & Hreach).
          exists W', v', g'. split; [eapply wext_trans; eauto|]. split; auto. split; auto. split; auto. split; [exact Hg'|].
          right. split; auto. intros j' rip' rself' rfp' Hq Hj. rewrite Hfi in Hq. injection Hq as <- <- <- <-.
          eapply reaches_trans; [exact Hreach2|].
          assert (Hfi2 : frame_info s2 = Some (j, rip, rself, rfp)).
          { eapply (frame_info_app s s2 (proc :: vargs)); eauto. }
          assert (Hlt : fp s < length (stk s)) by (eapply frame_info_lt; eauto).
          assert (Hn2 : length args <= length (vargs ++ stk s)) by (rewrite app_length; lia).
          pose proof (step_tail_call s2 _ _ _ proc (vargs ++ stk s) j rip rself rfp Hat3 Hstk2 Hfi2 Hn2 Hj) as Hstep.
          rewrite Hlargs, firstn_exact in Hstep.
          change (proc :: vargs ++ stk s) with ((proc :: vargs) ++ stk s) in Hstep.
          change (fp s2) with (fp s) in Hstep.
          rewrite below_app in Hstep by lia. fold base in Hstep.
          unfold proc in Hstep. rewrite Hmc in Hstep.
          eapply reaches_trans; [apply reaches_step; exact Hstep|]. exact Hreach.
        * destruct (call_closedA f IH s2 W2 cid cps cr cls cb cfv svs' cvars cels vargs vs [] 0 (VLit LVoid) 0 cenv st2 v st'
                      Hag' Hnd Hndsv Hsvin Hfb Hown Hcvars Hcfv eq_refl HWc2 HI2 E1 Hfix Hvargs2 Hgl2 He)
            as (sc & W' & v' & g' & _ & HE' & HWc' & HI' & Hv' & Hg' & _).
          exists W', v', g'. split; [eapply wext_trans; eauto|]. split; auto. split; auto. split; auto. split; [exact Hg'|].
          right. split; auto. intros j' rip' rself' rfp' Hq. rewrite Hfi in Hq. discriminate Hq.
      + (* CALL *)
        destruct (call_closedA f IH s2 W2 cid cps cr cls cb cfv svs' cvars cels vargs vs (stk s) (fp s) (self s) (S (ip s2)) cenv st2 v st'
                    Hag' Hnd Hndsv Hsvin Hfb Hown Hcvars Hcfv eq_refl HWc2 HI2 E1 Hfix Hvargs2 Hgl2 He)
          as (sc & W' & v' & g' & Hmc & HE' & HWc' & HI' & Hv' & Hg' & Hreach).
        exists W', v', g'. split; [eapply wext_trans; eauto|]. split; auto. split; auto. split; auto. split; [exact Hg'|].
        left. eapply reaches_trans; [exact Hreach2|].
        pose proof (step_call s2 _ _ _ proc (vargs ++ stk s) Hat3 Hstk2) as Hstep.
        rewrite Hlargs in Hstep. unfold proc in Hstep.
        change (fp s2) with (fp s) in Hstep. change (self s2) with (self s) in Hstep.
        rewrite Hmc in Hstep.
        eapply reaches_trans; [apply reaches_step; exact Hstep|].
        replace (fallH s v' pre (cargs ++ cg ++ [icall]) (wh W') g')
          with (mkst (v' :: stk s) (fp s) (self s) (S (ip s2)) (wh W') g'); [exact Hreach|].
        unfold fallH, upd. f_equal. unfold s2; simpl. solve_len.
    - (* OpApp *)
      simpl in Hp. apply andb_true_iff in Hp. destruct Hp as [Hp Hall]. apply andb_true_iff in Hp. destruct Hp as [Hpp Hlen].
      apply Nat.eqb_eq in Hlen. rewrite eval_OpApp in He.
      destruct args as [|a [|b [|c0 args]]]; simpl in Hlen.
      + destruct p; discriminate Hlen.
      + assert (Ha1 : prim_arity p = 1) by auto.
        assert (Hinv : (if prim_inverse p then [a] else rev [a]) = [a]) by (destruct (prim_inverse p); reflexivity).
        rewrite Hinv in He. simpl evlist in He. simpl in Hall. apply andb_true_iff in Hall. destruct Hall as [Hpa _].
        destruct (eval f a env st) as [va st1| |] eqn:Ea; try discriminate.
        assert (Hinv2 : (if prim_inverse p then [va] else rev [va]) = [va]) by (destruct (prim_inverse p); reflexivity).
        rewrite Hinv2 in He.
        destruct (prim_sem p [va]) as [[rv|]|] eqn:Eprim; try discriminate. inversion He; subst rv st'. clear He.
        rewrite gen_op1 in * by auto.
        set (ca := generate false svs (lctxA cur) a) in *.
        destruct Hat as [Hcode Hip].
        assert (Hat1 : at_code s pre ca ([IPrim p] ++ post)) by (split; auto; rewrite Hcode; norm_code).
        destruct (IH a cur env st va st1 Hpa Ea false svs s pre _ W Hag Hat1 HWh HWc HI Hok Hgl)
          as (W1 & v1 & g1 & HE1 & HWc1 & HI1 & Hv1 & Hg1 & Hout1).
        apply outcomeH_false in Hout1. fold ca in Hout1. set (s1 := fallH s v1 pre ca (wh W1) g1) in *.
        destruct (prim1_okW p _ _ _ _ (stk s) Ha1 Hv1 Eprim) as (r' & Hps & Hr).
        assert (Hat2 : at_code s1 (pre ++ ca) [IPrim p] post).
        { split; simpl; [|rewrite app_length; reflexivity]. rewrite Hcode. norm_code. }
        pose proof (step_prim s1 _ _ _ _ _ Hat2 Hps) as Hstep.
        exists W1, r', g1. split; auto. split; auto. split; auto. split; auto. split; [exact Hg1|].
        left. eapply reaches_trans; [exact Hout1|]. apply reaches_step. etransitivity; [exact Hstep|].
        unfold fallH, upd; simpl. f_equal. f_equal. solve_len.
      + assert (Ha2 : prim_arity p = 2) by auto.
        simpl in Hall. apply andb_true_iff in Hall. destruct Hall as [Hpa Hall].
        apply andb_true_iff in Hall. destruct Hall as [Hpb _].
        rewrite gen_op2 in * by auto.
        destruct Hat as [Hcode Hip].
        destruct (prim_inverse p) eqn:Einv.
        * simpl evlist in He.
          destruct (eval f a env st) as [va st1| |] eqn:Ea; try discriminate.
          destruct (eval f b env st1) as [vb st2| |] eqn:Eb; try discriminate.
          destruct (prim_sem p [va; vb]) as [[rv|]|] eqn:Eprim; try discriminate. inversion He; subst rv st'. clear He.
          set (ca := generate false svs (lctxA cur) a) in *. set (cb := generate false svs (lctxA cur) b) in *.
          assert (Hat1 : at_code s pre ca ((cb ++ [IPrim (prim_opcode p)]) ++ post)) by (split; auto; rewrite Hcode; norm_code).
          destruct (IH a cur env st va st1 Hpa Ea false svs s pre _ W Hag Hat1 HWh HWc HI Hok Hgl)
            as (W1 & v1 & g1 & HE1 & HWc1 & HI1 & Hv1 & Hg1 & Hout1).
          apply outcomeH_false in Hout1. fold ca in Hout1. set (s1 := fallH s v1 pre ca (wh W1) g1) in *.
          assert (Hat2 : at_code s1 (pre ++ ca) cb ([IPrim (prim_opcode p)] ++ post)).
          { split; simpl; [|rewrite app_length; reflexivity]. rewrite Hcode. norm_code. }
          assert (Hok1 : env_okA cur env W1 s1).
          { eapply (env_okA_mono cur env W W1 s s1 [v1]); eauto. }
          destruct (IH b cur env st1 vb st2 Hpb Eb false svs s1 _ _ W1 Hag Hat2 eq_refl HWc1 HI1 Hok1 Hg1)
            as (W2 & v2 & g2 & HE2 & HWc2 & HI2 & Hv2 & Hg2 & Hout2).
          apply outcomeH_false in Hout2. fold cb in Hout2. set (s2 := fallH s1 v2 (pre ++ ca) cb (wh W2) g2) in *.
          pose proof HI1 as (HB1 & _).
          assert (Hv1' : vrelW W2 v1 va) by (eapply vrelW_mono; eauto).
          destruct (prim2_okW p W2 v1 v2 va vb _ (stk s) HI2 Ha2 Hpp Hv1' Hv2 Eprim) as (r' & W3 & HE3 & HI3 & HWc3 & Hps & Hr).
          rewrite Einv in Hps.
          assert (Hat3 : at_code s2 (pre ++ ca ++ cb) [IPrim (prim_opcode p)] post).
          { split; simpl; [|solve_len]. rewrite Hcode. norm_code. }
          pose proof (step_prim s2 _ _ _ _ _ Hat3 Hps) as Hstep.
          exists W3, r', g2. split; [eapply wext_trans; [exact HE1|eapply wext_trans; eauto]|].
          split; [congruence|]. split; auto. split; auto. split; [exact (globrel_mono W2 W3 _ _ (proj1 HI2) HE3 Hg2)|].
          left. eapply reaches_trans; [exact Hout1|]. eapply reaches_trans; [exact Hout2|].
          apply reaches_step. etransitivity; [exact Hstep|]. unfold fallH, upd; simpl. f_equal. f_equal. solve_len.
        * simpl evlist in He.
          destruct (eval f b env st) as [vb st1| |] eqn:Eb; try discriminate.
          destruct (eval f a env st1) as [va st2| |] eqn:Ea; try discriminate.
          simpl rev in He.
          destruct (prim_sem p [va; vb]) as [[rv|]|] eqn:Eprim; try discriminate. inversion He; subst rv st'. clear He.
          set (ca := generate false svs (lctxA cur) a) in *. set (cb := generate false svs (lctxA cur) b) in *.
          assert (Hat1 : at_code s pre cb ((ca ++ [IPrim p]) ++ post)) by (split; auto; rewrite Hcode; norm_code).
          destruct (IH b cur env st vb st1 Hpb Eb false svs s pre _ W Hag Hat1 HWh HWc HI Hok Hgl)
            as (W1 & v1 & g1 & HE1 & HWc1 & HI1 & Hv1 & Hg1 & Hout1).
          apply outcomeH_false in Hout1. fold cb in Hout1. set (s1 := fallH s v1 pre cb (wh W1) g1) in *.
          assert (Hat2 : at_code s1 (pre ++ cb) ca ([IPrim p] ++ post)).
          { split; simpl; [|rewrite app_length; reflexivity]. rewrite Hcode. norm_code. }
          assert (Hok1 : env_okA cur env W1 s1).
          { eapply (env_okA_mono cur env W W1 s s1 [v1]); eauto. }
          destruct (IH a cur env st1 va st2 Hpa Ea false svs s1 _ _ W1 Hag Hat2 eq_refl HWc1 HI1 Hok1 Hg1)
            as (W2 & v2 & g2 & HE2 & HWc2 & HI2 & Hv2 & Hg2 & Hout2).
          apply outcomeH_false in Hout2. fold ca in Hout2. set (s2 := fallH s1 v2 (pre ++ cb) ca (wh W2) g2) in *.
          pose proof HI1 as (HB1 & _).
          assert (Hv1' : vrelW W2 v1 vb) by (eapply vrelW_mono; eauto).
          destruct (prim2_okW p W2 v2 v1 va vb _ (stk s) HI2 Ha2 Hpp Hv2 Hv1' Eprim) as (r' & W3 & HE3 & HI3 & HWc3 & Hps & Hr).
          rewrite Einv in Hps.
          assert (Hat3 : at_code s2 (pre ++ cb ++ ca) [IPrim p] post).
          { split; simpl; [|solve_len]. rewrite Hcode. norm_code. }
          pose proof (step_prim s2 _ _ _ _ _ Hat3 Hps) as Hstep.
          exists W3, r', g2. split; [eapply wext_trans; [exact HE1|eapply wext_trans; eauto]|].
          split; [congruence|]. split; auto. split; auto. split; [exact (globrel_mono W2 W3 _ _ (proj1 HI2) HE3 Hg2)|].
          left. eapply reaches_trans; [exact Hout1|]. eapply reaches_trans; [exact Hout2|].
          apply reaches_step. etransitivity; [exact Hstep|]. unfold fallH, upd; simpl. f_equal. f_equal. solve_len.
      + destruct p; discriminate Hlen.
  Qed.

  Lemma simA_all_le : forall f f', f' <= f -> forall e, simA_at f' e.
  Proof.
    induction f as [|f IH]; intros f' Hle e.
    - assert (f' = 0) by lia. subst. intros cur env st v st' _ He. discriminate He.
    - destruct (Nat.eq_dec f' (S f)) as [->|Hne].
      + apply simA_step. exact IH.
      + apply IH. lia.
  Qed.

  Theorem simA_all : forall f e, simA_at f e.
  Proof. intros f e. apply (simA_all_le f f (le_n f)). Qed.

End Full.

(* ------------------------------------------------------------------ closed forms *)

Theorem compile_correct_imperative_fragment : forall SV fuel e cur env st v st' tl svs s pre post W,
  fragA SV cur e = true ->
  eval fuel e env st = SVal v st' ->
  agrees SV svs ->
  code_of (self s) = pre ++ generate tl svs (lctxA cur) e ++ post -> ip s = length pre ->
  wh W = heap s -> wc W = cells st -> WINV SV W ->
  env_okA SV cur env W s -> globrel SV W (sglobals st) (globals s) ->
  exists W' v' gl', wext W W' /\ wc W' = cells st' /\ WINV SV W' /\ vrelW SV W' v' v /\
    globrel SV W' (sglobals st') gl' /\
    ((exists n, nsteps n s = Some (mkst (v' :: stk s) (fp s) (self s)
                                        (length pre + length (generate tl svs (lctxA cur) e)) (wh W') gl'))
     \/ (tl = true /\ forall j rip rself rfp, frame_info s = Some (j, rip, rself, rfp) -> j <= fp s ->
           exists n, nsteps n s = Some (mkst (v' :: below (fp s - j) (stk s)) rfp rself rip (wh W') gl'))).
Proof.
  intros SV fuel e cur env st v st' tl svs s pre post W Hp He Hag Hc Hi HWh HWc HI Hok Hgl.
  exact (simA_all SV fuel e cur env st v st' Hp He tl svs s pre post W Hag (conj Hc Hi) HWh HWc HI Hok Hgl).
Qed.

Lemma finish_returnH : forall s code v' h' g' j rip rself rfp,
  code_of (self s) = code ++ [IRet] -> ip s = 0 ->
  frame_info s = Some (j, rip, rself, rfp) -> j <= fp s ->
  outcomeH true s [] code v' h' g' ->
  reaches s (mkst (v' :: below (fp s - j) (stk s)) rfp rself rip h' g').
Proof.
  intros s code v' h' g' j rip rself rfp Hc Hi Hfi Hj [Hfall | [_ Hret]].
  - eapply reaches_trans; [exact Hfall|].
    set (se := fallH s v' [] code h' g') in *.
    assert (Hate : at_code se code [IRet] []).
    { split; [|reflexivity]. simpl. rewrite Hc. reflexivity. }
    assert (Hfie : frame_info se = Some (j, rip, rself, rfp)).
    { eapply (frame_info_app s se [v']); eauto. }
    pose proof (step_ret se _ _ v' (stk s) j rip rself rfp Hate eq_refl Hfie Hj) as Hstep.
    apply reaches_step. etransitivity; [exact Hstep|]. f_equal. f_equal. f_equal.
    change (v' :: stk s) with ([v'] ++ stk s). apply below_app.
    apply frame_info_lt in Hfi. change (fp se) with (fp s). lia.
  - exact (Hret j rip rself rfp Hfi Hj).
Qed.

(** end to end for one top-level expression, from any world whose invariant holds and that represents the globals; the
    final globals of the VM represent the SPEC's final globals (they change when a procedure assigns a global) *)
Theorem compile_correct_toplevel_expr_imperative : forall SV fuel e st v st' svs W gl,
  fragA SV None e = true ->
  eval fuel e [] st = SVal v st' ->
  agrees SV svs -> wc W = cells st -> WINV SV W ->
  globrel SV W (sglobals st) gl ->
  exists s0 n v' s' W',
    init_state (generate true svs None e ++ [IRet]) (wh W) gl = Next s0 /\
    run n s0 = Done v' s' /\ wext W W' /\ heap s' = wh W' /\ wc W' = cells st' /\ WINV SV W' /\
    vrelW SV W' v' v /\ globrel SV W' (sglobals st') (globals s').
Proof.
  intros SV fuel e st v st' svs W gl Hp He Hag HWc HI Hgl.
  set (code := generate true svs None e).
  set (base := [VLit LVoid; VLit LVoid; VLit LVoid; VLit LVoid]).
  set (s0 := mkst (vint 0 :: final_resumer :: vint 0 :: vint 0 :: base) (length base) (VProc 0 0 (code ++ [IRet]) (VLit LVoid)) 0 (wh W) gl).
  assert (Hinit : init_state (code ++ [IRet]) (wh W) gl = Next s0).
  { unfold init_state. rewrite make_call_fixed by (simpl; lia). reflexivity. }
  assert (Hat : at_code s0 [] (generate true svs (lctxA None) e) [IRet]) by (split; reflexivity).
  assert (Hok : env_okA SV None [] W s0).
  { split; intros id ps r lr ls fv Hc; discriminate Hc. }
  destruct (simA_all SV fuel e None [] st v st' Hp He true svs s0 [] [IRet] W Hag Hat eq_refl HWc HI Hok Hgl)
    as (W' & v' & g' & HE' & HWc' & HI' & Hv' & Hg' & Hout).
  assert (Hfi : frame_info s0 = Some (0, 0, final_resumer, 0)) by apply (frame_info_entry 0 final_resumer 0 0 base).
  pose proof (finish_returnH s0 code v' (wh W') g' 0 0 final_resumer 0 eq_refl eq_refl Hfi (Nat.le_0_l _) Hout) as [n Hn].
  set (t := mkst (v' :: below (fp s0 - 0) (stk s0)) 0 final_resumer 0 (wh W') g') in *.
  exists s0, (n + 1), v', t, W'. split; [exact Hinit|].
  split; [rewrite (run_nsteps n 1 s0 t Hn); reflexivity|].
  split; [exact HE'|]. split; [reflexivity|]. split; [exact HWc'|]. split; [exact HI'|]. split; [exact Hv'|exact Hg'].
Qed.

(* ------------------------------------------------------------------ the live-rest bookkeeping excludes nothing *)

Section PlainFragment.
  Variable SV : nat -> list name.

  (** [fragP]: the plain reading of the fragment -- every frame variable, the rest parameter included, is resolvable *)
  Fixpoint fragP (cur : fctxA) (e : ast) {struct e} : bool :=
    match e with
    | Lit _ => true
    | Ref x Global => true
    | Ref x (Local m) => resolvableA cur x m
    | SetV x (Local m) v => resolvableA cur x m && boxedv SV x m && fragP cur v
    | SetV x Global v => fragP cur v
    | Cnd t p f => fragP cur t && fragP cur p && fragP cur f
    | Seq es => match es with [] => false | _ :: _ => forallb (fragP cur) es end
    | OpApp p args => pure_prim p && Nat.eqb (length args) (prim_arity p) && forallb (fragP cur) args
    | Lam id ps r ls sv fv b =>
        nodupb (frame_vars ps r ls) && names_eqb sv (SV id) && nodupb sv
        && forallb (fun x => memn x (ps ++ rest_list r ++ ls)) sv
        && fv_okA cur id fv && fragP (Some (id, ps, r, rest_list r, ls, fv)) b
    | App f args => fragP cur f && forallb (fragP cur) args
    end.

  (** the annotations only list variables that occur: an sv variable is mentioned in its lambda's body, an fv entry
      is mentioned in the body of the lambda that captures it (what eval.c's analyser and free-variable pass produce) *)
  Fixpoint annot_ok (e : ast) {struct e} : bool :=
    match e with
    | Lit _ | Ref _ _ => true
    | SetV _ _ v => annot_ok v
    | Cnd t p f => annot_ok t && annot_ok p && annot_ok f
    | Seq es => forallb annot_ok es
    | Lam id ps r ls sv fv b =>
        forallb (fun x => mentions id x b) sv
        && forallb (fun p => match snd p with Local m => mentions m (fst p) b | Global => true end) fv
        && annot_ok b
    | App f args => annot_ok f && forallb annot_ok args
    | OpApp _ args => forallb annot_ok args
    end.

  Definition dead_ok (curP curA : fctxA) (e : ast) : Prop :=
    match curP, curA with
    | None, None => True
    | Some (id, ps, r, lp, ls, fv), Some (id', ps', r', la, ls', fv') =>
        id' = id /\ ps' = ps /\ r' = r /\ ls' = ls /\ fv' = fv /\
        forall x, memn x lp = true -> memn x la = false -> mentions id x e = false
    | _, _ => False
    end.

  Lemma dead_ok_sub : forall curP curA e e',
    (forall id x, mentions id x e = false -> mentions id x e' = false) -> dead_ok curP curA e -> dead_ok curP curA e'.
  Proof.
    intros [[[[[[id ps] r] lp] ls] fv]|] [[[[[[id' ps'] r'] la] ls'] fv']|] e e' Hs H; simpl in *; auto.
    destruct H as (-> & -> & -> & -> & -> & H). repeat split; auto.
  Qed.

  Lemma resolvable_sub : forall curP curA e x m, dead_ok curP curA e -> mentions m x e = true ->
    resolvableA curP x m = true -> resolvableA curA x m = true.
  Proof.
    intros [[[[[[id ps] r] lp] ls] fv]|] [[[[[[id' ps'] r'] la] ls'] fv']|] e x m H Hm Hr; simpl in *;
      try discriminate; try contradiction.
    destruct H as (-> & -> & -> & -> & -> & H).
    destruct (Nat.eqb m id) eqn:E; auto. apply Nat.eqb_eq in E. subst m.
    rewrite !memn_app in Hr |- *. apply orb_true_iff in Hr. destruct Hr as [Hr|Hr]; [rewrite Hr; reflexivity|].
    apply orb_true_iff in Hr. destruct Hr as [Hr|Hr]; [|rewrite Hr; rewrite !orb_true_r; reflexivity].
    destruct (memn x la) eqn:Ela; [rewrite orb_true_r; reflexivity|].
    rewrite (H x Hr Ela) in Hm. discriminate Hm.
  Qed.

  Lemma existsb_false_In : forall {A} (f : A -> bool) l a, existsb f l = false -> In a l -> f a = false.
  Proof.
    intros A f l a H Hin. destruct (f a) eqn:E; auto.
    assert (existsb f l = true) by (apply existsb_exists; exists a; auto). congruence.
  Qed.

  Lemma forallb_sub : forall (P Q : ast -> bool) l,
    Forall (fun e => P e = true -> Q e = true) l -> forallb P l = true -> forallb Q l = true.
  Proof.
    intros P Q l H. induction H as [|x r Hx Hr IH]; simpl; auto.
    intro Hp. apply andb_true_iff in Hp. destruct Hp as [H1 H2]. rewrite (Hx H1), (IH H2). reflexivity.
  Qed.

  Lemma fragP_fragA_gen : forall e curP curA,
    fragP curP e = true -> annot_ok e = true -> dead_ok curP curA e -> fragA SV curA e = true.
  Proof.
    induction e as [l | x o | x o v IHv | t p f IHt IHp IHf | es IHes | id ps r ls sv fv b IHb | g args IHg IHargs | p args IHargs]
      using ast_ind'; intros curP curA H Ha Hd.
    - reflexivity.
    - (* Ref *)
      destruct o as [|m]; [reflexivity|]. simpl in H |- *.
      apply (resolvable_sub curP curA (Ref x (Local m)) x m Hd); auto.
      simpl. rewrite !Nat.eqb_refl. reflexivity.
    - (* SetV *)
      destruct o as [|m].
      { simpl in H, Ha |- *. apply (IHv curP curA H Ha). eapply dead_ok_sub; [|exact Hd].
        intros id0 y Hm. simpl in Hm. apply orb_false_iff in Hm. tauto. }
      simpl in H, Ha |- *.
      apply andb_true_iff in H. destruct H as [H Hv]. apply andb_true_iff in H. destruct H as [Hr Hb].
      rewrite Hb, andb_true_r. apply andb_true_iff. split.
      + apply (resolvable_sub curP curA (SetV x (Local m) v) x m Hd); auto.
        simpl. rewrite !Nat.eqb_refl. reflexivity.
      + apply (IHv curP curA Hv Ha). eapply dead_ok_sub; [|exact Hd].
        intros id0 y Hm. simpl in Hm. apply orb_false_iff in Hm. tauto.
    - (* Cnd *)
      simpl in H, Ha |- *.
      apply andb_true_iff in H. destruct H as [H H3]. apply andb_true_iff in H. destruct H as [H1 H2].
      apply andb_true_iff in Ha. destruct Ha as [Ha Ha3]. apply andb_true_iff in Ha. destruct Ha as [Ha1 Ha2].
      rewrite (IHt curP curA H1 Ha1), (IHp curP curA H2 Ha2), (IHf curP curA H3 Ha3); auto;
        (eapply dead_ok_sub; [|exact Hd]); intros id0 y Hm; simpl in Hm;
        apply orb_false_iff in Hm; destruct Hm as [Hm Hm3]; apply orb_false_iff in Hm; tauto.
    - (* Seq *)
      simpl in H, Ha |- *. destruct es as [|a r0]; [discriminate H|].
      refine (forallb_sub (fragP curP) (fragA SV curA) (a :: r0) _ H).
      rewrite Forall_forall in IHes |- *. intros e0 Hin He0. apply (IHes e0 Hin curP curA He0).
      + rewrite forallb_forall in Ha. apply Ha. exact Hin.
      + eapply dead_ok_sub; [|exact Hd]. intros id0 y Hm. exact (existsb_false_In (mentions id0 y) _ e0 Hm Hin).
    - (* Lam *)
      rewrite fragA_Lam. simpl in H, Ha.
      apply andb_true_iff in H. destruct H as [H Hfb]. apply andb_true_iff in H. destruct H as [H Hfvok].
      apply andb_true_iff in H. destruct H as [H Hsvin]. rewrite H. simpl.
      apply andb_true_iff in Ha. destruct Ha as [Ha Hab]. apply andb_true_iff in Ha. destruct Ha as [Hasv Hafv].
      assert (Hdead : forall y, memn y (rest_list r) = true -> memn y (live_of SV id r b) = false -> mentions id y b = false).
      { intros y Hy Hl. unfold live_of in Hl. destruct (rest_unused_p true id r (SV id) b) eqn:Eu; [|congruence].
        destruct r as [z|]; [|discriminate Hy]. simpl in Hy. rewrite orb_false_r in Hy. apply Nat.eqb_eq in Hy. subst y.
        exact (proj1 (Proofs.rest_unused_p_sound id z (SV id) b Eu)). }
      apply andb_true_iff. split; [apply andb_true_iff; split|].
      + (* sv only lists variables that have a slot *)
        apply forallb_forall. intros y Hy. rewrite forallb_forall in Hsvin, Hasv.
        specialize (Hsvin y Hy). specialize (Hasv y Hy).
        rewrite !memn_app in Hsvin |- *. apply orb_true_iff in Hsvin. destruct Hsvin as [Hs|Hs]; [rewrite Hs; reflexivity|].
        apply orb_true_iff in Hs. destruct Hs as [Hs|Hs]; [|rewrite Hs; rewrite !orb_true_r; reflexivity].
        destruct (memn y (live_of SV id r b)) eqn:El; [rewrite orb_true_r; reflexivity|].
        rewrite (Hdead y Hs El) in Hasv. discriminate Hasv.
      + (* captured variables are fetchable *)
        unfold fv_okA in *. apply forallb_forall. intros q Hq. rewrite forallb_forall in Hfvok, Hafv.
        specialize (Hfvok q Hq). specialize (Hafv q Hq).
        destruct (snd q) as [|m]; [discriminate Hfvok|].
        apply andb_true_iff in Hfvok. destruct Hfvok as [Hne Hres]. rewrite Hne. simpl.
        apply (resolvable_sub curP curA (Lam id ps r ls sv fv b) (fst q) m Hd); auto.
      + apply (IHb (Some (id, ps, r, rest_list r, ls, fv)) (Some (id, ps, r, live_of SV id r b, ls, fv)) Hfb Hab).
        simpl. repeat split; auto.
    - (* App *)
      simpl in H, Ha |- *. apply andb_true_iff in H. destruct H as [H1 H2]. apply andb_true_iff in Ha. destruct Ha as [Ha1 Ha2].
      apply andb_true_iff. split.
      + apply (IHg curP curA H1 Ha1). eapply dead_ok_sub; [|exact Hd].
        intros id0 y Hm. change (mentions id0 y g || existsb (mentions id0 y) args = false) in Hm.
        apply orb_false_iff in Hm. tauto.
      + refine (forallb_sub (fragP curP) (fragA SV curA) args _ H2).
        rewrite Forall_forall in IHargs |- *. intros e0 Hin He0. apply (IHargs e0 Hin curP curA He0).
        * rewrite forallb_forall in Ha2. apply Ha2. exact Hin.
        * eapply dead_ok_sub; [|exact Hd]. intros id0 y Hm.
          change (mentions id0 y g || existsb (mentions id0 y) args = false) in Hm. apply orb_false_iff in Hm.
          destruct Hm as [_ Hm]. exact (existsb_false_In (mentions id0 y) _ e0 Hm Hin).
    - (* OpApp *)
      simpl in H, Ha |- *. apply andb_true_iff in H. destruct H as [H1 H2]. rewrite H1. simpl.
      refine (forallb_sub (fragP curP) (fragA SV curA) args _ H2).
      rewrite Forall_forall in IHargs |- *. intros e0 Hin He0. apply (IHargs e0 Hin curP curA He0).
      + rewrite forallb_forall in Ha. apply Ha. exact Hin.
      + eapply dead_ok_sub; [|exact Hd]. intros id0 y Hm. exact (existsb_false_In (mentions id0 y) _ e0 Hm Hin).
  Qed.

  (** every top-level expression of the plain fragment whose annotations list only occurring variables is in [fragA]:
      a rest parameter the compiler leaves without a slot (UNUSED_REST) is never mentioned, by [Proofs.rest_unused_sound] *)
  Theorem fragP_fragA : forall e, fragP None e = true -> annot_ok e = true -> fragA SV None e = true.
  Proof. intros e H Ha. exact (fragP_fragA_gen e None None H Ha I). Qed.

End PlainFragment.

(* ------------------------------------------------------------------ the hypotheses are satisfiable *)

(** ((lambda (n)
        (define acc '())
        (define (loop i) (if (< i 1) acc (begin (set! acc (cons i acc)) (loop (- i 1)))))
        (loop n))
     3)   =>  (1 2 3)
    internal defines (boxed), a local recursive procedure that captures its own box and the box of acc, assignment to a
    captured variable, tail calls *)
Module ExampleFull.
  Definition SV0 : nat -> list name := fun m => if Nat.eqb m 1 then [1; 2] else [].
  Definition loop_body : ast :=
    Cnd (OpApp PLt [Ref 3 (Local 2); Lit (LInt 1)]) (Ref 2 (Local 1))
        (Seq [SetV 2 (Local 1) (OpApp PCons [Ref 3 (Local 2); Ref 2 (Local 1)]);
              App (Ref 1 (Local 1)) [OpApp PSub [Ref 3 (Local 2); Lit (LInt 1)]]]).
  Definition outer : ast :=
    Lam 1 [0] None [1; 2] [1; 2] []
        (Seq [SetV 2 (Local 1) (Lit LNil);
              SetV 1 (Local 1) (Lam 2 [3] None [] [] [(1, Local 1); (2, Local 1)] loop_body);
              App (Ref 1 (Local 1)) [Ref 0 (Local 1)]]).
  Definition e0 : ast := App outer [Lit (LInt 3)].
  Definition W0 : world := mkW [] [] (fun _ => None).
  Definition st0 : sstore := mkstore [] [].

  Example frag_e0 : fragA SV0 None e0 = true.
  Proof. reflexivity. Qed.

  Definition expected : sval := slist [SLit (LInt 1); SLit (LInt 2); SLit (LInt 3)].

  Example eval_e0 : exists st', eval 40 e0 [] st0 = SVal expected st'.
  Proof. eexists. vm_compute. reflexivity. Qed.

  Example winv0 : WINV SV0 W0.
  Proof. split; [|split]; intros; simpl in *; discriminate. Qed.

  Example end_to_end : exists s0 n v' s' W' st',
    init_state (generate true SV0 None e0 ++ [IRet]) [] [] = Next s0 /\
    run n s0 = Done v' s' /\ heap s' = wh W' /\ vrelW SV0 W' v' expected /\ wc W' = cells st'.
  Proof.
    destruct eval_e0 as [st' He].
    destruct (compile_correct_toplevel_expr_imperative SV0 40 e0 st0 _ st' SV0 W0 [] frag_e0 He (fun m => eq_refl) eq_refl winv0)
      as (s0 & n & v' & s' & W' & Hi & Hr & _ & Hh & Hc & _ & Hv & _).
    { intros g w Hg. discriminate Hg. }
    exists s0, n, v', s', W', st'. auto.
  Qed.

  (** and observed directly on the model VM *)
  Example run_e0 : exists s0 v' s', init_state (generate true SV0 None e0 ++ [IRet]) [] [] = Next s0 /\
                                    run 400 s0 = Done v' s'.
  Proof. eexists. eexists. eexists. split; vm_compute; reflexivity. Qed.
End ExampleFull.

(** ((lambda (f g) (cons (g 7 8 9) (cons (g 4) (cons (f 1) (f 1 2 3)))))
       (lambda (a . r) (define (get) r) (set! r (cons a r)) (get))
       (lambda (a . r) a))                                              =>  (7 4 (1) 1 2 3)
    f: the rest parameter is assigned (boxed by the entry code), captured by the inner closure [get] (through its box)
       and read back after the assignment; called with no surplus argument ('() is inserted) and with two (the list is
       consed by make_call).  g: flagged UNUSED_REST, the surplus arguments stay on the stack and are popped by RET. *)
Module ExampleRest.
  Definition SV0 : nat -> list name := fun m => if Nat.eqb m 1 then [1; 2] else [].
  Definition f_lam : ast :=
    Lam 1 [0] (Some 1) [2] [1; 2] []
        (Seq [SetV 2 (Local 1) (Lam 2 [] None [] [] [(1, Local 1)] (Ref 1 (Local 1)));
              SetV 1 (Local 1) (OpApp PCons [Ref 0 (Local 1); Ref 1 (Local 1)]);
              App (Ref 2 (Local 1)) []]).
  Definition g_lam : ast := Lam 3 [6] (Some 7) [] [] [] (Ref 6 (Local 3)).
  Definition ints (l : list Z) : list ast := map (fun z => Lit (LInt z)) l.
  Definition e0 : ast :=
    App (Lam 0 [4; 5] None [] [] []
           (OpApp PCons [App (Ref 5 (Local 0)) (ints [7; 8; 9]%Z);
              OpApp PCons [App (Ref 5 (Local 0)) (ints [4]%Z);
                OpApp PCons [App (Ref 4 (Local 0)) (ints [1]%Z); App (Ref 4 (Local 0)) (ints [1; 2; 3]%Z)]]]))
        [f_lam; g_lam].
  Definition W0 : world := mkW [] [] (fun _ => None).
  Definition st0 : sstore := mkstore [] [].
  Definition ilist (l : list Z) : sval := slist (map (fun z => SLit (LInt z)) l).

  (** the compiler flags g UNUSED_REST and f not *)
  Example flags : lam_flags_sv 3 (Some 7) [] (Ref 6 (Local 3)) = 3 /\
                  match f_lam with Lam id _ r _ sv _ b => lam_flags_sv id r sv b | _ => 0 end = 1.
  Proof. split; reflexivity. Qed.

  Example frag_e0 : fragA SV0 None e0 = true.
  Proof. reflexivity. Qed.

  (** the plain reading of the fragment and the annotation check hold too ([fragP_fragA] then gives [frag_e0]) *)
  Example plain_e0 : fragP SV0 None e0 = true /\ annot_ok e0 = true.
  Proof. split; reflexivity. Qed.

  Definition expected : sval :=
    SPair (SLit (LInt 7)) (SPair (SLit (LInt 4)) (SPair (ilist [1]%Z) (ilist [1; 2; 3]%Z))).

  Example eval_e0 : exists st', eval 40 e0 [] st0 = SVal expected st'.
  Proof. eexists. vm_compute. reflexivity. Qed.

  Example winv0 : WINV SV0 W0.
  Proof. split; [|split]; intros; simpl in *; discriminate. Qed.

  (** the analyser's free-variable pass leaves the fv annotations of e0 unchanged: e0 is in the form [compile_toplevel] compiles *)
  Example annotated : annotate e0 = e0.
  Proof. reflexivity. Qed.

  Lemma end_to_end_gen : forall e want, fragA SV0 None e = true -> (exists st', eval 40 e [] st0 = SVal want st') ->
    exists s0 n v' s' W' st',
      init_state (generate true SV0 None e ++ [IRet]) [] [] = Next s0 /\
      run n s0 = Done v' s' /\ heap s' = wh W' /\ vrelW SV0 W' v' want /\ wc W' = cells st'.
  Proof.
    intros e want Hf [st' He].
    destruct (compile_correct_toplevel_expr_imperative SV0 40 e st0 _ st' SV0 W0 [] Hf He (fun m => eq_refl) eq_refl winv0)
      as (s0 & n & v' & s' & W' & Hi & Hr & _ & Hh & Hc & _ & Hv & _).
    { intros g w Hg. discriminate Hg. }
    exists s0, n, v', s', W', st'. auto.
  Qed.

  Example end_to_end : exists s0 n v' s' W' st',
    init_state (generate true SV0 None e0 ++ [IRet]) [] [] = Next s0 /\
    run n s0 = Done v' s' /\ heap s' = wh W' /\ vrelW SV0 W' v' expected /\ wc W' = cells st'.
  Proof. exact (end_to_end_gen e0 expected frag_e0 eval_e0). Qed.

  (** TAIL calls with surplus arguments: ((lambda (f g) (g 7 8 9)) f g) => 7 (UNUSED_REST: TAIL-CALL moves all three
      arguments, RET pops them by the count in the header), ((lambda (f g) (f 1 2 3)) f g) => (1 2 3) *)
  Definition e1 : ast := App (Lam 0 [4; 5] None [] [] [] (App (Ref 5 (Local 0)) (ints [7; 8; 9]%Z))) [f_lam; g_lam].
  Definition e2 : ast := App (Lam 0 [4; 5] None [] [] [] (App (Ref 4 (Local 0)) (ints [1; 2; 3]%Z))) [f_lam; g_lam].

  Example end_to_end_tail_unused : exists s0 n v' s' W' st',
    init_state (generate true SV0 None e1 ++ [IRet]) [] [] = Next s0 /\
    run n s0 = Done v' s' /\ heap s' = wh W' /\ vrelW SV0 W' v' (SLit (LInt 7)) /\ wc W' = cells st'.
  Proof. apply end_to_end_gen; [reflexivity|]. eexists. vm_compute. reflexivity. Qed.

  Example end_to_end_tail_rest : exists s0 n v' s' W' st',
    init_state (generate true SV0 None e2 ++ [IRet]) [] [] = Next s0 /\
    run n s0 = Done v' s' /\ heap s' = wh W' /\ vrelW SV0 W' v' (ilist [1; 2; 3]%Z) /\ wc W' = cells st'.
  Proof. apply end_to_end_gen; [reflexivity|]. eexists. vm_compute. reflexivity. Qed.

  (** observed directly on the model VM: the result is the list (7 4 (1) 1 2 3) laid out in the final heap *)
  Fixpoint decode (fuel : nat) (h : list hobj) (v : value) : option sval :=
    match fuel with
    | 0 => None
    | S k =>
        match v with
        | VLit l => Some (SLit l)
        | VPair a =>
            match nth_error h a with
            | Some (HPair x y) =>
                match decode k h x, decode k h y with Some p, Some q => Some (SPair p q) | _, _ => None end
            | _ => None
            end
        | _ => None
        end
    end.

  Example run_e0 : exists s0 v' s', init_state (generate true SV0 None e0 ++ [IRet]) [] [] = Next s0 /\
                                    run 400 s0 = Done v' s' /\ decode 20 (heap s') v' = Some expected.
  Proof.
    eexists. eexists. eexists. split; [|split].
    - vm_compute. reflexivity.
    - vm_compute. reflexivity.
    - vm_compute. reflexivity.
  Qed.

  Example run_e1 : exists s0 s', init_state (generate true SV0 None e1 ++ [IRet]) [] [] = Next s0 /\
                                 run 400 s0 = Done (VLit (LInt 7)) s'.
  Proof.
    eexists. eexists. split.
    - vm_compute. reflexivity.
    - vm_compute. reflexivity.
  Qed.

  Example run_e2 : exists s0 v' s', init_state (generate true SV0 None e2 ++ [IRet]) [] [] = Next s0 /\
                                    run 400 s0 = Done v' s' /\ decode 20 (heap s') v' = Some (ilist [1; 2; 3]%Z).
  Proof.
    eexists. eexists. eexists. split; [|split].
    - vm_compute. reflexivity.
    - vm_compute. reflexivity.
    - vm_compute. reflexivity.
  Qed.
End ExampleRest.
