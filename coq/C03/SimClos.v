(** C03 — compile_correct for the purely functional fragment: SimRest.v (calls, rest parameters) extended to
    CLOSURES WITH FREE LOCAL VARIABLES: creation (MAKE-VECTOR, the fill loop LOCAL-REF/CLOSURE-REF; PUSH k;
    STACK-REF 3; VECTOR-SET, MAKE-PROCEDURE), references through CLOSURE-REF, calls of such closures.

    Fragment [fragF cur e] (cur = id, parameters, rest, slot-less variables and FREE-VARIABLE LIST of the lambda
    whose body e belongs to): as [SimRest.fragR]; additionally a reference to a variable of an enclosing lambda is
    allowed when it is in the current lambda's fv list, and a lambda expression may have any fv list whose entries
    can be fetched in the current context ([fv_ok]).  (That the analyser's fv list contains every free variable is
    theorem free_vars_complete; here it is the side condition [fragF] checks.)  No set!, so nothing is boxed and a
    captured variable is copied by value, which is what the SPEC's store also says as long as nothing is assigned.

    A SPEC closure refers to its free variables through LOCATIONS in the store; the value relation therefore takes
    the store's cells as a parameter and is an inductive predicate nested through Forall2. *)
From Coq Require Import ZArith List Bool Arith Lia.
From ChibiV Require Import C03.Defs C03.Model C03.Spec C03.Proofs C03.Simulation C03.SimCalls C03.SimBoxes C03.SimRest.
Import ListNotations.
Local Open Scope nat_scope.

Definition fctxF := option (nat * list name * option name * list name * list vref).

Definition lctxF (cur : fctxF) : option lctx :=
  match cur with Some (id, ps, r, _, fv) => Some (mk_lctx id ps r [] fv) | None => None end.

Definition in_fv (p : vref) (fv : list vref) : bool := existsb (vref_eqb p) fv.

(** a variable x owned by lambda m can be fetched in context cur: own live parameter, or listed free variable *)
Definition resolvable (cur : fctxF) (x : name) (m : nat) : bool :=
  match cur with
  | Some (id, ps, r, dead, fv) =>
      if Nat.eqb m id then memn x (ps ++ rest_list r) && negb (memn x dead) else in_fv (x, Local m) fv
  | None => false
  end.

Definition fv_ok (cur : fctxF) (id : nat) (fv : list vref) : bool :=
  forallb (fun p => match snd p with
                    | Local m => negb (Nat.eqb m id) && resolvable cur (fst p) m
                    | Global => false
                    end) fv.

Fixpoint fragF (cur : fctxF) (e : ast) {struct e} : bool :=
  match e with
  | Lit _ => true
  | Ref x Global => true
  | Ref x (Local m) => resolvable cur x m
  | Cnd t p f => fragF cur t && fragF cur p && fragF cur f
  | Seq es => match es with [] => false | _ :: _ => forallb (fragF cur) es end
  | OpApp p args => pure_prim p && Nat.eqb (length args) (prim_arity p) && forallb (fragF cur) args
  | Lam id ps r [] [] fv b =>
      nodupb (ps ++ rest_list r) && fv_ok cur id fv && fragF (Some (id, ps, r, dead_of id r b, fv)) b
  | App f args => fragF cur f && forallb (fragF cur) args
  | _ => false
  end.

Definition closedF (svs : nat -> list name) (id : nat) (ps : list name) (r : option name) (fv : list vref) (b : ast) : code :=
  generate true svs (Some (mk_lctx id ps r [] fv)) b ++ [IRet].

(** the closure vector of a procedure with free-variable list fv (none when fv is empty: PUSH of a literal procedure) *)
Definition vars_ok (h : list hobj) (fv : list vref) (vars : value) (els : list value) : Prop :=
  match fv with
  | [] => vars = VLit LVoid /\ els = []
  | _ :: _ => exists a, vars = VVec a /\ nth_error h a = Some (HVec els)
  end.

Inductive vrelF (h : list hobj) (cs : list sval) : value -> sval -> Prop :=
| VF_lit : forall l, vrelF h cs (VLit l) (SLit l)
| VF_pair : forall a vx vy x y,
    nth_error h a = Some (HPair vx vy) -> vrelF h cs vx x -> vrelF h cs vy y -> vrelF h cs (VPair a) (SPair x y)
| VF_clo : forall id ps r b cenv fv svs' vars els,
    nodupb (ps ++ rest_list r) = true ->
    fragF (Some (id, ps, r, dead_of id r b, fv)) b = true ->
    unboxed svs' ->
    (forall p, In p fv -> exists m, snd p = Local m /\ m <> id) ->
    vars_ok h fv vars els ->
    Forall2 (fun p v => exists loc w, env_lookup p cenv = Some loc /\ nth_error cs loc = Some w /\ vrelF h cs v w) fv els ->
    vrelF h cs (VProc (lam_flags id r b) (length ps) (closedF svs' id ps r fv b) vars) (SClo id ps r [] b cenv).

Definition fvrel (h : list hobj) (cs : list sval) (env : senv) (fv : list vref) (els : list value) : Prop :=
  Forall2 (fun p v => exists loc w, env_lookup p env = Some loc /\ nth_error cs loc = Some w /\ vrelF h cs v w) fv els.

Lemma vars_ok_ext : forall h h' fv vars els, vars_ok h fv vars els -> vars_ok (h ++ h') fv vars els.
Proof.
  intros h h' fv vars els H. destruct fv; simpl in *; auto. destruct H as (a & -> & Hn). exists a. split; auto.
  rewrite nth_error_app1; auto. apply nth_error_Some; congruence.
Qed.

Lemma vrelF_ext : forall h cs h' cs' v w, vrelF h cs v w -> vrelF (h ++ h') (cs ++ cs') v w.
Proof.
  intros h cs h' cs'. fix IH 3. intros v w H.
  destruct H as [l | a vx vy x y Hn H1 H2 | id ps r b cenv fv svs' vars els Hnd Hfr Hub Hown Hvars HF].
  - constructor.
  - econstructor; eauto. rewrite nth_error_app1; auto. apply nth_error_Some; congruence.
  - assert (HF' : Forall2 (fun p v => exists loc w, env_lookup p cenv = Some loc /\ nth_error (cs ++ cs') loc = Some w
                                       /\ vrelF (h ++ h') (cs ++ cs') v w) fv els).
    { clear - IH HF. revert fv els HF. fix IH2 3. intros fv els HF. destruct HF as [|p v0 fvr elr Hp Hr]; constructor.
      * destruct Hp as (loc & w0 & Hl & Hc & Hv). exists loc, w0. repeat split; auto.
        rewrite nth_error_app1; auto. apply nth_error_Some; congruence.
      * apply IH2. exact Hr. }
    econstructor; eauto using vars_ok_ext.
Qed.

Lemma vrelF_ext_h : forall h cs h' v w, vrelF h cs v w -> vrelF (h ++ h') cs v w.
Proof. intros h cs h' v w H. rewrite <- (app_nil_r cs). apply vrelF_ext. exact H. Qed.

Lemma vrelF_ext_c : forall h cs cs' v w, vrelF h cs v w -> vrelF h (cs ++ cs') v w.
Proof. intros h cs cs' v w H. rewrite <- (app_nil_r h). apply vrelF_ext. exact H. Qed.

Lemma Forall2_vrelF_ext : forall h cs h' cs' vs ws,
  Forall2 (vrelF h cs) vs ws -> Forall2 (vrelF (h ++ h') (cs ++ cs')) vs ws.
Proof. induction 1; constructor; auto using vrelF_ext. Qed.

Lemma fvrel_ext : forall h cs h' cs' env fv els, fvrel h cs env fv els -> fvrel (h ++ h') (cs ++ cs') env fv els.
Proof.
  unfold fvrel. induction 1 as [|p v fvr elr Hp Hr IH]; constructor; auto.
  destruct Hp as (loc & w0 & Hl & Hc & Hv). exists loc, w0. repeat split; auto using vrelF_ext.
  rewrite nth_error_app1; auto. apply nth_error_Some; congruence.
Qed.

Lemma vrelF_lit_inv : forall h cs v l, vrelF h cs v (SLit l) -> v = VLit l.
Proof. intros h cs v l H. inversion H; reflexivity. Qed.

Lemma vrelF_pair_inv : forall h cs v x y, vrelF h cs v (SPair x y) ->
  exists a vx vy, v = VPair a /\ nth_error h a = Some (HPair vx vy) /\ vrelF h cs vx x /\ vrelF h cs vy y.
Proof. intros h cs v x y H. inversion H; subst. eauto 8. Qed.

Lemma vrelF_clo_proc : forall h cs v id ps r ls b cenv, vrelF h cs v (SClo id ps r ls b cenv) ->
  exists fl n c vars, v = VProc fl n c vars.
Proof. intros h cs v id ps r ls b cenv H. inversion H; subst. eauto. Qed.

(* ------------------------------------------------------------------ primitives under vrelF *)

Lemma prim1_okF : forall p h cs v w r stk0,
  prim_arity p = 1 -> vrelF h cs v w -> prim_sem p [w] = inl (Some r) ->
  exists r', prim_step p (v :: stk0) h = inl (Some (r' :: stk0, h)) /\ vrelF h cs r' r.
Proof.
  intros p h cs v w r stk0 Ha Hv Hs.
  destruct w as [l | x y | id ps rr ls b env].
  - apply vrelF_lit_inv in Hv. subst v.
    destruct p; try discriminate Ha; simpl in Hs; try discriminate; inversion Hs; subst; simpl;
      eexists; split; try reflexivity; try (destruct l as [z|[|]| | | | |o|nd]; constructor).
  - destruct (vrelF_pair_inv _ _ _ _ _ Hv) as (a & vx & vy & -> & Hn & H1 & H2).
    destruct p; try discriminate Ha; simpl in Hs; try discriminate; inversion Hs; subst; simpl; rewrite ?Hn;
      eexists; split; try reflexivity; auto; constructor.
  - destruct (vrelF_clo_proc _ _ _ _ _ _ _ _ _ Hv) as (fl & n & c & vars & ->).
    destruct p; try discriminate Ha; simpl in Hs; try discriminate; inversion Hs; subst; simpl;
      eexists; split; try reflexivity; constructor.
Qed.

Lemma prim2_okF : forall p h cs v1 v2 w1 w2 r stk0,
  prim_arity p = 2 -> pure_prim p = true -> vrelF h cs v1 w1 -> vrelF h cs v2 w2 ->
  prim_sem p [w1; w2] = inl (Some r) ->
  exists r' hx,
    (if prim_inverse p then prim_step (prim_opcode p) (v2 :: v1 :: stk0) h
     else prim_step p (v1 :: v2 :: stk0) h) = inl (Some (r' :: stk0, h ++ hx))
    /\ vrelF (h ++ hx) cs r' r.
Proof.
  intros p h cs v1 v2 w1 w2 r stk0 Ha Hp H1 H2 Hs.
  destruct p; try discriminate Ha; try discriminate Hp.
  all: try (destruct w1 as [[a| | | | | | |] | |]; simpl in Hs; try discriminate;
            destruct w2 as [[b| | | | | | |] | |]; simpl in Hs; try discriminate;
            apply vrelF_lit_inv in H1; apply vrelF_lit_inv in H2; subst; inversion Hs; subst; simpl;
            eexists; exists []; rewrite app_nil_r; split; [reflexivity | constructor]).
  simpl in Hs. inversion Hs; subst. simpl. eexists; exists [HPair v1 v2]. split; [reflexivity|].
  econstructor; eauto using vrelF_ext_h.
  rewrite nth_error_app2 by lia. rewrite Nat.sub_diag. reflexivity.
Qed.

Lemma sval_false_decF : forall h cs v w, vrelF h cs v w ->
  (w = SLit (LBool false) /\ v = VLit (LBool false)) \/ (w <> SLit (LBool false) /\ v <> VLit (LBool false)).
Proof.
  intros h cs v w H. destruct H as [l | a vx vy x y Hn H1 H2 | ].
  - destruct l as [z|[|]| | | | |o|nd]; try (right; split; congruence). left; auto.
  - right; split; congruence.
  - right; split; congruence.
Qed.

(* ------------------------------------------------------------------ monotonicity helpers *)

Lemma vrelF_mono : forall h cs st st' hx v w, cs = cells st -> store_ext st st' ->
  vrelF h cs v w -> vrelF (h ++ hx) (cells st') v w.
Proof. intros h cs st st' hx v w -> [[cx Hcx] _] H. rewrite Hcx. apply vrelF_ext. exact H. Qed.

Lemma Forall2_vrelF_mono : forall h st st' hx vs ws, store_ext st st' ->
  Forall2 (vrelF h (cells st)) vs ws -> Forall2 (vrelF (h ++ hx) (cells st')) vs ws.
Proof. intros h st st' hx vs ws [[cx Hcx] _] H. rewrite Hcx. apply Forall2_vrelF_ext. exact H. Qed.

Lemma fvrel_mono : forall h st st' hx env fv els, store_ext st st' ->
  fvrel h (cells st) env fv els -> fvrel (h ++ hx) (cells st') env fv els.
Proof. intros h st st' hx env fv els [[cx Hcx] _] H. rewrite Hcx. apply fvrel_ext. exact H. Qed.

(* ------------------------------------------------------------------ environments *)

Definition env_okF (cur : fctxF) (env : senv) (st : sstore) (s : state) : Prop :=
  (forall id ps r dead fv, cur = Some (id, ps, r, dead, fv) -> forall x, memn x (ps ++ rest_list r) = true -> memn x dead = false ->
     exists a w k v, env_lookup (x, Local id) env = Some a /\ nth_error (cells st) a = Some w /\
                     slot (fp s) (param_index ps r [] x) = Some k /\ sget (stk s) k = Some v /\
                     vrelF (heap s) (cells st) v w)
  /\ (forall id ps r dead fv, cur = Some (id, ps, r, dead, fv) ->
        exists els, vars_ok (heap s) fv (vars_of (self s)) els /\ fvrel (heap s) (cells st) env fv els)
  /\ (forall g w, glob_lookup g (sglobals st) = Some w ->
        exists v, assoc_nat g (globals s) = Some v /\ vrelF (heap s) (cells st) v w).

Lemma env_okF_ext : forall cur env st st1 s s1 vs hx,
  env_okF cur env st s -> store_ext st st1 ->
  fp s1 = fp s -> self s1 = self s -> globals s1 = globals s -> stk s1 = vs ++ stk s -> heap s1 = heap s ++ hx ->
  env_okF cur env st1 s1.
Proof.
  intros cur env st st1 s s1 vs hx (HL & HV & HG) Hse Hfp Hself Hgl Hstk Hheap. pose proof Hse as [[cx Hcx] Hsg]. repeat split.
  - intros id ps r dead fv Hc x Hm Hd. destruct (HL id ps r dead fv Hc x Hm Hd) as (a & w & k & v & He & Hn & Hs & Hg & Hv).
    exists a, w, k, v. rewrite Hfp, Hstk, Hheap. repeat split; auto using sget_app.
    + rewrite Hcx. rewrite nth_error_app1; auto. apply nth_error_Some. congruence.
    + eapply vrelF_mono; eauto.
  - intros id ps r dead fv Hc. destruct (HV id ps r dead fv Hc) as (els & Hvo & Hfv).
    exists els. rewrite Hself, Hheap. split; [apply vars_ok_ext; exact Hvo | eapply fvrel_mono; eauto].
  - intros g w Hg. rewrite Hsg in Hg. destruct (HG g w Hg) as (v & Ha & Hv). exists v.
    rewrite Hgl, Hheap. split; auto. eapply vrelF_mono; eauto.
Qed.

(* ------------------------------------------------------------------ lists *)

Lemma closure_index_nth : forall p fv, in_fv p fv = true -> nth_error fv (closure_index p fv) = Some p.
Proof.
  intros p fv. induction fv as [|y t IH]; simpl; intro H; try discriminate.
  destruct (vref_eqb p y) eqn:E.
  - apply vref_eqb_eq in E. subst. reflexivity.
  - simpl in H. auto.
Qed.

Lemma Forall2_nth1 : forall {A B} (R : A -> B -> Prop) l1 l2 k a,
  Forall2 R l1 l2 -> nth_error l1 k = Some a -> exists b, nth_error l2 k = Some b /\ R a b.
Proof.
  intros A B R l1 l2 k a H. revert k. induction H as [|x y l1 l2 Hxy H IH]; intros [|k] Hk; simpl in *; try discriminate.
  - inversion Hk; subst. exists y; auto.
  - apply IH; auto.
Qed.

Lemma list_set_app_last : forall {A} (l : list A) x y, list_set (l ++ [x]) (length l) y = l ++ [y].
Proof. intros A l x y. induction l as [|z r IH]; simpl; congruence. Qed.

Lemma firstn_list_set_S : forall {A} (l : list A) k v, k < length l ->
  firstn (S k) (list_set l k v) = firstn k l ++ [v].
Proof.
  intros A l. induction l as [|x r IH]; intros [|k] v H; simpl in *; try lia; auto.
  f_equal. apply IH. lia.
Qed.

Lemma bind_all_other_owner : forall id xs vs e cs y m, m <> id ->
  env_lookup (y, Local m) (fst (bind_all id xs vs e cs)) = env_lookup (y, Local m) e.
Proof.
  intros id xs. induction xs as [|x xr IH]; intros vs e cs y m H; simpl; auto.
  destruct vs as [|v vr]; simpl; auto. rewrite IH by auto. simpl. unfold vref_eqb. simpl.
  assert (E : Nat.eqb m id = false) by (apply Nat.eqb_neq; auto). rewrite E, andb_false_r. reflexivity.
Qed.

(* ------------------------------------------------------------------ more single instructions *)

Lemma step_closure_ref : forall s pre k post a els v, at_code s pre [IClosureRef k] post ->
  vars_of (self s) = VVec a -> nth_error (heap s) a = Some (HVec els) -> nth_error els k = Some v ->
  step s = Next (upd s (v :: stk s) (S (ip s)) (heap s)).
Proof. intros s pre k post a els v H Hv Hh Hk. unfold step. rewrite (fetch _ _ _ _ H), Hv, Hh, Hk. reflexivity. Qed.

Lemma step_make_vector : forall s pre post n fill r, at_code s pre [IMakeVector] post ->
  stk s = VLit (LInt (Z.of_nat n)) :: fill :: r ->
  step s = Next (upd s (VVec (length (heap s)) :: r) (S (ip s)) (heap s ++ [HVec (repeat fill n)])).
Proof.
  intros s pre post n fill r H Hs. unfold step. rewrite (fetch _ _ _ _ H), Hs.
  assert (E : (Z.of_nat n <? 0)%Z = false) by (apply Z.ltb_ge; lia). rewrite E, Nat2Z.id. reflexivity.
Qed.

Lemma step_stack_ref : forall s pre post k v, at_code s pre [IStackRef (S k)] post ->
  nth_error (stk s) k = Some v ->
  step s = Next (upd s (v :: stk s) (S (ip s)) (heap s)).
Proof. intros s pre post k v H Hn. unfold step. rewrite (fetch _ _ _ _ H), Hn. reflexivity. Qed.

Lemma step_vector_set : forall s pre post a i v r els, at_code s pre [IVectorSet] post ->
  stk s = VVec a :: VLit (LInt (Z.of_nat i)) :: v :: r -> nth_error (heap s) a = Some (HVec els) -> i < length els ->
  step s = Next (upd s r (S (ip s)) (list_set (heap s) a (HVec (list_set els i v)))).
Proof.
  intros s pre post a i v r els H Hs Hh Hi. unfold step. rewrite (fetch _ _ _ _ H), Hs, Hh.
  assert (E : ((Z.of_nat i <? 0) || (Z.of_nat (length els) <=? Z.of_nat i))%Z = false).
  { apply orb_false_iff. split; [apply Z.ltb_ge; lia | apply Z.leb_gt; lia]. }
  rewrite E, Nat2Z.id. reflexivity.
Qed.

Lemma step_make_proc : forall s pre post fl n c v r, at_code s pre [IMakeProc fl n c] post ->
  stk s = v :: r ->
  step s = Next (upd s (VProc fl n c v :: r) (S (ip s)) (heap s)).
Proof. intros s pre post fl n c v r H Hs. unfold step. rewrite (fetch _ _ _ _ H), Hs. reflexivity. Qed.

(* ------------------------------------------------------------------ equations *)

Lemma generate_Lam_F : forall tl svs cur id ps r fv b,
  generate tl svs cur (Lam id ps r [] [] fv b) =
  let body := closedF (fun m => if Nat.eqb m id then [] else svs m) id ps r fv b in
  match fv with
  | [] => [IPushProc (lam_flags id r b) (length ps) body]
  | _ :: _ => [IPush LVoid; IPush (LInt (Z.of_nat (length fv))); IMakeVector]
              ++ closure_fill svs cur 0 fv ++ [IMakeProc (lam_flags id r b) (length ps) body]
  end.
Proof. intros. rewrite <- (Proofs.lam_flags_sv_nil id r b). destruct fv; reflexivity. Qed.

Lemma gen_fetch : forall svs id ps r dead cfv x m, unboxed svs ->
  gen_non_global_ref svs (lctxF (Some (id, ps, r, dead, cfv))) x (Local m) false =
  if Nat.eqb m id then [ILocalRef (param_index ps r [] x)] else [IClosureRef (closure_index (x, Local m) cfv)].
Proof.
  intros svs id ps r dead cfv x m Hub. unfold gen_non_global_ref. simpl.
  destruct (Nat.eqb m id); reflexivity.
Qed.

Definition simF_at (f : nat) (e : ast) : Prop :=
  forall cur env st v st', fragF cur e = true -> eval f e env st = SVal v st' ->
  forall tl svs s pre post, unboxed svs ->
  at_code s pre (generate tl svs (lctxF cur) e) post ->
  env_okF cur env st s ->
  store_ext st st' /\
  exists v' hx, vrelF (heap s ++ hx) (cells st') v' v /\ outcome_ok tl s pre (generate tl svs (lctxF cur) e) v' hx.

(* ------------------------------------------------------------------ fetching a variable; the closure fill loop *)

Lemma gen_fetch_length : forall svs cur x m, unboxed svs -> resolvable cur x m = true ->
  length (gen_non_global_ref svs (lctxF cur) x (Local m) false) = 1.
Proof.
  intros svs [[[[[id ps] r] dead] cfv]|] x m Hub Hr; simpl in Hr; try discriminate.
  rewrite gen_fetch by exact Hub. destruct (Nat.eqb m id); reflexivity.
Qed.

(** LOCAL-REF / CLOSURE-REF of a resolvable variable pushes a value representing the SPEC's value of that variable;
    s0 is the state the environment relation was established for, s a later state of the same frame *)
Lemma fetch_var : forall cur env st s0 svs s vs hx x m pre post,
  unboxed svs -> env_okF cur env st s0 -> resolvable cur x m = true ->
  fp s = fp s0 -> self s = self s0 -> stk s = vs ++ stk s0 -> heap s = heap s0 ++ hx ->
  at_code s pre (gen_non_global_ref svs (lctxF cur) x (Local m) false) post ->
  exists v loc w, env_lookup (x, Local m) env = Some loc /\ nth_error (cells st) loc = Some w /\
                  vrelF (heap s0) (cells st) v w /\
                  step s = Next (upd s (v :: stk s) (S (ip s)) (heap s)).
Proof.
  intros cur env st s0 svs s vs hx x m pre post Hub (HL & HV & _) Hr Hfp Hself Hstk Hheap Hat.
  destruct cur as [[[[[id ps] r] dead] cfv]|]; simpl in Hr; try discriminate.
  rewrite gen_fetch in Hat by exact Hub.
  destruct (Nat.eqb m id) eqn:Em.
  - apply Nat.eqb_eq in Em. subst m. apply andb_true_iff in Hr. destruct Hr as [Hx Hd]. apply negb_true_iff in Hd.
    destruct (HL id ps r dead cfv eq_refl x Hx Hd) as (a & w & k & v & Hl & Hn & Hs & Hg & Hv).
    exists v, a, w. repeat split; auto.
    eapply step_local_ref; eauto; [rewrite Hfp; exact Hs | rewrite Hstk; apply sget_app; exact Hg].
  - destruct (HV id ps r dead cfv eq_refl) as (els & Hvo & Hfv).
    pose proof (closure_index_nth _ _ Hr) as Hidx.
    destruct cfv as [|p0 cfv']; [discriminate Hr|].
    destruct Hvo as (a & Hvars & Hha).
    destruct (Forall2_nth1 _ _ _ _ _ Hfv Hidx) as (v & Hv & loc & w & Hl & Hc & Hrel).
    exists v, loc, w. repeat split; auto.
    eapply step_closure_ref; eauto.
    + rewrite Hself. exact Hvars.
    + rewrite Hheap. rewrite nth_error_app1; auto. apply nth_error_Some. congruence.
Qed.

Lemma fill_loop : forall cur env st s0 svs newid, unboxed svs -> env_okF cur env st s0 ->
  forall fvs k els s pre post a,
  fv_ok cur newid fvs = true ->
  at_code s pre (closure_fill svs (lctxF cur) k fvs) post ->
  fp s = fp s0 -> self s = self s0 ->
  stk s = VVec a :: stk s0 -> a = length (heap s0) -> heap s = heap s0 ++ [HVec els] ->
  k + length fvs = length els ->
  exists vals,
    reaches s (upd s (stk s) (length pre + length (closure_fill svs (lctxF cur) k fvs))
                   (heap s0 ++ [HVec (firstn k els ++ vals)]))
    /\ fvrel (heap s0) (cells st) env fvs vals.
Proof.
  intros cur env st s0 svs newid Hub Hok fvs.
  induction fvs as [|[x o] rest IH]; intros k els s pre post a Hfv Hat Hfp Hself Hstk Ha Hheap Hlen.
  - exists []. split; [|constructor]. simpl in *. destruct Hat as [_ Hip].
    assert (k = length els) by lia. subst k. rewrite firstn_all, app_nil_r, Nat.add_0_r.
    destruct s; simpl in *; subst. apply reaches_refl.
  - simpl in Hfv. apply andb_true_iff in Hfv. destruct Hfv as [Hp Hrest].
    destruct o as [|m]; [discriminate Hp|]. simpl in Hp. apply andb_true_iff in Hp. destruct Hp as [Hne Hres].
    simpl closure_fill in *.
    set (cf := gen_non_global_ref svs (lctxF cur) x (Local m) false) in *.
    set (cr := closure_fill svs (lctxF cur) (S k) rest) in *.
    assert (Hcfl : length cf = 1) by (apply gen_fetch_length; auto).
    destruct Hat as [Hcode Hip].
    assert (Hat1 : at_code s pre cf (([IPush (LInt (Z.of_nat k)); IStackRef 3; IVectorSet] ++ cr) ++ post)).
    { split; auto; rewrite Hcode; norm_code. }
    destruct (fetch_var cur env st s0 svs s [VVec a] [HVec els] x m pre _ Hub Hok Hres Hfp Hself Hstk Hheap Hat1)
      as (v & loc & w & Hl & Hc & Hrel & Hstep1).
    set (s1 := upd s (v :: stk s) (S (ip s)) (heap s)) in *.
    assert (Hat2 : at_code s1 (pre ++ cf) [IPush (LInt (Z.of_nat k))] ([IStackRef 3; IVectorSet] ++ cr ++ post)).
    { split; simpl; [|rewrite app_length; lia]. rewrite Hcode. norm_code. }
    pose proof (step_push s1 _ _ _ Hat2) as Hstep2.
    set (s2 := upd s1 (VLit (LInt (Z.of_nat k)) :: stk s1) (S (ip s1)) (heap s1)) in *.
    assert (Hat3 : at_code s2 (pre ++ cf ++ [IPush (LInt (Z.of_nat k))]) [IStackRef 3] ([IVectorSet] ++ cr ++ post)).
    { split; simpl; [|rewrite !app_length; simpl; lia]. rewrite Hcode. norm_code. }
    assert (Hn3 : nth_error (stk s2) 2 = Some (VVec a)) by (simpl; rewrite Hstk; reflexivity).
    pose proof (step_stack_ref s2 _ _ 2 _ Hat3 Hn3) as Hstep3.
    set (s3 := upd s2 (VVec a :: stk s2) (S (ip s2)) (heap s2)) in *.
    assert (Hat4 : at_code s3 (pre ++ cf ++ [IPush (LInt (Z.of_nat k)); IStackRef 3]) [IVectorSet] (cr ++ post)).
    { split; simpl; [|rewrite !app_length; simpl; lia]. rewrite Hcode. norm_code. }
    assert (Hh3 : nth_error (heap s3) a = Some (HVec els)).
    { simpl. rewrite Hheap, Ha. rewrite nth_error_app2 by lia. rewrite Nat.sub_diag. reflexivity. }
    assert (Hstk3 : stk s3 = VVec a :: VLit (LInt (Z.of_nat k)) :: v :: (VVec a :: stk s0)) by (simpl; rewrite Hstk; reflexivity).
    pose proof (step_vector_set s3 _ _ a k v _ els Hat4 Hstk3 Hh3 ltac:(simpl in Hlen; lia)) as Hstep4.
    set (els' := list_set els k v) in *.
    set (s4 := upd s3 (VVec a :: stk s0) (S (ip s3)) (list_set (heap s3) a (HVec els'))) in *.
    assert (Hheap4 : heap s4 = heap s0 ++ [HVec els']).
    { simpl. rewrite Hheap, Ha. apply list_set_app_last. }
    assert (Hat5 : at_code s4 (pre ++ cf ++ [IPush (LInt (Z.of_nat k)); IStackRef 3; IVectorSet]) cr post).
    { split; simpl; [|rewrite !app_length; simpl; lia]. rewrite Hcode. norm_code. }
    assert (Hlen' : S k + length rest = length els') by (unfold els'; rewrite list_set_length; simpl in Hlen; lia).
    destruct (IH (S k) els' s4 _ post a Hrest Hat5 Hfp Hself eq_refl Ha Hheap4 Hlen') as (vals & Hreach & Hvals).
    fold cr in Hreach.
    exists (v :: vals). split.
    + eapply reaches_trans; [apply reaches_step; exact Hstep1|].
      eapply reaches_trans; [apply reaches_step; exact Hstep2|].
      eapply reaches_trans; [apply reaches_step; exact Hstep3|].
      eapply reaches_trans; [apply reaches_step; exact Hstep4|].
      replace (upd s (stk s) (length pre + length (cf ++ IPush (LInt (Z.of_nat k)) :: IStackRef 3 :: IVectorSet :: cr))
                   (heap s0 ++ [HVec (firstn k els ++ v :: vals)]))
        with (upd s4 (stk s4) (length (pre ++ cf ++ [IPush (LInt (Z.of_nat k)); IStackRef 3; IVectorSet]) + length cr)
                  (heap s0 ++ [HVec ((firstn k els ++ [v]) ++ vals)])).
      { assert (Hfs : firstn (S k) els' = firstn k els ++ [v]) by (apply firstn_list_set_S; simpl in Hlen; lia).
        rewrite Hfs in Hreach. exact Hreach. }
      unfold upd; simpl. rewrite Hstk. f_equal.
      * solve_len.
      * rewrite <- app_assoc. reflexivity.
    + constructor; auto. exists loc, w. auto.
Qed.

(* ------------------------------------------------------------------ calls *)

Lemma build_list_relF : forall h cs vl wl, Forall2 (vrelF h cs) vl wl ->
  forall h' l, build_list h vl = (h', l) -> exists hx, h' = h ++ hx /\ vrelF h' cs l (slist wl).
Proof.
  intros h cs vl wl H. induction H as [|v w vr wr Hvw Hr IH]; intros h' l Hb; simpl in Hb.
  - inversion Hb; subst. exists []. rewrite app_nil_r. split; [reflexivity|constructor].
  - destruct (build_list h vr) as [h1 tl] eqn:E. destruct (IH h1 tl eq_refl) as (hx & -> & Htl).
    unfold alloc in Hb. inversion Hb; subst. exists (hx ++ [HPair v tl]). split; [rewrite app_assoc; reflexivity|].
    simpl. econstructor.
    + rewrite nth_error_app2 by lia. rewrite Nat.sub_diag. reflexivity.
    + rewrite <- app_assoc. apply vrelF_ext_h. exact Hvw.
    + apply vrelF_ext_h. exact Htl.
Qed.

Section SimF.

  Lemma call_closedF : forall f, (forall e, simF_at f e) ->
    forall s0 id ps r b fv svs' vars els vargs vs X rfp rself rip cenv st2 v st',
    unboxed svs' -> nodupb (ps ++ rest_list r) = true -> fragF (Some (id, ps, r, dead_of id r b, fv)) b = true ->
    (forall p, In p fv -> exists m, snd p = Local m /\ m <> id) ->
    vars_ok (heap s0) fv vars els -> fvrel (heap s0) (cells st2) cenv fv els ->
    length ps <= length vs -> (r = None -> length vs = length ps) ->
    Forall2 (vrelF (heap s0) (cells st2)) vargs vs ->
    (forall g w, glob_lookup g (sglobals st2) = Some w ->
       exists v0, assoc_nat g (globals s0) = Some v0 /\ vrelF (heap s0) (cells st2) v0 w) ->
    eval f b (fst (bind_all id (ps ++ rest_list r) (spec_vals (length ps) r vs) cenv (cells st2)))
             (mkstore (snd (bind_all id (ps ++ rest_list r) (spec_vals (length ps) r vs) cenv (cells st2))) (sglobals st2))
      = SVal v st' ->
    store_ext st2 st' /\
    exists sc v' hx,
      make_call s0 (VProc (lam_flags id r b) (length ps) (closedF svs' id ps r fv b) vars)
                (vargs ++ X) (length vargs) rip rself rfp = Next sc /\
      vrelF (heap s0 ++ hx) (cells st') v' v /\
      reaches sc (mkst (v' :: X) rfp rself rip (heap s0 ++ hx) (globals s0)).
  Proof.
    intros f IH s0 id ps r b fv svs' vars els vargs vs X rfp rself rip cenv st2 v st'
           Hub Hnd Hfr Hown Hvars Hfvrel Hle Hfix Hargs Hgl He.
    set (n := length ps) in *.
    set (xs := ps ++ rest_list r) in *.
    set (vs' := spec_vals n r vs) in *.
    assert (Hlv : length vargs = length vs) by exact (Forall2_len _ _ _ Hargs).
    assert (Hlxs : length vs' = length xs).
    { unfold vs', xs. rewrite spec_vals_length by exact Hle. rewrite app_length. reflexivity. }
    destruct (make_call_protocol s0 id r b n (closedF svs' id ps r fv b) vars vargs X rip rself rfp
                ltac:(lia) ltac:(intro Hr; rewrite Hlv; auto)) as (vargs' & h' & Hmc & Hcase).
    set (proc := VProc (lam_flags id r b) n (closedF svs' id ps r fv b) vars) in *.
    set (sc := mkst (vint rfp :: rself :: vint rip :: vint (length vargs') :: vargs' ++ X) (length (vargs' ++ X)) proc 0 h' (globals s0)) in *.
    set (cs3 := cells st2 ++ vs').
    assert (Hlive : exists hb, h' = heap s0 ++ hb /\
              forall k w, nth_error vs' k = Some w -> (k < n \/ dead_of id r b = []) ->
                          exists va, nth_error vargs' k = Some va /\ vrelF h' cs3 va w).
    { destruct Hcase as [(Hd & -> & ->) | (x & l & -> & Hd & Hb & ->)].
      - exists []. split; [rewrite app_nil_r; reflexivity|]. intros k w Hk Hor.
        assert (Hkn : k < n).
        { destruct Hor as [|Hd0]; auto. rewrite Hd0 in Hd. destruct r; try discriminate.
          unfold vs', spec_vals in Hk. rewrite app_nil_r in Hk.
          assert (k < length (firstn n vs)) by (apply nth_error_Some; congruence).
          rewrite firstn_length in H. lia. }
        unfold vs', spec_vals in Hk. rewrite nth_error_app1 in Hk by (rewrite firstn_length_le; lia).
        rewrite nth_error_firstn_lt in Hk by exact Hkn.
        destruct (Forall2_nth _ _ _ _ _ Hargs Hk) as (va & Hva & Hrel). exists va. split; auto.
        unfold cs3. apply vrelF_ext_c. exact Hrel.
      - pose proof (Forall2_skipn _ n _ _ Hargs) as Hsk.
        destruct (build_list_relF _ _ _ _ Hsk _ _ Hb) as (hb & -> & Hl).
        exists hb. split; auto. intros k w Hk _.
        assert (HF : Forall2 (vrelF (heap s0 ++ hb) cs3) (firstn n vargs ++ [l]) vs').
        { unfold vs', spec_vals, cs3. apply Forall2_app2.
          - apply Forall2_vrelF_ext. apply Forall2_firstn. exact Hargs.
          - constructor; [apply vrelF_ext_c; exact Hl|constructor]. }
        exact (Forall2_nth _ _ _ _ _ HF Hk). }
    destruct Hlive as (hb & Hh' & Hlive).
    assert (Hcells : snd (bind_all id xs vs' cenv (cells st2)) = cs3) by (apply bind_all_cells; exact Hlxs).
    rewrite Hcells in He.
    set (e3 := fst (bind_all id xs vs' cenv (cells st2))) in *.
    assert (Hok : env_okF (Some (id, ps, r, dead_of id r b, fv)) e3 (mkstore cs3 (sglobals st2)) sc).
    { repeat split.
      - intros id0 ps0 r0 dead0 fv0 Hc x Hm Hdead. inversion Hc; subst id0 ps0 r0 dead0 fv0. fold xs in Hm.
        destruct (memn_index_of x xs Hm) as (k & Hk & Hkl).
        destruct (bind_all_lookup id xs vs' cenv (cells st2) x k Hnd Hlxs Hk) as [Hl Hn].
        destruct (nth_error vs' k) as [w|] eqn:Ew; [|apply nth_error_None in Ew; lia].
        assert (Hor : k < n \/ dead_of id r b = []).
        { destruct (dead_of id r b) as [|y dl] eqn:Ed; auto. left.
          unfold dead_of in Ed. destruct (rest_unused true id r b); try discriminate.
          destruct r as [y0|]; simpl in Ed; try discriminate. inversion Ed; subst y dl.
          simpl in Hdead. rewrite orb_false_r in Hdead.
          unfold xs in Hm. simpl in Hm. rewrite memn_app in Hm. simpl in Hm. rewrite orb_false_r in Hm.
          rewrite Hdead in Hm. rewrite orb_false_r in Hm.
          destruct (memn_index_of x ps Hm) as (k' & Hk' & Hkl').
          unfold xs in Hk. rewrite (index_of_app_l _ _ (rest_list (Some y0)) _ Hk') in Hk. inversion Hk; subst k'. exact Hkl'. }
        destruct (Hlive k w Ew Hor) as (va & Hva & Hrel).
        assert (Hkv : k < length vargs') by (apply nth_error_Some; congruence).
        exists (length (cells st2) + k), w, (length (vargs' ++ X) - 1 - k), va.
        repeat split; auto.
        + rewrite (param_index_rest _ _ _ _ Hk). unfold sc; cbn [fp]. apply slot_arg. rewrite app_length. lia.
        + unfold sc; cbn [stk].
          change (vint rfp :: rself :: vint rip :: vint (length vargs') :: vargs' ++ X)
            with ([vint rfp; rself; vint rip; vint (length vargs')] ++ (vargs' ++ X)).
          rewrite sget_arg by (rewrite app_length; lia).
          rewrite nth_error_app1 by exact Hkv. exact Hva.
      - intros id0 ps0 r0 dead0 fv0 Hc. inversion Hc; subst id0 ps0 r0 dead0 fv0.
        exists els. unfold sc; cbn [heap self]. unfold proc; cbn [vars_of]. rewrite Hh'. split.
        + apply vars_ok_ext. exact Hvars.
        + unfold cs3. simpl cells.
          assert (Hfv3 : fvrel (heap s0) (cells st2) e3 fv els).
          { unfold fvrel in *. clear - Hfvrel Hown.
            induction Hfvrel as [|p v0 fvr elr Hp Hr IHf]; constructor.
            - destruct Hp as (loc & w0 & Hl & Hc0 & Hv0). exists loc, w0. repeat split; auto.
              destruct (Hown p (or_introl eq_refl)) as (m & Hsnd & Hne). destruct p as [px po]. simpl in Hsnd. subst po.
              unfold e3. rewrite bind_all_other_owner by exact Hne. exact Hl.
            - apply IHf. intros p0 Hin. apply Hown. right; exact Hin. }
          apply fvrel_ext. exact Hfv3.
      - intros g w Hg. simpl in Hg. destruct (Hgl g w Hg) as (v0 & Ha & Hv0). exists v0. split; auto.
        unfold sc; cbn [heap]. rewrite Hh'. unfold cs3. simpl cells. apply vrelF_ext. exact Hv0. }
    assert (Hat : at_code sc [] (generate true svs' (lctxF (Some (id, ps, r, dead_of id r b, fv))) b) [IRet]).
    { split; reflexivity. }
    destruct (IH b (Some (id, ps, r, dead_of id r b, fv)) _ _ v st' Hfr He true svs' sc [] [IRet] Hub Hat Hok) as (Hse & v' & hx & Hv & Hout).
    split. { eapply store_ext_trans; [|exact Hse]. split; simpl; auto. exists vs'. reflexivity. }
    exists sc, v', (hb ++ hx). split; [exact Hmc|]. split.
    { unfold sc in Hv; cbn [heap] in Hv. rewrite Hh', <- app_assoc in Hv. exact Hv. }
    set (code := generate true svs' (lctxF (Some (id, ps, r, dead_of id r b, fv))) b) in *.
    assert (Hfi : frame_info sc = Some (length vargs', rip, rself, rfp)) by apply frame_info_entry.
    assert (Hnfp : length vargs' <= fp sc) by (unfold sc; cbn [fp]; rewrite app_length; lia).
    assert (Hbase : forall Y, below (fp sc - length vargs') ((Y ++ vargs') ++ X) = X).
    { intro Y. unfold sc; cbn [fp]. rewrite app_length.
      replace (length vargs' + length X - length vargs') with (length X) by lia. apply below_exact. }
    replace (heap s0 ++ hb ++ hx) with (h' ++ hx) by (rewrite Hh', app_assoc; reflexivity).
    destruct Hout as [Hfall | [_ Hret]].
    - eapply reaches_trans; [exact Hfall|].
      set (se := fall sc v' [] code hx) in *.
      assert (Hate : at_code se code [IRet] []).
      { split; [|reflexivity]. simpl. unfold closedF. fold code. reflexivity. }
      assert (Hfie : frame_info se = Some (length vargs', rip, rself, rfp)).
      { eapply (frame_info_app sc se [v']); eauto. }
      pose proof (step_ret se _ _ v' (stk sc) (length vargs') rip rself rfp Hate eq_refl Hfie Hnfp) as Hstep.
      apply reaches_step. rewrite Hstep. f_equal. f_equal. f_equal.
      change (v' :: stk sc) with (((v' :: [vint rfp; rself; vint rip; vint (length vargs')]) ++ vargs') ++ X).
      apply (Hbase (v' :: [vint rfp; rself; vint rip; vint (length vargs')])).
    - specialize (Hret (length vargs') rip rself rfp Hfi Hnfp).
      replace (mkst (v' :: X) rfp rself rip (h' ++ hx) (globals s0)) with (returned sc v' (length vargs') rip rself rfp hx); auto.
      unfold returned. f_equal. f_equal.
      change (stk sc) with (([vint rfp; rself; vint rip; vint (length vargs')] ++ vargs') ++ X).
      apply (Hbase [vint rfp; rself; vint rip; vint (length vargs')]).
  Qed.

  Lemma simF_args : forall f, (forall e, simF_at f e) ->
    forall cur args env st rvs st1, forallb (fragF cur) args = true ->
    evlist (eval f) (rev args) env st = inl (rvs, st1) ->
    forall svs s pre post, unboxed svs ->
    at_code s pre (gen_args svs (lctxF cur) args) post ->
    env_okF cur env st s ->
    store_ext st st1 /\ exists vargs hx, Forall2 (vrelF (heap s ++ hx) (cells st1)) vargs (rev rvs) /\
      reaches s (upd s (vargs ++ stk s) (length pre + length (gen_args svs (lctxF cur) args)) (heap s ++ hx)).
  Proof.
    intros f IH cur args. induction args as [|a r IHr]; intros env st rvs st1 Hp He svs s pre post Hub Hat Hok.
    - simpl in He. inversion He; subst. split; [apply store_ext_refl|].
      exists [], []. split; [constructor|].
      destruct Hat as [_ Hip]. destruct s; simpl in *; subst. unfold upd; simpl.
      rewrite app_nil_r, Nat.add_0_r. apply reaches_refl.
    - simpl in Hp. apply andb_true_iff in Hp. destruct Hp as [Hpa Hpr].
      simpl rev in He. rewrite evlist_app in He.
      destruct (evlist (eval f) (rev r) env st) as [[rvs_r st_r]|x] eqn:Er; try discriminate.
      simpl evlist in He.
      destruct (eval f a env st_r) as [wa st_a| |] eqn:Ea; try discriminate.
      inversion He; subst rvs st1. clear He.
      change (gen_args svs (lctxF cur) (a :: r)) with
        (gen_args svs (lctxF cur) r ++ generate false svs (lctxF cur) a) in *.
      set (cr := gen_args svs (lctxF cur) r) in *. set (ca := generate false svs (lctxF cur) a) in *.
      destruct Hat as [Hcode Hip].
      assert (Hat1 : at_code s pre cr (ca ++ post)).
      { split; auto; rewrite Hcode; norm_code. }
      destruct (IHr env st rvs_r st_r Hpr Er svs s pre _ Hub Hat1 Hok) as (Hse1 & vr & h1 & Hvr & Hr1).
      fold cr in Hr1. set (s1 := upd s (vr ++ stk s) (length pre + length cr) (heap s ++ h1)) in *.
      assert (Hat2 : at_code s1 (pre ++ cr) ca post).
      { split; simpl; [|rewrite app_length; reflexivity]. rewrite Hcode. norm_code. }
      assert (Hok1 : env_okF cur env st_r s1) by (eapply (env_okF_ext cur env st st_r s s1 vr h1); eauto).
      destruct (IH a cur env st_r wa st_a Hpa Ea false svs s1 _ _ Hub Hat2 Hok1) as (Hse2 & va & h2 & Hva & Hout).
      apply outcome_false in Hout. fold ca in Hout.
      split; [eapply store_ext_trans; eauto|].
      exists (va :: vr), (h1 ++ h2). split.
      + rewrite rev_app_distr. simpl. constructor.
        * simpl in Hva. rewrite <- app_assoc in Hva. exact Hva.
        * rewrite app_assoc. eapply Forall2_vrelF_mono; [exact Hse2|exact Hvr].
      + eapply reaches_trans; [exact Hr1|]. eapply reaches_trans; [exact Hout|].
        replace (fall s1 va (pre ++ cr) ca h2)
          with (upd s ((va :: vr) ++ stk s) (length pre + length (cr ++ ca)) (heap s ++ h1 ++ h2)); [apply reaches_refl|].
        unfold fall, upd; simpl. f_equal; [solve_len | rewrite app_assoc; reflexivity].
  Qed.

  Lemma simF_seq : forall f, (forall e, simF_at f e) ->
    forall cur es env st v st', es <> [] -> forallb (fragF cur) es = true ->
    eval_seq f env es st = SVal v st' ->
    forall tl svs s pre post, unboxed svs ->
    at_code s pre (gen_seq tl svs (lctxF cur) es) post ->
    env_okF cur env st s ->
    store_ext st st' /\
    exists v' hx, vrelF (heap s ++ hx) (cells st') v' v /\ outcome_ok tl s pre (gen_seq tl svs (lctxF cur) es) v' hx.
  Proof.
    intros f IH cur es. induction es as [|a r IHr]; intros env st v st' Hne Hp He tl svs s pre post Hub Hat Hok.
    - congruence.
    - simpl in Hp. apply andb_true_iff in Hp. destruct Hp as [Hpa Hpr].
      destruct r as [|b r'].
      + simpl in He, Hat |- *. eapply IH; eauto.
      + change (eval_seq f env (a :: b :: r') st) with
          (match eval f a env st with SVal _ st1 => eval_seq f env (b :: r') st1 | x => x end) in He.
        destruct (eval f a env st) as [va st1| |] eqn:Ea; try discriminate.
        change (gen_seq tl svs (lctxF cur) (a :: b :: r')) with
          ((if is_lit a then [] else drop_prev a (generate false svs (lctxF cur) a)) ++ gen_seq tl svs (lctxF cur) (b :: r')) in *.
        assert (Hne2 : b :: r' <> []) by congruence.
        destruct (is_lit a) eqn:La.
        * destruct a; try discriminate La. destruct f; [discriminate Ea|]. rewrite eval_Lit in Ea. inversion Ea; subst st1.
          simpl app in *. eapply IHr; eauto.
        * assert (Hd : drop_prev a (generate false svs (lctxF cur) a) = generate false svs (lctxF cur) a ++ [IDrop]).
          { unfold drop_prev. destruct a; simpl in La, Hpa |- *; try discriminate; reflexivity. }
          rewrite Hd in *. set (ca := generate false svs (lctxF cur) a) in *.
          set (cr := gen_seq tl svs (lctxF cur) (b :: r')) in *.
          destruct Hat as [Hcode Hip].
          assert (Hat1 : at_code s pre ca ([IDrop] ++ cr ++ post)).
          { split; auto; rewrite Hcode; norm_code. }
          destruct (IH a cur env st va st1 Hpa Ea false svs s pre _ Hub Hat1 Hok) as (Hse1 & v1 & h1 & Hv1 & Hout1).
          apply outcome_false in Hout1. fold ca in Hout1.
          set (s1 := fall s v1 pre ca h1) in *.
          assert (Hat2 : at_code s1 (pre ++ ca) [IDrop] (cr ++ post)).
          { split; simpl; [|rewrite app_length; reflexivity]. rewrite Hcode. norm_code. }
          pose proof (step_drop s1 _ _ v1 (stk s) Hat2 eq_refl) as Hstep.
          set (s2 := upd s1 (stk s) (S (ip s1)) (heap s1)) in *.
          assert (Hat3 : at_code s2 (pre ++ ca ++ [IDrop]) cr post).
          { split; simpl; [|solve_len]. rewrite Hcode. norm_code. }
          assert (Hok2 : env_okF cur env st1 s2).
          { eapply (env_okF_ext cur env st st1 s s2 [] h1); eauto. }
          destruct (IHr env st1 v st' Hne2 Hpr He tl svs s2 _ post Hub Hat3 Hok2) as (Hse2 & v2 & h2 & Hv2 & Hout2).
          fold cr in Hout2.
          split; [eapply store_ext_trans; eauto|]. exists v2, (h1 ++ h2). split.
          -- simpl in Hv2. rewrite <- app_assoc in Hv2. exact Hv2.
          -- eapply (outcome_lift tl s s2 pre (pre ++ ca ++ [IDrop]) _ cr v2 h1 h2); eauto.
             ++ eapply reaches_trans; [exact Hout1|]. apply reaches_step. exact Hstep.
             ++ rewrite (fall_eq s s2 v2 pre (pre ++ ca ++ [IDrop]) ((ca ++ [IDrop]) ++ cr) cr h1 h2); auto.
                ** apply reaches_refl.
                ** solve_len.
  Qed.

End SimF.

Lemma vrelF_clo_inv : forall h cs v id ps r ls b cenv, vrelF h cs v (SClo id ps r ls b cenv) ->
  ls = [] /\ nodupb (ps ++ rest_list r) = true /\
  exists fv svs' vars els,
    fragF (Some (id, ps, r, dead_of id r b, fv)) b = true /\ unboxed svs' /\
    (forall p, In p fv -> exists m, snd p = Local m /\ m <> id) /\
    vars_ok h fv vars els /\ fvrel h cs cenv fv els /\
    v = VProc (lam_flags id r b) (length ps) (closedF svs' id ps r fv b) vars.
Proof. intros h cs v id ps r ls b cenv H. inversion H; subst. repeat split; auto. eauto 12. Qed.

Lemma simF_all : forall f e, simF_at f e.
Proof.
  induction f as [|f IH]; intros e cur env st v st' Hp He tl svs s pre post Hub Hat Hok.
  - discriminate He.
  - destruct e as [l | x o | x o e1 | t p e2 | es | id ps r ls sv fv b | g args | p args]; try discriminate Hp.
    + (* Lit *)
      rewrite eval_Lit in He. inversion He; subst. split; [apply store_ext_refl|].
      exists (VLit (lit_value l)), []. split; [constructor|].
      simpl generate in *. eapply leaf_outcome; eauto. eapply step_push; eauto.
    + (* Ref *)
      destruct o as [|m].
      * rewrite eval_Ref_global in He. destruct (glob_lookup x (sglobals st)) as [w|] eqn:Eg; try discriminate.
        inversion He; subst. split; [apply store_ext_refl|].
        destruct Hok as (_ & _ & HG). destruct (HG x v Eg) as (v' & Ha & Hv).
        exists v', []. split; [rewrite app_nil_r; exact Hv|].
        simpl generate in *. eapply leaf_outcome; eauto. eapply step_global_ref; eauto.
      * simpl in Hp.
        assert (Hcur : exists c0, lctxF cur = Some c0).
        { destruct cur as [[[[[id ps] r0] dead] cfv]|]; [eexists; reflexivity | discriminate Hp]. }
        destruct Hcur as [c0 Hc0].
        assert (Hgen : generate tl svs (lctxF cur) (Ref x (Local m)) = gen_non_global_ref svs (lctxF cur) x (Local m) false).
        { simpl. rewrite Hc0. unfold gen_ref, gen_non_global_ref. simpl. rewrite (Hub m). reflexivity. }
        rewrite Hgen in *.
        destruct (fetch_var cur env st s svs s [] [] x m pre post Hub Hok Hp eq_refl eq_refl eq_refl
                    (eq_sym (app_nil_r _)) Hat) as (v' & loc & w & Hl & Hc & Hrel & Hstep).
        rewrite eval_Ref_local, Hl, Hc in He. inversion He; subst. split; [apply store_ext_refl|].
        exists v', []. split; [rewrite app_nil_r; exact Hrel|].
        destruct Hat as [Hcode Hip]. left. apply reaches_step. rewrite Hstep.
        unfold fall, upd. rewrite Hip, app_nil_r. f_equal. f_equal.
        rewrite (gen_fetch_length svs cur x m Hub Hp). lia.
    + (* Cnd *)
      simpl in Hp. apply andb_true_iff in Hp. destruct Hp as [Hp Hpf]. apply andb_true_iff in Hp. destruct Hp as [Hpt Hpp].
      rewrite eval_Cnd in He.
      destruct (eval f t env st) as [vt st1| |] eqn:Et; try discriminate.
      simpl generate in *.
      set (ct := generate false svs (lctxF cur) t) in *.
      set (cp := generate tl svs (lctxF cur) p) in *.
      set (cf := generate tl svs (lctxF cur) e2) in *.
      destruct Hat as [Hcode Hip].
      assert (Hat1 : at_code s pre ct (([IJumpUnless (S (length cp))] ++ cp ++ [IJump (length cf)] ++ cf) ++ post)).
      { split; auto; rewrite Hcode; norm_code. }
      destruct (IH t cur env st vt st1 Hpt Et false svs s pre _ Hub Hat1 Hok) as (Hse1 & v1 & h1 & Hv1 & Hout1).
      apply outcome_false in Hout1. fold ct in Hout1. set (s1 := fall s v1 pre ct h1) in *.
      assert (Hat2 : at_code s1 (pre ++ ct) [IJumpUnless (S (length cp))] (cp ++ [IJump (length cf)] ++ cf ++ post)).
      { split; simpl; [|rewrite app_length; reflexivity]. rewrite Hcode. norm_code. }
      destruct (sval_false_decF _ _ _ _ Hv1) as [[-> ->] | [Hw Hv]].
      * (* else branch *)
        pose proof (step_jump_unless_false s1 _ _ _ (stk s) Hat2 eq_refl) as Hstep.
        set (s2 := upd s1 (stk s) (S (ip s1) + S (length cp)) (heap s1)) in *.
        assert (Hat3 : at_code s2 (pre ++ ct ++ [IJumpUnless (S (length cp))] ++ cp ++ [IJump (length cf)]) cf post).
        { split; simpl; [|solve_len]. rewrite Hcode. norm_code. }
        assert (Hok2 : env_okF cur env st1 s2) by (eapply (env_okF_ext cur env st st1 s s2 [] h1); eauto).
        destruct (IH e2 cur env st1 v st' Hpf He tl svs s2 _ post Hub Hat3 Hok2) as (Hse2 & v2 & h2 & Hv2 & Hout2).
        fold cf in Hout2.
        split; [eapply store_ext_trans; eauto|]. exists v2, (h1 ++ h2). split.
        -- simpl in Hv2. rewrite <- app_assoc in Hv2. exact Hv2.
        -- eapply (outcome_lift tl s s2 pre _ _ cf v2 h1 h2); eauto.
           ++ eapply reaches_trans; [exact Hout1|]. apply reaches_step. exact Hstep.
           ++ rewrite (fall_eq s s2 v2 pre _ (ct ++ IJumpUnless (S (length cp)) :: cp ++ IJump (length cf) :: cf) cf h1 h2); auto.
              ** apply reaches_refl.
              ** solve_len.
      * (* then branch *)
        assert (Hep : eval f p env st1 = SVal v st').
        { destruct vt as [[z|[|]| | | | |o|nd] | |]; try exact He; congruence. }
        pose proof (step_jump_unless_true s1 _ _ _ v1 (stk s) Hat2 eq_refl Hv) as Hstep.
        set (s2 := upd s1 (stk s) (S (ip s1)) (heap s1)) in *.
        assert (Hat3 : at_code s2 (pre ++ ct ++ [IJumpUnless (S (length cp))]) cp ([IJump (length cf)] ++ cf ++ post)).
        { split; simpl; [|solve_len]. rewrite Hcode. norm_code. }
        assert (Hok2 : env_okF cur env st1 s2) by (eapply (env_okF_ext cur env st st1 s s2 [] h1); eauto).
        destruct (IH p cur env st1 v st' Hpp Hep tl svs s2 _ _ Hub Hat3 Hok2) as (Hse2 & v2 & h2 & Hv2 & Hout2).
        fold cp in Hout2.
        split; [eapply store_ext_trans; eauto|]. exists v2, (h1 ++ h2). split.
        -- simpl in Hv2. rewrite <- app_assoc in Hv2. exact Hv2.
        -- eapply (outcome_lift tl s s2 pre _ _ cp v2 h1 h2); eauto.
           ++ eapply reaches_trans; [exact Hout1|]. apply reaches_step. exact Hstep.
           ++ (* after the then branch: JUMP over the else branch *)
              set (s3 := fall s2 v2 (pre ++ ct ++ [IJumpUnless (S (length cp))]) cp h2).
              assert (Hat4 : at_code s3 (pre ++ ct ++ [IJumpUnless (S (length cp))] ++ cp) [IJump (length cf)] (cf ++ post)).
              { split; simpl; [|solve_len]. rewrite Hcode. norm_code. }
              apply reaches_step. rewrite (step_jump s3 _ _ _ Hat4).
              unfold fall, upd; simpl. f_equal. f_equal; [solve_len | rewrite app_assoc; reflexivity].
    + (* Seq *)
      rewrite eval_Seq in He. rewrite generate_Seq in *.
      simpl in Hp. destruct es as [|a r]; try discriminate Hp.
      eapply (simF_seq f IH cur (a :: r)); eauto. congruence.
    + (* Lam *)
      simpl in Hp.
      destruct ls; try discriminate Hp. destruct sv; try discriminate Hp.
      apply andb_true_iff in Hp. destruct Hp as [Hp Hfb]. apply andb_true_iff in Hp. destruct Hp as [Hnd Hfvok].
      rewrite eval_Lam in He. inversion He; subst. split; [apply store_ext_refl|].
      rewrite generate_Lam_F in *. cbv zeta in *.
      set (svs' := fun m => if Nat.eqb m id then [] else svs m) in *.
      assert (Hub' : unboxed svs') by (intro m; unfold svs'; destruct (Nat.eqb m id); auto).
      assert (Hown : forall p, In p fv -> exists m, snd p = Local m /\ m <> id).
      { intros p Hin. unfold fv_ok in Hfvok. rewrite forallb_forall in Hfvok. specialize (Hfvok p Hin).
        destruct (snd p) as [|m]; [discriminate|]. apply andb_true_iff in Hfvok. destruct Hfvok as [Hne _].
        exists m. split; auto. apply negb_true_iff in Hne. apply Nat.eqb_neq in Hne. exact Hne. }
      destruct fv as [|p0 fvt].
      * (* no free variables: the procedure is a literal *)
        exists (VProc (lam_flags id r b) (length ps) (closedF svs' id ps r [] b) (VLit LVoid)), []. split.
        -- eapply VF_clo with (els := []); eauto; try (simpl; auto); try constructor.
        -- eapply leaf_outcome; eauto. eapply step_push_proc; eauto.
      * (* closure: MAKE-VECTOR, the fill loop, MAKE-PROCEDURE *)
        set (fv := p0 :: fvt) in *. set (n := length fv) in *.
        set (body := closedF svs' id ps r fv b) in *.
        set (cfill := closure_fill svs (lctxF cur) 0 fv) in *.
        set (imk := IMakeProc (lam_flags id r b) (length ps) body) in *.
        set (a := length (heap s)).
        destruct Hat as [Hcode Hip].
        assert (Hat1 : at_code s pre [IPush LVoid] (([IPush (LInt (Z.of_nat n)); IMakeVector] ++ cfill ++ [imk]) ++ post)).
        { split; auto; rewrite Hcode; norm_code. }
        pose proof (step_push s _ _ _ Hat1) as Hstep1.
        set (s1 := upd s (VLit LVoid :: stk s) (S (ip s)) (heap s)) in *.
        assert (Hat2 : at_code s1 (pre ++ [IPush LVoid]) [IPush (LInt (Z.of_nat n))] (([IMakeVector] ++ cfill ++ [imk]) ++ post)).
        { split; simpl; [|solve_len]. rewrite Hcode. norm_code. }
        pose proof (step_push s1 _ _ _ Hat2) as Hstep2.
        set (s2 := upd s1 (VLit (LInt (Z.of_nat n)) :: stk s1) (S (ip s1)) (heap s1)) in *.
        assert (Hat3 : at_code s2 (pre ++ [IPush LVoid; IPush (LInt (Z.of_nat n))]) [IMakeVector] ((cfill ++ [imk]) ++ post)).
        { split; simpl; [|solve_len]. rewrite Hcode. norm_code. }
        pose proof (step_make_vector s2 _ _ n (VLit LVoid) (stk s) Hat3 eq_refl) as Hstep3.
        set (s3 := upd s2 (VVec (length (heap s2)) :: stk s) (S (ip s2)) (heap s2 ++ [HVec (repeat (VLit LVoid) n)])) in *.
        assert (Hat4 : at_code s3 (pre ++ [IPush LVoid; IPush (LInt (Z.of_nat n)); IMakeVector]) cfill ([imk] ++ post)).
        { split; simpl; [|solve_len]. rewrite Hcode. norm_code. }
        destruct (fill_loop cur env st' s svs id Hub Hok fv 0 (repeat (VLit LVoid) n) s3 _ _ a Hfvok Hat4
                    eq_refl eq_refl eq_refl eq_refl eq_refl ltac:(rewrite repeat_length; reflexivity)) as (vals & Hreach & Hvals).
        fold cfill in Hreach. simpl firstn in Hreach. simpl app in Hreach.
        set (s4 := upd s3 (stk s3) (length (pre ++ [IPush LVoid; IPush (LInt (Z.of_nat n)); IMakeVector]) + length cfill)
                       (heap s ++ [HVec vals])) in *.
        assert (Hat5 : at_code s4 (pre ++ [IPush LVoid; IPush (LInt (Z.of_nat n)); IMakeVector] ++ cfill) [imk] post).
        { split; simpl; [|solve_len]. rewrite Hcode. norm_code. }
        pose proof (step_make_proc s4 _ _ _ _ _ (VVec a) (stk s) Hat5 eq_refl) as Hstep5.
        exists (VProc (lam_flags id r b) (length ps) body (VVec a)), [HVec vals]. split.
        -- eapply VF_clo with (els := vals); eauto.
           ++ simpl. exists a. split; auto. unfold a. rewrite nth_error_app2 by lia. rewrite Nat.sub_diag. reflexivity.
           ++ pose proof (fvrel_ext (heap s) (cells st') [HVec vals] [] env fv vals Hvals) as Hx.
              rewrite app_nil_r in Hx. exact Hx.
        -- left. eapply reaches_trans; [apply reaches_step; exact Hstep1|].
           eapply reaches_trans; [apply reaches_step; exact Hstep2|].
           eapply reaches_trans; [apply reaches_step; exact Hstep3|].
           eapply reaches_trans; [exact Hreach|].
           apply reaches_step. etransitivity; [exact Hstep5|]. unfold fall, upd; simpl. f_equal. f_equal. solve_len.
    + (* App *)
      simpl in Hp. apply andb_true_iff in Hp. destruct Hp as [Hpg Hpa].
      rewrite eval_App in He.
      destruct (evlist (eval f) (rev args) env st) as [[rvs st1]|x] eqn:Eargs;
        [|exfalso; exact (evlist_inr _ _ _ _ _ Eargs _ _ He)].
      cbv zeta in He.
      destruct (eval f g env st1) as [wf st2| |] eqn:Eg; [| simpl in He; discriminate He | simpl in He; discriminate He].
      rewrite generate_App in *.
      set (cargs := gen_args svs (lctxF cur) args) in *.
      set (cg := generate false svs (lctxF cur) g) in *.
      set (icall := if tl then ITailCall (length args) else ICall (length args)) in *.
      destruct Hat as [Hcode Hip].
      assert (Hat1 : at_code s pre cargs ((cg ++ [icall]) ++ post)).
      { split; auto; rewrite Hcode; norm_code. }
      destruct (simF_args f IH cur args env st rvs st1 Hpa Eargs svs s pre _ Hub Hat1 Hok) as (Hse1 & vargs & h1 & Hvargs & Hr1).
      fold cargs in Hr1. set (s1 := upd s (vargs ++ stk s) (length pre + length cargs) (heap s ++ h1)) in *.
      assert (Hat2 : at_code s1 (pre ++ cargs) cg ([icall] ++ post)).
      { split; simpl; [|rewrite app_length; reflexivity]. rewrite Hcode. norm_code. }
      assert (Hok1 : env_okF cur env st1 s1) by (eapply (env_okF_ext cur env st st1 s s1 vargs h1); eauto).
      destruct (IH g cur env st1 wf st2 Hpg Eg false svs s1 _ _ Hub Hat2 Hok1) as (Hse2 & vg & h2 & Hvg & Hout2).
      apply outcome_false in Hout2. fold cg in Hout2. set (s2 := fall s1 vg (pre ++ cargs) cg h2) in *.
      destruct wf as [lw | xw yw | cid cps cr cls cb cenv]; try discriminate He.
      destruct (vrelF_clo_inv _ _ _ _ _ _ _ _ _ Hvg) as (-> & Hnd & cfv & svs' & cvars & cels & Hfb & Hub' & Hown & Hcvars & Hcfv & ->).
      set (vs := rev rvs) in *.
      destruct (length vs <? length cps) eqn:E1; try discriminate He.
      destruct (match cr with None => length cps <? length vs | Some _ => false end) eqn:E2; try discriminate He.
      apply Nat.ltb_ge in E1.
      assert (Hfix : cr = None -> length vs = length cps).
      { intro Hc. subst cr. apply Nat.ltb_ge in E2. lia. }
      rewrite (spec_bind_eq cid cps cr vs cenv (cells st2) (fun e3 c3 => eval f cb e3 (mkstore c3 (sglobals st2))) E1) in He.
      assert (Hlargs : length args = length vargs).
      { rewrite (Forall2_len _ _ _ Hvargs). unfold vs. rewrite rev_length. pose proof (evlist_length _ _ _ _ _ _ Eargs) as Hl.
        rewrite rev_length in Hl. symmetry; exact Hl. }
      assert (Hse12 : store_ext st st2) by (eapply store_ext_trans; eauto).
      assert (Hvargs2 : Forall2 (vrelF (heap s2) (cells st2)) vargs vs).
      { unfold s2. simpl. eapply Forall2_vrelF_mono; [exact Hse2|exact Hvargs]. }
      assert (Hgl2 : forall g0 w, glob_lookup g0 (sglobals st2) = Some w ->
                      exists v0, assoc_nat g0 (globals s2) = Some v0 /\ vrelF (heap s2) (cells st2) v0 w).
      { intros g0 w Hg0. pose proof Hse12 as [_ Hsg]. rewrite Hsg in Hg0.
        destruct Hok as (_ & _ & HG). destruct (HG g0 w Hg0) as (v0 & Ha & Hv0). exists v0. split; auto.
        unfold s2. simpl. rewrite <- app_assoc. eapply vrelF_mono; [reflexivity|exact Hse12|exact Hv0]. }
      set (proc := VProc (lam_flags cid cr cb) (length cps) (closedF svs' cid cps cr cfv cb) cvars) in *.
      assert (Hat3 : at_code s2 (pre ++ cargs ++ cg) [icall] post).
      { split; simpl; [|solve_len]. rewrite Hcode. norm_code. }
      assert (Hstk2 : stk s2 = proc :: (vargs ++ stk s)) by reflexivity.
      assert (Hreach2 : reaches s s2) by (eapply reaches_trans; eauto).
      assert (Hheap2 : heap s2 = heap s ++ h1 ++ h2) by (unfold s2; simpl; rewrite app_assoc; reflexivity).
      destruct tl.
      * (* TAIL-CALL: the callee returns directly into the frame recorded in the current header *)
        destruct (frame_info s) as [[[[j rip] rself] rfp]|] eqn:Hfi.
        -- set (base := below (fp s - j) (stk s)).
           destruct (call_closedF f IH s2 cid cps cr cb cfv svs' cvars cels vargs vs base rfp rself rip cenv st2 v st'
                       Hub' Hnd Hfb Hown Hcvars Hcfv E1 Hfix Hvargs2 Hgl2 He) as (Hse3 & sc & v' & hx & Hmc & Hv' & Hreach).
           split. { eapply store_ext_trans; [exact Hse12|exact Hse3]. }
           exists v', (h1 ++ h2 ++ hx). split. { rewrite Hheap2 in Hv'. rewrite <- !app_assoc in Hv'. exact Hv'. }
           right. split; auto. intros j' rip' rself' rfp' Hq Hj. rewrite Hfi in Hq. injection Hq as <- <- <- <-.
           eapply reaches_trans; [exact Hreach2|].
           assert (Hfi2 : frame_info s2 = Some (j, rip, rself, rfp)).
           { eapply (frame_info_app s s2 (proc :: vargs)); eauto. }
           assert (Hlt : fp s < length (stk s)) by (eapply frame_info_lt; eauto).
           assert (Hn2 : length args <= length (vargs ++ stk s)) by (rewrite app_length; lia).
           pose proof (step_tail_call s2 _ _ _ proc (vargs ++ stk s) j rip rself rfp Hat3 Hstk2 Hfi2 Hn2 Hj) as Hstep.
           rewrite Hlargs, firstn_exact in Hstep.
           change (proc :: vargs ++ stk s) with ((proc :: vargs) ++ stk s) in Hstep.
           change (fp s2) with (fp s) in Hstep.
           rewrite below_app in Hstep by lia. fold base in Hstep.
           unfold proc in Hstep. rewrite Hmc in Hstep.
           eapply reaches_trans; [apply reaches_step; exact Hstep|].
           change (globals s2) with (globals s) in Hreach.
           replace (returned s v' j rip rself rfp (h1 ++ h2 ++ hx))
             with (mkst (v' :: base) rfp rself rip (heap s2 ++ hx) (globals s)); [exact Hreach|].
           unfold returned, base. rewrite Hheap2, <- !app_assoc. reflexivity.
        -- destruct (call_closedF f IH s2 cid cps cr cb cfv svs' cvars cels vargs vs [] 0 (VLit LVoid) 0 cenv st2 v st'
                       Hub' Hnd Hfb Hown Hcvars Hcfv E1 Hfix Hvargs2 Hgl2 He) as (Hse3 & sc & v' & hx & _ & Hv' & _).
           split. { eapply store_ext_trans; [exact Hse12|exact Hse3]. }
           exists v', (h1 ++ h2 ++ hx). split. { rewrite Hheap2 in Hv'. rewrite <- !app_assoc in Hv'. exact Hv'. }
           right. split; auto. intros j' rip' rself' rfp' Hq. rewrite Hfi in Hq. discriminate Hq.
      * (* CALL: the callee returns behind the CALL instruction *)
        destruct (call_closedF f IH s2 cid cps cr cb cfv svs' cvars cels vargs vs (stk s) (fp s) (self s) (S (ip s2)) cenv st2 v st'
                    Hub' Hnd Hfb Hown Hcvars Hcfv E1 Hfix Hvargs2 Hgl2 He) as (Hse3 & sc & v' & hx & Hmc & Hv' & Hreach).
        split. { eapply store_ext_trans; [exact Hse12|exact Hse3]. }
        exists v', (h1 ++ h2 ++ hx). split. { rewrite Hheap2 in Hv'. rewrite <- !app_assoc in Hv'. exact Hv'. }
        left. eapply reaches_trans; [exact Hreach2|].
        pose proof (step_call s2 _ _ _ proc (vargs ++ stk s) Hat3 Hstk2) as Hstep.
        rewrite Hlargs in Hstep. unfold proc in Hstep.
        change (fp s2) with (fp s) in Hstep. change (self s2) with (self s) in Hstep.
        rewrite Hmc in Hstep.
        eapply reaches_trans; [apply reaches_step; exact Hstep|].
        change (globals s2) with (globals s) in Hreach.
        replace (fall s v' pre (cargs ++ cg ++ [icall]) (h1 ++ h2 ++ hx))
          with (mkst (v' :: stk s) (fp s) (self s) (S (ip s2)) (heap s2 ++ hx) (globals s)); [exact Hreach|].
        unfold fall, upd. rewrite Hheap2, <- !app_assoc. f_equal. unfold s2; simpl. solve_len.
    + (* OpApp *)
      simpl in Hp. apply andb_true_iff in Hp. destruct Hp as [Hp Hall]. apply andb_true_iff in Hp. destruct Hp as [Hpp Hlen].
      apply Nat.eqb_eq in Hlen. rewrite eval_OpApp in He.
      destruct args as [|a [|b [|c0 args]]]; simpl in Hlen.
      * destruct p; discriminate Hlen.
      * (* unary *)
        assert (Ha1 : prim_arity p = 1) by auto.
        assert (Hinv : (if prim_inverse p then [a] else rev [a]) = [a]) by (destruct (prim_inverse p); reflexivity).
        rewrite Hinv in He. simpl evlist in He. simpl in Hall. apply andb_true_iff in Hall. destruct Hall as [Hpa _].
        destruct (eval f a env st) as [va st1| |] eqn:Ea; try discriminate.
        assert (Hinv2 : (if prim_inverse p then [va] else rev [va]) = [va]) by (destruct (prim_inverse p); reflexivity).
        rewrite Hinv2 in He.
        destruct (prim_sem p [va]) as [[rv|]|] eqn:Eprim; try discriminate. inversion He; subst rv st'. clear He.
        rewrite gen_op1 in * by auto.
        set (ca := generate false svs (lctxF cur) a) in *.
        destruct Hat as [Hcode Hip].
        assert (Hat1 : at_code s pre ca ([IPrim p] ++ post)).
        { split; auto; rewrite Hcode; norm_code. }
        destruct (IH a cur env st va st1 Hpa Ea false svs s pre _ Hub Hat1 Hok) as (Hse1 & v1 & h1 & Hv1 & Hout1).
        apply outcome_false in Hout1. fold ca in Hout1. set (s1 := fall s v1 pre ca h1) in *.
        destruct (prim1_okF p _ _ _ _ _ (stk s) Ha1 Hv1 Eprim) as (r' & Hps & Hr).
        assert (Hat2 : at_code s1 (pre ++ ca) [IPrim p] post).
        { split; simpl; [|rewrite app_length; reflexivity]. rewrite Hcode. norm_code. }
        pose proof (step_prim s1 _ _ _ _ _ Hat2 Hps) as Hstep.
        split; auto. exists r', h1. split; auto.
        left. eapply reaches_trans; [exact Hout1|]. apply reaches_step. rewrite Hstep.
        unfold fall, upd; simpl. f_equal. f_equal. solve_len.
      * (* binary *)
        assert (Ha2 : prim_arity p = 2) by auto.
        simpl in Hall. apply andb_true_iff in Hall. destruct Hall as [Hpa Hall].
        apply andb_true_iff in Hall. destruct Hall as [Hpb _].
        rewrite gen_op2 in * by auto.
        destruct Hat as [Hcode Hip].
        destruct (prim_inverse p) eqn:Einv.
        -- simpl evlist in He.
           destruct (eval f a env st) as [va st1| |] eqn:Ea; try discriminate.
           destruct (eval f b env st1) as [vb st2| |] eqn:Eb; try discriminate.
           destruct (prim_sem p [va; vb]) as [[rv|]|] eqn:Eprim; try discriminate. inversion He; subst rv st'. clear He.
           set (ca := generate false svs (lctxF cur) a) in *. set (cb := generate false svs (lctxF cur) b) in *.
           assert (Hat1 : at_code s pre ca ((cb ++ [IPrim (prim_opcode p)]) ++ post)).
           { split; auto; rewrite Hcode; norm_code. }
           destruct (IH a cur env st va st1 Hpa Ea false svs s pre _ Hub Hat1 Hok) as (Hse1 & v1 & h1 & Hv1 & Hout1).
           apply outcome_false in Hout1. fold ca in Hout1. set (s1 := fall s v1 pre ca h1) in *.
           assert (Hat2 : at_code s1 (pre ++ ca) cb ([IPrim (prim_opcode p)] ++ post)).
           { split; simpl; [|rewrite app_length; reflexivity]. rewrite Hcode. norm_code. }
           assert (Hok1 : env_okF cur env st1 s1) by (eapply (env_okF_ext cur env st st1 s s1 [v1] h1); eauto).
           destruct (IH b cur env st1 vb st2 Hpb Eb false svs s1 _ _ Hub Hat2 Hok1) as (Hse2 & v2 & h2 & Hv2 & Hout2).
           apply outcome_false in Hout2. fold cb in Hout2. set (s2 := fall s1 v2 (pre ++ ca) cb h2) in *.
           simpl in Hv2. assert (Hv1' : vrelF ((heap s ++ h1) ++ h2) (cells st2) v1 va) by (eapply vrelF_mono; eauto).
           pose proof (prim2_okF p _ _ _ _ _ _ _ (stk s) Ha2 Hpp Hv1' Hv2 Eprim) as (r' & hx & Hps & Hr).
           rewrite Einv in Hps.
           assert (Hat3 : at_code s2 (pre ++ ca ++ cb) [IPrim (prim_opcode p)] post).
           { split; simpl; [|solve_len]. rewrite Hcode. norm_code. }
           pose proof (step_prim s2 _ _ _ _ _ Hat3 Hps) as Hstep.
           split; [eapply store_ext_trans; eauto|]. exists r', (h1 ++ h2 ++ hx). split.
           ++ rewrite <- !app_assoc in Hr. exact Hr.
           ++ left. eapply reaches_trans; [exact Hout1|]. eapply reaches_trans; [exact Hout2|].
              apply reaches_step. rewrite Hstep. unfold fall, upd; simpl. f_equal. f_equal; [solve_len | rewrite <- !app_assoc; reflexivity].
        -- simpl evlist in He.
           destruct (eval f b env st) as [vb st1| |] eqn:Eb; try discriminate.
           destruct (eval f a env st1) as [va st2| |] eqn:Ea; try discriminate.
           simpl rev in He.
           destruct (prim_sem p [va; vb]) as [[rv|]|] eqn:Eprim; try discriminate. inversion He; subst rv st'. clear He.
           set (ca := generate false svs (lctxF cur) a) in *. set (cb := generate false svs (lctxF cur) b) in *.
           assert (Hat1 : at_code s pre cb ((ca ++ [IPrim p]) ++ post)).
           { split; auto; rewrite Hcode; norm_code. }
           destruct (IH b cur env st vb st1 Hpb Eb false svs s pre _ Hub Hat1 Hok) as (Hse1 & v1 & h1 & Hv1 & Hout1).
           apply outcome_false in Hout1. fold cb in Hout1. set (s1 := fall s v1 pre cb h1) in *.
           assert (Hat2 : at_code s1 (pre ++ cb) ca ([IPrim p] ++ post)).
           { split; simpl; [|rewrite app_length; reflexivity]. rewrite Hcode. norm_code. }
           assert (Hok1 : env_okF cur env st1 s1) by (eapply (env_okF_ext cur env st st1 s s1 [v1] h1); eauto).
           destruct (IH a cur env st1 va st2 Hpa Ea false svs s1 _ _ Hub Hat2 Hok1) as (Hse2 & v2 & h2 & Hv2 & Hout2).
           apply outcome_false in Hout2. fold ca in Hout2. set (s2 := fall s1 v2 (pre ++ cb) ca h2) in *.
           simpl in Hv2. assert (Hv1' : vrelF ((heap s ++ h1) ++ h2) (cells st2) v1 vb) by (eapply vrelF_mono; eauto).
           pose proof (prim2_okF p _ _ _ _ _ _ _ (stk s) Ha2 Hpp Hv2 Hv1' Eprim) as (r' & hx & Hps & Hr).
           rewrite Einv in Hps.
           assert (Hat3 : at_code s2 (pre ++ cb ++ ca) [IPrim p] post).
           { split; simpl; [|solve_len]. rewrite Hcode. norm_code. }
           pose proof (step_prim s2 _ _ _ _ _ Hat3 Hps) as Hstep.
           split; [eapply store_ext_trans; eauto|]. exists r', (h1 ++ h2 ++ hx). split.
           ++ rewrite <- !app_assoc in Hr. exact Hr.
           ++ left. eapply reaches_trans; [exact Hout1|]. eapply reaches_trans; [exact Hout2|].
              apply reaches_step. rewrite Hstep. unfold fall, upd; simpl. f_equal. f_equal; [solve_len | rewrite <- !app_assoc; reflexivity].
      * destruct p; discriminate Hlen.
Qed.

(* ------------------------------------------------------------------ the plain fragment; unused rest is no restriction *)

(* ------------------------------------------------------------------ closed forms *)

Theorem compile_correct_functional_fragment : forall fuel e cur env st v st' tl svs s pre post,
  fragF cur e = true ->
  eval fuel e env st = SVal v st' ->
  unboxed svs ->
  code_of (self s) = pre ++ generate tl svs (lctxF cur) e ++ post -> ip s = length pre ->
  env_okF cur env st s ->
  store_ext st st' /\
  exists v' hx, vrelF (heap s ++ hx) (cells st') v' v /\
    ((exists n, nsteps n s = Some (mkst (v' :: stk s) (fp s) (self s)
                                        (length pre + length (generate tl svs (lctxF cur) e))
                                        (heap s ++ hx) (globals s)))
     \/ (tl = true /\ forall j rip rself rfp, frame_info s = Some (j, rip, rself, rfp) -> j <= fp s ->
           exists n, nsteps n s = Some (mkst (v' :: below (fp s - j) (stk s)) rfp rself rip (heap s ++ hx) (globals s)))).
Proof.
  intros fuel e cur env st v st' tl svs s pre post Hp He Hub Hc Hi Hok.
  exact (simF_all fuel e cur env st v st' Hp He tl svs s pre post Hub (conj Hc Hi) Hok).
Qed.

Theorem compile_correct_toplevel_expr_functional : forall fuel e st v st' svs h gl,
  fragF None e = true ->
  eval fuel e [] st = SVal v st' ->
  unboxed svs ->
  (forall g w, glob_lookup g (sglobals st) = Some w -> exists v0, assoc_nat g gl = Some v0 /\ vrelF h (cells st) v0 w) ->
  exists s0 n v' s',
    init_state (generate true svs None e ++ [IRet]) h gl = Next s0 /\
    run n s0 = Done v' s' /\ vrelF (heap s') (cells st') v' v /\ globals s' = gl /\ (exists hx, heap s' = h ++ hx).
Proof.
  intros fuel e st v st' svs h gl Hp He Hub Hgl.
  set (code := generate true svs None e).
  set (base := [VLit LVoid; VLit LVoid; VLit LVoid; VLit LVoid]).
  set (s0 := mkst (vint 0 :: final_resumer :: vint 0 :: vint 0 :: base) (length base) (VProc 0 0 (code ++ [IRet]) (VLit LVoid)) 0 h gl).
  assert (Hinit : init_state (code ++ [IRet]) h gl = Next s0).
  { unfold init_state. rewrite make_call_fixed by (simpl; lia). reflexivity. }
  assert (Hat : at_code s0 [] (generate true svs (lctxF None) e) [IRet]) by (split; reflexivity).
  assert (Hok : env_okF None [] st s0).
  { repeat split; try (intros id ps r dead fv Hc; discriminate Hc). exact Hgl. }
  destruct (simF_all fuel e None [] st v st' Hp He true svs s0 [] [IRet] Hub Hat Hok) as (_ & v' & hx & Hv & Hout).
  assert (Hfi : frame_info s0 = Some (0, 0, final_resumer, 0)) by apply (frame_info_entry 0 final_resumer 0 0 base).
  pose proof (finish_return s0 code v' hx 0 0 final_resumer 0 eq_refl eq_refl Hfi (Nat.le_0_l _) Hout) as [n Hn].
  set (t := mkst (v' :: below (fp s0 - 0) (stk s0)) 0 final_resumer 0 (heap s0 ++ hx) (globals s0)) in *.
  exists s0, (n + 1), v', t. split; [exact Hinit|]. split; [|split; [exact Hv|split; [reflexivity|exists hx; reflexivity]]].
  rewrite (run_nsteps n 1 s0 t Hn). reflexivity.
Qed.

(* ------------------------------------------------------------------ the hypotheses are satisfiable *)

(** globals: adder = (lambda (n) (lambda (x) (+ x n)))              -- the inner lambda captures n
             twice = (lambda (f) (lambda (x) (f (f x))))            -- captures a procedure
    expression: (cons ((twice (adder 3)) 10)
                      (cons (((lambda (a . r) (lambda (k) (cons k (cons a r)))) 1 2 3) 0) '()))
    => (16 (0 1 2 3)): closures over a parameter, over a closure, over parameter and rest list *)
Module ExampleClos.
  Definition svs0 : nat -> list name := fun _ => [].
  (* adder: id 1, param n=0; inner id 2, param x=1, fv [(0, Local 1)] *)
  Definition adder_inner : ast := Lam 2 [1] None [] [] [(0, Local 1)] (OpApp PAdd [Ref 1 (Local 2); Ref 0 (Local 1)]).
  (* twice: id 3, param f=2; inner id 4, param x=3, fv [(2, Local 3)] *)
  Definition twice_inner : ast :=
    Lam 4 [3] None [] [] [(2, Local 3)] (App (Ref 2 (Local 3)) [App (Ref 2 (Local 3)) [Ref 3 (Local 4)]]).
  (* (lambda (a . r) (lambda (k) (cons k (cons a r)))): id 5, a=4, r=5; inner id 6, k=6, fv [(4,L5);(5,L5)] *)
  Definition mk : ast :=
    Lam 5 [4] (Some 5) [] [] []
        (Lam 6 [6] None [] [] [(4, Local 5); (5, Local 5)]
             (OpApp PCons [Ref 6 (Local 6); OpApp PCons [Ref 4 (Local 5); Ref 5 (Local 5)]])).
  Definition e0 : ast :=
    OpApp PCons [App (App (Ref 11 Global) [App (Ref 10 Global) [Lit (LInt 3)]]) [Lit (LInt 10)];
                 OpApp PCons [App (App mk [Lit (LInt 1); Lit (LInt 2); Lit (LInt 3)]) [Lit (LInt 0)]; Lit LNil]].
  Definition st0 : sstore :=
    mkstore [] [(10, SClo 1 [0] None [] adder_inner []); (11, SClo 3 [2] None [] twice_inner [])].
  Definition gl0 : list (nat * value) :=
    [(10, VProc (lam_flags 1 None adder_inner) 1 (closedF svs0 1 [0] None [] adder_inner) (VLit LVoid));
     (11, VProc (lam_flags 3 None twice_inner) 1 (closedF svs0 3 [2] None [] twice_inner) (VLit LVoid))].

  Example frag_e0 : fragF None e0 = true.
  Proof. reflexivity. Qed.

  Definition expected : sval :=
    slist [SLit (LInt 16); slist [SLit (LInt 0); SLit (LInt 1); SLit (LInt 2); SLit (LInt 3)]].

  Example eval_e0 : exists st', eval 30 e0 [] st0 = SVal expected st'.
  Proof. eexists. vm_compute. reflexivity. Qed.

  Example globals_related : forall g w, glob_lookup g (sglobals st0) = Some w ->
    exists v0, assoc_nat g gl0 = Some v0 /\ vrelF [] (cells st0) v0 w.
  Proof.
    intros g w H. simpl in H.
    destruct (Nat.eqb g 10) eqn:E10.
    - apply Nat.eqb_eq in E10. subst g. inversion H; subst w. eexists. split; [reflexivity|].
      eapply (VF_clo [] [] 1 [0] None adder_inner [] [] svs0 (VLit LVoid) []); try reflexivity.
      + intro m; reflexivity.
      + intros p [].
      + split; reflexivity.
      + constructor.
    - destruct (Nat.eqb g 11) eqn:E11; try discriminate.
      apply Nat.eqb_eq in E11. subst g. inversion H; subst w. eexists. split; [reflexivity|].
      eapply (VF_clo [] [] 3 [2] None twice_inner [] [] svs0 (VLit LVoid) []); try reflexivity.
      + intro m; reflexivity.
      + intros p [].
      + split; reflexivity.
      + constructor.
  Qed.

  Example end_to_end : exists s0 n v' s' st',
    init_state (generate true svs0 None e0 ++ [IRet]) [] gl0 = Next s0 /\
    run n s0 = Done v' s' /\ vrelF (heap s') (cells st') v' expected.
  Proof.
    destruct eval_e0 as [st' He].
    destruct (compile_correct_toplevel_expr_functional 30 e0 st0 _ st' svs0 [] gl0 frag_e0 He (fun m => eq_refl) globals_related)
      as (s0 & n & v' & s' & Hi & Hr & Hv & _).
    exists s0, n, v', s', st'. auto.
  Qed.

  (** and observed directly *)
  Example run_e0 : exists s0 v' s', init_state (generate true svs0 None e0 ++ [IRet]) [] gl0 = Next s0 /\
                                    run 400 s0 = Done v' s'.
  Proof. eexists. eexists. eexists. split; vm_compute; reflexivity. Qed.
End ExampleClos.
