(** C03 — compile_correct, second fragment: the call-free fragment of Simulation.v plus creation and
    application (CALL and TAIL-CALL, make_call's exact-arity protocol, RET) of closed fixed-arity procedures.

    Fragment [frag cur e] ([cur] = id and parameters of the lambda whose body e belongs to, None at top level):
      literals, global references, references to parameters of the current lambda, if, begin, the inlined unary /
      binary opcodes except eq?, lambda expressions without rest parameter / internal defines / assigned variables /
      free local variables whose body is again in the fragment, applications (operator and operands in the fragment).
    Nothing is boxed in this fragment (no set!), so the theorem is stated for [svs] with [svs m = []] everywhere.
    Recursion is included (a global bound to a closed procedure may call itself, also in tail position): the induction
    is on the fuel of the SPEC interpreter.

    Statement shape: for code in non-tail position the VM falls through to the end of the code with the value
    pushed; for code in tail position (tl = true) it either does the same or -- when a TAIL-CALL was executed --
    it has already returned to the frame recorded in the current frame header, with the value pushed on the
    caller's stack.  In both cases the rest of the stack, fp / self of the continuation and the globals are as
    before and the heap only grows. *)
From Coq Require Import ZArith List Bool Arith Lia.
From ChibiV Require Import C03.Defs C03.Model C03.Spec C03.Simulation.
Import ListNotations.
Local Open Scope nat_scope.

Definition fctx := option (nat * list name).

Definition lctx_of (cur : fctx) : option lctx :=
  match cur with Some (id, ps) => Some (mk_lctx id ps None [] []) | None => None end.

Fixpoint frag (cur : fctx) (e : ast) {struct e} : bool :=
  match e with
  | Lit _ => true
  | Ref x Global => true
  | Ref x (Local m) => match cur with Some (id, ps) => Nat.eqb m id && memn x ps | None => false end
  | Cnd t p f => frag cur t && frag cur p && frag cur f
  | Seq es => match es with [] => false | _ :: _ => forallb (frag cur) es end
  | OpApp p args => pure_prim p && Nat.eqb (length args) (prim_arity p) && forallb (frag cur) args
  | Lam id ps None [] [] [] b => nodupb ps && frag (Some (id, ps)) b
  | App f args => frag cur f && forallb (frag cur) args
  | _ => false
  end.

(** entry code of a closed procedure of the fragment (vm.c generate_lambda with no locals, no sv, no fv) *)
Definition closed_entry (svs : nat -> list name) (id : nat) (ps : list name) (b : ast) : code :=
  generate true svs (Some (mk_lctx id ps None [] [])) b ++ [IRet].

Definition unboxed (svs : nat -> list name) : Prop := forall m, svs m = [].

(** values: data as in Simulation.vrel; a SPEC closure of the fragment is represented by the procedure object
    PUSH creates for its lambda *)
Fixpoint vrelc (h : list hobj) (v : value) (w : sval) {struct w} : Prop :=
  match w with
  | SLit l => v = VLit l
  | SPair x y => exists a vx vy, v = VPair a /\ nth_error h a = Some (HPair vx vy) /\ vrelc h vx x /\ vrelc h vy y
  | SClo id ps r ls b _ =>
      r = None /\ ls = [] /\ nodupb ps = true /\ frag (Some (id, ps)) b = true /\
      exists svs', unboxed svs' /\ v = VProc 0 (length ps) (closed_entry svs' id ps b) (VLit LVoid)
  end.

Lemma vrelc_ext : forall w h h' v, vrelc h v w -> vrelc (h ++ h') v w.
Proof.
  induction w as [l | x IHx y IHy | ]; simpl; intros h h' v H; auto.
  destruct H as (a & vx & vy & -> & Hn & H1 & H2). exists a, vx, vy.
  repeat split; auto. rewrite nth_error_app1; auto. apply nth_error_Some. congruence.
Qed.

Lemma Forall2_vrelc_ext : forall h h' vs ws, Forall2 (vrelc h) vs ws -> Forall2 (vrelc (h ++ h')) vs ws.
Proof. induction 1; constructor; auto using vrelc_ext. Qed.

Definition store_ext (st st' : sstore) : Prop :=
  (exists cx, cells st' = cells st ++ cx) /\ sglobals st' = sglobals st.

Lemma store_ext_refl : forall st, store_ext st st.
Proof. intro st; split; auto. exists []. rewrite app_nil_r; reflexivity. Qed.

Lemma store_ext_trans : forall a b c, store_ext a b -> store_ext b c -> store_ext a c.
Proof.
  intros a b c [[x Hx] Hg] [[y Hy] Hg']. split; [|congruence].
  exists (x ++ y). rewrite Hy, Hx, app_assoc. reflexivity.
Qed.

Definition env_okc (cur : fctx) (env : senv) (st : sstore) (s : state) : Prop :=
  (forall id ps, cur = Some (id, ps) -> forall x, memn x ps = true ->
     exists a w k v, env_lookup (x, Local id) env = Some a /\ nth_error (cells st) a = Some w /\
                     slot (fp s) (param_index ps None [] x) = Some k /\ sget (stk s) k = Some v /\
                     vrelc (heap s) v w)
  /\ (forall g w, glob_lookup g (sglobals st) = Some w ->
        exists v, assoc_nat g (globals s) = Some v /\ vrelc (heap s) v w).

Lemma env_okc_ext : forall cur env st st1 s s1 vs hx,
  env_okc cur env st s -> store_ext st st1 ->
  fp s1 = fp s -> globals s1 = globals s -> stk s1 = vs ++ stk s -> heap s1 = heap s ++ hx ->
  env_okc cur env st1 s1.
Proof.
  intros cur env st st1 s s1 vs hx [HL HG] [[cx Hcx] Hsg] Hfp Hgl Hstk Hheap. split.
  - intros id ps Hc x Hm. destruct (HL id ps Hc x Hm) as (a & w & k & v & He & Hn & Hs & Hg & Hv).
    exists a, w, k, v. rewrite Hfp, Hstk, Hheap, Hcx. repeat split; auto using sget_app, vrelc_ext.
    rewrite nth_error_app1; auto. apply nth_error_Some. congruence.
  - intros g w Hg. rewrite Hsg in Hg. destruct (HG g w Hg) as (v & Ha & Hv). exists v.
    rewrite Hgl, Hheap. auto using vrelc_ext.
Qed.

(* ------------------------------------------------------------------ reachability *)

Definition reaches (s t : state) : Prop := exists n, nsteps n s = Some t.

Lemma reaches_refl : forall s, reaches s s.
Proof. intro s; exists 0; reflexivity. Qed.

Lemma reaches_trans : forall a b c, reaches a b -> reaches b c -> reaches a c.
Proof. intros a b c [n Hn] [m Hm]. exists (n + m). eapply nsteps_app; eauto. Qed.

Lemma reaches_step : forall a b, step a = Next b -> reaches a b.
Proof. intros a b H. exists 1. apply nsteps_one; auto. Qed.

Definition fall (s : state) (v' : value) (pre c : code) (hx : list hobj) : state :=
  upd s (v' :: stk s) (length pre + length c) (heap s ++ hx).

Definition returned (s : state) (v' : value) (j rip : nat) (rself : value) (rfp : nat) (hx : list hobj) : state :=
  mkst (v' :: below (fp s - j) (stk s)) rfp rself rip (heap s ++ hx) (globals s).

Definition outcome_ok (tl : bool) (s : state) (pre c : code) (v' : value) (hx : list hobj) : Prop :=
  reaches s (fall s v' pre c hx) \/
  (tl = true /\ forall j rip rself rfp, frame_info s = Some (j, rip, rself, rfp) -> j <= fp s ->
     reaches s (returned s v' j rip rself rfp hx)).

Lemma outcome_false : forall s pre c v' hx, outcome_ok false s pre c v' hx -> reaches s (fall s v' pre c hx).
Proof. intros s pre c v' hx [H | [H _]]; [exact H | discriminate]. Qed.

(* ------------------------------------------------------------------ stack facts *)

Lemma below_app : forall k vs st, k <= length st -> below k (vs ++ st) = below k st.
Proof.
  intros k vs st H. unfold below. rewrite app_length, skipn_app.
  rewrite skipn_all2 by lia. simpl. f_equal. lia.
Qed.

Lemma below_exact : forall Y X, below (length X) (Y ++ X) = X.
Proof.
  intros Y X. unfold below. rewrite app_length, skipn_app.
  rewrite skipn_all2 by lia. simpl.
  replace (length Y + length X - length X - length Y) with 0 by lia. reflexivity.
Qed.

Lemma sget_Some_lt : forall st k v, sget st k = Some v -> k < length st.
Proof. unfold sget; intros st k v H. destruct (k <? length st) eqn:E; try discriminate. apply Nat.ltb_lt; auto. Qed.

Lemma frame_info_lt : forall s q, frame_info s = Some q -> fp s < length (stk s).
Proof.
  intros s q H. unfold frame_info in H.
  destruct (sget (stk s) (fp s)) as [v|] eqn:E; try discriminate. eapply sget_Some_lt; eauto.
Qed.

Lemma frame_info_app : forall s s1 vs q,
  frame_info s = Some q -> stk s1 = vs ++ stk s -> fp s1 = fp s -> frame_info s1 = Some q.
Proof.
  intros s s1 vs q H Hs Hf. unfold frame_info in *. rewrite Hs, Hf.
  destruct (sget (stk s) (fp s)) as [v0|] eqn:E0; try discriminate.
  destruct (sget (stk s) (fp s + 1)) as [v1|] eqn:E1; [|destruct v0 as [[]| | | |]; discriminate].
  destruct (sget (stk s) (fp s + 2)) as [v2|] eqn:E2; [|destruct v0 as [[]| | | |]; try discriminate; destruct v1 as [[]| | | |]; discriminate].
  destruct (sget (stk s) (fp s + 3)) as [v3|] eqn:E3;
    [|destruct v0 as [[]| | | |]; try discriminate; destruct v1 as [[]| | | |]; discriminate].
  rewrite (sget_app vs _ _ _ E0), (sget_app vs _ _ _ E1), (sget_app vs _ _ _ E2), (sget_app vs _ _ _ E3). exact H.
Qed.

Lemma sget_hdr : forall (hdr st : list value) k, k < length hdr ->
  sget (hdr ++ st) (length st + k) = nth_error hdr (length hdr - 1 - k).
Proof.
  intros hdr st k H. unfold sget. rewrite app_length.
  assert (E : (length st + k <? length hdr + length st) = true) by (apply Nat.ltb_lt; lia).
  rewrite E. rewrite nth_error_app1 by lia. f_equal. lia.
Qed.

Lemma frame_info_entry : forall rfp rself rip n st p h g,
  frame_info (mkst (vint rfp :: rself :: vint rip :: vint n :: st) (length st) p 0 h g) = Some (n, rip, rself, rfp).
Proof.
  intros. unfold frame_info. cbn [stk fp].
  change (vint rfp :: rself :: vint rip :: vint n :: st) with ([vint rfp; rself; vint rip; vint n] ++ st).
  replace (length st) with (length st + 0) at 1 by lia.
  rewrite !sget_hdr by (simpl; lia). simpl.
  unfold vint.
  assert (Hn : forall m, (Z.of_nat m <? 0)%Z = false) by (intro m; apply Z.ltb_ge; lia).
  rewrite !Hn. simpl. rewrite !Nat2Z.id. reflexivity.
Qed.

(* ------------------------------------------------------------------ more single instructions *)

Lemma step_push_proc : forall s pre fl n c post, at_code s pre [IPushProc fl n c] post ->
  step s = Next (upd s (VProc fl n c (VLit LVoid) :: stk s) (S (ip s)) (heap s)).
Proof. intros s pre fl n c post H. unfold step. rewrite (fetch _ _ _ _ H). reflexivity. Qed.

Lemma make_call_fixed : forall s n c vars st rip rself rfp, n <= length st ->
  make_call s (VProc 0 n c vars) st n rip rself rfp =
  Next (mkst (vint rfp :: rself :: vint rip :: vint n :: st) (length st) (VProc 0 n c vars) 0 (heap s) (globals s)).
Proof.
  intros s n c vars st rip rself rfp H. unfold make_call.
  assert (E1 : (length st <? n) = false) by (apply Nat.ltb_ge; lia).
  assert (E2 : (n <? n) = false) by (apply Nat.ltb_irrefl).
  rewrite E1, E2, Nat.sub_diag. reflexivity.
Qed.

Lemma step_call : forall s pre n post proc r, at_code s pre [ICall n] post -> stk s = proc :: r ->
  step s = make_call s proc r n (S (ip s)) (self s) (fp s).
Proof. intros s pre n post proc r H Hs. unfold step. rewrite (fetch _ _ _ _ H), Hs. reflexivity. Qed.

Lemma step_tail_call : forall s pre n post proc r j rip rself rfp, at_code s pre [ITailCall n] post ->
  stk s = proc :: r -> frame_info s = Some (j, rip, rself, rfp) -> n <= length r -> j <= fp s ->
  step s = make_call s proc (firstn n r ++ below (fp s - j) (proc :: r)) n rip rself rfp.
Proof.
  intros s pre n post proc r j rip rself rfp H Hs Hf Hn Hj. unfold step. rewrite (fetch _ _ _ _ H), Hf, Hs.
  assert (E1 : (length r <? n) = false) by (apply Nat.ltb_ge; lia).
  assert (E2 : (fp s <? j) = false) by (apply Nat.ltb_ge; lia).
  rewrite E1, E2. reflexivity.
Qed.

Lemma step_ret : forall s pre post res r j rip rself rfp, at_code s pre [IRet] post ->
  stk s = res :: r -> frame_info s = Some (j, rip, rself, rfp) -> j <= fp s ->
  step s = Next (mkst (res :: below (fp s - j) (res :: r)) rfp rself rip (heap s) (globals s)).
Proof.
  intros s pre post res r j rip rself rfp H Hs Hf Hj. unfold step. rewrite (fetch _ _ _ _ H), Hf, Hs.
  assert (E2 : (fp s <? j) = false) by (apply Nat.ltb_ge; lia).
  rewrite E2. reflexivity.
Qed.

(* ------------------------------------------------------------------ equations *)

Definition gen_args (svs : nat -> list name) (cur : option lctx) : list ast -> code :=
  fix go (l : list ast) : code := match l with [] => [] | a :: r => go r ++ generate false svs cur a end.

Lemma generate_App : forall tl svs cur f args,
  generate tl svs cur (App f args) =
  gen_args svs cur args ++ generate false svs cur f ++ [if tl then ITailCall (length args) else ICall (length args)].
Proof. reflexivity. Qed.

Lemma generate_Lam_closed : forall tl svs cur id ps b,
  generate tl svs cur (Lam id ps None [] [] [] b) =
  [IPushProc 0 (length ps) (closed_entry (fun m => if Nat.eqb m id then [] else svs m) id ps b)].
Proof. reflexivity. Qed.

Lemma eval_Lam : forall f id ps r ls sv fv b env st,
  eval (S f) (Lam id ps r ls sv fv b) env st = SVal (SClo id ps r ls b env) st.
Proof. reflexivity. Qed.

Lemma eval_App : forall f fe args env st,
  eval (S f) (App fe args) env st =
  match evlist (eval f) (rev args) env st with
  | inr x => x
  | inl (rvs, st1) =>
      let vs := rev rvs in
      match eval f fe env st1 with
      | SVal (SClo id ps r ls b cenv) st2 =>
          let n := length ps in
          if length vs <? n then SErr ENotEnoughArgs
          else if (match r with None => n <? length vs | Some _ => false end) then SErr ETooManyArgs
          else
            let '(e1, c1) := bind_all id ps (firstn n vs) cenv (cells st2) in
            let '(e2, c2) := match r with
                             | Some x => bind_all id [x] [slist (skipn n vs)] e1 c1
                             | None => (e1, c1)
                             end in
            let '(e3, c3) := bind_all id ls (repeat (SLit LUndef) (length ls)) e2 c2 in
            eval f b e3 (mkstore c3 (sglobals st2))
      | SVal _ _ => SErr ENotProc
      | x => x
      end
  end.
Proof. reflexivity. Qed.

Lemma eval_Ref_local : forall f x m env st,
  eval (S f) (Ref x (Local m)) env st =
  match env_lookup (x, Local m) env with
  | Some a => match nth_error (cells st) a with Some v => SVal v st | None => SErr EStuck end
  | None => SErr EStuck
  end.
Proof. reflexivity. Qed.

Lemma eval_Ref_global : forall f x env st,
  eval (S f) (Ref x Global) env st =
  match glob_lookup x (sglobals st) with Some v => SVal v st | None => SErr EUndefGlobal end.
Proof. reflexivity. Qed.

Lemma evlist_app : forall ev l1 l2 env st,
  evlist ev (l1 ++ l2) env st =
  match evlist ev l1 env st with
  | inl (vs1, st1) =>
      match evlist ev l2 env st1 with
      | inl (vs2, st2) => inl (vs1 ++ vs2, st2)
      | inr x => inr x
      end
  | inr x => inr x
  end.
Proof.
  intros ev l1. induction l1 as [|a r IH]; intros l2 env st; simpl.
  - destruct (evlist ev l2 env st) as [[vs2 st2]|x]; reflexivity.
  - destruct (ev a env st) as [v st1| |]; try reflexivity.
    rewrite IH. destruct (evlist ev r env st1) as [[vs1 st1']|x]; try reflexivity.
    destruct (evlist ev l2 env st1') as [[vs2 st2]|x]; reflexivity.
Qed.

Lemma evlist_inr : forall ev l env st x, evlist ev l env st = inr x -> forall v st', x <> SVal v st'.
Proof.
  intros ev l. induction l as [|a r IH]; intros env st x H v st'; simpl in H; try discriminate.
  destruct (ev a env st) as [v1 st1| |] eqn:E; try (inversion H; subst; congruence).
  destruct (evlist ev r env st1) as [[vs st2]|y] eqn:E2; try discriminate.
  inversion H; subst. eapply IH; eauto.
Qed.

Lemma evlist_length : forall ev l env st vs st', evlist ev l env st = inl (vs, st') -> length vs = length l.
Proof.
  intros ev l. induction l as [|a r IH]; intros env st vs st' H; simpl in H.
  - inversion H; reflexivity.
  - destruct (ev a env st) as [v st1| |]; try discriminate.
    destruct (evlist ev r env st1) as [[vs1 st1']|x] eqn:E; try discriminate.
    inversion H; subst. simpl. f_equal. eapply IH; eauto.
Qed.

(* ------------------------------------------------------------------ parameters: bind_all vs param_index *)

Lemma bind_all_cells : forall id xs vs e cs, length vs = length xs ->
  snd (bind_all id xs vs e cs) = cs ++ vs.
Proof.
  intros id xs. induction xs as [|x xr IH]; intros [|v vr] e cs H; simpl in *; try discriminate.
  - rewrite app_nil_r; reflexivity.
  - rewrite IH by lia. rewrite <- app_assoc. reflexivity.
Qed.

Lemma bind_all_other : forall id xs vs e cs y, memn y xs = false ->
  env_lookup (y, Local id) (fst (bind_all id xs vs e cs)) = env_lookup (y, Local id) e.
Proof.
  intros id xs. induction xs as [|x xr IH]; intros vs e cs y H; simpl in *; auto.
  destruct vs as [|v vr]; simpl; auto.
  apply orb_false_iff in H. destruct H as [Hx Hr].
  rewrite IH by auto. simpl. unfold vref_eqb. simpl. rewrite Hx. reflexivity.
Qed.

Lemma bind_all_lookup : forall id xs vs e cs y k, nodupb xs = true -> length vs = length xs ->
  index_of y xs = Some k ->
  env_lookup (y, Local id) (fst (bind_all id xs vs e cs)) = Some (length cs + k)
  /\ nth_error (cs ++ vs) (length cs + k) = nth_error vs k.
Proof.
  intros id xs. induction xs as [|x xr IH]; intros vs e cs y k Hnd Hlen Hidx; simpl in *; try discriminate.
  destruct vs as [|v vr]; simpl in Hlen; try discriminate.
  apply andb_true_iff in Hnd. destruct Hnd as [Hx Hnd]. apply negb_true_iff in Hx.
  split; [|rewrite nth_error_app2 by lia; f_equal; lia].
  simpl. destruct (Nat.eqb x y) eqn:E.
  - apply Nat.eqb_eq in E. subst y. inversion Hidx; subst k.
    rewrite bind_all_other by exact Hx. simpl. unfold vref_eqb. simpl. rewrite !Nat.eqb_refl. simpl.
    f_equal. lia.
  - destruct (index_of y xr) as [k'|] eqn:Ek; simpl in Hidx; try discriminate. inversion Hidx; subst k.
    destruct (IH vr (((x, Local id), length cs) :: e) (cs ++ [v]) y k' Hnd ltac:(lia) Ek) as [H1 _].
    rewrite H1. rewrite app_length. simpl. f_equal. lia.
Qed.

Lemma memn_index_of : forall x l, memn x l = true -> exists k, index_of x l = Some k /\ k < length l.
Proof.
  intros x l. induction l as [|y r IH]; simpl; intro H; try discriminate.
  destruct (Nat.eqb y x) eqn:E.
  - exists 0. split; auto. lia.
  - rewrite Nat.eqb_sym in H. rewrite E in H. simpl in H. destruct (IH H) as (k & Hk & Hl).
    exists (S k). rewrite Hk. split; auto. lia.
Qed.

Lemma param_index_fixed : forall ps x k, index_of x ps = Some k -> param_index ps None [] x = Z.of_nat k.
Proof. intros ps x k H. unfold param_index. rewrite H. reflexivity. Qed.

(* ------------------------------------------------------------------ primitives under vrelc *)

Lemma prim1_okc : forall p h v w r stk0,
  prim_arity p = 1 -> vrelc h v w -> prim_sem p [w] = inl (Some r) ->
  exists r', prim_step p (v :: stk0) h = inl (Some (r' :: stk0, h)) /\ vrelc h r' r.
Proof.
  intros p h v w r stk0 Ha Hv Hs.
  destruct p; try discriminate Ha; destruct w as [l | x y | id ps rr ls b env]; simpl in Hv;
    try (destruct Hv as (a & vx & vy & -> & Hn & H1 & H2));
    try (destruct Hv as (_ & _ & _ & _ & svs' & _ & ->));
    subst; simpl in Hs; try discriminate;
    inversion Hs; subst; simpl; rewrite ?Hn; eexists; split; try reflexivity; simpl; auto;
    try (destruct l as [z|[|]| | | | |o|nd]; reflexivity).
Qed.

Lemma prim2_okc : forall p h v1 v2 w1 w2 r stk0,
  prim_arity p = 2 -> pure_prim p = true -> vrelc h v1 w1 -> vrelc h v2 w2 ->
  prim_sem p [w1; w2] = inl (Some r) ->
  exists r' hx,
    (if prim_inverse p then prim_step (prim_opcode p) (v2 :: v1 :: stk0) h
     else prim_step p (v1 :: v2 :: stk0) h) = inl (Some (r' :: stk0, h ++ hx))
    /\ vrelc (h ++ hx) r' r.
Proof.
  intros p h v1 v2 w1 w2 r stk0 Ha Hp H1 H2 Hs.
  destruct p; try discriminate Ha; try discriminate Hp.
  all: try (destruct w1 as [[a| | | | | | |] | |]; simpl in Hs; try discriminate;
            destruct w2 as [[b| | | | | | |] | |]; simpl in Hs; try discriminate;
            simpl in H1, H2; subst; inversion Hs; subst; simpl;
            eexists; exists []; rewrite app_nil_r; split; reflexivity).
  simpl in Hs. inversion Hs; subst. simpl. eexists; exists [HPair v1 v2]. split; [reflexivity|].
  simpl. exists (length h), v1, v2. repeat split; auto using vrelc_ext.
  rewrite nth_error_app2 by lia. rewrite Nat.sub_diag. reflexivity.
Qed.

Lemma sval_false_decc : forall h v w, vrelc h v w ->
  (w = SLit (LBool false) /\ v = VLit (LBool false)) \/ (w <> SLit (LBool false) /\ v <> VLit (LBool false)).
Proof.
  intros h v w H. destruct w as [l | x y | id ps rr ls b env]; simpl in H.
  - subst. destruct l as [z|[|]| | | | |o|nd]; try (right; split; congruence). left; auto.
  - destruct H as (a & vx & vy & -> & _). right; split; congruence.
  - destruct H as (_ & _ & _ & _ & svs' & _ & ->). right; split; congruence.
Qed.

(* ------------------------------------------------------------------ the simulation *)

Definition sim2_at (f : nat) (e : ast) : Prop :=
  forall cur env st v st', frag cur e = true -> eval f e env st = SVal v st' ->
  forall tl svs s pre post, unboxed svs ->
  at_code s pre (generate tl svs (lctx_of cur) e) post ->
  env_okc cur env st s ->
  store_ext st st' /\
  exists v' hx, vrelc (heap s ++ hx) v' v /\ outcome_ok tl s pre (generate tl svs (lctx_of cur) e) v' hx.

Lemma fall_eq : forall s s2 v' pre pre2 c c2 h1 h2,
  stk s2 = stk s -> fp s2 = fp s -> self s2 = self s -> globals s2 = globals s -> heap s2 = heap s ++ h1 ->
  length pre2 + length c2 = length pre + length c ->
  fall s2 v' pre2 c2 h2 = fall s v' pre c (h1 ++ h2).
Proof.
  intros s s2 v' pre pre2 c c2 h1 h2 Hs Hf Hse Hg Hh Hl. unfold fall, upd.
  rewrite Hs, Hf, Hse, Hg, Hh, Hl, app_assoc. reflexivity.
Qed.

Lemma outcome_lift : forall tl s s2 pre pre2 c c2 v' h1 h2,
  reaches s s2 ->
  stk s2 = stk s -> fp s2 = fp s -> self s2 = self s -> globals s2 = globals s -> heap s2 = heap s ++ h1 ->
  reaches (fall s2 v' pre2 c2 h2) (fall s v' pre c (h1 ++ h2)) ->
  outcome_ok tl s2 pre2 c2 v' h2 -> outcome_ok tl s pre c v' (h1 ++ h2).
Proof.
  intros tl s s2 pre pre2 c c2 v' h1 h2 Hr Hs Hf Hse Hg Hh Hcont [Ho | [Htl Ho]].
  - left. eapply reaches_trans; [exact Hr|]. eapply reaches_trans; [exact Ho|exact Hcont].
  - right. split; auto. intros j rip rself rfp Hfi Hj.
    assert (Hfi2 : frame_info s2 = Some (j, rip, rself, rfp)).
    { eapply (frame_info_app s s2 []); eauto. }
    rewrite <- Hf in Hj. specialize (Ho j rip rself rfp Hfi2 Hj).
    eapply reaches_trans; [exact Hr|].
    replace (returned s v' j rip rself rfp (h1 ++ h2)) with (returned s2 v' j rip rself rfp h2); auto.
    unfold returned. rewrite Hs, Hf, Hg, Hh, app_assoc. reflexivity.
Qed.

Lemma Forall2_nth : forall {A B} (R : A -> B -> Prop) l1 l2 k b,
  Forall2 R l1 l2 -> nth_error l2 k = Some b -> exists a, nth_error l1 k = Some a /\ R a b.
Proof.
  intros A B R l1 l2 k b H. revert k. induction H as [|x y l1 l2 Hxy H IH]; intros [|k] Hk; simpl in *; try discriminate.
  - inversion Hk; subst. exists x; auto.
  - apply IH; auto.
Qed.

Lemma Forall2_len : forall {A B} (R : A -> B -> Prop) l1 l2, Forall2 R l1 l2 -> length l1 = length l2.
Proof. induction 1; simpl; congruence. Qed.

Lemma slot_arg : forall n k, k < n -> slot n (Z.of_nat k) = Some (n - 1 - k).
Proof.
  intros n k H. unfold slot.
  destruct (Z.ltb_spec (Z.of_nat n - 1 - Z.of_nat k) 0); [lia|]. f_equal. lia.
Qed.

Lemma sget_arg : forall (hdr L : list value) k, k < length L ->
  sget (hdr ++ L) (length L - 1 - k) = nth_error L k.
Proof.
  intros hdr L k H.
  destruct (nth_error L k) as [v|] eqn:E; [|apply nth_error_None in E; lia].
  apply sget_app. unfold sget.
  assert (E1 : (length L - 1 - k <? length L) = true) by (apply Nat.ltb_lt; lia).
  rewrite E1. replace (length L - 1 - (length L - 1 - k)) with k by lia. exact E.
Qed.

Lemma firstn_exact : forall {A} (l1 l2 : list A), firstn (length l1) (l1 ++ l2) = l1.
Proof. intros A l1 l2. induction l1; simpl; congruence. Qed.

Section Sim2.

  (** running a closed procedure of the fragment from its entry state to the return into the frame recorded
      in the header *)
  Lemma call_closed : forall f, (forall e, sim2_at f e) ->
    forall id ps b svs' vargs vs X rfp rself rip h gl cenv st2 v st',
    unboxed svs' -> nodupb ps = true -> frag (Some (id, ps)) b = true ->
    length vs = length ps -> Forall2 (vrelc h) vargs vs ->
    (forall g w, glob_lookup g (sglobals st2) = Some w -> exists v0, assoc_nat g gl = Some v0 /\ vrelc h v0 w) ->
    eval f b (fst (bind_all id ps vs cenv (cells st2))) (mkstore (cells st2 ++ vs) (sglobals st2)) = SVal v st' ->
    store_ext (mkstore (cells st2 ++ vs) (sglobals st2)) st' /\
    exists v' hx, vrelc (h ++ hx) v' v /\
      reaches (mkst (vint rfp :: rself :: vint rip :: vint (length ps) :: vargs ++ X) (length (vargs ++ X))
                    (VProc 0 (length ps) (closed_entry svs' id ps b) (VLit LVoid)) 0 h gl)
              (mkst (v' :: X) rfp rself rip (h ++ hx) gl).
  Proof.
    intros f IH id ps b svs' vargs vs X rfp rself rip h gl cenv st2 v st' Hub Hnd Hfr Hlen Hargs Hgl He.
    set (n := length ps) in *.
    set (sc := mkst (vint rfp :: rself :: vint rip :: vint n :: vargs ++ X) (length (vargs ++ X))
                    (VProc 0 n (closed_entry svs' id ps b) (VLit LVoid)) 0 h gl).
    assert (Hlv : length vargs = n) by (rewrite (Forall2_len _ _ _ Hargs); exact Hlen).
    assert (Hok : env_okc (Some (id, ps)) (fst (bind_all id ps vs cenv (cells st2)))
                          (mkstore (cells st2 ++ vs) (sglobals st2)) sc).
    { split.
      - intros id0 ps0 Hc x Hm. inversion Hc; subst id0 ps0.
        destruct (memn_index_of x ps Hm) as (k & Hk & Hkl).
        destruct (bind_all_lookup id ps vs cenv (cells st2) x k Hnd Hlen Hk) as [Hl Hn].
        destruct (nth_error vs k) as [w|] eqn:Ew; [|apply nth_error_None in Ew; fold n in Hkl; lia].
        destruct (Forall2_nth _ _ _ _ _ Hargs Ew) as (va & Hva & Hrel).
        exists (length (cells st2) + k), w, (length (vargs ++ X) - 1 - k), va.
        repeat split; auto.
        + rewrite (param_index_fixed _ _ _ Hk). unfold sc; cbn [fp]. apply slot_arg.
          rewrite app_length. fold n in Hkl. lia.
        + unfold sc; cbn [stk].
          change (vint rfp :: rself :: vint rip :: vint n :: vargs ++ X) with ([vint rfp; rself; vint rip; vint n] ++ (vargs ++ X)).
          rewrite sget_arg by (rewrite app_length; fold n in Hkl; lia).
          rewrite nth_error_app1 by (fold n in Hkl; lia). exact Hva.
      - intros g w Hg. simpl in Hg. exact (Hgl g w Hg). }
    assert (Hat : at_code sc [] (generate true svs' (lctx_of (Some (id, ps))) b) [IRet]).
    { split; reflexivity. }
    destruct (IH b (Some (id, ps)) _ _ v st' Hfr He true svs' sc [] [IRet] Hub Hat Hok) as (Hse & v' & hx & Hv & Hout).
    split; auto. exists v', hx. split; auto.
    set (code := generate true svs' (lctx_of (Some (id, ps))) b) in *.
    assert (Hfi : frame_info sc = Some (n, rip, rself, rfp)) by apply frame_info_entry.
    assert (Hnfp : n <= fp sc) by (unfold sc; cbn [fp]; rewrite app_length; lia).
    assert (Hbase : forall Y, below (fp sc - n) ((Y ++ vargs) ++ X) = X).
    { intro Y. unfold sc; cbn [fp]. rewrite app_length.
      replace (length vargs + length X - n) with (length X) by lia. apply below_exact. }
    destruct Hout as [Hfall | [_ Hret]].
    - eapply reaches_trans; [exact Hfall|].
      set (se := fall sc v' [] code hx) in *.
      assert (Hate : at_code se code [IRet] []).
      { split; [|reflexivity]. simpl. unfold closed_entry. fold code. reflexivity. }
      assert (Hfie : frame_info se = Some (n, rip, rself, rfp)).
      { eapply (frame_info_app sc se [v']); eauto. }
      pose proof (step_ret se _ _ v' (stk sc) n rip rself rfp Hate eq_refl Hfie Hnfp) as Hstep.
      apply reaches_step. rewrite Hstep. f_equal. f_equal. f_equal.
      change (v' :: stk sc) with (((v' :: [vint rfp; rself; vint rip; vint n]) ++ vargs) ++ X).
      apply (Hbase (v' :: [vint rfp; rself; vint rip; vint n])).
    - specialize (Hret n rip rself rfp Hfi Hnfp).
      replace (mkst (v' :: X) rfp rself rip (h ++ hx) gl) with (returned sc v' n rip rself rfp hx); auto.
      unfold returned. f_equal. f_equal.
      change (stk sc) with (([vint rfp; rself; vint rip; vint n] ++ vargs) ++ X).
      apply (Hbase [vint rfp; rself; vint rip; vint n]).
  Qed.

  Lemma sim2_args : forall f, (forall e, sim2_at f e) ->
    forall cur args env st rvs st1, forallb (frag cur) args = true ->
    evlist (eval f) (rev args) env st = inl (rvs, st1) ->
    forall svs s pre post, unboxed svs ->
    at_code s pre (gen_args svs (lctx_of cur) args) post ->
    env_okc cur env st s ->
    store_ext st st1 /\ exists vargs hx, Forall2 (vrelc (heap s ++ hx)) vargs (rev rvs) /\
      reaches s (upd s (vargs ++ stk s) (length pre + length (gen_args svs (lctx_of cur) args)) (heap s ++ hx)).
  Proof.
    intros f IH cur args. induction args as [|a r IHr]; intros env st rvs st1 Hp He svs s pre post Hub Hat Hok.
    - simpl in He. inversion He; subst. split; [apply store_ext_refl|].
      exists [], []. split; [constructor|].
      destruct Hat as [_ Hip]. destruct s; simpl in *; subst. unfold upd; simpl.
      rewrite app_nil_r, Nat.add_0_r. apply reaches_refl.
    - simpl in Hp. apply andb_true_iff in Hp. destruct Hp as [Hpa Hpr].
      simpl rev in He. rewrite evlist_app in He.
      destruct (evlist (eval f) (rev r) env st) as [[rvs_r st_r]|x] eqn:Er; try discriminate.
      simpl evlist in He.
      destruct (eval f a env st_r) as [wa st_a| |] eqn:Ea; try discriminate.
      inversion He; subst rvs st1. clear He.
      change (gen_args svs (lctx_of cur) (a :: r)) with
        (gen_args svs (lctx_of cur) r ++ generate false svs (lctx_of cur) a) in *.
      set (cr := gen_args svs (lctx_of cur) r) in *. set (ca := generate false svs (lctx_of cur) a) in *.
      destruct Hat as [Hcode Hip].
      assert (Hat1 : at_code s pre cr (ca ++ post)).
      { split; auto. rewrite Hcode. norm_code. }
      destruct (IHr env st rvs_r st_r Hpr Er svs s pre _ Hub Hat1 Hok) as (Hse1 & vr & h1 & Hvr & Hr1).
      fold cr in Hr1. set (s1 := upd s (vr ++ stk s) (length pre + length cr) (heap s ++ h1)) in *.
      assert (Hat2 : at_code s1 (pre ++ cr) ca post).
      { split; simpl; [|rewrite app_length; reflexivity]. rewrite Hcode. norm_code. }
      assert (Hok1 : env_okc cur env st_r s1) by (eapply (env_okc_ext cur env st st_r s s1 vr h1); eauto).
      destruct (IH a cur env st_r wa st_a Hpa Ea false svs s1 _ _ Hub Hat2 Hok1) as (Hse2 & va & h2 & Hva & Hout).
      apply outcome_false in Hout. fold ca in Hout.
      split; [eapply store_ext_trans; eauto|].
      exists (va :: vr), (h1 ++ h2). split.
      + rewrite rev_app_distr. simpl. constructor.
        * simpl in Hva. rewrite <- app_assoc in Hva. exact Hva.
        * rewrite app_assoc. apply Forall2_vrelc_ext. exact Hvr.
      + eapply reaches_trans; [exact Hr1|]. eapply reaches_trans; [exact Hout|].
        replace (fall s1 va (pre ++ cr) ca h2)
          with (upd s ((va :: vr) ++ stk s) (length pre + length (cr ++ ca)) (heap s ++ h1 ++ h2)); [apply reaches_refl|].
        unfold fall, upd; simpl. f_equal; [solve_len | rewrite app_assoc; reflexivity].
  Qed.

  Lemma sim2_seq : forall f, (forall e, sim2_at f e) ->
    forall cur es env st v st', es <> [] -> forallb (frag cur) es = true ->
    eval_seq f env es st = SVal v st' ->
    forall tl svs s pre post, unboxed svs ->
    at_code s pre (gen_seq tl svs (lctx_of cur) es) post ->
    env_okc cur env st s ->
    store_ext st st' /\
    exists v' hx, vrelc (heap s ++ hx) v' v /\ outcome_ok tl s pre (gen_seq tl svs (lctx_of cur) es) v' hx.
  Proof.
    intros f IH cur es. induction es as [|a r IHr]; intros env st v st' Hne Hp He tl svs s pre post Hub Hat Hok.
    - congruence.
    - simpl in Hp. apply andb_true_iff in Hp. destruct Hp as [Hpa Hpr].
      destruct r as [|b r'].
      + simpl in He, Hat |- *. eapply IH; eauto.
      + change (eval_seq f env (a :: b :: r') st) with
          (match eval f a env st with SVal _ st1 => eval_seq f env (b :: r') st1 | x => x end) in He.
        destruct (eval f a env st) as [va st1| |] eqn:Ea; try discriminate.
        change (gen_seq tl svs (lctx_of cur) (a :: b :: r')) with
          ((if is_lit a then [] else drop_prev a (generate false svs (lctx_of cur) a)) ++ gen_seq tl svs (lctx_of cur) (b :: r')) in *.
        assert (Hne2 : b :: r' <> []) by congruence.
        destruct (is_lit a) eqn:La.
        * destruct a; try discriminate La. destruct f; [discriminate Ea|]. rewrite eval_Lit in Ea. inversion Ea; subst st1.
          simpl app in *. eapply IHr; eauto.
        * assert (Hd : drop_prev a (generate false svs (lctx_of cur) a) = generate false svs (lctx_of cur) a ++ [IDrop]).
          { unfold drop_prev. destruct a; simpl in La, Hpa |- *; try discriminate; reflexivity. }
          rewrite Hd in *. set (ca := generate false svs (lctx_of cur) a) in *.
          set (cr := gen_seq tl svs (lctx_of cur) (b :: r')) in *.
          destruct Hat as [Hcode Hip].
          assert (Hat1 : at_code s pre ca ([IDrop] ++ cr ++ post)).
          { split; auto. rewrite Hcode. norm_code. }
          destruct (IH a cur env st va st1 Hpa Ea false svs s pre _ Hub Hat1 Hok) as (Hse1 & v1 & h1 & Hv1 & Hout1).
          apply outcome_false in Hout1. fold ca in Hout1.
          set (s1 := fall s v1 pre ca h1) in *.
          assert (Hat2 : at_code s1 (pre ++ ca) [IDrop] (cr ++ post)).
          { split; simpl; [|rewrite app_length; reflexivity]. rewrite Hcode. norm_code. }
          pose proof (step_drop s1 _ _ v1 (stk s) Hat2 eq_refl) as Hstep.
          set (s2 := upd s1 (stk s) (S (ip s1)) (heap s1)) in *.
          assert (Hat3 : at_code s2 (pre ++ ca ++ [IDrop]) cr post).
          { split; simpl; [|solve_len]. rewrite Hcode. norm_code. }
          assert (Hok2 : env_okc cur env st1 s2).
          { eapply (env_okc_ext cur env st st1 s s2 [] h1); eauto. }
          destruct (IHr env st1 v st' Hne2 Hpr He tl svs s2 _ post Hub Hat3 Hok2) as (Hse2 & v2 & h2 & Hv2 & Hout2).
          fold cr in Hout2.
          split; [eapply store_ext_trans; eauto|]. exists v2, (h1 ++ h2). split.
          -- simpl in Hv2. rewrite <- app_assoc in Hv2. exact Hv2.
          -- eapply (outcome_lift tl s s2 pre (pre ++ ca ++ [IDrop]) _ cr v2 h1 h2); eauto.
             ++ eapply reaches_trans; [exact Hout1|]. apply reaches_step. exact Hstep.
             ++ rewrite (fall_eq s s2 v2 pre (pre ++ ca ++ [IDrop]) ((ca ++ [IDrop]) ++ cr) cr h1 h2); auto.
                ** apply reaches_refl.
                ** solve_len.
  Qed.

End Sim2.

Lemma leaf_outcome : forall tl s pre i post v' h',
  at_code s pre [i] post -> step s = Next (upd s (v' :: stk s) (S (ip s)) (heap s)) -> h' = heap s ->
  outcome_ok tl s pre [i] v' [].
Proof.
  intros tl s pre i post v' h' [_ Hip] Hstep _. left. apply reaches_step. rewrite Hstep.
  unfold fall, upd. rewrite Hip, app_nil_r. simpl. f_equal. f_equal. lia.
Qed.

Lemma sim2_all : forall f e, sim2_at f e.
Proof.
  induction f as [|f IH]; intros e cur env st v st' Hp He tl svs s pre post Hub Hat Hok.
  - discriminate He.
  - destruct e as [l | x o | x o e1 | t p e2 | es | id ps r ls sv fv b | g args | p args]; try discriminate Hp.
    + (* Lit *)
      rewrite eval_Lit in He. inversion He; subst. split; [apply store_ext_refl|].
      exists (VLit (lit_value l)), []. split; [reflexivity|].
      simpl generate in *. eapply leaf_outcome; eauto. eapply step_push; eauto.
    + (* Ref *)
      destruct o as [|m].
      * rewrite eval_Ref_global in He. destruct (glob_lookup x (sglobals st)) as [w|] eqn:Eg; try discriminate.
        inversion He; subst. split; [apply store_ext_refl|].
        destruct Hok as [_ HG]. destruct (HG x v Eg) as (v' & Ha & Hv).
        exists v', []. split; [rewrite app_nil_r; exact Hv|].
        simpl generate in *. eapply leaf_outcome; eauto. eapply step_global_ref; eauto.
      * simpl in Hp. destruct cur as [[id ps]|]; try discriminate Hp.
        apply andb_true_iff in Hp. destruct Hp as [Hm Hx]. apply Nat.eqb_eq in Hm. subst m.
        destruct Hok as [HL _]. destruct (HL id ps eq_refl x Hx) as (a & w & k & v' & Hl & Hn & Hs & Hg & Hv).
        rewrite eval_Ref_local, Hl, Hn in He. inversion He; subst. split; [apply store_ext_refl|].
        assert (Hgen : generate tl svs (lctx_of (Some (id, ps))) (Ref x (Local id)) = [ILocalRef (param_index ps None [] x)]).
        { simpl. unfold gen_non_global_ref. simpl. rewrite Nat.eqb_refl, (Hub id). reflexivity. }
        rewrite Hgen in *.
        exists v', []. split; [rewrite app_nil_r; exact Hv|].
        eapply leaf_outcome; eauto. eapply step_local_ref; eauto.
    + (* Cnd *)
      simpl in Hp. apply andb_true_iff in Hp. destruct Hp as [Hp Hpf]. apply andb_true_iff in Hp. destruct Hp as [Hpt Hpp].
      rewrite eval_Cnd in He.
      destruct (eval f t env st) as [vt st1| |] eqn:Et; try discriminate.
      simpl generate in *.
      set (ct := generate false svs (lctx_of cur) t) in *.
      set (cp := generate tl svs (lctx_of cur) p) in *.
      set (cf := generate tl svs (lctx_of cur) e2) in *.
      destruct Hat as [Hcode Hip].
      assert (Hat1 : at_code s pre ct (([IJumpUnless (S (length cp))] ++ cp ++ [IJump (length cf)] ++ cf) ++ post)).
      { split; auto. rewrite Hcode. norm_code. }
      destruct (IH t cur env st vt st1 Hpt Et false svs s pre _ Hub Hat1 Hok) as (Hse1 & v1 & h1 & Hv1 & Hout1).
      apply outcome_false in Hout1. fold ct in Hout1. set (s1 := fall s v1 pre ct h1) in *.
      assert (Hat2 : at_code s1 (pre ++ ct) [IJumpUnless (S (length cp))] (cp ++ [IJump (length cf)] ++ cf ++ post)).
      { split; simpl; [|rewrite app_length; reflexivity]. rewrite Hcode. norm_code. }
      destruct (sval_false_decc _ _ _ Hv1) as [[-> ->] | [Hw Hv]].
      * (* else branch *)
        pose proof (step_jump_unless_false s1 _ _ _ (stk s) Hat2 eq_refl) as Hstep.
        set (s2 := upd s1 (stk s) (S (ip s1) + S (length cp)) (heap s1)) in *.
        assert (Hat3 : at_code s2 (pre ++ ct ++ [IJumpUnless (S (length cp))] ++ cp ++ [IJump (length cf)]) cf post).
        { split; simpl; [|solve_len]. rewrite Hcode. norm_code. }
        assert (Hok2 : env_okc cur env st1 s2) by (eapply (env_okc_ext cur env st st1 s s2 [] h1); eauto).
        destruct (IH e2 cur env st1 v st' Hpf He tl svs s2 _ post Hub Hat3 Hok2) as (Hse2 & v2 & h2 & Hv2 & Hout2).
        fold cf in Hout2.
        split; [eapply store_ext_trans; eauto|]. exists v2, (h1 ++ h2). split.
        -- simpl in Hv2. rewrite <- app_assoc in Hv2. exact Hv2.
        -- eapply (outcome_lift tl s s2 pre _ _ cf v2 h1 h2); eauto.
           ++ eapply reaches_trans; [exact Hout1|]. apply reaches_step. exact Hstep.
           ++ rewrite (fall_eq s s2 v2 pre _ (ct ++ IJumpUnless (S (length cp)) :: cp ++ IJump (length cf) :: cf) cf h1 h2); auto.
              ** apply reaches_refl.
              ** solve_len.
      * (* then branch *)
        assert (Hep : eval f p env st1 = SVal v st').
        { destruct vt as [[z|[|]| | | | |o|nd] | |]; try exact He; congruence. }
        pose proof (step_jump_unless_true s1 _ _ _ v1 (stk s) Hat2 eq_refl Hv) as Hstep.
        set (s2 := upd s1 (stk s) (S (ip s1)) (heap s1)) in *.
        assert (Hat3 : at_code s2 (pre ++ ct ++ [IJumpUnless (S (length cp))]) cp ([IJump (length cf)] ++ cf ++ post)).
        { split; simpl; [|solve_len]. rewrite Hcode. norm_code. }
        assert (Hok2 : env_okc cur env st1 s2) by (eapply (env_okc_ext cur env st st1 s s2 [] h1); eauto).
        destruct (IH p cur env st1 v st' Hpp Hep tl svs s2 _ _ Hub Hat3 Hok2) as (Hse2 & v2 & h2 & Hv2 & Hout2).
        fold cp in Hout2.
        split; [eapply store_ext_trans; eauto|]. exists v2, (h1 ++ h2). split.
        -- simpl in Hv2. rewrite <- app_assoc in Hv2. exact Hv2.
        -- eapply (outcome_lift tl s s2 pre _ _ cp v2 h1 h2); eauto.
           ++ eapply reaches_trans; [exact Hout1|]. apply reaches_step. exact Hstep.
           ++ (* after the then branch: JUMP over the else branch *)
              set (s3 := fall s2 v2 (pre ++ ct ++ [IJumpUnless (S (length cp))]) cp h2).
              assert (Hat4 : at_code s3 (pre ++ ct ++ [IJumpUnless (S (length cp))] ++ cp) [IJump (length cf)] (cf ++ post)).
              { split; simpl; [|solve_len]. rewrite Hcode. norm_code. }
              apply reaches_step. rewrite (step_jump s3 _ _ _ Hat4).
              unfold fall, upd; simpl. f_equal. f_equal; [solve_len | rewrite app_assoc; reflexivity].
    + (* Seq *)
      rewrite eval_Seq in He. rewrite generate_Seq in *.
      simpl in Hp. destruct es as [|a r]; try discriminate Hp.
      eapply (sim2_seq f IH cur (a :: r)); eauto. congruence.
    + (* Lam *)
      simpl in Hp.
      destruct r; try discriminate Hp. destruct ls; try discriminate Hp. destruct sv; try discriminate Hp.
      destruct fv; try discriminate Hp.
      apply andb_true_iff in Hp. destruct Hp as [Hnd Hfb].
      rewrite eval_Lam in He. inversion He; subst. split; [apply store_ext_refl|].
      rewrite generate_Lam_closed in *.
      set (svs' := fun m => if Nat.eqb m id then [] else svs m) in *.
      exists (VProc 0 (length ps) (closed_entry svs' id ps b) (VLit LVoid)), []. split.
      * simpl. repeat split; auto. exists svs'. split; auto.
        intro m. unfold svs'. destruct (Nat.eqb m id); auto.
      * eapply leaf_outcome; eauto. eapply step_push_proc; eauto.
    + (* App *)
      simpl in Hp. apply andb_true_iff in Hp. destruct Hp as [Hpg Hpa].
      rewrite eval_App in He.
      destruct (evlist (eval f) (rev args) env st) as [[rvs st1]|x] eqn:Eargs;
        [|exfalso; exact (evlist_inr _ _ _ _ _ Eargs _ _ He)].
      cbv zeta in He.
      destruct (eval f g env st1) as [wf st2| |] eqn:Eg; [| simpl in He; discriminate He | simpl in He; discriminate He].
      rewrite generate_App in *.
      set (cargs := gen_args svs (lctx_of cur) args) in *.
      set (cg := generate false svs (lctx_of cur) g) in *.
      set (icall := if tl then ITailCall (length args) else ICall (length args)) in *.
      destruct Hat as [Hcode Hip].
      assert (Hat1 : at_code s pre cargs ((cg ++ [icall]) ++ post)).
      { split; auto. rewrite Hcode. norm_code. }
      destruct (sim2_args f IH cur args env st rvs st1 Hpa Eargs svs s pre _ Hub Hat1 Hok) as (Hse1 & vargs & h1 & Hvargs & Hr1).
      fold cargs in Hr1. set (s1 := upd s (vargs ++ stk s) (length pre + length cargs) (heap s ++ h1)) in *.
      assert (Hat2 : at_code s1 (pre ++ cargs) cg ([icall] ++ post)).
      { split; simpl; [|rewrite app_length; reflexivity]. rewrite Hcode. norm_code. }
      assert (Hok1 : env_okc cur env st1 s1) by (eapply (env_okc_ext cur env st st1 s s1 vargs h1); eauto).
      destruct (IH g cur env st1 wf st2 Hpg Eg false svs s1 _ _ Hub Hat2 Hok1) as (Hse2 & vg & h2 & Hvg & Hout2).
      apply outcome_false in Hout2. fold cg in Hout2. set (s2 := fall s1 vg (pre ++ cargs) cg h2) in *.
      destruct wf as [lw | xw yw | cid cps cr cls cb cenv]; try discriminate He; try (simpl in Hvg; destruct Hvg as (aa & vx & vy & _ & _); discriminate He).
      simpl in Hvg. destruct Hvg as (-> & -> & Hnd & Hfb & svs' & Hub' & ->).
      set (vs := rev rvs) in *.
      destruct (length vs <? length cps) eqn:E1; try discriminate He.
      destruct (length cps <? length vs) eqn:E2; try discriminate He.
      apply Nat.ltb_ge in E1. apply Nat.ltb_ge in E2.
      assert (Hlvs : length vs = length cps) by lia.
      rewrite <- Hlvs in He at 1. rewrite firstn_all in He.
      destruct (bind_all cid cps vs cenv (cells st2)) as [e1 c1] eqn:Eb.
      simpl in He.
      assert (He1 : e1 = fst (bind_all cid cps vs cenv (cells st2))) by (rewrite Eb; reflexivity).
      assert (Hc1 : c1 = cells st2 ++ vs).
      { pose proof (bind_all_cells cid cps vs cenv (cells st2) Hlvs) as Hc. rewrite Eb in Hc. exact Hc. }
      subst e1 c1.
      assert (Hlargs : length args = length cps).
      { rewrite <- Hlvs. unfold vs. rewrite rev_length. pose proof (evlist_length _ _ _ _ _ _ Eargs) as Hl.
        rewrite rev_length in Hl. symmetry; exact Hl. }
      assert (Hlva : length vargs = length cps).
      { rewrite (Forall2_len _ _ _ Hvargs). exact Hlvs. }
      assert (Hse12 : store_ext st st2) by (eapply store_ext_trans; eauto).
      assert (Hvargs2 : Forall2 (vrelc (heap s2)) vargs vs).
      { unfold s2. simpl. apply Forall2_vrelc_ext. exact Hvargs. }
      assert (Hgl2 : forall g0 w, glob_lookup g0 (sglobals st2) = Some w ->
                      exists v0, assoc_nat g0 (globals s) = Some v0 /\ vrelc (heap s2) v0 w).
      { intros g0 w Hg0. destruct Hse12 as [_ Hsg]. rewrite Hsg in Hg0.
        destruct Hok as [_ HG]. destruct (HG g0 w Hg0) as (v0 & Ha & Hv0). exists v0. split; auto.
        unfold s2. simpl. rewrite <- app_assoc. apply vrelc_ext. exact Hv0. }
      set (proc := VProc 0 (length cps) (closed_entry svs' cid cps cb) (VLit LVoid)) in *.
      assert (Hat3 : at_code s2 (pre ++ cargs ++ cg) [icall] post).
      { split; simpl; [|solve_len]. rewrite Hcode. norm_code. }
      assert (Hstk2 : stk s2 = proc :: (vargs ++ stk s)) by reflexivity.
      assert (Hreach2 : reaches s s2) by (eapply reaches_trans; eauto).
      assert (Hse3pre : store_ext st2 (mkstore (cells st2 ++ vs) (sglobals st2))).
      { split; simpl; auto. exists vs. reflexivity. }
      assert (Hheap2 : heap s2 = heap s ++ h1 ++ h2) by (unfold s2; simpl; rewrite app_assoc; reflexivity).
      destruct tl.
      * (* TAIL-CALL: the callee returns directly into the frame recorded in the current header *)
        destruct (frame_info s) as [[[[j rip] rself] rfp]|] eqn:Hfi.
        -- set (base := below (fp s - j) (stk s)).
           destruct (call_closed f IH cid cps cb svs' vargs vs base rfp rself rip (heap s2) (globals s) cenv st2 v st'
                       Hub' Hnd Hfb Hlvs Hvargs2 Hgl2 He) as (Hse3 & v' & hx & Hv' & Hreach).
           split. { eapply store_ext_trans; [exact Hse12|]. eapply store_ext_trans; eauto. }
           exists v', (h1 ++ h2 ++ hx). split. { rewrite Hheap2 in Hv'. rewrite <- !app_assoc in Hv'. exact Hv'. }
           right. split; auto. intros j' rip' rself' rfp' Hq Hj. rewrite Hfi in Hq. injection Hq as <- <- <- <-.
           eapply reaches_trans; [exact Hreach2|].
           assert (Hfi2 : frame_info s2 = Some (j, rip, rself, rfp)).
           { eapply (frame_info_app s s2 (proc :: vargs)); eauto. }
           assert (Hlt : fp s < length (stk s)) by (eapply frame_info_lt; eauto).
           assert (Hn2 : length args <= length (vargs ++ stk s)) by (rewrite app_length; lia).
           pose proof (step_tail_call s2 _ _ _ proc (vargs ++ stk s) j rip rself rfp Hat3 Hstk2 Hfi2 Hn2 Hj) as Hstep.
           rewrite Hlargs, <- Hlva, firstn_exact in Hstep.
           change (proc :: vargs ++ stk s) with ((proc :: vargs) ++ stk s) in Hstep.
           change (fp s2) with (fp s) in Hstep.
           rewrite below_app in Hstep by lia. fold base in Hstep.
           rewrite Hlva in Hstep. unfold proc in Hstep.
           rewrite make_call_fixed in Hstep by (rewrite app_length; lia).
           eapply reaches_trans; [apply reaches_step; exact Hstep|].
           change (globals s2) with (globals s).
           replace (returned s v' j rip rself rfp (h1 ++ h2 ++ hx))
             with (mkst (v' :: base) rfp rself rip (heap s2 ++ hx) (globals s)); [exact Hreach|].
           unfold returned, base. rewrite Hheap2, <- !app_assoc. reflexivity.
        -- destruct (call_closed f IH cid cps cb svs' vargs vs [] 0 (VLit LVoid) 0 (heap s2) (globals s) cenv st2 v st'
                       Hub' Hnd Hfb Hlvs Hvargs2 Hgl2 He) as (Hse3 & v' & hx & Hv' & _).
           split. { eapply store_ext_trans; [exact Hse12|]. eapply store_ext_trans; eauto. }
           exists v', (h1 ++ h2 ++ hx). split. { rewrite Hheap2 in Hv'. rewrite <- !app_assoc in Hv'. exact Hv'. }
           right. split; auto. intros j' rip' rself' rfp' Hq. rewrite Hfi in Hq. discriminate Hq.
      * (* CALL: the callee returns behind the CALL instruction *)
        destruct (call_closed f IH cid cps cb svs' vargs vs (stk s) (fp s) (self s) (S (ip s2)) (heap s2) (globals s) cenv st2 v st'
                    Hub' Hnd Hfb Hlvs Hvargs2 Hgl2 He) as (Hse3 & v' & hx & Hv' & Hreach).
        split. { eapply store_ext_trans; [exact Hse12|]. eapply store_ext_trans; eauto. }
        exists v', (h1 ++ h2 ++ hx). split. { rewrite Hheap2 in Hv'. rewrite <- !app_assoc in Hv'. exact Hv'. }
        left. eapply reaches_trans; [exact Hreach2|].
        pose proof (step_call s2 _ _ _ proc (vargs ++ stk s) Hat3 Hstk2) as Hstep.
        rewrite Hlargs in Hstep. unfold proc in Hstep.
        rewrite make_call_fixed in Hstep by (rewrite app_length; lia).
        eapply reaches_trans; [apply reaches_step; exact Hstep|].
        change (globals s2) with (globals s). change (fp s2) with (fp s). change (self s2) with (self s).
        replace (fall s v' pre (cargs ++ cg ++ [icall]) (h1 ++ h2 ++ hx))
          with (mkst (v' :: stk s) (fp s) (self s) (S (ip s2)) (heap s2 ++ hx) (globals s)); [exact Hreach|].
        unfold fall, upd. rewrite Hheap2, <- !app_assoc. f_equal. unfold s2; simpl. solve_len.
    + (* OpApp *)
      simpl in Hp. apply andb_true_iff in Hp. destruct Hp as [Hp Hall]. apply andb_true_iff in Hp. destruct Hp as [Hpp Hlen].
      apply Nat.eqb_eq in Hlen. rewrite eval_OpApp in He.
      destruct args as [|a [|b [|c0 args]]]; simpl in Hlen.
      * destruct p; discriminate Hlen.
      * (* unary *)
        assert (Ha1 : prim_arity p = 1) by auto.
        assert (Hinv : (if prim_inverse p then [a] else rev [a]) = [a]) by (destruct (prim_inverse p); reflexivity).
        rewrite Hinv in He. simpl evlist in He. simpl in Hall. apply andb_true_iff in Hall. destruct Hall as [Hpa _].
        destruct (eval f a env st) as [va st1| |] eqn:Ea; try discriminate.
        assert (Hinv2 : (if prim_inverse p then [va] else rev [va]) = [va]) by (destruct (prim_inverse p); reflexivity).
        rewrite Hinv2 in He.
        destruct (prim_sem p [va]) as [[rv|]|] eqn:Eprim; try discriminate. inversion He; subst rv st'. clear He.
        rewrite gen_op1 in * by auto.
        set (ca := generate false svs (lctx_of cur) a) in *.
        destruct Hat as [Hcode Hip].
        assert (Hat1 : at_code s pre ca ([IPrim p] ++ post)).
        { split; auto. rewrite Hcode. norm_code. }
        destruct (IH a cur env st va st1 Hpa Ea false svs s pre _ Hub Hat1 Hok) as (Hse1 & v1 & h1 & Hv1 & Hout1).
        apply outcome_false in Hout1. fold ca in Hout1. set (s1 := fall s v1 pre ca h1) in *.
        destruct (prim1_okc p _ _ _ _ (stk s) Ha1 Hv1 Eprim) as (r' & Hps & Hr).
        assert (Hat2 : at_code s1 (pre ++ ca) [IPrim p] post).
        { split; simpl; [|rewrite app_length; reflexivity]. rewrite Hcode. norm_code. }
        pose proof (step_prim s1 _ _ _ _ _ Hat2 Hps) as Hstep.
        split; auto. exists r', h1. split; auto.
        left. eapply reaches_trans; [exact Hout1|]. apply reaches_step. rewrite Hstep.
        unfold fall, upd; simpl. f_equal. f_equal. solve_len.
      * (* binary *)
        assert (Ha2 : prim_arity p = 2) by auto.
        simpl in Hall. apply andb_true_iff in Hall. destruct Hall as [Hpa Hall].
        apply andb_true_iff in Hall. destruct Hall as [Hpb _].
        rewrite gen_op2 in * by auto.
        destruct Hat as [Hcode Hip].
        destruct (prim_inverse p) eqn:Einv.
        -- simpl evlist in He.
           destruct (eval f a env st) as [va st1| |] eqn:Ea; try discriminate.
           destruct (eval f b env st1) as [vb st2| |] eqn:Eb; try discriminate.
           destruct (prim_sem p [va; vb]) as [[rv|]|] eqn:Eprim; try discriminate. inversion He; subst rv st'. clear He.
           set (ca := generate false svs (lctx_of cur) a) in *. set (cb := generate false svs (lctx_of cur) b) in *.
           assert (Hat1 : at_code s pre ca ((cb ++ [IPrim (prim_opcode p)]) ++ post)).
           { split; auto. rewrite Hcode. norm_code. }
           destruct (IH a cur env st va st1 Hpa Ea false svs s pre _ Hub Hat1 Hok) as (Hse1 & v1 & h1 & Hv1 & Hout1).
           apply outcome_false in Hout1. fold ca in Hout1. set (s1 := fall s v1 pre ca h1) in *.
           assert (Hat2 : at_code s1 (pre ++ ca) cb ([IPrim (prim_opcode p)] ++ post)).
           { split; simpl; [|rewrite app_length; reflexivity]. rewrite Hcode. norm_code. }
           assert (Hok1 : env_okc cur env st1 s1) by (eapply (env_okc_ext cur env st st1 s s1 [v1] h1); eauto).
           destruct (IH b cur env st1 vb st2 Hpb Eb false svs s1 _ _ Hub Hat2 Hok1) as (Hse2 & v2 & h2 & Hv2 & Hout2).
           apply outcome_false in Hout2. fold cb in Hout2. set (s2 := fall s1 v2 (pre ++ ca) cb h2) in *.
           simpl in Hv2. assert (Hv1' : vrelc ((heap s ++ h1) ++ h2) v1 va) by auto using vrelc_ext.
           pose proof (prim2_okc p _ _ _ _ _ _ (stk s) Ha2 Hpp Hv1' Hv2 Eprim) as (r' & hx & Hps & Hr).
           rewrite Einv in Hps.
           assert (Hat3 : at_code s2 (pre ++ ca ++ cb) [IPrim (prim_opcode p)] post).
           { split; simpl; [|solve_len]. rewrite Hcode. norm_code. }
           pose proof (step_prim s2 _ _ _ _ _ Hat3 Hps) as Hstep.
           split; [eapply store_ext_trans; eauto|]. exists r', (h1 ++ h2 ++ hx). split.
           ++ rewrite <- !app_assoc in Hr. exact Hr.
           ++ left. eapply reaches_trans; [exact Hout1|]. eapply reaches_trans; [exact Hout2|].
              apply reaches_step. rewrite Hstep. unfold fall, upd; simpl. f_equal. f_equal; [solve_len | rewrite <- !app_assoc; reflexivity].
        -- simpl evlist in He.
           destruct (eval f b env st) as [vb st1| |] eqn:Eb; try discriminate.
           destruct (eval f a env st1) as [va st2| |] eqn:Ea; try discriminate.
           simpl rev in He.
           destruct (prim_sem p [va; vb]) as [[rv|]|] eqn:Eprim; try discriminate. inversion He; subst rv st'. clear He.
           set (ca := generate false svs (lctx_of cur) a) in *. set (cb := generate false svs (lctx_of cur) b) in *.
           assert (Hat1 : at_code s pre cb ((ca ++ [IPrim p]) ++ post)).
           { split; auto. rewrite Hcode. norm_code. }
           destruct (IH b cur env st vb st1 Hpb Eb false svs s pre _ Hub Hat1 Hok) as (Hse1 & v1 & h1 & Hv1 & Hout1).
           apply outcome_false in Hout1. fold cb in Hout1. set (s1 := fall s v1 pre cb h1) in *.
           assert (Hat2 : at_code s1 (pre ++ cb) ca ([IPrim p] ++ post)).
           { split; simpl; [|rewrite app_length; reflexivity]. rewrite Hcode. norm_code. }
           assert (Hok1 : env_okc cur env st1 s1) by (eapply (env_okc_ext cur env st st1 s s1 [v1] h1); eauto).
           destruct (IH a cur env st1 va st2 Hpa Ea false svs s1 _ _ Hub Hat2 Hok1) as (Hse2 & v2 & h2 & Hv2 & Hout2).
           apply outcome_false in Hout2. fold ca in Hout2. set (s2 := fall s1 v2 (pre ++ cb) ca h2) in *.
           simpl in Hv2. assert (Hv1' : vrelc ((heap s ++ h1) ++ h2) v1 vb) by auto using vrelc_ext.
           pose proof (prim2_okc p _ _ _ _ _ _ (stk s) Ha2 Hpp Hv2 Hv1' Eprim) as (r' & hx & Hps & Hr).
           rewrite Einv in Hps.
           assert (Hat3 : at_code s2 (pre ++ cb ++ ca) [IPrim p] post).
           { split; simpl; [|solve_len]. rewrite Hcode. norm_code. }
           pose proof (step_prim s2 _ _ _ _ _ Hat3 Hps) as Hstep.
           split; [eapply store_ext_trans; eauto|]. exists r', (h1 ++ h2 ++ hx). split.
           ++ rewrite <- !app_assoc in Hr. exact Hr.
           ++ left. eapply reaches_trans; [exact Hout1|]. eapply reaches_trans; [exact Hout2|].
              apply reaches_step. rewrite Hstep. unfold fall, upd; simpl. f_equal. f_equal; [solve_len | rewrite <- !app_assoc; reflexivity].
      * destruct p; discriminate Hlen.
Qed.

(* ------------------------------------------------------------------ closed forms *)

(** the simulation theorem for the fragment with calls *)
Theorem compile_correct_calls_fragment : forall fuel e cur env st v st' tl svs s pre post,
  frag cur e = true ->
  eval fuel e env st = SVal v st' ->
  unboxed svs ->
  code_of (self s) = pre ++ generate tl svs (lctx_of cur) e ++ post -> ip s = length pre ->
  env_okc cur env st s ->
  store_ext st st' /\
  exists v' hx, vrelc (heap s ++ hx) v' v /\
    ((exists n, nsteps n s = Some (mkst (v' :: stk s) (fp s) (self s)
                                        (length pre + length (generate tl svs (lctx_of cur) e))
                                        (heap s ++ hx) (globals s)))
     \/ (tl = true /\ forall j rip rself rfp, frame_info s = Some (j, rip, rself, rfp) -> j <= fp s ->
           exists n, nsteps n s = Some (mkst (v' :: below (fp s - j) (stk s)) rfp rself rip (heap s ++ hx) (globals s)))).
Proof.
  intros fuel e cur env st v st' tl svs s pre post Hp He Hub Hc Hi Hok.
  exact (sim2_all fuel e cur env st v st' Hp He tl svs s pre post Hub (conj Hc Hi) Hok).
Qed.

(** code in tail position followed by RET: in both outcomes the frame is left with the value pushed for the caller *)
Lemma finish_return : forall s code v' hx j rip rself rfp,
  code_of (self s) = code ++ [IRet] -> ip s = 0 ->
  frame_info s = Some (j, rip, rself, rfp) -> j <= fp s ->
  outcome_ok true s [] code v' hx ->
  reaches s (mkst (v' :: below (fp s - j) (stk s)) rfp rself rip (heap s ++ hx) (globals s)).
Proof.
  intros s code v' hx j rip rself rfp Hc Hi Hfi Hj [Hfall | [_ Hret]].
  - eapply reaches_trans; [exact Hfall|].
    set (se := fall s v' [] code hx) in *.
    assert (Hate : at_code se code [IRet] []).
    { split; [|reflexivity]. simpl. rewrite Hc. reflexivity. }
    assert (Hfie : frame_info se = Some (j, rip, rself, rfp)).
    { eapply (frame_info_app s se [v']); eauto. }
    pose proof (step_ret se _ _ v' (stk s) j rip rself rfp Hate eq_refl Hfie Hj) as Hstep.
    apply reaches_step. rewrite Hstep. f_equal. f_equal. f_equal.
    change (v' :: stk s) with ([v'] ++ stk s). apply below_app.
    apply frame_info_lt in Hfi. change (fp se) with (fp s). lia.
  - exact (Hret j rip rself rfp Hfi Hj).
Qed.

(** end to end for one top-level expression of the fragment: the thunk the compiler builds for it
    (sexp_generate_op: generate in tail position at top level, then RET), applied the way sexp_apply does it
    ([init_state]), runs to completion on the model VM with a value representing the SPEC's value; the globals
    (procedures defined earlier, data) are related by [vrelc]. *)
Theorem compile_correct_toplevel_expr : forall fuel e st v st' svs h gl,
  frag None e = true ->
  eval fuel e [] st = SVal v st' ->
  unboxed svs ->
  (forall g w, glob_lookup g (sglobals st) = Some w -> exists v0, assoc_nat g gl = Some v0 /\ vrelc h v0 w) ->
  exists s0 n v' s',
    init_state (generate true svs None e ++ [IRet]) h gl = Next s0 /\
    run n s0 = Done v' s' /\ vrelc (heap s') v' v /\ globals s' = gl /\ (exists hx, heap s' = h ++ hx).
Proof.
  intros fuel e st v st' svs h gl Hp He Hub Hgl.
  set (code := generate true svs None e).
  set (base := [VLit LVoid; VLit LVoid; VLit LVoid; VLit LVoid]).
  set (s0 := mkst (vint 0 :: final_resumer :: vint 0 :: vint 0 :: base) (length base) (VProc 0 0 (code ++ [IRet]) (VLit LVoid)) 0 h gl).
  assert (Hinit : init_state (code ++ [IRet]) h gl = Next s0).
  { unfold init_state. rewrite make_call_fixed by (simpl; lia). reflexivity. }
  assert (Hat : at_code s0 [] (generate true svs (lctx_of None) e) [IRet]) by (split; reflexivity).
  assert (Hok : env_okc None [] st s0).
  { split; [intros id ps Hc; discriminate Hc|]. exact Hgl. }
  destruct (sim2_all fuel e None [] st v st' Hp He true svs s0 [] [IRet] Hub Hat Hok) as (_ & v' & hx & Hv & Hout).
  assert (Hfi : frame_info s0 = Some (0, 0, final_resumer, 0)) by apply (frame_info_entry 0 final_resumer 0 0 base).
  pose proof (finish_return s0 code v' hx 0 0 final_resumer 0 eq_refl eq_refl Hfi (Nat.le_0_l _) Hout) as [n Hn].
  set (t := mkst (v' :: below (fp s0 - 0) (stk s0)) 0 final_resumer 0 (heap s0 ++ hx) (globals s0)) in *.
  exists s0, (n + 1), v', t. split; [exact Hinit|]. split; [|split; [exact Hv|split; [reflexivity|exists hx; reflexivity]]].
  rewrite (run_nsteps n 1 s0 t Hn). reflexivity.
Qed.

(* ------------------------------------------------------------------ the hypotheses are satisfiable *)

(** globals: len  = (lambda (l) (if (null? l) 0 (+ 1 (len (cdr l)))))             -- recursion through CALL
             loop = (lambda (n acc) (if (< n 1) acc (loop (- n 1) (cons n acc))))  -- recursion through TAIL-CALL
    top-level expression: ((lambda (x) (len (loop x '()))) 3)   => 3 *)
Module ExampleCalls.
  Definition svs0 : nat -> list name := fun _ => [].
  Definition len_body : ast :=
    Cnd (OpApp PNullp [Ref 0 (Local 1)]) (Lit (LInt 0))
        (OpApp PAdd [Lit (LInt 1); App (Ref 10 Global) [OpApp PCdr [Ref 0 (Local 1)]]]).
  Definition loop_body : ast :=
    Cnd (OpApp PLt [Ref 1 (Local 2); Lit (LInt 1)]) (Ref 2 (Local 2))
        (App (Ref 11 Global) [OpApp PSub [Ref 1 (Local 2); Lit (LInt 1)]; OpApp PCons [Ref 1 (Local 2); Ref 2 (Local 2)]]).
  Definition e0 : ast :=
    App (Lam 3 [3] None [] [] [] (App (Ref 10 Global) [App (Ref 11 Global) [Ref 3 (Local 3); Lit LNil]])) [Lit (LInt 3)].
  Definition st0 : sstore :=
    mkstore [] [(10, SClo 1 [0] None [] len_body []); (11, SClo 2 [1; 2] None [] loop_body [])].
  Definition gl0 : list (nat * value) :=
    [(10, VProc 0 1 (closed_entry svs0 1 [0] len_body) (VLit LVoid));
     (11, VProc 0 2 (closed_entry svs0 2 [1; 2] loop_body) (VLit LVoid))].

  Example frag_e0 : frag None e0 = true.
  Proof. reflexivity. Qed.

  Example eval_e0 : exists st', eval 30 e0 [] st0 = SVal (SLit (LInt 3)) st'.
  Proof. eexists. vm_compute. reflexivity. Qed.

  Example globals_related : forall g w, glob_lookup g (sglobals st0) = Some w ->
    exists v0, assoc_nat g gl0 = Some v0 /\ vrelc [] v0 w.
  Proof.
    intros g w H. simpl in H.
    destruct (Nat.eqb g 10) eqn:E10.
    - apply Nat.eqb_eq in E10. subst g. inversion H; subst w. eexists. split; [reflexivity|].
      simpl. repeat split. exists svs0. split; [intro m; reflexivity | reflexivity].
    - destruct (Nat.eqb g 11) eqn:E11; try discriminate.
      apply Nat.eqb_eq in E11. subst g. inversion H; subst w. eexists. split; [reflexivity|].
      simpl. repeat split. exists svs0. split; [intro m; reflexivity | reflexivity].
  Qed.

  (** what the theorem promises, observed directly on the model VM *)
  Example run_e0 : exists s0 s', init_state (generate true svs0 None e0 ++ [IRet]) [] gl0 = Next s0 /\
                                 run 200 s0 = Done (VLit (LInt 3)) s'.
  Proof. eexists. eexists. split; vm_compute; reflexivity. Qed.
End ExampleCalls.
