(** C03 — compile_correct, fragment with calls extended to REST PARAMETERS: SimCalls.v plus lambda expressions
    with a rest parameter and all three argument protocols of make_call (exact, rest list built, unused rest).

    The fragment [fragR] is [SimCalls.frag] with closed lambdas (lambda (p ... . r) body); [fragR0] is its plain
    reading.  [fragR] additionally records, per lambda, the variables for which the VM has NO slot: the rest
    parameter when the compiler flagged it UNUSED_REST ([dead_of]).  Theorem [fragR0_fragR] shows this is no
    restriction: by [Proofs.rest_unused_sound] a flagged rest parameter is never mentioned, so every [fragR0] term is
    a [fragR] term.  This is where the unused-rest analysis enters the correctness of calls. *)
From Coq Require Import ZArith List Bool Arith Lia.
From ChibiV Require Import C03.Defs C03.Model C03.Spec C03.Proofs C03.Simulation C03.SimCalls.
Import ListNotations.
Local Open Scope nat_scope.

Definition fctxR := option (nat * list name * option name * list name).   (* id, parameters, rest, slot-less variables *)

Definition rest_list (r : option name) : list name := match r with Some x => [x] | None => [] end.

Definition lctxR (cur : fctxR) : option lctx :=
  match cur with Some (id, ps, r, _) => Some (mk_lctx id ps r [] []) | None => None end.

(** the rest parameter has no slot when the procedure is flagged UNUSED_REST (vm.c:718-720, make_call) *)
Definition dead_of (id : nat) (r : option name) (b : ast) : list name :=
  if rest_unused true id r b then rest_list r else [].

Fixpoint fragR (cur : fctxR) (e : ast) {struct e} : bool :=
  match e with
  | Lit _ => true
  | Ref x Global => true
  | Ref x (Local m) =>
      match cur with
      | Some (id, ps, r, dead) => Nat.eqb m id && memn x (ps ++ rest_list r) && negb (memn x dead)
      | None => false
      end
  | Cnd t p f => fragR cur t && fragR cur p && fragR cur f
  | Seq es => match es with [] => false | _ :: _ => forallb (fragR cur) es end
  | OpApp p args => pure_prim p && Nat.eqb (length args) (prim_arity p) && forallb (fragR cur) args
  | Lam id ps r [] [] [] b => nodupb (ps ++ rest_list r) && fragR (Some (id, ps, r, dead_of id r b)) b
  | App f args => fragR cur f && forallb (fragR cur) args
  | _ => false
  end.

Definition closedR (svs : nat -> list name) (id : nat) (ps : list name) (r : option name) (b : ast) : code :=
  generate true svs (Some (mk_lctx id ps r [] [])) b ++ [IRet].

Fixpoint vrelR (h : list hobj) (v : value) (w : sval) {struct w} : Prop :=
  match w with
  | SLit l => v = VLit l
  | SPair x y => exists a vx vy, v = VPair a /\ nth_error h a = Some (HPair vx vy) /\ vrelR h vx x /\ vrelR h vy y
  | SClo id ps r ls b _ =>
      ls = [] /\ nodupb (ps ++ rest_list r) = true /\ fragR (Some (id, ps, r, dead_of id r b)) b = true /\
      exists svs', unboxed svs' /\ v = VProc (lam_flags id r b) (length ps) (closedR svs' id ps r b) (VLit LVoid)
  end.

Lemma vrelR_ext : forall w h h' v, vrelR h v w -> vrelR (h ++ h') v w.
Proof.
  induction w as [l | x IHx y IHy | ]; simpl; intros h h' v H; auto.
  destruct H as (a & vx & vy & -> & Hn & H1 & H2). exists a, vx, vy.
  repeat split; auto. rewrite nth_error_app1; auto. apply nth_error_Some. congruence.
Qed.

Lemma Forall2_vrelR_ext : forall h h' vs ws, Forall2 (vrelR h) vs ws -> Forall2 (vrelR (h ++ h')) vs ws.
Proof. induction 1; constructor; auto using vrelR_ext. Qed.


Definition env_okR (cur : fctxR) (env : senv) (st : sstore) (s : state) : Prop :=
  (forall id ps r dead, cur = Some (id, ps, r, dead) -> forall x, memn x (ps ++ rest_list r) = true -> memn x dead = false ->
     exists a w k v, env_lookup (x, Local id) env = Some a /\ nth_error (cells st) a = Some w /\
                     slot (fp s) (param_index ps r [] x) = Some k /\ sget (stk s) k = Some v /\
                     vrelR (heap s) v w)
  /\ (forall g w, glob_lookup g (sglobals st) = Some w ->
        exists v, assoc_nat g (globals s) = Some v /\ vrelR (heap s) v w).

Lemma env_okR_ext : forall cur env st st1 s s1 vs hx,
  env_okR cur env st s -> store_ext st st1 ->
  fp s1 = fp s -> globals s1 = globals s -> stk s1 = vs ++ stk s -> heap s1 = heap s ++ hx ->
  env_okR cur env st1 s1.
Proof.
  intros cur env st st1 s s1 vs hx [HL HG] [[cx Hcx] Hsg] Hfp Hgl Hstk Hheap. split.
  - intros id ps r dead Hc x Hm Hd. destruct (HL id ps r dead Hc x Hm Hd) as (a & w & k & v & He & Hn & Hs & Hg & Hv).
    exists a, w, k, v. rewrite Hfp, Hstk, Hheap, Hcx. repeat split; auto using sget_app, vrelR_ext.
    rewrite nth_error_app1; auto. apply nth_error_Some. congruence.
  - intros g w Hg. rewrite Hsg in Hg. destruct (HG g w Hg) as (v & Ha & Hv). exists v.
    rewrite Hgl, Hheap. auto using vrelR_ext.
Qed.

Lemma generate_Lam_closedR : forall tl svs cur id ps r b,
  generate tl svs cur (Lam id ps r [] [] [] b) =
  [IPushProc (lam_flags id r b) (length ps) (closedR (fun m => if Nat.eqb m id then [] else svs m) id ps r b)].
Proof. intros. rewrite <- (Proofs.lam_flags_sv_nil id r b). reflexivity. Qed.

Lemma prim1_okR : forall p h v w r stk0,
  prim_arity p = 1 -> vrelR h v w -> prim_sem p [w] = inl (Some r) ->
  exists r', prim_step p (v :: stk0) h = inl (Some (r' :: stk0, h)) /\ vrelR h r' r.
Proof.
  intros p h v w r stk0 Ha Hv Hs.
  destruct p; try discriminate Ha; destruct w as [l | x y | id ps rr ls b env]; simpl in Hv;
    try (destruct Hv as (a & vx & vy & -> & Hn & H1 & H2));
    try (destruct Hv as (_ & _ & _ & svs' & _ & ->));
    subst; simpl in Hs; try discriminate;
    inversion Hs; subst; simpl; rewrite ?Hn; eexists; split; try reflexivity; simpl; auto;
    try (destruct l as [z|[|]| | | | |o|nd]; reflexivity).
Qed.

Lemma prim2_okR : forall p h v1 v2 w1 w2 r stk0,
  prim_arity p = 2 -> pure_prim p = true -> vrelR h v1 w1 -> vrelR h v2 w2 ->
  prim_sem p [w1; w2] = inl (Some r) ->
  exists r' hx,
    (if prim_inverse p then prim_step (prim_opcode p) (v2 :: v1 :: stk0) h
     else prim_step p (v1 :: v2 :: stk0) h) = inl (Some (r' :: stk0, h ++ hx))
    /\ vrelR (h ++ hx) r' r.
Proof.
  intros p h v1 v2 w1 w2 r stk0 Ha Hp H1 H2 Hs.
  destruct p; try discriminate Ha; try discriminate Hp.
  all: try (destruct w1 as [[a| | | | | | |] | |]; simpl in Hs; try discriminate;
            destruct w2 as [[b| | | | | | |] | |]; simpl in Hs; try discriminate;
            simpl in H1, H2; subst; inversion Hs; subst; simpl;
            eexists; exists []; rewrite app_nil_r; split; reflexivity).
  simpl in Hs. inversion Hs; subst. simpl. eexists; exists [HPair v1 v2]. split; [reflexivity|].
  simpl. exists (length h), v1, v2. repeat split; auto using vrelR_ext.
  rewrite nth_error_app2 by lia. rewrite Nat.sub_diag. reflexivity.
Qed.

Lemma sval_false_decR : forall h v w, vrelR h v w ->
  (w = SLit (LBool false) /\ v = VLit (LBool false)) \/ (w <> SLit (LBool false) /\ v <> VLit (LBool false)).
Proof.
  intros h v w H. destruct w as [l | x y | id ps rr ls b env]; simpl in H.
  - subst. destruct l as [z|[|]| | | | |o|nd]; try (right; split; congruence). left; auto.
  - destruct H as (a & vx & vy & -> & _). right; split; congruence.
  - destruct H as (_ & _ & _ & svs' & _ & ->). right; split; congruence.
Qed.
Definition simR_at (f : nat) (e : ast) : Prop :=
  forall cur env st v st', fragR cur e = true -> eval f e env st = SVal v st' ->
  forall tl svs s pre post, unboxed svs ->
  at_code s pre (generate tl svs (lctxR cur) e) post ->
  env_okR cur env st s ->
  store_ext st st' /\
  exists v' hx, vrelR (heap s ++ hx) v' v /\ outcome_ok tl s pre (generate tl svs (lctxR cur) e) v' hx.

(* ------------------------------------------------------------------ parameters and rest: SPEC binding vs slots *)

Lemma index_of_app_l : forall x l1 l2 k, index_of x l1 = Some k -> index_of x (l1 ++ l2) = Some k.
Proof.
  intros x l1. induction l1 as [|y r IH]; intros l2 k H; simpl in *; try discriminate.
  destruct (Nat.eqb y x); auto.
  destruct (index_of x r) as [k'|] eqn:E; simpl in H; try discriminate. rewrite (IH l2 k' eq_refl). exact H.
Qed.

Lemma index_of_app_r : forall x l1 l2, index_of x l1 = None ->
  index_of x (l1 ++ l2) = option_map (fun k => length l1 + k) (index_of x l2).
Proof.
  intros x l1. induction l1 as [|y r IH]; intros l2 H; simpl in *.
  - destruct (index_of x l2); reflexivity.
  - destruct (Nat.eqb y x); try discriminate.
    destruct (index_of x r) eqn:E; simpl in H; try discriminate.
    rewrite IH by reflexivity. destruct (index_of x l2); reflexivity.
Qed.

Lemma param_index_rest : forall ps r x k, index_of x (ps ++ rest_list r) = Some k ->
  param_index ps r [] x = Z.of_nat k.
Proof.
  intros ps r x k H. unfold param_index.
  destruct (index_of x ps) as [i|] eqn:E.
  - rewrite (index_of_app_l _ _ (rest_list r) _ E) in H. congruence.
  - rewrite index_of_app_r in H by exact E.
    destruct r as [y|]; simpl in H; try discriminate.
    destruct (Nat.eqb y x); simpl in H; try discriminate. inversion H. f_equal. lia.
Qed.

Lemma bind_all_app : forall id xs1 xs2 vs1 vs2 e cs, length vs1 = length xs1 ->
  bind_all id (xs1 ++ xs2) (vs1 ++ vs2) e cs =
  bind_all id xs2 vs2 (fst (bind_all id xs1 vs1 e cs)) (snd (bind_all id xs1 vs1 e cs)).
Proof.
  intros id xs1. induction xs1 as [|x r IH]; intros xs2 vs1 vs2 e cs H; destruct vs1 as [|v vr]; simpl in *; try discriminate; auto.
Qed.

(** the SPEC's binding of parameters and rest parameter at a call (eval, App case) *)
Definition spec_vals (n : nat) (r : option name) (vs : list sval) : list sval :=
  firstn n vs ++ match r with Some _ => [slist (skipn n vs)] | None => [] end.

Lemma spec_bind_eq : forall {T} id ps r vs cenv cs (F : senv -> list sval -> T), length ps <= length vs ->
  (let '(e1, c1) := bind_all id ps (firstn (length ps) vs) cenv cs in
   let '(e2, c2) := match r with
                    | Some x => bind_all id [x] [slist (skipn (length ps) vs)] e1 c1
                    | None => (e1, c1)
                    end in
   let '(e3, c3) := bind_all id [] (repeat (SLit LUndef) (length (@nil name))) e2 c2 in F e3 c3)
  = F (fst (bind_all id (ps ++ rest_list r) (spec_vals (length ps) r vs) cenv cs))
      (snd (bind_all id (ps ++ rest_list r) (spec_vals (length ps) r vs) cenv cs)).
Proof.
  intros T id ps r vs cenv cs F Hle. unfold spec_vals.
  assert (Hl : length (firstn (length ps) vs) = length ps) by (apply firstn_length_le; exact Hle).
  rewrite bind_all_app by exact Hl.
  destruct (bind_all id ps (firstn (length ps) vs) cenv cs) as [e1 c1]. simpl fst. simpl snd.
  destruct r as [x|]; simpl.
  - reflexivity.
  - reflexivity.
Qed.

Lemma spec_vals_length : forall n r vs, n <= length vs -> length (spec_vals n r vs) = n + length (rest_list r).
Proof. intros n r vs H. unfold spec_vals. rewrite app_length, firstn_length_le by exact H. destruct r; reflexivity. Qed.

(** the rest list make_call conses (vm.c:1326-1328) represents the SPEC's list of the surplus arguments *)
Lemma build_list_rel : forall h vl wl, Forall2 (vrelR h) vl wl ->
  forall h' l, build_list h vl = (h', l) -> exists hx, h' = h ++ hx /\ vrelR h' l (slist wl).
Proof.
  intros h vl wl H. induction H as [|v w vr wr Hvw Hr IH]; intros h' l Hb; simpl in Hb.
  - inversion Hb; subst. exists []. rewrite app_nil_r. split; reflexivity.
  - destruct (build_list h vr) as [h1 tl] eqn:E. destruct (IH h1 tl eq_refl) as (hx & -> & Htl).
    unfold alloc in Hb. inversion Hb; subst. exists (hx ++ [HPair v tl]). split; [rewrite app_assoc; reflexivity|].
    simpl. exists (length (h ++ hx)), v, tl. repeat split.
    + rewrite nth_error_app2 by lia. rewrite Nat.sub_diag. reflexivity.
    + rewrite <- app_assoc. apply vrelR_ext. exact Hvw.
    + apply vrelR_ext. exact Htl.
Qed.

Lemma Forall2_firstn : forall {A B} (R : A -> B -> Prop) n l1 l2, Forall2 R l1 l2 -> Forall2 R (firstn n l1) (firstn n l2).
Proof. intros A B R n. induction n as [|n IH]; intros l1 l2 H; simpl; [constructor|]. destruct H; constructor; auto. Qed.

Lemma Forall2_skipn : forall {A B} (R : A -> B -> Prop) n l1 l2, Forall2 R l1 l2 -> Forall2 R (skipn n l1) (skipn n l2).
Proof. intros A B R n. induction n as [|n IH]; intros l1 l2 H; simpl; auto. destruct H; auto. Qed.

(* ------------------------------------------------------------------ make_call: the three argument protocols *)

(** entering a procedure of the fragment with the arguments vargs on top of X: the new frame holds vargs' *)
Lemma make_call_protocol : forall s id r b nargs c vars vargs X rip rself rfp,
  nargs <= length vargs -> (r = None -> length vargs = nargs) ->
  exists vargs' h',
    make_call s (VProc (lam_flags id r b) nargs c vars) (vargs ++ X) (length vargs) rip rself rfp =
      Next (mkst (vint rfp :: rself :: vint rip :: vint (length vargs') :: vargs' ++ X) (length (vargs' ++ X))
                 (VProc (lam_flags id r b) nargs c vars) 0 h' (globals s))
    /\ ((dead_of id r b = rest_list r /\ vargs' = vargs /\ h' = heap s)
        \/ (exists x l, r = Some x /\ dead_of id r b = [] /\
                        build_list (heap s) (skipn nargs vargs) = (h', l) /\ vargs' = firstn nargs vargs ++ [l])).
Proof.
  intros s id r b nargs c vars vargs X rip rself rfp Hle Hfix.
  assert (E1 : (length (vargs ++ X) <? length vargs) = false) by (apply Nat.ltb_ge; rewrite app_length; lia).
  assert (E2 : (length vargs <? nargs) = false) by (apply Nat.ltb_ge; lia).
  destruct r as [x|].
  - unfold lam_flags, dead_of. destruct (rest_unused true id (Some x) b) eqn:Eu.
    + (* unused rest: the arguments stay as they are *)
      exists vargs, (heap s). split; [|left; auto].
      unfold make_call. rewrite E1, E2. change (PROC_VARIADIC + PROC_UNUSED_REST) with 3.
      change (Nat.testbit 3 0) with true. change (Nat.testbit 3 1) with true.
      destruct (0 <? length vargs - nargs); reflexivity.
    + (* rest list built *)
      change (PROC_VARIADIC + 0) with 1.
      destruct (build_list (heap s) (skipn nargs vargs)) as [h' l] eqn:Eb.
      exists (firstn nargs vargs ++ [l]), h'. split; [|right; exists x, l; auto].
      unfold make_call. rewrite E1, E2.
      change (Nat.testbit 1 0) with true. change (Nat.testbit 1 1) with false.
      assert (Hsk : skipn nargs (vargs ++ X) = skipn nargs vargs ++ X).
      { rewrite skipn_app. replace (nargs - length vargs) with 0 by lia. reflexivity. }
      assert (Hfn : firstn nargs (vargs ++ X) = firstn nargs vargs).
      { rewrite firstn_app. replace (nargs - length vargs) with 0 by lia. simpl. apply app_nil_r. }
      assert (Hski : skipn (length vargs) (vargs ++ X) = X).
      { rewrite skipn_app, skipn_all, Nat.sub_diag. reflexivity. }
      assert (Hlen' : length (firstn nargs vargs ++ [l]) = S nargs).
      { rewrite app_length, firstn_length_le by lia. simpl. lia. }
      destruct (0 <? length vargs - nargs) eqn:Ej.
      * apply Nat.ltb_lt in Ej. rewrite Hsk.
        replace (length vargs - nargs) with (length (skipn nargs vargs)) by (rewrite skipn_length; reflexivity).
        rewrite firstn_exact, Eb, Hfn, Hski, Hlen'. rewrite <- app_assoc. reflexivity.
      * apply Nat.ltb_ge in Ej. assert (Hn : nargs = length vargs) by lia. subst nargs.
        rewrite skipn_all in Eb. simpl in Eb. inversion Eb; subst h' l.
        rewrite firstn_all in *. simpl. rewrite Hski, firstn_exact, Hlen'.
        rewrite <- app_assoc. rewrite !app_length. simpl. reflexivity.
  - (* no rest parameter: exact arity *)
    specialize (Hfix eq_refl). exists vargs, (heap s). split; [|left; auto].
    unfold lam_flags. rewrite Hfix. rewrite make_call_fixed by (rewrite app_length; lia). reflexivity.
Qed.

Lemma nth_error_firstn_lt : forall {A} (l : list A) n k, k < n -> nth_error (firstn n l) k = nth_error l k.
Proof.
  intros A l. induction l as [|x r IH]; intros [|n] [|k] H; simpl; auto; try lia. apply IH. lia.
Qed.

Lemma Forall2_app2 : forall {A B} (R : A -> B -> Prop) a1 a2 b1 b2, Forall2 R a1 b1 -> Forall2 R a2 b2 -> Forall2 R (a1 ++ a2) (b1 ++ b2).
Proof. intros A B R a1 a2 b1 b2 H1 H2. induction H1; simpl; auto. Qed.

Lemma memn_app : forall x l1 l2, memn x (l1 ++ l2) = memn x l1 || memn x l2.
Proof. intros x l1 l2. unfold memn. apply existsb_app. Qed.

Section SimR.

  Lemma call_closedR : forall f, (forall e, simR_at f e) ->
    forall s0 id ps r b svs' vargs vs X rfp rself rip cenv st2 v st',
    unboxed svs' -> nodupb (ps ++ rest_list r) = true -> fragR (Some (id, ps, r, dead_of id r b)) b = true ->
    length ps <= length vs -> (r = None -> length vs = length ps) ->
    Forall2 (vrelR (heap s0)) vargs vs ->
    (forall g w, glob_lookup g (sglobals st2) = Some w ->
       exists v0, assoc_nat g (globals s0) = Some v0 /\ vrelR (heap s0) v0 w) ->
    eval f b (fst (bind_all id (ps ++ rest_list r) (spec_vals (length ps) r vs) cenv (cells st2)))
             (mkstore (snd (bind_all id (ps ++ rest_list r) (spec_vals (length ps) r vs) cenv (cells st2))) (sglobals st2))
      = SVal v st' ->
    store_ext st2 st' /\
    exists sc v' hx,
      make_call s0 (VProc (lam_flags id r b) (length ps) (closedR svs' id ps r b) (VLit LVoid))
                (vargs ++ X) (length vargs) rip rself rfp = Next sc /\
      vrelR (heap s0 ++ hx) v' v /\
      reaches sc (mkst (v' :: X) rfp rself rip (heap s0 ++ hx) (globals s0)).
  Proof.
    intros f IH s0 id ps r b svs' vargs vs X rfp rself rip cenv st2 v st' Hub Hnd Hfr Hle Hfix Hargs Hgl He.
    set (n := length ps) in *.
    set (xs := ps ++ rest_list r) in *.
    set (vs' := spec_vals n r vs) in *.
    assert (Hlv : length vargs = length vs) by exact (Forall2_len _ _ _ Hargs).
    assert (Hlxs : length vs' = length xs).
    { unfold vs', xs. rewrite spec_vals_length by exact Hle. rewrite app_length. reflexivity. }
    destruct (make_call_protocol s0 id r b n (closedR svs' id ps r b) (VLit LVoid) vargs X rip rself rfp
                ltac:(lia) ltac:(intro Hr; rewrite Hlv; auto)) as (vargs' & h' & Hmc & Hcase).
    set (proc := VProc (lam_flags id r b) n (closedR svs' id ps r b) (VLit LVoid)) in *.
    set (sc := mkst (vint rfp :: rself :: vint rip :: vint (length vargs') :: vargs' ++ X) (length (vargs' ++ X)) proc 0 h' (globals s0)) in *.
    (* the heap only grew, and the live parameters are represented *)
    assert (Hlive : exists hb, h' = heap s0 ++ hb /\
              forall k w, nth_error vs' k = Some w -> (k < n \/ dead_of id r b = []) ->
                          exists va, nth_error vargs' k = Some va /\ vrelR h' va w).
    { destruct Hcase as [(Hd & -> & ->) | (x & l & -> & Hd & Hb & ->)].
      - exists []. split; [rewrite app_nil_r; reflexivity|]. intros k w Hk Hor.
        assert (Hkn : k < n).
        { destruct Hor as [|Hd0]; auto. rewrite Hd0 in Hd. destruct r; try discriminate.
          unfold vs', spec_vals in Hk. rewrite app_nil_r in Hk.
          assert (k < length (firstn n vs)) by (apply nth_error_Some; congruence).
          rewrite firstn_length in H. lia. }
        unfold vs', spec_vals in Hk. rewrite nth_error_app1 in Hk by (rewrite firstn_length_le; lia).
        rewrite nth_error_firstn_lt in Hk by exact Hkn.
        exact (Forall2_nth _ _ _ _ _ Hargs Hk).
      - pose proof (Forall2_skipn _ n _ _ Hargs) as Hsk.
        destruct (build_list_rel _ _ _ Hsk _ _ Hb) as (hb & -> & Hl).
        exists hb. split; auto. intros k w Hk _.
        assert (HF : Forall2 (vrelR (heap s0 ++ hb)) (firstn n vargs ++ [l]) vs').
        { unfold vs', spec_vals. apply Forall2_app2.
          - apply Forall2_vrelR_ext. apply Forall2_firstn. exact Hargs.
          - constructor; [exact Hl|constructor]. }
        exact (Forall2_nth _ _ _ _ _ HF Hk). }
    destruct Hlive as (hb & Hh' & Hlive).
    assert (Hcells : snd (bind_all id xs vs' cenv (cells st2)) = cells st2 ++ vs') by (apply bind_all_cells; exact Hlxs).
    rewrite Hcells in He.
    assert (Hok : env_okR (Some (id, ps, r, dead_of id r b)) (fst (bind_all id xs vs' cenv (cells st2)))
                          (mkstore (cells st2 ++ vs') (sglobals st2)) sc).
    { split.
      - intros id0 ps0 r0 dead0 Hc x Hm Hdead. inversion Hc; subst id0 ps0 r0 dead0. fold xs in Hm.
        destruct (memn_index_of x xs Hm) as (k & Hk & Hkl).
        destruct (bind_all_lookup id xs vs' cenv (cells st2) x k Hnd Hlxs Hk) as [Hl Hn].
        destruct (nth_error vs' k) as [w|] eqn:Ew; [|apply nth_error_None in Ew; lia].
        assert (Hor : k < n \/ dead_of id r b = []).
        { destruct (dead_of id r b) as [|y dl] eqn:Ed; auto. left.
          unfold dead_of in Ed. destruct (rest_unused true id r b); try discriminate.
          destruct r as [y0|]; simpl in Ed; try discriminate. inversion Ed; subst y dl.
          simpl in Hdead. rewrite orb_false_r in Hdead.
          unfold xs in Hm. simpl in Hm. rewrite memn_app in Hm. simpl in Hm. rewrite orb_false_r in Hm.
          rewrite Hdead in Hm. rewrite orb_false_r in Hm.
          destruct (memn_index_of x ps Hm) as (k' & Hk' & Hkl').
          unfold xs in Hk. rewrite (index_of_app_l _ _ (rest_list (Some y0)) _ Hk') in Hk. inversion Hk; subst k'. exact Hkl'. }
        destruct (Hlive k w Ew Hor) as (va & Hva & Hrel).
        assert (Hkv : k < length vargs') by (apply nth_error_Some; congruence).
        exists (length (cells st2) + k), w, (length (vargs' ++ X) - 1 - k), va.
        repeat split; auto.
        + rewrite (param_index_rest _ _ _ _ Hk). unfold sc; cbn [fp]. apply slot_arg. rewrite app_length. lia.
        + unfold sc; cbn [stk].
          change (vint rfp :: rself :: vint rip :: vint (length vargs') :: vargs' ++ X)
            with ([vint rfp; rself; vint rip; vint (length vargs')] ++ (vargs' ++ X)).
          rewrite sget_arg by (rewrite app_length; lia).
          rewrite nth_error_app1 by exact Hkv. exact Hva.
      - intros g w Hg. simpl in Hg. destruct (Hgl g w Hg) as (v0 & Ha & Hv0). exists v0. split; auto.
        unfold sc; cbn [heap]. rewrite Hh'. apply vrelR_ext. exact Hv0. }
    assert (Hat : at_code sc [] (generate true svs' (lctxR (Some (id, ps, r, dead_of id r b))) b) [IRet]).
    { split; reflexivity. }
    destruct (IH b (Some (id, ps, r, dead_of id r b)) _ _ v st' Hfr He true svs' sc [] [IRet] Hub Hat Hok) as (Hse & v' & hx & Hv & Hout).
    split. { eapply store_ext_trans; [|exact Hse]. split; simpl; auto. exists vs'. reflexivity. }
    exists sc, v', (hb ++ hx). split; [exact Hmc|]. split.
    { unfold sc in Hv; cbn [heap] in Hv. rewrite Hh', <- app_assoc in Hv. exact Hv. }
    set (code := generate true svs' (lctxR (Some (id, ps, r, dead_of id r b))) b) in *.
    assert (Hfi : frame_info sc = Some (length vargs', rip, rself, rfp)) by apply frame_info_entry.
    assert (Hnfp : length vargs' <= fp sc) by (unfold sc; cbn [fp]; rewrite app_length; lia).
    assert (Hbase : forall Y, below (fp sc - length vargs') ((Y ++ vargs') ++ X) = X).
    { intro Y. unfold sc; cbn [fp]. rewrite app_length.
      replace (length vargs' + length X - length vargs') with (length X) by lia. apply below_exact. }
    replace (heap s0 ++ hb ++ hx) with (h' ++ hx) by (rewrite Hh', app_assoc; reflexivity).
    destruct Hout as [Hfall | [_ Hret]].
    - eapply reaches_trans; [exact Hfall|].
      set (se := fall sc v' [] code hx) in *.
      assert (Hate : at_code se code [IRet] []).
      { split; [|reflexivity]. simpl. unfold closedR. fold code. reflexivity. }
      assert (Hfie : frame_info se = Some (length vargs', rip, rself, rfp)).
      { eapply (frame_info_app sc se [v']); eauto. }
      pose proof (step_ret se _ _ v' (stk sc) (length vargs') rip rself rfp Hate eq_refl Hfie Hnfp) as Hstep.
      apply reaches_step. rewrite Hstep. f_equal. f_equal. f_equal.
      change (v' :: stk sc) with (((v' :: [vint rfp; rself; vint rip; vint (length vargs')]) ++ vargs') ++ X).
      apply (Hbase (v' :: [vint rfp; rself; vint rip; vint (length vargs')])).
    - specialize (Hret (length vargs') rip rself rfp Hfi Hnfp).
      replace (mkst (v' :: X) rfp rself rip (h' ++ hx) (globals s0)) with (returned sc v' (length vargs') rip rself rfp hx); auto.
      unfold returned. f_equal. f_equal.
      change (stk sc) with (([vint rfp; rself; vint rip; vint (length vargs')] ++ vargs') ++ X).
      apply (Hbase [vint rfp; rself; vint rip; vint (length vargs')]).
  Qed.

  Lemma simR_args : forall f, (forall e, simR_at f e) ->
    forall cur args env st rvs st1, forallb (fragR cur) args = true ->
    evlist (eval f) (rev args) env st = inl (rvs, st1) ->
    forall svs s pre post, unboxed svs ->
    at_code s pre (gen_args svs (lctxR cur) args) post ->
    env_okR cur env st s ->
    store_ext st st1 /\ exists vargs hx, Forall2 (vrelR (heap s ++ hx)) vargs (rev rvs) /\
      reaches s (upd s (vargs ++ stk s) (length pre + length (gen_args svs (lctxR cur) args)) (heap s ++ hx)).
  Proof.
    intros f IH cur args. induction args as [|a r IHr]; intros env st rvs st1 Hp He svs s pre post Hub Hat Hok.
    - simpl in He. inversion He; subst. split; [apply store_ext_refl|].
      exists [], []. split; [constructor|].
      destruct Hat as [_ Hip]. destruct s; simpl in *; subst. unfold upd; simpl.
      rewrite app_nil_r, Nat.add_0_r. apply reaches_refl.
    - simpl in Hp. apply andb_true_iff in Hp. destruct Hp as [Hpa Hpr].
      simpl rev in He. rewrite evlist_app in He.
      destruct (evlist (eval f) (rev r) env st) as [[rvs_r st_r]|x] eqn:Er; try discriminate.
      simpl evlist in He.
      destruct (eval f a env st_r) as [wa st_a| |] eqn:Ea; try discriminate.
      inversion He; subst rvs st1. clear He.
      change (gen_args svs (lctxR cur) (a :: r)) with
        (gen_args svs (lctxR cur) r ++ generate false svs (lctxR cur) a) in *.
      set (cr := gen_args svs (lctxR cur) r) in *. set (ca := generate false svs (lctxR cur) a) in *.
      destruct Hat as [Hcode Hip].
      assert (Hat1 : at_code s pre cr (ca ++ post)).
      { split; auto. rewrite Hcode. norm_code. }
      destruct (IHr env st rvs_r st_r Hpr Er svs s pre _ Hub Hat1 Hok) as (Hse1 & vr & h1 & Hvr & Hr1).
      fold cr in Hr1. set (s1 := upd s (vr ++ stk s) (length pre + length cr) (heap s ++ h1)) in *.
      assert (Hat2 : at_code s1 (pre ++ cr) ca post).
      { split; simpl; [|rewrite app_length; reflexivity]. rewrite Hcode. norm_code. }
      assert (Hok1 : env_okR cur env st_r s1) by (eapply (env_okR_ext cur env st st_r s s1 vr h1); eauto).
      destruct (IH a cur env st_r wa st_a Hpa Ea false svs s1 _ _ Hub Hat2 Hok1) as (Hse2 & va & h2 & Hva & Hout).
      apply outcome_false in Hout. fold ca in Hout.
      split; [eapply store_ext_trans; eauto|].
      exists (va :: vr), (h1 ++ h2). split.
      + rewrite rev_app_distr. simpl. constructor.
        * simpl in Hva. rewrite <- app_assoc in Hva. exact Hva.
        * rewrite app_assoc. apply Forall2_vrelR_ext. exact Hvr.
      + eapply reaches_trans; [exact Hr1|]. eapply reaches_trans; [exact Hout|].
        replace (fall s1 va (pre ++ cr) ca h2)
          with (upd s ((va :: vr) ++ stk s) (length pre + length (cr ++ ca)) (heap s ++ h1 ++ h2)); [apply reaches_refl|].
        unfold fall, upd; simpl. f_equal; [solve_len | rewrite app_assoc; reflexivity].
  Qed.

  Lemma simR_seq : forall f, (forall e, simR_at f e) ->
    forall cur es env st v st', es <> [] -> forallb (fragR cur) es = true ->
    eval_seq f env es st = SVal v st' ->
    forall tl svs s pre post, unboxed svs ->
    at_code s pre (gen_seq tl svs (lctxR cur) es) post ->
    env_okR cur env st s ->
    store_ext st st' /\
    exists v' hx, vrelR (heap s ++ hx) v' v /\ outcome_ok tl s pre (gen_seq tl svs (lctxR cur) es) v' hx.
  Proof.
    intros f IH cur es. induction es as [|a r IHr]; intros env st v st' Hne Hp He tl svs s pre post Hub Hat Hok.
    - congruence.
    - simpl in Hp. apply andb_true_iff in Hp. destruct Hp as [Hpa Hpr].
      destruct r as [|b r'].
      + simpl in He, Hat |- *. eapply IH; eauto.
      + change (eval_seq f env (a :: b :: r') st) with
          (match eval f a env st with SVal _ st1 => eval_seq f env (b :: r') st1 | x => x end) in He.
        destruct (eval f a env st) as [va st1| |] eqn:Ea; try discriminate.
        change (gen_seq tl svs (lctxR cur) (a :: b :: r')) with
          ((if is_lit a then [] else drop_prev a (generate false svs (lctxR cur) a)) ++ gen_seq tl svs (lctxR cur) (b :: r')) in *.
        assert (Hne2 : b :: r' <> []) by congruence.
        destruct (is_lit a) eqn:La.
        * destruct a; try discriminate La. destruct f; [discriminate Ea|]. rewrite eval_Lit in Ea. inversion Ea; subst st1.
          simpl app in *. eapply IHr; eauto.
        * assert (Hd : drop_prev a (generate false svs (lctxR cur) a) = generate false svs (lctxR cur) a ++ [IDrop]).
          { unfold drop_prev. destruct a; simpl in La, Hpa |- *; try discriminate; reflexivity. }
          rewrite Hd in *. set (ca := generate false svs (lctxR cur) a) in *.
          set (cr := gen_seq tl svs (lctxR cur) (b :: r')) in *.
          destruct Hat as [Hcode Hip].
          assert (Hat1 : at_code s pre ca ([IDrop] ++ cr ++ post)).
          { split; auto. rewrite Hcode. norm_code. }
          destruct (IH a cur env st va st1 Hpa Ea false svs s pre _ Hub Hat1 Hok) as (Hse1 & v1 & h1 & Hv1 & Hout1).
          apply outcome_false in Hout1. fold ca in Hout1.
          set (s1 := fall s v1 pre ca h1) in *.
          assert (Hat2 : at_code s1 (pre ++ ca) [IDrop] (cr ++ post)).
          { split; simpl; [|rewrite app_length; reflexivity]. rewrite Hcode. norm_code. }
          pose proof (step_drop s1 _ _ v1 (stk s) Hat2 eq_refl) as Hstep.
          set (s2 := upd s1 (stk s) (S (ip s1)) (heap s1)) in *.
          assert (Hat3 : at_code s2 (pre ++ ca ++ [IDrop]) cr post).
          { split; simpl; [|solve_len]. rewrite Hcode. norm_code. }
          assert (Hok2 : env_okR cur env st1 s2).
          { eapply (env_okR_ext cur env st st1 s s2 [] h1); eauto. }
          destruct (IHr env st1 v st' Hne2 Hpr He tl svs s2 _ post Hub Hat3 Hok2) as (Hse2 & v2 & h2 & Hv2 & Hout2).
          fold cr in Hout2.
          split; [eapply store_ext_trans; eauto|]. exists v2, (h1 ++ h2). split.
          -- simpl in Hv2. rewrite <- app_assoc in Hv2. exact Hv2.
          -- eapply (outcome_lift tl s s2 pre (pre ++ ca ++ [IDrop]) _ cr v2 h1 h2); eauto.
             ++ eapply reaches_trans; [exact Hout1|]. apply reaches_step. exact Hstep.
             ++ rewrite (fall_eq s s2 v2 pre (pre ++ ca ++ [IDrop]) ((ca ++ [IDrop]) ++ cr) cr h1 h2); auto.
                ** apply reaches_refl.
                ** solve_len.
  Qed.

End SimR.

Lemma simR_all : forall f e, simR_at f e.
Proof.
  induction f as [|f IH]; intros e cur env st v st' Hp He tl svs s pre post Hub Hat Hok.
  - discriminate He.
  - destruct e as [l | x o | x o e1 | t p e2 | es | id ps r ls sv fv b | g args | p args]; try discriminate Hp.
    + (* Lit *)
      rewrite eval_Lit in He. inversion He; subst. split; [apply store_ext_refl|].
      exists (VLit (lit_value l)), []. split; [reflexivity|].
      simpl generate in *. eapply leaf_outcome; eauto. eapply step_push; eauto.
    + (* Ref *)
      destruct o as [|m].
      * rewrite eval_Ref_global in He. destruct (glob_lookup x (sglobals st)) as [w|] eqn:Eg; try discriminate.
        inversion He; subst. split; [apply store_ext_refl|].
        destruct Hok as [_ HG]. destruct (HG x v Eg) as (v' & Ha & Hv).
        exists v', []. split; [rewrite app_nil_r; exact Hv|].
        simpl generate in *. eapply leaf_outcome; eauto. eapply step_global_ref; eauto.
      * simpl in Hp. destruct cur as [[[[id ps] r0] dead]|]; try discriminate Hp.
        apply andb_true_iff in Hp. destruct Hp as [Hp Hdead]. apply andb_true_iff in Hp. destruct Hp as [Hm Hx].
        apply Nat.eqb_eq in Hm. subst m. apply negb_true_iff in Hdead.
        destruct Hok as [HL _]. destruct (HL id ps r0 dead eq_refl x Hx Hdead) as (a & w & k & v' & Hl & Hn & Hs & Hg & Hv).
        rewrite eval_Ref_local, Hl, Hn in He. inversion He; subst. split; [apply store_ext_refl|].
        assert (Hgen : generate tl svs (lctxR (Some (id, ps, r0, dead))) (Ref x (Local id)) = [ILocalRef (param_index ps r0 [] x)]).
        { simpl. unfold gen_non_global_ref. simpl. rewrite Nat.eqb_refl, (Hub id). reflexivity. }
        rewrite Hgen in *.
        exists v', []. split; [rewrite app_nil_r; exact Hv|].
        eapply leaf_outcome; eauto. eapply step_local_ref; eauto.
    + (* Cnd *)
      simpl in Hp. apply andb_true_iff in Hp. destruct Hp as [Hp Hpf]. apply andb_true_iff in Hp. destruct Hp as [Hpt Hpp].
      rewrite eval_Cnd in He.
      destruct (eval f t env st) as [vt st1| |] eqn:Et; try discriminate.
      simpl generate in *.
      set (ct := generate false svs (lctxR cur) t) in *.
      set (cp := generate tl svs (lctxR cur) p) in *.
      set (cf := generate tl svs (lctxR cur) e2) in *.
      destruct Hat as [Hcode Hip].
      assert (Hat1 : at_code s pre ct (([IJumpUnless (S (length cp))] ++ cp ++ [IJump (length cf)] ++ cf) ++ post)).
      { split; auto. rewrite Hcode. norm_code. }
      destruct (IH t cur env st vt st1 Hpt Et false svs s pre _ Hub Hat1 Hok) as (Hse1 & v1 & h1 & Hv1 & Hout1).
      apply outcome_false in Hout1. fold ct in Hout1. set (s1 := fall s v1 pre ct h1) in *.
      assert (Hat2 : at_code s1 (pre ++ ct) [IJumpUnless (S (length cp))] (cp ++ [IJump (length cf)] ++ cf ++ post)).
      { split; simpl; [|rewrite app_length; reflexivity]. rewrite Hcode. norm_code. }
      destruct (sval_false_decR _ _ _ Hv1) as [[-> ->] | [Hw Hv]].
      * (* else branch *)
        pose proof (step_jump_unless_false s1 _ _ _ (stk s) Hat2 eq_refl) as Hstep.
        set (s2 := upd s1 (stk s) (S (ip s1) + S (length cp)) (heap s1)) in *.
        assert (Hat3 : at_code s2 (pre ++ ct ++ [IJumpUnless (S (length cp))] ++ cp ++ [IJump (length cf)]) cf post).
        { split; simpl; [|solve_len]. rewrite Hcode. norm_code. }
        assert (Hok2 : env_okR cur env st1 s2) by (eapply (env_okR_ext cur env st st1 s s2 [] h1); eauto).
        destruct (IH e2 cur env st1 v st' Hpf He tl svs s2 _ post Hub Hat3 Hok2) as (Hse2 & v2 & h2 & Hv2 & Hout2).
        fold cf in Hout2.
        split; [eapply store_ext_trans; eauto|]. exists v2, (h1 ++ h2). split.
        -- simpl in Hv2. rewrite <- app_assoc in Hv2. exact Hv2.
        -- eapply (outcome_lift tl s s2 pre _ _ cf v2 h1 h2); eauto.
           ++ eapply reaches_trans; [exact Hout1|]. apply reaches_step. exact Hstep.
           ++ rewrite (fall_eq s s2 v2 pre _ (ct ++ IJumpUnless (S (length cp)) :: cp ++ IJump (length cf) :: cf) cf h1 h2); auto.
              ** apply reaches_refl.
              ** solve_len.
      * (* then branch *)
        assert (Hep : eval f p env st1 = SVal v st').
        { destruct vt as [[z|[|]| | | | |o|nd] | |]; try exact He; congruence. }
        pose proof (step_jump_unless_true s1 _ _ _ v1 (stk s) Hat2 eq_refl Hv) as Hstep.
        set (s2 := upd s1 (stk s) (S (ip s1)) (heap s1)) in *.
        assert (Hat3 : at_code s2 (pre ++ ct ++ [IJumpUnless (S (length cp))]) cp ([IJump (length cf)] ++ cf ++ post)).
        { split; simpl; [|solve_len]. rewrite Hcode. norm_code. }
        assert (Hok2 : env_okR cur env st1 s2) by (eapply (env_okR_ext cur env st st1 s s2 [] h1); eauto).
        destruct (IH p cur env st1 v st' Hpp Hep tl svs s2 _ _ Hub Hat3 Hok2) as (Hse2 & v2 & h2 & Hv2 & Hout2).
        fold cp in Hout2.
        split; [eapply store_ext_trans; eauto|]. exists v2, (h1 ++ h2). split.
        -- simpl in Hv2. rewrite <- app_assoc in Hv2. exact Hv2.
        -- eapply (outcome_lift tl s s2 pre _ _ cp v2 h1 h2); eauto.
           ++ eapply reaches_trans; [exact Hout1|]. apply reaches_step. exact Hstep.
           ++ (* after the then branch: JUMP over the else branch *)
              set (s3 := fall s2 v2 (pre ++ ct ++ [IJumpUnless (S (length cp))]) cp h2).
              assert (Hat4 : at_code s3 (pre ++ ct ++ [IJumpUnless (S (length cp))] ++ cp) [IJump (length cf)] (cf ++ post)).
              { split; simpl; [|solve_len]. rewrite Hcode. norm_code. }
              apply reaches_step. rewrite (step_jump s3 _ _ _ Hat4).
              unfold fall, upd; simpl. f_equal. f_equal; [solve_len | rewrite app_assoc; reflexivity].
    + (* Seq *)
      rewrite eval_Seq in He. rewrite generate_Seq in *.
      simpl in Hp. destruct es as [|a r]; try discriminate Hp.
      eapply (simR_seq f IH cur (a :: r)); eauto. congruence.
    + (* Lam *)
      simpl in Hp.
      destruct ls; try discriminate Hp. destruct sv; try discriminate Hp. destruct fv; try discriminate Hp.
      apply andb_true_iff in Hp. destruct Hp as [Hnd Hfb].
      rewrite eval_Lam in He. inversion He; subst. split; [apply store_ext_refl|].
      rewrite generate_Lam_closedR in *.
      set (svs' := fun m => if Nat.eqb m id then [] else svs m) in *.
      exists (VProc (lam_flags id r b) (length ps) (closedR svs' id ps r b) (VLit LVoid)), []. split.
      * simpl. repeat split; auto. exists svs'. split; auto.
        intro m. unfold svs'. destruct (Nat.eqb m id); auto.
      * eapply leaf_outcome; eauto. eapply step_push_proc; eauto.
    + (* App *)
      simpl in Hp. apply andb_true_iff in Hp. destruct Hp as [Hpg Hpa].
      rewrite eval_App in He.
      destruct (evlist (eval f) (rev args) env st) as [[rvs st1]|x] eqn:Eargs;
        [|exfalso; exact (evlist_inr _ _ _ _ _ Eargs _ _ He)].
      cbv zeta in He.
      destruct (eval f g env st1) as [wf st2| |] eqn:Eg; [| simpl in He; discriminate He | simpl in He; discriminate He].
      rewrite generate_App in *.
      set (cargs := gen_args svs (lctxR cur) args) in *.
      set (cg := generate false svs (lctxR cur) g) in *.
      set (icall := if tl then ITailCall (length args) else ICall (length args)) in *.
      destruct Hat as [Hcode Hip].
      assert (Hat1 : at_code s pre cargs ((cg ++ [icall]) ++ post)).
      { split; auto. rewrite Hcode. norm_code. }
      destruct (simR_args f IH cur args env st rvs st1 Hpa Eargs svs s pre _ Hub Hat1 Hok) as (Hse1 & vargs & h1 & Hvargs & Hr1).
      fold cargs in Hr1. set (s1 := upd s (vargs ++ stk s) (length pre + length cargs) (heap s ++ h1)) in *.
      assert (Hat2 : at_code s1 (pre ++ cargs) cg ([icall] ++ post)).
      { split; simpl; [|rewrite app_length; reflexivity]. rewrite Hcode. norm_code. }
      assert (Hok1 : env_okR cur env st1 s1) by (eapply (env_okR_ext cur env st st1 s s1 vargs h1); eauto).
      destruct (IH g cur env st1 wf st2 Hpg Eg false svs s1 _ _ Hub Hat2 Hok1) as (Hse2 & vg & h2 & Hvg & Hout2).
      apply outcome_false in Hout2. fold cg in Hout2. set (s2 := fall s1 vg (pre ++ cargs) cg h2) in *.
      destruct wf as [lw | xw yw | cid cps cr cls cb cenv]; try discriminate He; try (simpl in Hvg; destruct Hvg as (aa & vx & vy & _ & _); discriminate He).
      simpl in Hvg. destruct Hvg as (-> & Hnd & Hfb & svs' & Hub' & ->).
      set (vs := rev rvs) in *.
      destruct (length vs <? length cps) eqn:E1; try discriminate He.
      destruct (match cr with None => length cps <? length vs | Some _ => false end) eqn:E2; try discriminate He.
      apply Nat.ltb_ge in E1.
      assert (Hfix : cr = None -> length vs = length cps).
      { intro Hc. subst cr. apply Nat.ltb_ge in E2. lia. }
      rewrite (spec_bind_eq cid cps cr vs cenv (cells st2) (fun e3 c3 => eval f cb e3 (mkstore c3 (sglobals st2))) E1) in He.
      assert (Hlargs : length args = length vargs).
      { rewrite (Forall2_len _ _ _ Hvargs). unfold vs. rewrite rev_length. pose proof (evlist_length _ _ _ _ _ _ Eargs) as Hl.
        rewrite rev_length in Hl. symmetry; exact Hl. }
      assert (Hse12 : store_ext st st2) by (eapply store_ext_trans; eauto).
      assert (Hvargs2 : Forall2 (vrelR (heap s2)) vargs vs).
      { unfold s2. simpl. apply Forall2_vrelR_ext. exact Hvargs. }
      assert (Hgl2 : forall g0 w, glob_lookup g0 (sglobals st2) = Some w ->
                      exists v0, assoc_nat g0 (globals s2) = Some v0 /\ vrelR (heap s2) v0 w).
      { intros g0 w Hg0. destruct Hse12 as [_ Hsg]. rewrite Hsg in Hg0.
        destruct Hok as [_ HG]. destruct (HG g0 w Hg0) as (v0 & Ha & Hv0). exists v0. split; auto.
        unfold s2. simpl. rewrite <- app_assoc. apply vrelR_ext. exact Hv0. }
      set (proc := VProc (lam_flags cid cr cb) (length cps) (closedR svs' cid cps cr cb) (VLit LVoid)) in *.
      assert (Hat3 : at_code s2 (pre ++ cargs ++ cg) [icall] post).
      { split; simpl; [|solve_len]. rewrite Hcode. norm_code. }
      assert (Hstk2 : stk s2 = proc :: (vargs ++ stk s)) by reflexivity.
      assert (Hreach2 : reaches s s2) by (eapply reaches_trans; eauto).
      assert (Hheap2 : heap s2 = heap s ++ h1 ++ h2) by (unfold s2; simpl; rewrite app_assoc; reflexivity).
      destruct tl.
      * (* TAIL-CALL: the callee returns directly into the frame recorded in the current header *)
        destruct (frame_info s) as [[[[j rip] rself] rfp]|] eqn:Hfi.
        -- set (base := below (fp s - j) (stk s)).
           destruct (call_closedR f IH s2 cid cps cr cb svs' vargs vs base rfp rself rip cenv st2 v st'
                       Hub' Hnd Hfb E1 Hfix Hvargs2 Hgl2 He) as (Hse3 & sc & v' & hx & Hmc & Hv' & Hreach).
           split. { eapply store_ext_trans; [exact Hse12|exact Hse3]. }
           exists v', (h1 ++ h2 ++ hx). split. { rewrite Hheap2 in Hv'. rewrite <- !app_assoc in Hv'. exact Hv'. }
           right. split; auto. intros j' rip' rself' rfp' Hq Hj. rewrite Hfi in Hq. injection Hq as <- <- <- <-.
           eapply reaches_trans; [exact Hreach2|].
           assert (Hfi2 : frame_info s2 = Some (j, rip, rself, rfp)).
           { eapply (frame_info_app s s2 (proc :: vargs)); eauto. }
           assert (Hlt : fp s < length (stk s)) by (eapply frame_info_lt; eauto).
           assert (Hn2 : length args <= length (vargs ++ stk s)) by (rewrite app_length; lia).
           pose proof (step_tail_call s2 _ _ _ proc (vargs ++ stk s) j rip rself rfp Hat3 Hstk2 Hfi2 Hn2 Hj) as Hstep.
           rewrite Hlargs, firstn_exact in Hstep.
           change (proc :: vargs ++ stk s) with ((proc :: vargs) ++ stk s) in Hstep.
           change (fp s2) with (fp s) in Hstep.
           rewrite below_app in Hstep by lia. fold base in Hstep.
           unfold proc in Hstep. rewrite Hmc in Hstep.
           eapply reaches_trans; [apply reaches_step; exact Hstep|].
           change (globals s2) with (globals s) in Hreach.
           replace (returned s v' j rip rself rfp (h1 ++ h2 ++ hx))
             with (mkst (v' :: base) rfp rself rip (heap s2 ++ hx) (globals s)); [exact Hreach|].
           unfold returned, base. rewrite Hheap2, <- !app_assoc. reflexivity.
        -- destruct (call_closedR f IH s2 cid cps cr cb svs' vargs vs [] 0 (VLit LVoid) 0 cenv st2 v st'
                       Hub' Hnd Hfb E1 Hfix Hvargs2 Hgl2 He) as (Hse3 & sc & v' & hx & _ & Hv' & _).
           split. { eapply store_ext_trans; [exact Hse12|exact Hse3]. }
           exists v', (h1 ++ h2 ++ hx). split. { rewrite Hheap2 in Hv'. rewrite <- !app_assoc in Hv'. exact Hv'. }
           right. split; auto. intros j' rip' rself' rfp' Hq. rewrite Hfi in Hq. discriminate Hq.
      * (* CALL: the callee returns behind the CALL instruction *)
        destruct (call_closedR f IH s2 cid cps cr cb svs' vargs vs (stk s) (fp s) (self s) (S (ip s2)) cenv st2 v st'
                    Hub' Hnd Hfb E1 Hfix Hvargs2 Hgl2 He) as (Hse3 & sc & v' & hx & Hmc & Hv' & Hreach).
        split. { eapply store_ext_trans; [exact Hse12|exact Hse3]. }
        exists v', (h1 ++ h2 ++ hx). split. { rewrite Hheap2 in Hv'. rewrite <- !app_assoc in Hv'. exact Hv'. }
        left. eapply reaches_trans; [exact Hreach2|].
        pose proof (step_call s2 _ _ _ proc (vargs ++ stk s) Hat3 Hstk2) as Hstep.
        rewrite Hlargs in Hstep. unfold proc in Hstep.
        change (fp s2) with (fp s) in Hstep. change (self s2) with (self s) in Hstep.
        rewrite Hmc in Hstep.
        eapply reaches_trans; [apply reaches_step; exact Hstep|].
        change (globals s2) with (globals s) in Hreach.
        replace (fall s v' pre (cargs ++ cg ++ [icall]) (h1 ++ h2 ++ hx))
          with (mkst (v' :: stk s) (fp s) (self s) (S (ip s2)) (heap s2 ++ hx) (globals s)); [exact Hreach|].
        unfold fall, upd. rewrite Hheap2, <- !app_assoc. f_equal. unfold s2; simpl. solve_len.
    + (* OpApp *)
      simpl in Hp. apply andb_true_iff in Hp. destruct Hp as [Hp Hall]. apply andb_true_iff in Hp. destruct Hp as [Hpp Hlen].
      apply Nat.eqb_eq in Hlen. rewrite eval_OpApp in He.
      destruct args as [|a [|b [|c0 args]]]; simpl in Hlen.
      * destruct p; discriminate Hlen.
      * (* unary *)
        assert (Ha1 : prim_arity p = 1) by auto.
        assert (Hinv : (if prim_inverse p then [a] else rev [a]) = [a]) by (destruct (prim_inverse p); reflexivity).
        rewrite Hinv in He. simpl evlist in He. simpl in Hall. apply andb_true_iff in Hall. destruct Hall as [Hpa _].
        destruct (eval f a env st) as [va st1| |] eqn:Ea; try discriminate.
        assert (Hinv2 : (if prim_inverse p then [va] else rev [va]) = [va]) by (destruct (prim_inverse p); reflexivity).
        rewrite Hinv2 in He.
        destruct (prim_sem p [va]) as [[rv|]|] eqn:Eprim; try discriminate. inversion He; subst rv st'. clear He.
        rewrite gen_op1 in * by auto.
        set (ca := generate false svs (lctxR cur) a) in *.
        destruct Hat as [Hcode Hip].
        assert (Hat1 : at_code s pre ca ([IPrim p] ++ post)).
        { split; auto. rewrite Hcode. norm_code. }
        destruct (IH a cur env st va st1 Hpa Ea false svs s pre _ Hub Hat1 Hok) as (Hse1 & v1 & h1 & Hv1 & Hout1).
        apply outcome_false in Hout1. fold ca in Hout1. set (s1 := fall s v1 pre ca h1) in *.
        destruct (prim1_okR p _ _ _ _ (stk s) Ha1 Hv1 Eprim) as (r' & Hps & Hr).
        assert (Hat2 : at_code s1 (pre ++ ca) [IPrim p] post).
        { split; simpl; [|rewrite app_length; reflexivity]. rewrite Hcode. norm_code. }
        pose proof (step_prim s1 _ _ _ _ _ Hat2 Hps) as Hstep.
        split; auto. exists r', h1. split; auto.
        left. eapply reaches_trans; [exact Hout1|]. apply reaches_step. rewrite Hstep.
        unfold fall, upd; simpl. f_equal. f_equal. solve_len.
      * (* binary *)
        assert (Ha2 : prim_arity p = 2) by auto.
        simpl in Hall. apply andb_true_iff in Hall. destruct Hall as [Hpa Hall].
        apply andb_true_iff in Hall. destruct Hall as [Hpb _].
        rewrite gen_op2 in * by auto.
        destruct Hat as [Hcode Hip].
        destruct (prim_inverse p) eqn:Einv.
        -- simpl evlist in He.
           destruct (eval f a env st) as [va st1| |] eqn:Ea; try discriminate.
           destruct (eval f b env st1) as [vb st2| |] eqn:Eb; try discriminate.
           destruct (prim_sem p [va; vb]) as [[rv|]|] eqn:Eprim; try discriminate. inversion He; subst rv st'. clear He.
           set (ca := generate false svs (lctxR cur) a) in *. set (cb := generate false svs (lctxR cur) b) in *.
           assert (Hat1 : at_code s pre ca ((cb ++ [IPrim (prim_opcode p)]) ++ post)).
           { split; auto. rewrite Hcode. norm_code. }
           destruct (IH a cur env st va st1 Hpa Ea false svs s pre _ Hub Hat1 Hok) as (Hse1 & v1 & h1 & Hv1 & Hout1).
           apply outcome_false in Hout1. fold ca in Hout1. set (s1 := fall s v1 pre ca h1) in *.
           assert (Hat2 : at_code s1 (pre ++ ca) cb ([IPrim (prim_opcode p)] ++ post)).
           { split; simpl; [|rewrite app_length; reflexivity]. rewrite Hcode. norm_code. }
           assert (Hok1 : env_okR cur env st1 s1) by (eapply (env_okR_ext cur env st st1 s s1 [v1] h1); eauto).
           destruct (IH b cur env st1 vb st2 Hpb Eb false svs s1 _ _ Hub Hat2 Hok1) as (Hse2 & v2 & h2 & Hv2 & Hout2).
           apply outcome_false in Hout2. fold cb in Hout2. set (s2 := fall s1 v2 (pre ++ ca) cb h2) in *.
           simpl in Hv2. assert (Hv1' : vrelR ((heap s ++ h1) ++ h2) v1 va) by auto using vrelR_ext.
           pose proof (prim2_okR p _ _ _ _ _ _ (stk s) Ha2 Hpp Hv1' Hv2 Eprim) as (r' & hx & Hps & Hr).
           rewrite Einv in Hps.
           assert (Hat3 : at_code s2 (pre ++ ca ++ cb) [IPrim (prim_opcode p)] post).
           { split; simpl; [|solve_len]. rewrite Hcode. norm_code. }
           pose proof (step_prim s2 _ _ _ _ _ Hat3 Hps) as Hstep.
           split; [eapply store_ext_trans; eauto|]. exists r', (h1 ++ h2 ++ hx). split.
           ++ rewrite <- !app_assoc in Hr. exact Hr.
           ++ left. eapply reaches_trans; [exact Hout1|]. eapply reaches_trans; [exact Hout2|].
              apply reaches_step. rewrite Hstep. unfold fall, upd; simpl. f_equal. f_equal; [solve_len | rewrite <- !app_assoc; reflexivity].
        -- simpl evlist in He.
           destruct (eval f b env st) as [vb st1| |] eqn:Eb; try discriminate.
           destruct (eval f a env st1) as [va st2| |] eqn:Ea; try discriminate.
           simpl rev in He.
           destruct (prim_sem p [va; vb]) as [[rv|]|] eqn:Eprim; try discriminate. inversion He; subst rv st'. clear He.
           set (ca := generate false svs (lctxR cur) a) in *. set (cb := generate false svs (lctxR cur) b) in *.
           assert (Hat1 : at_code s pre cb ((ca ++ [IPrim p]) ++ post)).
           { split; auto. rewrite Hcode. norm_code. }
           destruct (IH b cur env st vb st1 Hpb Eb false svs s pre _ Hub Hat1 Hok) as (Hse1 & v1 & h1 & Hv1 & Hout1).
           apply outcome_false in Hout1. fold cb in Hout1. set (s1 := fall s v1 pre cb h1) in *.
           assert (Hat2 : at_code s1 (pre ++ cb) ca ([IPrim p] ++ post)).
           { split; simpl; [|rewrite app_length; reflexivity]. rewrite Hcode. norm_code. }
           assert (Hok1 : env_okR cur env st1 s1) by (eapply (env_okR_ext cur env st st1 s s1 [v1] h1); eauto).
           destruct (IH a cur env st1 va st2 Hpa Ea false svs s1 _ _ Hub Hat2 Hok1) as (Hse2 & v2 & h2 & Hv2 & Hout2).
           apply outcome_false in Hout2. fold ca in Hout2. set (s2 := fall s1 v2 (pre ++ cb) ca h2) in *.
           simpl in Hv2. assert (Hv1' : vrelR ((heap s ++ h1) ++ h2) v1 vb) by auto using vrelR_ext.
           pose proof (prim2_okR p _ _ _ _ _ _ (stk s) Ha2 Hpp Hv2 Hv1' Eprim) as (r' & hx & Hps & Hr).
           rewrite Einv in Hps.
           assert (Hat3 : at_code s2 (pre ++ cb ++ ca) [IPrim p] post).
           { split; simpl; [|solve_len]. rewrite Hcode. norm_code. }
           pose proof (step_prim s2 _ _ _ _ _ Hat3 Hps) as Hstep.
           split; [eapply store_ext_trans; eauto|]. exists r', (h1 ++ h2 ++ hx). split.
           ++ rewrite <- !app_assoc in Hr. exact Hr.
           ++ left. eapply reaches_trans; [exact Hout1|]. eapply reaches_trans; [exact Hout2|].
              apply reaches_step. rewrite Hstep. unfold fall, upd; simpl. f_equal. f_equal; [solve_len | rewrite <- !app_assoc; reflexivity].
      * destruct p; discriminate Hlen.
Qed.

(* ------------------------------------------------------------------ the plain fragment; unused rest is no restriction *)

Definition fctx0 := option (nat * list name * option name).

Fixpoint fragR0 (cur : fctx0) (e : ast) {struct e} : bool :=
  match e with
  | Lit _ => true
  | Ref x Global => true
  | Ref x (Local m) =>
      match cur with Some (id, ps, r) => Nat.eqb m id && memn x (ps ++ rest_list r) | None => false end
  | Cnd t p f => fragR0 cur t && fragR0 cur p && fragR0 cur f
  | Seq es => match es with [] => false | _ :: _ => forallb (fragR0 cur) es end
  | OpApp p args => pure_prim p && Nat.eqb (length args) (prim_arity p) && forallb (fragR0 cur) args
  | Lam id ps r [] [] [] b => nodupb (ps ++ rest_list r) && fragR0 (Some (id, ps, r)) b
  | App f args => fragR0 cur f && forallb (fragR0 cur) args
  | _ => false
  end.

Definition with_dead (cur : fctx0) (dead : list name) : fctxR :=
  match cur with Some (id, ps, r) => Some (id, ps, r, dead) | None => None end.

Lemma forallb_impl_Forall : forall (P Q : ast -> bool) l,
  Forall (fun e => P e = true -> Q e = true) l -> forallb P l = true -> forallb Q l = true.
Proof.
  intros P Q l H. induction H as [|x r Hx Hr IH]; simpl; auto.
  intro Hp. apply andb_true_iff in Hp. destruct Hp as [H1 H2]. rewrite (Hx H1), (IH H2). reflexivity.
Qed.

(** every term of the plain fragment is in [fragR]: a variable without a slot (a rest parameter flagged
    UNUSED_REST) is never mentioned -- by [Proofs.rest_unused_sound] *)
Lemma fragR0_fragR_gen : forall e cur dead,
  fragR0 cur e = true ->
  (forall id ps r, cur = Some (id, ps, r) -> forall x, memn x dead = true -> mentions id x e = false) ->
  fragR (with_dead cur dead) e = true.
Proof.
  induction e as [l | x o | x o v IHv | t p f IHt IHp IHf | es IHes | id ps r ls sv fv b IHb | g args IHg IHargs | p args IHargs]
    using ast_ind'; intros cur dead H Hd; simpl in H |- *; try discriminate H; auto.
  - (* Ref *)
    destruct o as [|m]; auto. destruct cur as [[[id ps] r]|]; simpl; try discriminate H.
    rewrite H. simpl. apply negb_true_iff.
    destruct (memn x dead) eqn:E; auto.
    specialize (Hd id ps r eq_refl x E). simpl in Hd.
    apply andb_true_iff in H. destruct H as [Hm _]. rewrite Nat.eqb_refl, Hm in Hd. discriminate Hd.
  - (* Cnd *)
    apply andb_true_iff in H. destruct H as [H H3]. apply andb_true_iff in H. destruct H as [H1 H2].
    rewrite IHt, IHp, IHf; auto; intros id ps r Hc y Hy; specialize (Hd id ps r Hc y Hy); simpl in Hd;
      apply orb_false_iff in Hd; destruct Hd as [Hd Hd3]; apply orb_false_iff in Hd; destruct Hd as [Hd1 Hd2]; auto.
  - (* Seq *)
    destruct es as [|a r0]; try discriminate H.
    refine (forallb_impl_Forall (fragR0 cur) (fragR (with_dead cur dead)) (a :: r0) _ H).
    rewrite Forall_forall in IHes |- *. intros e0 Hin He0. apply IHes; auto.
    intros id ps r Hc y Hy. specialize (Hd id ps r Hc y Hy). simpl in Hd.
    destruct (mentions id y e0) eqn:Em; auto.
    assert (H0 : existsb (mentions id y) (a :: r0) = true) by (apply existsb_exists; exists e0; auto). simpl in H0. congruence.
  - (* Lam *)
    destruct ls; try discriminate H. destruct sv; try discriminate H. destruct fv; try discriminate H.
    apply andb_true_iff in H. destruct H as [Hnd Hb]. rewrite Hnd. simpl.
    apply (IHb (Some (id, ps, r)) (dead_of id r b) Hb).
    intros id0 ps0 r0 Hc y Hy. inversion Hc; subst id0 ps0 r0.
    unfold dead_of in Hy. destruct (rest_unused true id r b) eqn:Eu; [|discriminate Hy].
    destruct r as [z|]; simpl in Hy; [|discriminate Hy]. rewrite orb_false_r in Hy. apply Nat.eqb_eq in Hy. subst y.
    apply (Proofs.rest_unused_sound id z b Eu).
  - (* App *)
    apply andb_true_iff in H. destruct H as [H1 H2]. rewrite IHg; auto.
    + simpl. refine (forallb_impl_Forall (fragR0 cur) (fragR (with_dead cur dead)) args _ H2).
      rewrite Forall_forall in IHargs |- *. intros e0 Hin He0. apply IHargs; auto.
      intros id ps r Hc y Hy. specialize (Hd id ps r Hc y Hy). simpl in Hd. apply orb_false_iff in Hd. destruct Hd as [_ Hd].
      destruct (mentions id y e0) eqn:Em; auto.
      assert (existsb (mentions id y) args = true) by (apply existsb_exists; exists e0; auto). congruence.
    + intros id ps r Hc y Hy. specialize (Hd id ps r Hc y Hy). simpl in Hd. apply orb_false_iff in Hd. tauto.
  - (* OpApp *)
    apply andb_true_iff in H. destruct H as [H1 H2]. rewrite H1. simpl.
    refine (forallb_impl_Forall (fragR0 cur) (fragR (with_dead cur dead)) args _ H2).
    rewrite Forall_forall in IHargs |- *. intros e0 Hin He0. apply IHargs; auto.
    intros id ps r Hc y Hy. specialize (Hd id ps r Hc y Hy). simpl in Hd.
    destruct (mentions id y e0) eqn:Em; auto.
    assert (existsb (mentions id y) args = true) by (apply existsb_exists; exists e0; auto). congruence.
Qed.

Theorem fragR0_fragR : forall e, fragR0 None e = true -> fragR None e = true.
Proof. intros e H. apply (fragR0_fragR_gen e None [] H). intros id ps r Hc. discriminate Hc. Qed.

(* ------------------------------------------------------------------ closed forms *)

Theorem compile_correct_rest_fragment : forall fuel e cur env st v st' tl svs s pre post,
  fragR cur e = true ->
  eval fuel e env st = SVal v st' ->
  unboxed svs ->
  code_of (self s) = pre ++ generate tl svs (lctxR cur) e ++ post -> ip s = length pre ->
  env_okR cur env st s ->
  store_ext st st' /\
  exists v' hx, vrelR (heap s ++ hx) v' v /\
    ((exists n, nsteps n s = Some (mkst (v' :: stk s) (fp s) (self s)
                                        (length pre + length (generate tl svs (lctxR cur) e))
                                        (heap s ++ hx) (globals s)))
     \/ (tl = true /\ forall j rip rself rfp, frame_info s = Some (j, rip, rself, rfp) -> j <= fp s ->
           exists n, nsteps n s = Some (mkst (v' :: below (fp s - j) (stk s)) rfp rself rip (heap s ++ hx) (globals s)))).
Proof.
  intros fuel e cur env st v st' tl svs s pre post Hp He Hub Hc Hi Hok.
  exact (simR_all fuel e cur env st v st' Hp He tl svs s pre post Hub (conj Hc Hi) Hok).
Qed.

Theorem compile_correct_toplevel_expr_rest : forall fuel e st v st' svs h gl,
  fragR0 None e = true ->
  eval fuel e [] st = SVal v st' ->
  unboxed svs ->
  (forall g w, glob_lookup g (sglobals st) = Some w -> exists v0, assoc_nat g gl = Some v0 /\ vrelR h v0 w) ->
  exists s0 n v' s',
    init_state (generate true svs None e ++ [IRet]) h gl = Next s0 /\
    run n s0 = Done v' s' /\ vrelR (heap s') v' v /\ globals s' = gl /\ (exists hx, heap s' = h ++ hx).
Proof.
  intros fuel e st v st' svs h gl Hp0 He Hub Hgl.
  pose proof (fragR0_fragR e Hp0) as Hp.
  set (code := generate true svs None e).
  set (base := [VLit LVoid; VLit LVoid; VLit LVoid; VLit LVoid]).
  set (s0 := mkst (vint 0 :: final_resumer :: vint 0 :: vint 0 :: base) (length base) (VProc 0 0 (code ++ [IRet]) (VLit LVoid)) 0 h gl).
  assert (Hinit : init_state (code ++ [IRet]) h gl = Next s0).
  { unfold init_state. rewrite make_call_fixed by (simpl; lia). reflexivity. }
  assert (Hat : at_code s0 [] (generate true svs (lctxR None) e) [IRet]) by (split; reflexivity).
  assert (Hok : env_okR None [] st s0).
  { split; [intros id ps r dead Hc; discriminate Hc|]. exact Hgl. }
  destruct (simR_all fuel e None [] st v st' Hp He true svs s0 [] [IRet] Hub Hat Hok) as (_ & v' & hx & Hv & Hout).
  assert (Hfi : frame_info s0 = Some (0, 0, final_resumer, 0)) by apply (frame_info_entry 0 final_resumer 0 0 base).
  pose proof (finish_return s0 code v' hx 0 0 final_resumer 0 eq_refl eq_refl Hfi (Nat.le_0_l _) Hout) as [n Hn].
  set (t := mkst (v' :: below (fp s0 - 0) (stk s0)) 0 final_resumer 0 (heap s0 ++ hx) (globals s0)) in *.
  exists s0, (n + 1), v', t. split; [exact Hinit|]. split; [|split; [exact Hv|split; [reflexivity|exists hx; reflexivity]]].
  rewrite (run_nsteps n 1 s0 t Hn). reflexivity.
Qed.

(* ------------------------------------------------------------------ the hypotheses are satisfiable *)

(** globals: used   = (lambda (a . r) (cons a r))     -- rest list built (surplus arguments) or '() inserted
             unused = (lambda (a . r) a)              -- flagged UNUSED_REST: surplus arguments stay on the stack
    expression: (cons (used 1 2 3) (cons (used 4) (cons (unused 5 6 7) (cons ((lambda (x . q) (used x x)) 9 8) '()))))
    => ((1 2 3) (4) 5 (9 9)); the last call reaches [used] through a TAIL-CALL from a frame with an unused rest *)
Module ExampleRest.
  Definition svs0 : nat -> list name := fun _ => [].
  Definition used_body : ast := OpApp PCons [Ref 0 (Local 1); Ref 1 (Local 1)].
  Definition unused_body : ast := Ref 2 (Local 2).
  Definition call (g : nat) (args : list Z) : ast := App (Ref g Global) (map (fun z => Lit (LInt z)) args).
  Definition e0 : ast :=
    OpApp PCons [call 10 [1; 2; 3]%Z;
      OpApp PCons [call 10 [4]%Z;
        OpApp PCons [call 11 [5; 6; 7]%Z;
          OpApp PCons [App (Lam 3 [4] (Some 5) [] [] [] (App (Ref 10 Global) [Ref 4 (Local 3); Ref 4 (Local 3)]))
                           [Lit (LInt 9); Lit (LInt 8)];
                       Lit LNil]]]].
  Definition st0 : sstore :=
    mkstore [] [(10, SClo 1 [0] (Some 1) [] used_body []); (11, SClo 2 [2] (Some 3) [] unused_body [])].
  Definition gl0 : list (nat * value) :=
    [(10, VProc (lam_flags 1 (Some 1) used_body) 1 (closedR svs0 1 [0] (Some 1) used_body) (VLit LVoid));
     (11, VProc (lam_flags 2 (Some 3) unused_body) 1 (closedR svs0 2 [2] (Some 3) unused_body) (VLit LVoid))].

  Example flags : lam_flags 1 (Some 1) used_body = 1 /\ lam_flags 2 (Some 3) unused_body = 3.
  Proof. split; reflexivity. Qed.

  Example frag_e0 : fragR0 None e0 = true.
  Proof. reflexivity. Qed.

  Definition ilist (l : list Z) : sval := slist (map (fun z => SLit (LInt z)) l).

  Example eval_e0 : exists st', eval 30 e0 [] st0 =
    SVal (slist [ilist [1; 2; 3]%Z; ilist [4]%Z; SLit (LInt 5); ilist [9; 9]%Z]) st'.
  Proof. eexists. vm_compute. reflexivity. Qed.

  Example globals_related : forall g w, glob_lookup g (sglobals st0) = Some w ->
    exists v0, assoc_nat g gl0 = Some v0 /\ vrelR [] v0 w.
  Proof.
    intros g w H. simpl in H.
    destruct (Nat.eqb g 10) eqn:E10.
    - apply Nat.eqb_eq in E10. subst g. inversion H; subst w. eexists. split; [reflexivity|].
      simpl. repeat split. exists svs0. split; [intro m; reflexivity | reflexivity].
    - destruct (Nat.eqb g 11) eqn:E11; try discriminate.
      apply Nat.eqb_eq in E11. subst g. inversion H; subst w. eexists. split; [reflexivity|].
      simpl. repeat split. exists svs0. split; [intro m; reflexivity | reflexivity].
  Qed.

  Example run_e0 : exists s0 v' s', init_state (generate true svs0 None e0 ++ [IRet]) [] gl0 = Next s0 /\
                                    run 300 s0 = Done v' s' /\ vrelR (heap s') v'
                                      (slist [ilist [1; 2; 3]%Z; ilist [4]%Z; SLit (LInt 5); ilist [9; 9]%Z]).
  Proof.
    destruct eval_e0 as [st' He].
    destruct (compile_correct_toplevel_expr_rest 30 e0 st0 _ st' svs0 [] gl0 frag_e0 He (fun m => eq_refl) globals_related)
      as (s0 & n & v' & s' & Hi & Hr & Hv & _).
    exists s0, v', s'. split; [exact Hi|]. split; [|exact Hv].
    (* the theorem gives some n; the concrete run below shows 300 steps suffice *)
    assert (Hc : exists v2 s2, run 300 s0 = Done v2 s2).
    { unfold init_state in Hi. vm_compute in Hi. inversion Hi; subst s0. eexists. eexists. vm_compute. reflexivity. }
    destruct Hc as (v2 & s2 & Hc).
    assert (Hmono : forall n m s v1 s1, run n s = Done v1 s1 -> run (n + m) s = Done v1 s1).
    { induction n0 as [|n0 IHn]; intros m s v1 s1 H; simpl in H; try discriminate. simpl.
      destruct (step s) as [sx|vx sx|ex]; auto. }
    destruct (Nat.le_ge_cases n 300) as [Hle|Hge].
    - replace 300 with (n + (300 - n)) by lia. apply Hmono. exact Hr.
    - replace n with (300 + (n - 300)) in Hr by lia. rewrite (Hmono _ _ _ _ _ Hc) in Hr. rewrite Hc. exact Hr.
  Qed.
End ExampleRest.
