(** C03 — compile_correct for WHOLE PROGRAMS: a list of top-level forms run by [Model.run_program] (each form
    compiled by [compile_toplevel], entered through [init_state], heap and globals threaded from form to form) against
    [Spec.eval_program] (the store threaded), with top-level DEFINE / RE-DEFINE / SET! OF GLOBALS between the forms.

    A top-level [(define x e)] and a top-level [(set! x e)] are the same AST [SetV x Global e] (R7RS 5.3.1: a define of
    a bound variable is an assignment; SPEC: [glob_set]; code: [generate false .. e ++ [IPushCell x; ISetCdr; IPush LVoid]];
    VM: SET-CDR on the global cell = [assoc_set x v (globals s)]).

    Forms covered ([formA] = [fragA SV None]): any expression of SimFull's fragment (assignments to locals and to
    GLOBALS, boxes, internal defines, closures, rest parameters, calls).  [SetV x Global e] is an expression of the
    fragment wherever it stands: top-level (define x e) / (set! x e), but also inside a procedure body (writer
    procedures such as (define (wr v) (set! g v))) or nested in an expression.  SimFull's simulation threads the VM
    globals through every result ([globrel SV W' (sglobals st') gl']), so the globals relation is re-established after
    every form (recursion through globals works because a body refers to a global by name).

    [compile_toplevel e] = [generate true (fun _ => []) None (annotate e) ++ [IRet]]:
      * [annotate]: the theorems are stated for forms that are already annotated ([annotate e = e]: every lambda's
        fv field holds what sexp_free_vars computes -- the check validates this on every real AST as
        correspondence:free-vars);
      * [svs = fun _ => []]: SimFull needs [agrees SV svs]; [generate_sv_indep] shows that the code of a well-scoped
        form ([Model.wf_program]: every local occurrence lies inside the lambda that owns it) does not depend on the
        initial sv table, because every lambda overrides its own entry on the way down.
    [run] uses the same fuel for every form: [run_mono], [run_program_mono].

    Main theorems: [compile_correct_toplevel_form] (one form), [compile_correct_program_partial] (a program). *)
From Coq Require Import ZArith List Bool Arith Lia.
From ChibiV Require Import C03.Defs C03.Model C03.Spec C03.Proofs C03.Simulation C03.SimCalls C03.SimBoxes C03.SimRest C03.SimClos C03.SimFull.
Import ListNotations.
Local Open Scope nat_scope.

(* ------------------------------------------------------------------ fuel monotonicity *)

Lemma run_mono : forall n k s v s', run n s = Done v s' -> run (n + k) s = Done v s'.
Proof.
  induction n as [|n IH]; intros k s v s' H; [discriminate H|].
  change (S n + k) with (S (n + k)). cbn [run] in *.
  destruct (step s) as [s1|v1 s1|er]; auto.
Qed.

Lemma run_program_mono : forall forms n k h g v s',
  run_program n forms h g = Done v s' -> run_program (n + k) forms h g = Done v s'.
Proof.
  induction forms as [|e r IH]; intros n k h g v s' H; cbn [run_program] in *; [discriminate H|].
  destruct (init_state (compile_toplevel e) h g) as [s0|v0 s0|er]; auto.
  destruct (run n s0) as [v1 s1|er|] eqn:Er; try discriminate H.
  rewrite (run_mono _ k _ _ _ Er). destruct r as [|e2 r2]; auto.
Qed.

(* ------------------------------------------------------------------ the code does not depend on the initial sv table *)

Definition gen_ops_lr (svs : nat -> list name) (cur : option lctx) : list ast -> code :=
  fix go (l : list ast) : code := match l with [] => [] | a :: r => generate false svs cur a ++ go r end.

Lemma generate_OpApp : forall tl svs cur p args,
  generate tl svs cur (OpApp p args) =
  (if prim_inverse p then gen_ops_lr svs cur args else gen_args svs cur args)
  ++ (if prim_arith p then repeat (IPrim (prim_opcode p)) (length args - 1) else [IPrim (prim_opcode p)]).
Proof. reflexivity. Qed.

Definition sv_eq_on (sc : list (nat * (list name * list name))) (svs svs2 : nat -> list name) : Prop :=
  forall m, scope_lookup m sc <> None -> svs m = svs2 m.

Lemma gnr_false_indep : forall svs svs2 cur x o,
  gen_non_global_ref svs cur x o false = gen_non_global_ref svs2 cur x o false.
Proof. intros. reflexivity. Qed.

Lemma gen_ref_false_indep : forall svs svs2 cur x o, gen_ref svs cur x o false = gen_ref svs2 cur x o false.
Proof. intros svs svs2 cur x [|m]; [reflexivity|]. destruct cur; reflexivity. Qed.

Lemma closure_fill_indep : forall svs svs2 cur l k, closure_fill svs cur k l = closure_fill svs2 cur k l.
Proof.
  induction l as [|[x o] t IH]; intros k; cbn [closure_fill]; [reflexivity|].
  rewrite (IH (S k)), (gnr_false_indep svs svs2). reflexivity.
Qed.

Lemma gen_seq_indep : forall svs svs2 cur es,
  (forall e, In e es -> forall tl, generate tl svs cur e = generate tl svs2 cur e) ->
  forall tl, gen_seq tl svs cur es = gen_seq tl svs2 cur es.
Proof.
  induction es as [|e r IH]; intros H tl; [reflexivity|].
  destruct r as [|e2 r2].
  - change (generate tl svs cur e = generate tl svs2 cur e). apply H. left; reflexivity.
  - change ((if is_lit e then [] else drop_prev e (generate false svs cur e)) ++ gen_seq tl svs cur (e2 :: r2) =
            (if is_lit e then [] else drop_prev e (generate false svs2 cur e)) ++ gen_seq tl svs2 cur (e2 :: r2)).
    rewrite (H e (or_introl eq_refl) false). rewrite IH; [reflexivity|].
    intros e0 Hin. apply H. right; exact Hin.
Qed.

Lemma gen_args_indep : forall svs svs2 cur es,
  (forall e, In e es -> generate false svs cur e = generate false svs2 cur e) ->
  gen_args svs cur es = gen_args svs2 cur es.
Proof.
  induction es as [|e r IH]; intros H; [reflexivity|].
  change (gen_args svs cur r ++ generate false svs cur e = gen_args svs2 cur r ++ generate false svs2 cur e).
  rewrite (H e (or_introl eq_refl)), IH; [reflexivity|]. intros e0 Hin. apply H. right; exact Hin.
Qed.

Lemma gen_ops_lr_indep : forall svs svs2 cur es,
  (forall e, In e es -> generate false svs cur e = generate false svs2 cur e) ->
  gen_ops_lr svs cur es = gen_ops_lr svs2 cur es.
Proof.
  induction es as [|e r IH]; intros H; [reflexivity|].
  change (generate false svs cur e ++ gen_ops_lr svs cur r = generate false svs2 cur e ++ gen_ops_lr svs2 cur r).
  rewrite (H e (or_introl eq_refl)), IH; [reflexivity|]. intros e0 Hin. apply H. right; exact Hin.
Qed.

(** the sv table is consulted only at the owners of the local occurrences; inside [Lam id ..] the entry of id is the
    lambda's own sv field *)
Lemma generate_sv_indep : forall e sc tl svs svs2 cur,
  wf sc e = true -> sv_eq_on sc svs svs2 -> generate tl svs cur e = generate tl svs2 cur e.
Proof.
  intro e.
  induction e as [l | x o | x o v IHv | t p f IHt IHp IHf | es IHes | id ps r ls sv fv b IHb | f args IHf IHargs | p args IHargs]
    using ast_ind'; intros sc tl svs svs2 cur Hwf Heq.
  - reflexivity.
  - destruct o as [|m]; [reflexivity|]. cbn [wf] in Hwf.
    assert (Hm : svs m = svs2 m).
    { apply Heq. destruct (scope_lookup m sc); [discriminate|discriminate Hwf]. }
    cbn [generate]. unfold gen_ref. destruct cur as [c|]; [|reflexivity].
    unfold gen_non_global_ref, sv_of. rewrite Hm. reflexivity.
  - cbn [wf] in Hwf. apply andb_true_iff in Hwf. destruct Hwf as [Ho Hv].
    cbn [generate]. rewrite (IHv sc false svs svs2 cur Hv Heq).
    destruct o as [|m]; [reflexivity|].
    assert (Hm : svs m = svs2 m).
    { apply Heq. destruct (scope_lookup m sc); [discriminate|discriminate Ho]. }
    rewrite Hm, (gen_ref_false_indep svs svs2). reflexivity.
  - cbn [wf] in Hwf. apply andb_true_iff in Hwf. destruct Hwf as [Hwf Hf].
    apply andb_true_iff in Hwf. destruct Hwf as [Ht Hp].
    cbn [generate].
    rewrite (IHt sc false svs svs2 cur Ht Heq), (IHp sc tl svs svs2 cur Hp Heq), (IHf sc tl svs svs2 cur Hf Heq).
    reflexivity.
  - rewrite !generate_Seq. cbn [wf] in Hwf. destruct es as [|e1 r1]; [discriminate Hwf|].
    apply gen_seq_indep. intros e Hin tl0.
    rewrite Forall_forall in IHes. rewrite forallb_forall in Hwf. eapply IHes; eauto.
  - cbn [wf] in Hwf. apply andb_true_iff in Hwf. destruct Hwf as [_ Hb].
    cbn [generate].
    assert (Heq' : sv_eq_on ((id, (frame_vars ps r ls, sv)) :: sc)
                     (fun m => if Nat.eqb m id then sv else svs m) (fun m => if Nat.eqb m id then sv else svs2 m)).
    { intros m Hm. cbn [scope_lookup] in Hm. destruct (Nat.eqb m id); [reflexivity|]. apply Heq. exact Hm. }
    rewrite (IHb _ true _ _ (Some (mk_lctx id ps r ls fv)) Hb Heq').
    rewrite (closure_fill_indep svs svs2). reflexivity.
  - cbn [wf] in Hwf. apply andb_true_iff in Hwf. destruct Hwf as [Hf Ha].
    rewrite !generate_App. rewrite (IHf sc false svs svs2 cur Hf Heq).
    rewrite (gen_args_indep svs svs2); [reflexivity|]. intros e Hin.
    rewrite Forall_forall in IHargs. rewrite forallb_forall in Ha. eapply IHargs; eauto.
  - cbn [wf] in Hwf. apply andb_true_iff in Hwf. destruct Hwf as [_ Ha].
    rewrite !generate_OpApp.
    assert (Hall : forall e, In e args -> generate false svs cur e = generate false svs2 cur e).
    { intros e Hin. rewrite Forall_forall in IHargs. rewrite forallb_forall in Ha. eapply IHargs; eauto. }
    rewrite (gen_args_indep svs svs2 cur args Hall), (gen_ops_lr_indep svs svs2 cur args Hall). reflexivity.
Qed.

(** the code [run_program] runs for an annotated, well-scoped form is the code generated with the program's table *)
Lemma compile_toplevel_SV : forall SV e, annotate e = e -> wf_program e = true ->
  compile_toplevel e = generate true SV None e ++ [IRet].
Proof.
  intros SV e Han Hwf. unfold compile_toplevel. rewrite Han.
  rewrite (generate_sv_indep e [] true (fun _ => []) SV None Hwf); [reflexivity|].
  intros m Hm. exfalso. apply Hm. reflexivity.
Qed.

(* ------------------------------------------------------------------ one top-level form *)

(** [globrel], [globrel_mono], [globrel_set] (every SPEC global has a VM global representing it in world W) live in
    SimFull.v.  The forms of a program are the expressions of the fragment: a top-level definition / re-definition /
    assignment of a global is the expression [SetV x Global e] of [fragA] *)
Definition formA (SV : nat -> list name) (e : ast) : bool := fragA SV None e.

Definition base4 : list value := [VLit LVoid; VLit LVoid; VLit LVoid; VLit LVoid].

(** the state [init_state] enters a thunk with *)
Definition entry_state (c : code) (h : list hobj) (gl : list (nat * value)) : state :=
  mkst (vint 0 :: final_resumer :: vint 0 :: vint 0 :: base4) (length base4) (VProc 0 0 c (VLit LVoid)) 0 h gl.

Lemma init_state_entry : forall c h gl, init_state c h gl = Next (entry_state c h gl).
Proof. intros c h gl. unfold init_state. rewrite make_call_fixed by (simpl; lia). reflexivity. Qed.

(** one top-level form *)
Lemma form_expr_correct : forall SV fuel e st v st' W gl,
  annotate e = e -> wf_program e = true -> fragA SV None e = true ->
  eval fuel e [] st = SVal v st' ->
  wc W = cells st -> WINV SV W -> globrel SV W (sglobals st) gl ->
  exists s0 n v' s' W',
    init_state (compile_toplevel e) (wh W) gl = Next s0 /\
    run n s0 = Done v' s' /\ wext W W' /\ heap s' = wh W' /\ wc W' = cells st' /\ WINV SV W' /\
    vrelW SV W' v' v /\ globrel SV W' (sglobals st') (globals s').
Proof.
  intros SV fuel e st v st' W gl Han Hwf Hp He HWc HI Hgl.
  rewrite (compile_toplevel_SV SV e Han Hwf).
  exact (compile_correct_toplevel_expr_imperative SV fuel e st v st' SV W gl Hp He (fun m => eq_refl) HWc HI Hgl).
Qed.

(** one top-level form.  The VM run of the compiled form from the state [init_state] produces ends in
    DONE with a value representing the SPEC's value; heap/cells, the world invariant and the globals relation are
    re-established (for the NEW globals, in the NEW world) so that the next form can be run. *)
Theorem compile_correct_toplevel_form : forall SV fuel e st v st' W gl,
  annotate e = e -> wf_program e = true -> formA SV e = true ->
  eval fuel e [] st = SVal v st' ->
  wc W = cells st -> WINV SV W -> globrel SV W (sglobals st) gl ->
  exists s0 n v' s' W',
    init_state (compile_toplevel e) (wh W) gl = Next s0 /\
    run n s0 = Done v' s' /\ wext W W' /\ heap s' = wh W' /\ wc W' = cells st' /\ WINV SV W' /\
    vrelW SV W' v' v /\ globrel SV W' (sglobals st') (globals s').
Proof.
  intros SV fuel e st v st' W gl Han Hwf Hf He HWc HI Hgl.
  exact (form_expr_correct SV fuel e st v st' W gl Han Hwf Hf He HWc HI Hgl).
Qed.

(* ------------------------------------------------------------------ programs *)

Lemma run_program_cons : forall n e r h g s0 v s',
  init_state (compile_toplevel e) h g = Next s0 -> run n s0 = Done v s' ->
  run_program n (e :: r) h g = match r with [] => Done v s' | _ :: _ => run_program n r (heap s') (globals s') end.
Proof. intros n e r h g s0 v s' Hi Hr. cbn [run_program]. rewrite Hi, Hr. reflexivity. Qed.

(** what is asked of every form: annotated (free-variable lists as sexp_free_vars computes them), well-scoped
    ([Model.wf]) and in the fragment ([formA]) *)
Definition form_ok (SV : nat -> list name) (e : ast) : Prop :=
  annotate e = e /\ wf_program e = true /\ formA SV e = true.

(** WHOLE PROGRAMS.  If the SPEC evaluates the forms one after the other (threading the store, globals defined /
    re-defined / assigned by top-level forms) to v, then for some fuel the model runs the compiled forms one after the
    other (threading heap and globals) to a value representing v, and the final globals represent the SPEC's final
    globals.

    "partial": the forms are those of [formA] = [fragA SV None] -- no eq?, value outcomes only (whatever [fragA]
    excludes); assignments to globals are allowed anywhere, including inside procedure bodies. *)
Theorem compile_correct_program_partial : forall SV forms fuel st v st' W gl,
  Forall (form_ok SV) forms ->
  eval_program fuel forms st = SVal v st' ->
  wc W = cells st -> WINV SV W ->
  (forall g w, glob_lookup g (sglobals st) = Some w -> exists v0, assoc_nat g gl = Some v0 /\ vrelW SV W v0 w) ->
  exists n v' s' W',
    run_program n forms (wh W) gl = Done v' s' /\
    wext W W' /\ heap s' = wh W' /\ wc W' = cells st' /\ WINV SV W' /\
    vrelW SV W' v' v /\
    (forall g w, glob_lookup g (sglobals st') = Some w ->
       exists v0, assoc_nat g (globals s') = Some v0 /\ vrelW SV W' v0 w).
Proof.
  intros SV forms. induction forms as [|e r IH]; intros fuel st v st' W gl Hok He HWc HI Hgl.
  - discriminate He.
  - inversion Hok as [|e' r' (Han & Hwf & Hf) Hr]; subst e' r'.
    cbn [eval_program] in He.
    destruct (eval fuel e [] st) as [v1 st1| |] eqn:E1; try discriminate He.
    destruct (compile_correct_toplevel_form SV fuel e st v1 st1 W gl Han Hwf Hf E1 HWc HI Hgl)
      as (s0 & n & v' & s' & W' & Hinit & Hrun & HE & Hh & Hc & HI' & Hv & Hg).
    destruct r as [|e2 r2].
    + inversion He; subst v1 st1. exists n, v', s', W'.
      split; [rewrite (run_program_cons n e [] _ _ s0 v' s' Hinit Hrun); reflexivity|].
      repeat (split; [assumption|]). exact Hg.
    + destruct (IH fuel st1 v st' W' (globals s') Hr He Hc HI' Hg)
        as (n2 & v2 & s2 & W2 & Hrun2 & HE2 & Hh2 & Hc2 & HI2 & Hv2 & Hg2).
      exists (n + n2), v2, s2, W2.
      split.
      { rewrite (run_program_cons (n + n2) e (e2 :: r2) _ _ s0 v' s' Hinit (run_mono n n2 _ _ _ Hrun)).
        rewrite Hh, (Nat.add_comm n n2). apply run_program_mono. exact Hrun2. }
      split; [eapply wext_trans; eauto|]. repeat (split; [assumption|]). exact Hg2.
Qed.

(** from the empty heap / store / globals (what a fresh [run_program .. [] []] starts from) *)
Definition W_empty : world := mkW [] [] (fun _ => None).

Lemma WINV_empty : forall SV, WINV SV W_empty.
Proof. intro SV. split; [|split]; intros; simpl in *; discriminate. Qed.

Corollary compile_correct_program_partial_empty : forall SV forms fuel v st',
  Forall (form_ok SV) forms ->
  eval_program fuel forms (mkstore [] []) = SVal v st' ->
  exists n v' s' W',
    run_program n forms [] [] = Done v' s' /\
    heap s' = wh W' /\ wc W' = cells st' /\ WINV SV W' /\ vrelW SV W' v' v /\
    (forall g w, glob_lookup g (sglobals st') = Some w ->
       exists v0, assoc_nat g (globals s') = Some v0 /\ vrelW SV W' v0 w).
Proof.
  intros SV forms fuel v st' Hok He.
  destruct (compile_correct_program_partial SV forms fuel (mkstore [] []) v st' W_empty [] Hok He eq_refl (WINV_empty SV))
    as (n & v' & s' & W' & Hrun & _ & Hh & Hc & HI & Hv & Hg).
  { intros g w Hg. discriminate Hg. }
  exists n, v', s', W'. repeat (split; [assumption|]). exact Hg.
Qed.

(** observable form: a program whose SPEC value is an atom runs to exactly that atom *)
Corollary compile_correct_program_partial_atom : forall SV forms fuel l st',
  Forall (form_ok SV) forms ->
  eval_program fuel forms (mkstore [] []) = SVal (SLit l) st' ->
  exists n s', run_program n forms [] [] = Done (VLit l) s'.
Proof.
  intros SV forms fuel l st' Hok He.
  destruct (compile_correct_program_partial_empty SV forms fuel _ st' Hok He)
    as (n & v' & s' & W' & Hrun & _ & _ & _ & Hv & _).
  apply vrelW_lit_inv in Hv. subst v'. exists n, s'. exact Hrun.
Qed.

(* ------------------------------------------------------------------ the hypotheses are satisfiable *)

(** (define g 1)
    (define (f n) (if (< n 1) g (f (- n 1))))               ; recursion through the global f, reads the global g
    (define tick ((lambda (c) (lambda () (set! c (+ c g)) c)) 0))   ; a closure over a boxed variable, reads g
    (define g 2)                                            ; re-definition, seen by f and tick compiled before it
    (set! g (+ g 40))                                       ; top-level assignment: g = 42
    (tick)                                                  ; => 42   (c = 42)
    (+ (tick) (f 3))                                        ; => 84 + 42 = 126
    names: g = 0, f = 1, tick = 2, n = 3, c = 4; lambda ids 1 (f), 2 (lambda (c) ..), 3 (the inner thunk) *)
Module ExampleProg.
  Definition SV0 : nat -> list name := fun m => if Nat.eqb m 2 then [4] else [].
  Definition f_body : ast :=
    Cnd (OpApp PLt [Ref 3 (Local 1); Lit (LInt 1)]) (Ref 0 Global)
        (App (Ref 1 Global) [OpApp PSub [Ref 3 (Local 1); Lit (LInt 1)]]).
  Definition tick_body : ast :=
    Seq [SetV 4 (Local 2) (OpApp PAdd [Ref 4 (Local 2); Ref 0 Global]); Ref 4 (Local 2)].
  Definition prog : list ast :=
    [ SetV 0 Global (Lit (LInt 1));
      SetV 1 Global (Lam 1 [3] None [] [] [] f_body);
      SetV 2 Global (App (Lam 2 [4] None [] [4] [] (Lam 3 [] None [] [] [(4, Local 2)] tick_body)) [Lit (LInt 0)]);
      SetV 0 Global (Lit (LInt 2));
      SetV 0 Global (OpApp PAdd [Ref 0 Global; Lit (LInt 40)]);
      App (Ref 2 Global) [];
      OpApp PAdd [App (Ref 2 Global) []; App (Ref 1 Global) [Lit (LInt 3)]] ].
  Definition W0 : world := mkW [] [] (fun _ => None).
  Definition st0 : sstore := mkstore [] [].

  Example forms_ok : Forall (form_ok SV0) prog.
  Proof. repeat (constructor; [split; [reflexivity|split; reflexivity]|]). constructor. Qed.

  Example eval_prog : exists st', eval_program 40 prog st0 = SVal (SLit (LInt 126)) st'.
  Proof. eexists. vm_compute. reflexivity. Qed.

  Example winv0 : WINV SV0 W0.
  Proof. split; [|split]; intros; simpl in *; discriminate. Qed.

  Example end_to_end : exists n s', run_program n prog [] [] = Done (VLit (LInt 126)) s'.
  Proof.
    destruct eval_prog as [st' He].
    destruct (compile_correct_program_partial SV0 prog 40 st0 _ st' W0 [] forms_ok He eq_refl winv0)
      as (n & v' & s' & W' & Hrun & _ & _ & _ & _ & Hv & _).
    { intros g w Hg. discriminate Hg. }
    apply vrelW_lit_inv in Hv. subst v'. exists n, s'. exact Hrun.
  Qed.

  (** and observed directly on the model VM *)
  Example run_prog : exists s', run_program 400 prog [] [] = Done (VLit (LInt 126)) s' /\
                                assoc_nat 0 (globals s') = Some (VLit (LInt 42)).
  Proof. eexists. split; vm_compute; reflexivity. Qed.

  (** the task's minimal instance: (define g 1) (define (rd) g) (define g 2) (rd) => 2 *)
  Definition prog2 : list ast :=
    [ SetV 0 Global (Lit (LInt 1));
      SetV 1 Global (Lam 1 [] None [] [] [] (Ref 0 Global));
      SetV 0 Global (Lit (LInt 2));
      App (Ref 1 Global) [] ].

  Example end_to_end2 : exists n s', run_program n prog2 [] [] = Done (VLit (LInt 2)) s'.
  Proof.
    assert (Hok : Forall (form_ok (fun _ => [])) prog2).
    { repeat (constructor; [split; [reflexivity|split; reflexivity]|]). constructor. }
    assert (He : exists st', eval_program 10 prog2 st0 = SVal (SLit (LInt 2)) st') by (eexists; vm_compute; reflexivity).
    destruct He as [st' He].
    assert (HI : WINV (fun _ => []) W0) by (split; [|split]; intros; simpl in *; discriminate).
    destruct (compile_correct_program_partial (fun _ => []) prog2 10 st0 _ st' W0 [] Hok He eq_refl HI)
      as (n & v' & s' & W' & Hrun & _ & _ & _ & _ & Hv & _).
    { intros g w Hg. discriminate Hg. }
    apply vrelW_lit_inv in Hv. subst v'. exists n, s'. exact Hrun.
  Qed.

  Example run_prog2 : exists s', run_program 100 prog2 [] [] = Done (VLit (LInt 2)) s'.
  Proof. eexists. vm_compute. reflexivity. Qed.

  (** a WRITER procedure: (define g 1) (define (wr v) (set! g (cons v g))) (wr 5) (wr 6) g  =>  (6 5 . 1)
      names: g = 0, wr = 5, v = 6; lambda id 4.  The global is assigned from inside the procedure body (in tail
      position), twice, and read back at top level. *)
  Definition prog3 : list ast :=
    [ SetV 0 Global (Lit (LInt 1));
      SetV 5 Global (Lam 4 [6] None [] [] [] (SetV 0 Global (OpApp PCons [Ref 6 (Local 4); Ref 0 Global])));
      App (Ref 5 Global) [Lit (LInt 5)];
      App (Ref 5 Global) [Lit (LInt 6)];
      Ref 0 Global ].
  Definition expected3 : sval := SPair (SLit (LInt 6)) (SPair (SLit (LInt 5)) (SLit (LInt 1))).

  Example forms_ok3 : Forall (form_ok (fun _ => [])) prog3.
  Proof. repeat (constructor; [split; [reflexivity|split; reflexivity]|]). constructor. Qed.

  Example eval_prog3 : exists st', eval_program 10 prog3 st0 = SVal expected3 st'.
  Proof. eexists. vm_compute. reflexivity. Qed.

  Example end_to_end3 : exists n v' s' W',
    run_program n prog3 [] [] = Done v' s' /\ heap s' = wh W' /\ vrelW (fun _ => []) W' v' expected3 /\
    exists v0, assoc_nat 0 (globals s') = Some v0 /\ vrelW (fun _ => []) W' v0 expected3.
  Proof.
    destruct eval_prog3 as [st' He].
    destruct (compile_correct_program_partial_empty (fun _ => []) prog3 10 _ st' forms_ok3 He)
      as (n & v' & s' & W' & Hrun & Hh & _ & _ & Hv & Hg).
    exists n, v', s', W'. split; [exact Hrun|]. split; [exact Hh|]. split; [exact Hv|].
    apply Hg.
    assert (Hst : sglobals st' = snd (match eval_program 10 prog3 st0 with SVal _ st1 => (tt, sglobals st1) | _ => (tt, []) end))
      by (rewrite He; reflexivity).
    rewrite Hst. vm_compute. reflexivity.
  Qed.

  (** observed directly on the model VM: the value is the pair chain (6 5 . 1) in the final heap, and it is the
      content of the global g *)
  Example run_prog3 : exists a b s',
    run_program 100 prog3 [] [] = Done (VPair a) s' /\ assoc_nat 0 (globals s') = Some (VPair a) /\
    nth_error (heap s') a = Some (HPair (VLit (LInt 6)) (VPair b)) /\
    nth_error (heap s') b = Some (HPair (VLit (LInt 5)) (VLit (LInt 1))).
  Proof.
    eexists. eexists. eexists. split; [|split; [|split]].
    - vm_compute. reflexivity.
    - vm_compute. reflexivity.
    - vm_compute. reflexivity.
    - vm_compute. reflexivity.
  Qed.
End ExampleProg.
