(** C03 — compile_correct for WHOLE PROGRAMS: a list of top-level forms run by [Model.run_program] (each form
    compiled by [compile_toplevel], entered through [init_state], heap and globals threaded from form to form) against
    [Spec.eval_program] (the store threaded), with top-level DEFINE / RE-DEFINE / SET! OF GLOBALS between the forms.

    A top-level [(define x e)] and a top-level [(set! x e)] are the same AST [SetV x Global e] (R7RS 5.3.1: a define of
    a bound variable is an assignment; SPEC: [glob_set]; code: [generate false .. e ++ [IPushCell x; ISetCdr; IPush LVoid]];
    VM: SET-CDR on the global cell = [assoc_set x v (globals s)]).

    Forms covered ([formA]): an expression of SimFull's fragment [fragA SV None] (assignments to locals, boxes,
    internal defines, closures, calls), or [SetV x Global e] with e in that fragment.  RESTRICTION: [fragA] contains no
    assignment to a global, so globals are assigned by top-level forms only, never from inside a procedure body
    ((define (f ..) ..), (define g <expr>), re-definitions, top-level (set! g <expr>), expressions calling the defined
    procedures; recursion through globals works because a body refers to a global by name and the globals relation is
    re-established after every form).

    [compile_toplevel e] = [generate true (fun _ => []) None (annotate e) ++ [IRet]]:
      * [annotate]: the theorems are stated for forms that are already annotated ([annotate e = e]: every lambda's
        fv field holds what sexp_free_vars computes -- the check validates this on every real AST as
        correspondence:free-vars);
      * [svs = fun _ => []]: SimFull needs [agrees SV svs]; [generate_sv_indep] shows that the code of a well-scoped
        form ([Model.wf_program]: every local occurrence lies inside the lambda that owns it) does not depend on the
        initial sv table, because every lambda overrides its own entry on the way down.
    [run] uses the same fuel for every form: [run_mono], [run_program_mono].

    Main theorems: [compile_correct_toplevel_form] (one form), [compile_correct_program_partial] (a program). *)
From Coq Require Import ZArith List Bool Arith Lia.
From ChibiV Require Import C03.Defs C03.Model C03.Spec C03.Proofs C03.Simulation C03.SimCalls C03.SimBoxes C03.SimRest C03.SimClos C03.SimFull.
Import ListNotations.
Local Open Scope nat_scope.

(* ------------------------------------------------------------------ fuel monotonicity *)

Lemma run_mono : forall n k s v s', run n s = Done v s' -> run (n + k) s = Done v s'.
Proof.
  induction n as [|n IH]; intros k s v s' H; [discriminate H|].
  change (S n + k) with (S (n + k)). cbn [run] in *.
  destruct (step s) as [s1|v1 s1|er]; auto.
Qed.

Lemma run_program_mono : forall forms n k h g v s',
  run_program n forms h g = Done v s' -> run_program (n + k) forms h g = Done v s'.
Proof.
  induction forms as [|e r IH]; intros n k h g v s' H; cbn [run_program] in *; [discriminate H|].
  destruct (init_state (compile_toplevel e) h g) as [s0|v0 s0|er]; auto.
  destruct (run n s0) as [v1 s1|er|] eqn:Er; try discriminate H.
  rewrite (run_mono _ k _ _ _ Er). destruct r as [|e2 r2]; auto.
Qed.

(* ------------------------------------------------------------------ the code does not depend on the initial sv table *)

Definition gen_ops_lr (svs : nat -> list name) (cur : option lctx) : list ast -> code :=
  fix go (l : list ast) : code := match l with [] => [] | a :: r => generate false svs cur a ++ go r end.

Lemma generate_OpApp : forall tl svs cur p args,
  generate tl svs cur (OpApp p args) =
  (if prim_inverse p then gen_ops_lr svs cur args else gen_args svs cur args)
  ++ (if prim_arith p then repeat (IPrim (prim_opcode p)) (length args - 1) else [IPrim (prim_opcode p)]).
Proof. reflexivity. Qed.

Definition sv_eq_on (sc : list (nat * (list name * list name))) (svs svs2 : nat -> list name) : Prop :=
  forall m, scope_lookup m sc <> None -> svs m = svs2 m.

Lemma gnr_false_indep : forall svs svs2 cur x o,
  gen_non_global_ref svs cur x o false = gen_non_global_ref svs2 cur x o false.
Proof. intros. reflexivity. Qed.

Lemma gen_ref_false_indep : forall svs svs2 cur x o, gen_ref svs cur x o false = gen_ref svs2 cur x o false.
Proof. intros svs svs2 cur x [|m]; [reflexivity|]. destruct cur; reflexivity. Qed.

Lemma closure_fill_indep : forall svs svs2 cur l k, closure_fill svs cur k l = closure_fill svs2 cur k l.
Proof.
  induction l as [|[x o] t IH]; intros k; cbn [closure_fill]; [reflexivity|].
  rewrite (IH (S k)), (gnr_false_indep svs svs2). reflexivity.
Qed.

Lemma gen_seq_indep : forall svs svs2 cur es,
  (forall e, In e es -> forall tl, generate tl svs cur e = generate tl svs2 cur e) ->
  forall tl, gen_seq tl svs cur es = gen_seq tl svs2 cur es.
Proof.
  induction es as [|e r IH]; intros H tl; [reflexivity|].
  destruct r as [|e2 r2].
  - change (generate tl svs cur e = generate tl svs2 cur e). apply H. left; reflexivity.
  - change ((if is_lit e then [] else drop_prev e (generate false svs cur e)) ++ gen_seq tl svs cur (e2 :: r2) =
            (if is_lit e then [] else drop_prev e (generate false svs2 cur e)) ++ gen_seq tl svs2 cur (e2 :: r2)).
    rewrite (H e (or_introl eq_refl) false). rewrite IH; [reflexivity|].
    intros e0 Hin. apply H. right; exact Hin.
Qed.

Lemma gen_args_indep : forall svs svs2 cur es,
  (forall e, In e es -> generate false svs cur e = generate false svs2 cur e) ->
  gen_args svs cur es = gen_args svs2 cur es.
Proof.
  induction es as [|e r IH]; intros H; [reflexivity|].
  change (gen_args svs cur r ++ generate false svs cur e = gen_args svs2 cur r ++ generate false svs2 cur e).
  rewrite (H e (or_introl eq_refl)), IH; [reflexivity|]. intros e0 Hin. apply H. right; exact Hin.
Qed.

Lemma gen_ops_lr_indep : forall svs svs2 cur es,
  (forall e, In e es -> generate false svs cur e = generate false svs2 cur e) ->
  gen_ops_lr svs cur es = gen_ops_lr svs2 cur es.
Proof.
  induction es as [|e r IH]; intros H; [reflexivity|].
  change (generate false svs cur e ++ gen_ops_lr svs cur r = generate false svs2 cur e ++ gen_ops_lr svs2 cur r).
  rewrite (H e (or_introl eq_refl)), IH; [reflexivity|]. intros e0 Hin. apply H. right; exact Hin.
Qed.

(** the sv table is consulted only at the owners of the local occurrences; inside [Lam id ..] the entry of id is the
    lambda's own sv field *)
Lemma generate_sv_indep : forall e sc tl svs svs2 cur,
  wf sc e = true -> sv_eq_on sc svs svs2 -> generate tl svs cur e = generate tl svs2 cur e.
Proof.
  intro e.
  induction e as [l | x o | x o v IHv | t p f IHt IHp IHf | es IHes | id ps r ls sv fv b IHb | f args IHf IHargs | p args IHargs]
    using ast_ind'; intros sc tl svs svs2 cur Hwf Heq.
  - reflexivity.
  - destruct o as [|m]; [reflexivity|]. cbn [wf] in Hwf.
    assert (Hm : svs m = svs2 m).
    { apply Heq. destruct (scope_lookup m sc); [discriminate|discriminate Hwf]. }
    cbn [generate]. unfold gen_ref. destruct cur as [c|]; [|reflexivity].
    unfold gen_non_global_ref, sv_of. rewrite Hm. reflexivity.
  - cbn [wf] in Hwf. apply andb_true_iff in Hwf. destruct Hwf as [Ho Hv].
    cbn [generate]. rewrite (IHv sc false svs svs2 cur Hv Heq).
    destruct o as [|m]; [reflexivity|].
    assert (Hm : svs m = svs2 m).
    { apply Heq. destruct (scope_lookup m sc); [discriminate|discriminate Ho]. }
    rewrite Hm, (gen_ref_false_indep svs svs2). reflexivity.
  - cbn [wf] in Hwf. apply andb_true_iff in Hwf. destruct Hwf as [Hwf Hf].
    apply andb_true_iff in Hwf. destruct Hwf as [Ht Hp].
    cbn [generate].
    rewrite (IHt sc false svs svs2 cur Ht Heq), (IHp sc tl svs svs2 cur Hp Heq), (IHf sc tl svs svs2 cur Hf Heq).
    reflexivity.
  - rewrite !generate_Seq. cbn [wf] in Hwf. destruct es as [|e1 r1]; [discriminate Hwf|].
    apply gen_seq_indep. intros e Hin tl0.
    rewrite Forall_forall in IHes. rewrite forallb_forall in Hwf. eapply IHes; eauto.
  - cbn [wf] in Hwf. apply andb_true_iff in Hwf. destruct Hwf as [_ Hb].
    cbn [generate].
    assert (Heq' : sv_eq_on ((id, (frame_vars ps r ls, sv)) :: sc)
                     (fun m => if Nat.eqb m id then sv else svs m) (fun m => if Nat.eqb m id then sv else svs2 m)).
    { intros m Hm. cbn [scope_lookup] in Hm. destruct (Nat.eqb m id); [reflexivity|]. apply Heq. exact Hm. }
    rewrite (IHb _ true _ _ (Some (mk_lctx id ps r ls fv)) Hb Heq').
    rewrite (closure_fill_indep svs svs2). reflexivity.
  - cbn [wf] in Hwf. apply andb_true_iff in Hwf. destruct Hwf as [Hf Ha].
    rewrite !generate_App. rewrite (IHf sc false svs svs2 cur Hf Heq).
    rewrite (gen_args_indep svs svs2); [reflexivity|]. intros e Hin.
    rewrite Forall_forall in IHargs. rewrite forallb_forall in Ha. eapply IHargs; eauto.
  - cbn [wf] in Hwf. apply andb_true_iff in Hwf. destruct Hwf as [_ Ha].
    rewrite !generate_OpApp.
    assert (Hall : forall e, In e args -> generate false svs cur e = generate false svs2 cur e).
    { intros e Hin. rewrite Forall_forall in IHargs. rewrite forallb_forall in Ha. eapply IHargs; eauto. }
    rewrite (gen_args_indep svs svs2 cur args Hall), (gen_ops_lr_indep svs svs2 cur args Hall). reflexivity.
Qed.

(** the code [run_program] runs for an annotated, well-scoped form is the code generated with the program's table *)
Lemma compile_toplevel_SV : forall SV e, annotate e = e -> wf_program e = true ->
  compile_toplevel e = generate true SV None e ++ [IRet].
Proof.
  intros SV e Han Hwf. unfold compile_toplevel. rewrite Han.
  rewrite (generate_sv_indep e [] true (fun _ => []) SV None Hwf); [reflexivity|].
  intros m Hm. exfalso. apply Hm. reflexivity.
Qed.

(* ------------------------------------------------------------------ association lists of globals *)

Lemma glob_lookup_set : forall g x w l,
  glob_lookup g (glob_set x w l) = if Nat.eqb g x then Some w else glob_lookup g l.
Proof.
  intros g x w l. induction l as [|[k u] t IH]; cbn [glob_set glob_lookup].
  - destruct (Nat.eqb g x); reflexivity.
  - destruct (Nat.eqb x k) eqn:E; cbn [glob_lookup].
    + apply Nat.eqb_eq in E. subst k. destruct (Nat.eqb g x); reflexivity.
    + rewrite IH. destruct (Nat.eqb g k) eqn:E2; [|reflexivity].
      apply Nat.eqb_eq in E2. subst k. rewrite Nat.eqb_sym, E. reflexivity.
Qed.

Lemma assoc_nat_set : forall {A} g x (w : A) l,
  assoc_nat g (assoc_set x w l) = if Nat.eqb g x then Some w else assoc_nat g l.
Proof.
  intros A g x w l. induction l as [|[k u] t IH]; cbn [assoc_set assoc_nat].
  - destruct (Nat.eqb g x); reflexivity.
  - destruct (Nat.eqb x k) eqn:E; cbn [assoc_nat].
    + apply Nat.eqb_eq in E. subst k. destruct (Nat.eqb g x); reflexivity.
    + rewrite IH. destruct (Nat.eqb g k) eqn:E2; [|reflexivity].
      apply Nat.eqb_eq in E2. subst k. rewrite Nat.eqb_sym, E. reflexivity.
Qed.

(* ------------------------------------------------------------------ the two instructions of a global assignment *)

Lemma step_push_cell : forall s pre g post, at_code s pre [IPushCell g] post ->
  step s = Next (upd s (VCell g :: stk s) (S (ip s)) (heap s)).
Proof. intros s pre g post H. unfold step. rewrite (fetch _ _ _ _ H). reflexivity. Qed.

Lemma step_set_cdr_cell : forall s pre post g v r, at_code s pre [ISetCdr] post -> stk s = VCell g :: v :: r ->
  step s = Next (mkst r (fp s) (self s) (S (ip s)) (heap s) (assoc_set g v (globals s))).
Proof. intros s pre post g v r H Hs. unfold step. rewrite (fetch _ _ _ _ H), Hs. reflexivity. Qed.

(* ------------------------------------------------------------------ one top-level form *)

(** every SPEC global has a VM global representing it in world W *)
Definition globrel (SV : nat -> list name) (W : world) (sg : list (nat * sval)) (gl : list (nat * value)) : Prop :=
  forall g w, glob_lookup g sg = Some w -> exists v0, assoc_nat g gl = Some v0 /\ vrelW SV W v0 w.

Lemma globrel_mono : forall SV W W' sg gl, WINV SV W -> wext W W' -> globrel SV W sg gl -> globrel SV W' sg gl.
Proof.
  intros SV W W' sg gl HI HE H g w Hg. destruct HI as (HB & _).
  destruct (H g w Hg) as (v0 & Ha & Hv). exists v0. split; [exact Ha|]. eapply vrelW_mono; eauto.
Qed.

Lemma globrel_set : forall SV W sg gl x v' w, globrel SV W sg gl -> vrelW SV W v' w ->
  globrel SV W (glob_set x w sg) (assoc_set x v' gl).
Proof.
  intros SV W sg gl x v' w H Hv g w0 Hg. rewrite glob_lookup_set in Hg. rewrite assoc_nat_set.
  destruct (Nat.eqb g x).
  - inversion Hg; subst w0. exists v'. split; [reflexivity|exact Hv].
  - apply H. exact Hg.
Qed.

(** the forms of a program: an expression of the fragment, or a definition / assignment of a global whose right-hand
    side is in the fragment *)
Definition formA (SV : nat -> list name) (e : ast) : bool :=
  match e with
  | SetV _ Global e1 => fragA SV None e1
  | _ => fragA SV None e
  end.

Definition base4 : list value := [VLit LVoid; VLit LVoid; VLit LVoid; VLit LVoid].

(** the state [init_state] enters a thunk with *)
Definition entry_state (c : code) (h : list hobj) (gl : list (nat * value)) : state :=
  mkst (vint 0 :: final_resumer :: vint 0 :: vint 0 :: base4) (length base4) (VProc 0 0 c (VLit LVoid)) 0 h gl.

Lemma init_state_entry : forall c h gl, init_state c h gl = Next (entry_state c h gl).
Proof. intros c h gl. unfold init_state. rewrite make_call_fixed by (simpl; lia). reflexivity. Qed.

Lemma env_okA_toplevel : forall SV sg W s, globrel SV W sg (globals s) -> env_okA SV None [] sg W s.
Proof.
  intros SV sg W s Hgl. split; [|split]; try (intros; discriminate). exact Hgl.
Qed.

(** (a) an expression *)
Lemma form_expr_correct : forall SV fuel e st v st' W gl,
  annotate e = e -> wf_program e = true -> fragA SV None e = true ->
  eval fuel e [] st = SVal v st' ->
  wc W = cells st -> WINV SV W -> globrel SV W (sglobals st) gl ->
  exists s0 n v' s' W',
    init_state (compile_toplevel e) (wh W) gl = Next s0 /\
    run n s0 = Done v' s' /\ wext W W' /\ heap s' = wh W' /\ wc W' = cells st' /\ WINV SV W' /\
    vrelW SV W' v' v /\ globrel SV W' (sglobals st') (globals s').
Proof.
  intros SV fuel e st v st' W gl Han Hwf Hp He HWc HI Hgl.
  rewrite (compile_toplevel_SV SV e Han Hwf).
  destruct (compile_correct_toplevel_expr_imperative SV fuel e st v st' SV W gl Hp He (fun m => eq_refl) HWc HI Hgl)
    as (s0 & n & v' & s' & W' & Hinit & Hrun & HE & Hh & Hc & HI' & Hv & Hg).
  set (s1 := entry_state (generate true SV None e ++ [IRet]) (wh W) gl).
  assert (Hsg : sglobals st' = sglobals st).
  { assert (Hc1 : code_of (self s1) = [] ++ generate true SV (lctxA None) e ++ [IRet]) by reflexivity.
    exact (proj1 (compile_correct_imperative_fragment SV fuel e None [] st v st' true SV s1 [] [IRet] W
                    Hp He (fun m => eq_refl) Hc1 eq_refl eq_refl HWc HI (env_okA_toplevel SV _ W s1 Hgl))). }
  exists s0, n, v', s', W'. split; [exact Hinit|]. split; [exact Hrun|]. split; [exact HE|]. split; [exact Hh|].
  split; [exact Hc|]. split; [exact HI'|]. split; [exact Hv|].
  rewrite Hg, Hsg. exact (globrel_mono SV W W' _ _ HI HE Hgl).
Qed.

(** (b) definition / re-definition / assignment of a global at top level *)
Lemma form_define_correct : forall SV fuel x e1 st v st' W gl,
  annotate e1 = e1 -> wf_program e1 = true -> fragA SV None e1 = true ->
  eval fuel (SetV x Global e1) [] st = SVal v st' ->
  wc W = cells st -> WINV SV W -> globrel SV W (sglobals st) gl ->
  exists s0 n s' W' w v',
    init_state (compile_toplevel (SetV x Global e1)) (wh W) gl = Next s0 /\
    run n s0 = Done (VLit LVoid) s' /\ v = SLit LVoid /\
    wext W W' /\ heap s' = wh W' /\ wc W' = cells st' /\ WINV SV W' /\
    vrelW SV W' v' w /\ sglobals st' = glob_set x w (sglobals st) /\ globals s' = assoc_set x v' gl /\
    globrel SV W' (sglobals st') (globals s').
Proof.
  intros SV fuel x e1 st v st' W gl Han Hwf Hp He HWc HI Hgl.
  destruct fuel as [|f]; [discriminate He|].
  rewrite eval_SetVA in He.
  destruct (eval f e1 [] st) as [w st1| |] eqn:E1; try discriminate He.
  inversion He; subst v st'; clear He.
  set (c1 := generate false SV None e1).
  set (tailc := [IPushCell x; ISetCdr; IPush LVoid; IRet]).
  assert (Hcode : compile_toplevel (SetV x Global e1) = c1 ++ tailc).
  { unfold compile_toplevel. cbn [annotate]. rewrite Han. cbn [generate].
    rewrite (generate_sv_indep e1 [] false (fun _ => []) SV None Hwf).
    - unfold c1, tailc. rewrite <- !app_assoc. reflexivity.
    - intros m Hm. exfalso. apply Hm. reflexivity. }
  set (s0 := entry_state (c1 ++ tailc) (wh W) gl).
  destruct (compile_correct_imperative_fragment SV f e1 None [] st w st1 false SV s0 [] tailc W
              Hp E1 (fun m => eq_refl) eq_refl eq_refl eq_refl HWc HI (env_okA_toplevel SV _ W s0 Hgl))
    as (Hsg & W' & v' & HE & HWc' & HI' & Hv' & [[n Hn] | [Habs _]]); [|discriminate Habs].
  change (generate false SV (lctxA None) e1) with c1 in Hn. cbn [length Nat.add] in Hn.
  set (s2 := mkst (v' :: stk s0) (fp s0) (self s0) (length c1) (wh W') (globals s0)) in *.
  (* PUSH the global's cell *)
  assert (Hat2 : at_code s2 c1 [IPushCell x] [ISetCdr; IPush LVoid; IRet]) by (split; reflexivity).
  pose proof (step_push_cell s2 _ _ _ Hat2) as Hst2.
  set (s3 := upd s2 (VCell x :: stk s2) (S (ip s2)) (heap s2)) in *.
  (* SET-CDR *)
  assert (Hat3 : at_code s3 (c1 ++ [IPushCell x]) [ISetCdr] [IPush LVoid; IRet]).
  { split; simpl; [|solve_len]. norm_code. }
  pose proof (step_set_cdr_cell s3 _ _ x v' (stk s0) Hat3 eq_refl) as Hst3.
  set (s4 := mkst (stk s0) (fp s3) (self s3) (S (ip s3)) (heap s3) (assoc_set x v' (globals s3))) in *.
  (* PUSH void *)
  assert (Hat4 : at_code s4 (c1 ++ [IPushCell x; ISetCdr]) [IPush LVoid] [IRet]).
  { split; simpl; [|solve_len]. norm_code. }
  pose proof (step_push s4 _ _ _ Hat4) as Hst4.
  set (s5 := upd s4 (VLit LVoid :: stk s4) (S (ip s4)) (heap s4)) in *.
  (* RET into the final resumer *)
  assert (Hat5 : at_code s5 (c1 ++ [IPushCell x; ISetCdr; IPush LVoid]) [IRet] []).
  { split; simpl; [|solve_len]. norm_code. }
  assert (Hfi0 : frame_info s0 = Some (0, 0, final_resumer, 0)) by apply (frame_info_entry 0 final_resumer 0 0 base4).
  assert (Hfi5 : frame_info s5 = Some (0, 0, final_resumer, 0)).
  { eapply (frame_info_app s0 s5 [VLit LVoid]); eauto. }
  pose proof (step_ret s5 _ _ (VLit LVoid) (stk s0) 0 0 final_resumer 0 Hat5 eq_refl Hfi5 (Nat.le_0_l _)) as Hst5.
  set (t := mkst (VLit LVoid :: below (fp s5 - 0) (VLit LVoid :: stk s0)) 0 final_resumer 0 (heap s5) (globals s5)) in *.
  assert (Hreach : nsteps (n + 4) s0 = Some t).
  { eapply nsteps_app; [exact Hn|]. cbn [nsteps]. rewrite Hst2, Hst3, Hst4, Hst5. reflexivity. }
  exists s0, (n + 4 + 1), t, W', w, v'.
  split; [rewrite Hcode; apply init_state_entry|].
  split; [rewrite (run_nsteps (n + 4) 1 s0 t Hreach); reflexivity|].
  split; [reflexivity|]. split; [exact HE|]. split; [reflexivity|]. split; [exact HWc'|]. split; [exact HI'|].
  split; [exact Hv'|]. cbn [sglobals]. rewrite Hsg. split; [reflexivity|]. split; [reflexivity|].
  change (globals t) with (assoc_set x v' gl).
  apply globrel_set; [|exact Hv']. exact (globrel_mono SV W W' _ _ HI HE Hgl).
Qed.

(** one top-level form of either shape.  The VM run of the compiled form from the state [init_state] produces ends in
    DONE with a value representing the SPEC's value; heap/cells, the world invariant and the globals relation are
    re-established (for the NEW globals, in the NEW world) so that the next form can be run. *)
Theorem compile_correct_toplevel_form : forall SV fuel e st v st' W gl,
  annotate e = e -> wf_program e = true -> formA SV e = true ->
  eval fuel e [] st = SVal v st' ->
  wc W = cells st -> WINV SV W -> globrel SV W (sglobals st) gl ->
  exists s0 n v' s' W',
    init_state (compile_toplevel e) (wh W) gl = Next s0 /\
    run n s0 = Done v' s' /\ wext W W' /\ heap s' = wh W' /\ wc W' = cells st' /\ WINV SV W' /\
    vrelW SV W' v' v /\ globrel SV W' (sglobals st') (globals s').
Proof.
  intros SV fuel e st v st' W gl Han Hwf Hf He HWc HI Hgl.
  assert (Hcase : (exists x e1, e = SetV x Global e1) \/ formA SV e = fragA SV None e).
  { destruct e as [| | x [|m] e1| | | | |]; try (right; reflexivity). left; eauto. }
  destruct Hcase as [(x & e1 & ->) | Hfe].
  - cbn [annotate] in Han. injection Han as Han1.
    assert (Hwf1 : wf_program e1 = true) by exact Hwf.
    destruct (form_define_correct SV fuel x e1 st v st' W gl Han1 Hwf1 Hf He HWc HI Hgl)
      as (s0 & n & s' & W' & w & v' & Hinit & Hrun & -> & HE & Hh & Hc & HI' & _ & _ & _ & Hg).
    exists s0, n, (VLit LVoid), s', W'. repeat (split; [assumption|]). split; [constructor|exact Hg].
  - rewrite Hfe in Hf. exact (form_expr_correct SV fuel e st v st' W gl Han Hwf Hf He HWc HI Hgl).
Qed.

(* ------------------------------------------------------------------ programs *)

Lemma run_program_cons : forall n e r h g s0 v s',
  init_state (compile_toplevel e) h g = Next s0 -> run n s0 = Done v s' ->
  run_program n (e :: r) h g = match r with [] => Done v s' | _ :: _ => run_program n r (heap s') (globals s') end.
Proof. intros n e r h g s0 v s' Hi Hr. cbn [run_program]. rewrite Hi, Hr. reflexivity. Qed.

(** what is asked of every form: annotated (free-variable lists as sexp_free_vars computes them), well-scoped
    ([Model.wf]) and of one of the two shapes of [formA] *)
Definition form_ok (SV : nat -> list name) (e : ast) : Prop :=
  annotate e = e /\ wf_program e = true /\ formA SV e = true.

(** WHOLE PROGRAMS.  If the SPEC evaluates the forms one after the other (threading the store, globals defined /
    re-defined / assigned by top-level forms) to v, then for some fuel the model runs the compiled forms one after the
    other (threading heap and globals) to a value representing v, and the final globals represent the SPEC's final
    globals.

    "partial": the forms are those of [formA] -- expressions of SimFull's fragment and top-level
    definitions/assignments of globals whose right-hand side is in that fragment; NO assignment to a global from
    inside a procedure body or nested in an expression; fixed-arity lambdas, no eq?, value outcomes only (whatever
    [fragA] excludes).  See the comment at the end of the file for what lifting the restriction takes. *)
Theorem compile_correct_program_partial : forall SV forms fuel st v st' W gl,
  Forall (form_ok SV) forms ->
  eval_program fuel forms st = SVal v st' ->
  wc W = cells st -> WINV SV W ->
  (forall g w, glob_lookup g (sglobals st) = Some w -> exists v0, assoc_nat g gl = Some v0 /\ vrelW SV W v0 w) ->
  exists n v' s' W',
    run_program n forms (wh W) gl = Done v' s' /\
    wext W W' /\ heap s' = wh W' /\ wc W' = cells st' /\ WINV SV W' /\
    vrelW SV W' v' v /\
    (forall g w, glob_lookup g (sglobals st') = Some w ->
       exists v0, assoc_nat g (globals s') = Some v0 /\ vrelW SV W' v0 w).
Proof.
  intros SV forms. induction forms as [|e r IH]; intros fuel st v st' W gl Hok He HWc HI Hgl.
  - discriminate He.
  - inversion Hok as [|e' r' (Han & Hwf & Hf) Hr]; subst e' r'.
    cbn [eval_program] in He.
    destruct (eval fuel e [] st) as [v1 st1| |] eqn:E1; try discriminate He.
    destruct (compile_correct_toplevel_form SV fuel e st v1 st1 W gl Han Hwf Hf E1 HWc HI Hgl)
      as (s0 & n & v' & s' & W' & Hinit & Hrun & HE & Hh & Hc & HI' & Hv & Hg).
    destruct r as [|e2 r2].
    + inversion He; subst v1 st1. exists n, v', s', W'.
      split; [rewrite (run_program_cons n e [] _ _ s0 v' s' Hinit Hrun); reflexivity|].
      repeat (split; [assumption|]). exact Hg.
    + destruct (IH fuel st1 v st' W' (globals s') Hr He Hc HI' Hg)
        as (n2 & v2 & s2 & W2 & Hrun2 & HE2 & Hh2 & Hc2 & HI2 & Hv2 & Hg2).
      exists (n + n2), v2, s2, W2.
      split.
      { rewrite (run_program_cons (n + n2) e (e2 :: r2) _ _ s0 v' s' Hinit (run_mono n n2 _ _ _ Hrun)).
        rewrite Hh, (Nat.add_comm n n2). apply run_program_mono. exact Hrun2. }
      split; [eapply wext_trans; eauto|]. repeat (split; [assumption|]). exact Hg2.
Qed.

(** from the empty heap / store / globals (what a fresh [run_program .. [] []] starts from) *)
Definition W_empty : world := mkW [] [] (fun _ => None).

Lemma WINV_empty : forall SV, WINV SV W_empty.
Proof. intro SV. split; [|split]; intros; simpl in *; discriminate. Qed.

Corollary compile_correct_program_partial_empty : forall SV forms fuel v st',
  Forall (form_ok SV) forms ->
  eval_program fuel forms (mkstore [] []) = SVal v st' ->
  exists n v' s' W',
    run_program n forms [] [] = Done v' s' /\
    heap s' = wh W' /\ wc W' = cells st' /\ WINV SV W' /\ vrelW SV W' v' v /\
    (forall g w, glob_lookup g (sglobals st') = Some w ->
       exists v0, assoc_nat g (globals s') = Some v0 /\ vrelW SV W' v0 w).
Proof.
  intros SV forms fuel v st' Hok He.
  destruct (compile_correct_program_partial SV forms fuel (mkstore [] []) v st' W_empty [] Hok He eq_refl (WINV_empty SV))
    as (n & v' & s' & W' & Hrun & _ & Hh & Hc & HI & Hv & Hg).
  { intros g w Hg. discriminate Hg. }
  exists n, v', s', W'. repeat (split; [assumption|]). exact Hg.
Qed.

(** observable form: a program whose SPEC value is an atom runs to exactly that atom *)
Corollary compile_correct_program_partial_atom : forall SV forms fuel l st',
  Forall (form_ok SV) forms ->
  eval_program fuel forms (mkstore [] []) = SVal (SLit l) st' ->
  exists n s', run_program n forms [] [] = Done (VLit l) s'.
Proof.
  intros SV forms fuel l st' Hok He.
  destruct (compile_correct_program_partial_empty SV forms fuel _ st' Hok He)
    as (n & v' & s' & W' & Hrun & _ & _ & _ & Hv & _).
  apply vrelW_lit_inv in Hv. subst v'. exists n, s'. exact Hrun.
Qed.

(* ------------------------------------------------------------------ the hypotheses are satisfiable *)

(** (define g 1)
    (define (f n) (if (< n 1) g (f (- n 1))))               ; recursion through the global f, reads the global g
    (define tick ((lambda (c) (lambda () (set! c (+ c g)) c)) 0))   ; a closure over a boxed variable, reads g
    (define g 2)                                            ; re-definition, seen by f and tick compiled before it
    (set! g (+ g 40))                                       ; top-level assignment: g = 42
    (tick)                                                  ; => 42   (c = 42)
    (+ (tick) (f 3))                                        ; => 84 + 42 = 126
    names: g = 0, f = 1, tick = 2, n = 3, c = 4; lambda ids 1 (f), 2 (lambda (c) ..), 3 (the inner thunk) *)
Module ExampleProg.
  Definition SV0 : nat -> list name := fun m => if Nat.eqb m 2 then [4] else [].
  Definition f_body : ast :=
    Cnd (OpApp PLt [Ref 3 (Local 1); Lit (LInt 1)]) (Ref 0 Global)
        (App (Ref 1 Global) [OpApp PSub [Ref 3 (Local 1); Lit (LInt 1)]]).
  Definition tick_body : ast :=
    Seq [SetV 4 (Local 2) (OpApp PAdd [Ref 4 (Local 2); Ref 0 Global]); Ref 4 (Local 2)].
  Definition prog : list ast :=
    [ SetV 0 Global (Lit (LInt 1));
      SetV 1 Global (Lam 1 [3] None [] [] [] f_body);
      SetV 2 Global (App (Lam 2 [4] None [] [4] [] (Lam 3 [] None [] [] [(4, Local 2)] tick_body)) [Lit (LInt 0)]);
      SetV 0 Global (Lit (LInt 2));
      SetV 0 Global (OpApp PAdd [Ref 0 Global; Lit (LInt 40)]);
      App (Ref 2 Global) [];
      OpApp PAdd [App (Ref 2 Global) []; App (Ref 1 Global) [Lit (LInt 3)]] ].
  Definition W0 : world := mkW [] [] (fun _ => None).
  Definition st0 : sstore := mkstore [] [].

  Example forms_ok : Forall (form_ok SV0) prog.
  Proof. repeat (constructor; [split; [reflexivity|split; reflexivity]|]). constructor. Qed.

  Example eval_prog : exists st', eval_program 40 prog st0 = SVal (SLit (LInt 126)) st'.
  Proof. eexists. vm_compute. reflexivity. Qed.

  Example winv0 : WINV SV0 W0.
  Proof. split; [|split]; intros; simpl in *; discriminate. Qed.

  Example end_to_end : exists n s', run_program n prog [] [] = Done (VLit (LInt 126)) s'.
  Proof.
    destruct eval_prog as [st' He].
    destruct (compile_correct_program_partial SV0 prog 40 st0 _ st' W0 [] forms_ok He eq_refl winv0)
      as (n & v' & s' & W' & Hrun & _ & _ & _ & _ & Hv & _).
    { intros g w Hg. discriminate Hg. }
    apply vrelW_lit_inv in Hv. subst v'. exists n, s'. exact Hrun.
  Qed.

  (** and observed directly on the model VM *)
  Example run_prog : exists s', run_program 400 prog [] [] = Done (VLit (LInt 126)) s' /\
                                assoc_nat 0 (globals s') = Some (VLit (LInt 42)).
  Proof. eexists. split; vm_compute; reflexivity. Qed.

  (** the task's minimal instance: (define g 1) (define (rd) g) (define g 2) (rd) => 2 *)
  Definition prog2 : list ast :=
    [ SetV 0 Global (Lit (LInt 1));
      SetV 1 Global (Lam 1 [] None [] [] [] (Ref 0 Global));
      SetV 0 Global (Lit (LInt 2));
      App (Ref 1 Global) [] ].

  Example end_to_end2 : exists n s', run_program n prog2 [] [] = Done (VLit (LInt 2)) s'.
  Proof.
    assert (Hok : Forall (form_ok (fun _ => [])) prog2).
    { repeat (constructor; [split; [reflexivity|split; reflexivity]|]). constructor. }
    assert (He : exists st', eval_program 10 prog2 st0 = SVal (SLit (LInt 2)) st') by (eexists; vm_compute; reflexivity).
    destruct He as [st' He].
    assert (HI : WINV (fun _ => []) W0) by (split; [|split]; intros; simpl in *; discriminate).
    destruct (compile_correct_program_partial (fun _ => []) prog2 10 st0 _ st' W0 [] Hok He eq_refl HI)
      as (n & v' & s' & W' & Hrun & _ & _ & _ & _ & Hv & _).
    { intros g w Hg. discriminate Hg. }
    apply vrelW_lit_inv in Hv. subst v'. exists n, s'. exact Hrun.
  Qed.

  Example run_prog2 : exists s', run_program 100 prog2 [] [] = Done (VLit (LInt 2)) s'.
  Proof. eexists. vm_compute. reflexivity. Qed.
End ExampleProg.

(* ------------------------------------------------------------------ what lifting the restriction takes

   RESTRICTION of [compile_correct_program_partial]: no [SetV x Global _] below the top of a form (SimFull's
   [fragA cur (SetV x Global v) = false]).  Nothing in this file has to change to lift it except [formA := fragA] (the
   case [form_define_correct] then becomes an instance of [form_expr_correct]); the work is in SimFull.v:

   1. [fragA]: [SetV x Global v => fragA cur v].
   2. The simulation statement [simA_at] says [sglobals st' = sglobals st] and its target states ([fallH], [retH],
      hence [outcomeH], [resA], and the two closed forms) keep [globals s].  Both must be threaded instead: [fallH] /
      [retH] take the final VM globals gl' as they take the final heap h'; [resA] becomes
        exists W' v' gl', wext W W' /\ wc W' = cells st' /\ WINV W' /\ vrelW W' v' v /\
                          globrel W' (sglobals st') gl' /\ outcomeH tl s pre c v' (wh W') gl'.
   3. [env_okA] has three parts; the third (globals) is the only one that is not preserved by the current
      [env_okA_mono] once [globals s1 <> globals s].  Split it off: frame slots + closure vector stay in [env_okA]
      (monotone along [wext], indifferent to the globals), and [globrel W (sglobals st) (globals s)] (this file) becomes
      a separate hypothesis of [simA_at], re-established by every result (item 2) and handed to the next
      sub-evaluation together with its store: in [Cnd] (test, then branch), [simA_seq], [simA_args] (operands, then
      operator), the two-operand [OpApp] case, [core_stepA], and at procedure entry in [call_closedA] (the callee starts
      from the caller's current globals: SPEC [mkstore c3 (sglobals st2)], VM [make_call] keeps [globals s]).
      [globrel_mono] and [globrel_set] above are the two facts needed; [vrelW], [wext], [WINV] are untouched because
      globals are looked up by NAME at run time on both sides (closures capture no global, the world holds no global).
   4. A new case in [simA_step] for [SetV x Global e1]: IH for e1 with tl = false, then [step_push_cell],
      [step_set_cdr_cell] (this file; the world does not change: W' = W1, gl' = assoc_set x v' gl1,
      SPEC [glob_set x w (sglobals st1)], related by [globrel_set]), then PUSH void exactly as the [Local] case; in
      [simA_seq] the non-final occurrence goes through generate_drop_prev's rewind ([is_set_or_lit] is true for a
      global set! too), so [set_coreA] / [generate_SetVA] / [core_stepA] get a [Global] variant
      ([generate false .. e1 ++ [IPushCell x; ISetCdr]]).
   An alternative to item 2-3 with the same effect: make the globals a fourth component of [world]
   ([wg : list (nat * value)] with the relation to [sglobals] inside [WINV]) -- then [wext] must allow [wg] to change
   and [vrelW_mono] is unaffected, but every [upd]/[mkst] in the proofs still has to stop copying [globals s]. *)
