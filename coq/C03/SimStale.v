(** C03 round 4 -- the STALE SET-VARS case of sexp_rest_unused_p (/repo 7788b66) inside the simulation theorem.

    [(lambda (a . r) (if #f (set! r 1)) a)]: the analyser lists r in the lambda's set-vars; simplify.c then folds the
    conditional away, so the body the code generator sees never mentions r -- but the set-vars entry stays, and the
    procedure's prologue (vm.c:699-707, [box_code]) boxes slot #fixed.  With the usedp-only function the procedure was
    flagged UNUSED_REST, make_call created no rest slot, and the prologue boxed the CALLER's stack
    ([Proofs.rest_unused_stale_sv_refuted]).  With the set-vars consulted first ([rest_unused_p], [lam_flags_sv]) the
    procedure is VARIADIC only; [SimFull.live_of] keeps the rest parameter live, so such lambdas are INSIDE [fragA] and
    the simulation theorem applies to them.  Examples only; no new axioms. *)
From Coq Require Import ZArith List Bool Arith Lia.
From ChibiV Require Import C03.Defs C03.Model C03.Spec C03.Proofs C03.SimCalls C03.SimRest C03.SimFull.
Import ListNotations.

(** the procedure flags the code generator emits, characterised by the SPEC notions only: no rest parameter -> 0;
    rest parameter mentioned in the body (reference or assignment, nested lambdas included) or listed in the set-vars
    -> VARIADIC (1); otherwise VARIADIC + UNUSED_REST (3).  Nothing else may influence them. *)
Lemma lam_flags_sv_spec : forall id r sv b,
  lam_flags_sv id r sv b =
  match r with
  | None => 0
  | Some v => if mentions id v b || existsb (Nat.eqb v) sv then PROC_VARIADIC else PROC_VARIADIC + PROC_UNUSED_REST
  end.
Proof.
  intros id [v|] sv b; [|reflexivity].
  unfold lam_flags_sv, rest_unused_p, rest_in_sv, rest_unused. rewrite usedp_mentions.
  destruct (existsb (Nat.eqb v) sv); [rewrite orb_true_r; reflexivity|].
  rewrite orb_false_r. destruct (mentions id v b); reflexivity.
Qed.

Example lam_flags_sv_spec_example :
  map (fun '(sv, b) => lam_flags_sv 0 (Some 2) sv b)
      [([], Ref 1 (Local 0)); ([2], Ref 1 (Local 0)); ([1], Ref 1 (Local 0)); ([], Ref 2 (Local 0));
       ([], SetV 2 (Local 0) (Lit (LInt 5))); ([], Ref 2 (Local 7))] = [3; 1; 3; 1; 1; 3].
Proof. reflexivity. Qed.

(* ------------------------------------------------------------------ error classes of the call protocol *)

(** make_call (vm.c:1305-1356) entered for a procedure the code generator emitted for [Lam id ps r ls sv fv b]
    (flags [lam_flags_sv], num_args = #fixed parameters) with the arguments vargs on top of the stack fails or enters
    EXACTLY as the SPEC's application rule (Spec.v eval, App: R7RS 4.1.3 / 6.10 "wrong number of arguments") decides,
    with the same tests in the same order and the same error class:
      fewer arguments than fixed parameters            -> ENotEnoughArgs   (both)
      more, and no rest parameter                      -> ETooManyArgs     (both)
      otherwise                                        -> the frame is entered (no failure)
    whatever the flags say about the rest parameter (used, unused, stale set-vars entry); a callee that is not a
    procedure object fails with ENotProc as in the SPEC. *)
Definition spec_arity_verdict (ps : list name) (r : option name) (nvs : nat) : option err :=
  if nvs <? length ps then Some ENotEnoughArgs
  else if (match r with None => length ps <? nvs | Some _ => false end) then Some ETooManyArgs
  else None.

Lemma make_call_arity_agrees : forall s id ps r sv b c vars vargs X rip rself rfp,
  match spec_arity_verdict ps r (length vargs) with
  | Some er => make_call s (VProc (lam_flags_sv id r sv b) (length ps) c vars) (vargs ++ X) (length vargs) rip rself rfp = Fail er
  | None => exists s', make_call s (VProc (lam_flags_sv id r sv b) (length ps) c vars) (vargs ++ X) (length vargs) rip rself rfp = Next s'
  end.
Proof.
  intros s id ps r sv b c vars vargs X rip rself rfp.
  assert (E1 : (length (vargs ++ X) <? length vargs) = false) by (apply Nat.ltb_ge; rewrite app_length; lia).
  unfold spec_arity_verdict, make_call. rewrite E1.
  destruct (length vargs <? length ps) eqn:E2; [reflexivity|].
  rewrite lam_flags_sv_spec.
  destruct r as [v|].
  - (* rest parameter: flags 1 or 3, never a failure *)
    destruct (mentions id v b || existsb (Nat.eqb v) sv).
    + change (Nat.testbit PROC_VARIADIC 0) with true. change (Nat.testbit PROC_VARIADIC 1) with false.
      destruct (0 <? length vargs - length ps).
      * destruct (build_list (heap s) (firstn (length vargs - length ps) (skipn (length ps) (vargs ++ X)))) as [h' l].
        eexists; reflexivity.
      * eexists; reflexivity.
    + change (Nat.testbit (PROC_VARIADIC + PROC_UNUSED_REST) 0) with true.
      change (Nat.testbit (PROC_VARIADIC + PROC_UNUSED_REST) 1) with true.
      destruct (0 <? length vargs - length ps); eexists; reflexivity.
  - (* no rest parameter *)
    change (Nat.testbit 0 0) with false. change (Nat.testbit 0 1) with false.
    apply Nat.ltb_ge in E2.
    destruct (length ps <? length vargs) eqn:E3.
    + apply Nat.ltb_lt in E3. assert (E4 : (0 <? length vargs - length ps) = true) by (apply Nat.ltb_lt; lia).
      rewrite E4. reflexivity.
    + apply Nat.ltb_ge in E3. assert (E4 : (0 <? length vargs - length ps) = false) by (apply Nat.ltb_ge; lia).
      rewrite E4. eexists; reflexivity.
Qed.

(** [spec_arity_verdict] IS the SPEC's rule: an application whose operator evaluates to a closure and whose operand count
    gets a verdict [Some er] evaluates to that error *)
Lemma spec_app_arity : forall fuel f args env st rvs st1 id ps r ls b cenv st2 er,
  evlist (eval fuel) (rev args) env st = inl (rvs, st1) ->
  eval fuel f env st1 = SVal (SClo id ps r ls b cenv) st2 ->
  spec_arity_verdict ps r (length (rev rvs)) = Some er ->
  eval (S fuel) (App f args) env st = SErr er.
Proof.
  intros fuel f args env st rvs st1 id ps r ls b cenv st2 er Ha Hf Hv.
  cbn [eval]. rewrite Ha. cbv zeta. rewrite Hf. unfold spec_arity_verdict in Hv.
  destruct (length (rev rvs) <? length ps); [inversion Hv; reflexivity|].
  destruct (match r with None => length ps <? length (rev rvs) | Some _ => false end); [inversion Hv; reflexivity|discriminate Hv].
Qed.

Lemma make_call_not_proc : forall s v st i rip rself rfp,
  (forall fl n c vars, v <> VProc fl n c vars) -> make_call s v st i rip rself rfp = Fail ENotProc.
Proof.
  intros s v st i rip rself rfp H. destruct v; try reflexivity. exfalso. eapply H. reflexivity.
Qed.

Example make_call_arity_example :
  spec_arity_verdict [0; 1] None 1 = Some ENotEnoughArgs /\ spec_arity_verdict [0; 1] None 3 = Some ETooManyArgs /\
  spec_arity_verdict [0; 1] (Some 2) 3 = None /\ spec_arity_verdict [0; 1] (Some 2) 1 = Some ENotEnoughArgs /\
  spec_arity_verdict [0; 1] None 2 = None.
Proof. repeat split. Qed.

(* ------------------------------------------------------------------ every set-vars entry has a slot *)

(** [fragA]'s side condition "the set-vars only list variables that have a slot" follows from [wf_program]'s condition
    "the set-vars only list variables of the frame" -- since 7788b66.  (With the usedp-only function it did not: a stale
    entry for an unmentioned rest parameter named a variable WITHOUT slot, [Proofs.rest_unused_stale_sv_refuted].)
    Together with [Proofs.unused_rest_prologue_safe]: the prologue boxes existing slots of its own frame only. *)
Lemma set_vars_have_slots : forall SV id ps r ls b,
  forallb (fun x => memn x (frame_vars ps r ls)) (SV id) = true ->
  forallb (fun x => memn x (ps ++ live_of SV id r b ++ ls)) (SV id) = true.
Proof.
  intros SV id ps r ls b H. rewrite forallb_forall in H |- *. intros x Hx. specialize (H x Hx).
  unfold frame_vars in H. rewrite !memn_app in H |- *.
  destruct (memn x ps); [reflexivity|]. destruct (memn x ls); [rewrite orb_true_r; reflexivity|].
  simpl in H |- *. rewrite orb_false_r in H |- *.
  destruct r as [v|]; [|discriminate H].
  simpl in H. rewrite orb_false_r in H. apply Nat.eqb_eq in H. subst v.
  assert (E : rest_in_sv (Some x) (SV id) = true) by (apply Proofs.rest_in_sv_In; exact Hx).
  unfold live_of, rest_unused_p. rewrite E. simpl. rewrite Nat.eqb_refl. reflexivity.
Qed.

Example set_vars_have_slots_example :
  let SV := fun m : nat => if Nat.eqb m 1 then [1] else [] in
  forallb (fun x => memn x (frame_vars [0] (Some 1) [])) (SV 1) = true /\
  live_of SV 1 (Some 1) (Ref 0 (Local 1)) = [1].
Proof. split; reflexivity. Qed.

(* ------------------------------------------------------------------ wf_program => the fv side conditions *)

(** every free occurrence of a well-formed term refers to a lambda of the enclosing scope that binds the name *)
Definition scoped (sc : list (nat * (list name * list name))) (e : ast) : Prop :=
  forall x m, In (x, Local m) (free_occ e) -> exists bd sv, scope_lookup m sc = Some (bd, sv) /\ memn x bd = true.

Lemma scoped_list : forall sc es,
  Forall (fun e => forall sc, wf sc e = true -> scoped sc e) es -> forallb (wf sc) es = true ->
  forall x m, In (x, Local m) (flat_map free_occ es) -> exists bd sv, scope_lookup m sc = Some (bd, sv) /\ memn x bd = true.
Proof.
  intros sc es H Hwf x m Hin. apply in_flat_map in Hin. destruct Hin as [e0 [He0 Hin]].
  rewrite Forall_forall in H. rewrite forallb_forall in Hwf. exact (H e0 He0 sc (Hwf e0 He0) x m Hin).
Qed.

Lemma wf_free_occ_scoped : forall e sc, wf sc e = true -> scoped sc e.
Proof.
  induction e using ast_ind'; intros sc Hwf y m Hin; simpl in Hwf, Hin.
  - destruct Hin.
  - destruct o as [|m0]; [destruct Hin|]. destruct Hin as [E|[]]. inversion E; subst.
    destruct (scope_lookup m sc) as [[bd sv]|]; [|discriminate Hwf]. eauto.
  - apply andb_true_iff in Hwf. destruct Hwf as [Ho Hv]. apply in_app_or in Hin. destruct Hin as [Hin|Hin].
    + exact (IHe sc Hv y m Hin).
    + destruct o as [|m0]; [destruct Hin|]. destruct Hin as [E|[]]. inversion E; subst.
      destruct (scope_lookup m sc) as [[bd sv]|]; [|discriminate Ho]. apply andb_true_iff in Ho. destruct Ho as [Hb _]. eauto.
  - apply andb_true_iff in Hwf. destruct Hwf as [Hwf H3]. apply andb_true_iff in Hwf. destruct Hwf as [H1 H2].
    apply in_app_or in Hin. destruct Hin as [Hin|Hin]; [exact (IHe1 sc H1 y m Hin)|].
    apply in_app_or in Hin. destruct Hin as [Hin|Hin]; [exact (IHe2 sc H2 y m Hin)|exact (IHe3 sc H3 y m Hin)].
  - destruct es as [|e0 es0]; [discriminate Hwf|]. exact (scoped_list sc (e0 :: es0) H Hwf y m Hin).
  - (* Lam *)
    apply andb_true_iff in Hwf. destruct Hwf as [Hwf Hb]. apply andb_true_iff in Hwf. destruct Hwf as [Hwf Hfresh].
    apply filter_In in Hin. destruct Hin as [Hin Hnb].
    destruct (IHe _ Hb y m Hin) as (bd & sv' & Hl & Hm).
    simpl in Hl. destruct (Nat.eqb m id) eqn:Emi.
    + exfalso. apply Nat.eqb_eq in Emi. subst m. inversion Hl; subst bd sv'.
      unfold bound_by in Hnb. simpl in Hnb. rewrite Nat.eqb_refl in Hnb. simpl in Hnb.
      apply negb_true_iff in Hnb.
      apply memn_In in Hm. unfold frame_vars in Hm.
      assert (Hin2 : In y (ls ++ ps ++ match r with Some z => [z] | None => [] end)).
      { apply in_app_or in Hm. apply in_or_app. destruct Hm as [Hm|Hm]; [right; apply in_or_app; left; exact Hm|].
        apply in_app_or in Hm. destruct Hm as [Hm|Hm]; [right; apply in_or_app; right; exact Hm|left; exact Hm]. }
      apply memn_In in Hin2. congruence.
    + eauto.
  - apply andb_true_iff in Hwf. destruct Hwf as [Hf Ha]. apply in_app_or in Hin. destruct Hin as [Hin|Hin].
    + exact (IHe sc Hf y m Hin).
    + exact (scoped_list sc args H Ha y m Hin).
  - apply andb_true_iff in Hwf. destruct Hwf as [_ Ha]. exact (scoped_list sc args H Ha y m Hin).
Qed.

Lemma free_occ_local : forall e p, In p (free_occ e) -> exists m, snd p = Local m.
Proof.
  induction e using ast_ind'; intros q Hin; simpl in Hin.
  - destruct Hin.
  - destruct o as [|m0]; [destruct Hin|]. destruct Hin as [<-|[]]. exists m0. reflexivity.
  - apply in_app_or in Hin. destruct Hin as [Hin|Hin]; [exact (IHe _ Hin)|].
    destruct o as [|m0]; [destruct Hin|]. destruct Hin as [<-|[]]. exists m0. reflexivity.
  - apply in_app_or in Hin. destruct Hin as [Hin|Hin]; [exact (IHe1 _ Hin)|].
    apply in_app_or in Hin. destruct Hin as [Hin|Hin]; [exact (IHe2 _ Hin)|exact (IHe3 _ Hin)].
  - apply in_flat_map in Hin. destruct Hin as [e0 [He0 Hin]]. rewrite Forall_forall in H. exact (H e0 He0 q Hin).
  - apply filter_In in Hin. destruct Hin as [Hin _]. exact (IHe _ Hin).
  - apply in_app_or in Hin. destruct Hin as [Hin|Hin]; [exact (IHe _ Hin)|].
    apply in_flat_map in Hin. destruct Hin as [e0 [He0 Hin]]. rewrite Forall_forall in H. exact (H e0 He0 q Hin).
  - apply in_flat_map in Hin. destruct Hin as [e0 [He0 Hin]]. rewrite Forall_forall in H. exact (H e0 He0 q Hin).
Qed.

(** what the analyser's output guarantees about the free-variable list the free-variable pass computes for a lambda
    (= the fv field of an annotated term, [annotate]): every entry is a variable of an ENCLOSING lambda (never of the lambda
    itself, never a global) that is in scope where the lambda stands and binds that name.  These are the hypotheses
    "[forall p, In p fv -> exists m, snd p = Local m /\ m <> id]" of [SimFull.call_closedA] and the scoping half of [fv_okA]. *)
Lemma wf_lam_fv_enclosing : forall sc id ps r ls sv fv b p,
  wf sc (Lam id ps r ls sv fv b) = true -> In p (lam_fv id ps r ls b) ->
  exists m bd sv', snd p = Local m /\ m <> id /\ scope_lookup m sc = Some (bd, sv') /\ memn (fst p) bd = true.
Proof.
  intros sc id ps r ls sv fv b [x o] Hwf Hin.
  assert (Hocc : In (x, o) (free_occ (Lam id ps r ls sv fv b))).
  { simpl. apply filter_In. apply lam_fv_complete in Hin. destruct Hin as [Hin Hb]. split; [exact Hin|]. rewrite Hb. reflexivity. }
  destruct (free_occ_local _ _ Hocc) as [m Hm]. simpl in Hm. subst o.
  destruct (wf_free_occ_scoped _ sc Hwf x m Hocc) as (bd & sv' & Hl & Hmem).
  exists m, bd, sv'. split; [reflexivity|]. split; [|split; assumption].
  intro E. subst m. simpl in Hwf.
  apply andb_true_iff in Hwf. destruct Hwf as [Hwf _]. apply andb_true_iff in Hwf. destruct Hwf as [_ Hfresh].
  rewrite Hl in Hfresh. discriminate Hfresh.
Qed.

Example wf_lam_fv_enclosing_example :
  let inner := Lam 1 [2] None [] [] [(0, Local 0)] (OpApp PCons [Ref 0 (Local 0); Ref 2 (Local 1)]) in
  wf [(0, ([0], []))] inner = true /\ lam_fv 1 [2] None [] (OpApp PCons [Ref 0 (Local 0); Ref 2 (Local 1)]) = [(0, Local 0)].
Proof. split; reflexivity. Qed.

Module ExampleStale.
  (** lambda 1 = the stale procedure: parameters [a=0], rest r=1, set-vars [1], body = Ref a *)
  Definition SV0 : nat -> list name := fun m => if Nat.eqb m 1 then [1] else [].
  Definition stale_lam : ast := Lam 1 [0] (Some 1) [] [1] [] (Ref 0 (Local 1)).
  Definition ints (l : list Z) : list ast := map (fun z => Lit (LInt z)) l.
  (** ((lambda (f) (cons (f 7) (cons (f 4 8 9) 99))) stale)   =>  (7 4 . 99): called without and with surplus arguments,
      in operand position, so the caller's temporaries lie directly below the callee's frame *)
  Definition e0 : ast :=
    App (Lam 0 [4] None [] [] []
           (OpApp PCons [App (Ref 4 (Local 0)) (ints [7]%Z);
              OpApp PCons [App (Ref 4 (Local 0)) (ints [4; 8; 9]%Z); Lit (LInt 99)]]))
        [stale_lam].
  Definition expected : sval := SPair (SLit (LInt 7)) (SPair (SLit (LInt 4)) (SLit (LInt 99))).

  (** the flags: VARIADIC only (1), although the body never mentions r; the usedp-only function says UNUSED_REST (3) *)
  Example flags : lam_flags_sv 1 (Some 1) (SV0 1) (Ref 0 (Local 1)) = 1 /\ lam_flags 1 (Some 1) (Ref 0 (Local 1)) = 3.
  Proof. split; reflexivity. Qed.

  (** the rest parameter keeps its slot, and the prologue boxes exactly that slot (#fixed = 1) *)
  Example live : live_of SV0 1 (Some 1) (Ref 0 (Local 1)) = [1] /\
                 box_code [0] (Some 1) [] (SV0 1) = [ILocalRef 1%Z; IPush (LSym 1); ICons; ILocalSet 1%Z].
  Proof. split; reflexivity. Qed.

  (** the hypotheses of the simulation theorem hold for it *)
  Example frag_e0 : fragA SV0 None e0 = true.
  Proof. reflexivity. Qed.
  Example annotated : annotate e0 = e0 /\ wf_program e0 = true.
  Proof. split; reflexivity. Qed.

  Definition W0 : world := mkW [] [] (fun _ => None).
  Definition st0 : sstore := mkstore [] [].
  Example eval_e0 : exists st', eval 40 e0 [] st0 = SVal expected st'.
  Proof. eexists. vm_compute. reflexivity. Qed.
  Example winv0 : WINV SV0 W0.
  Proof. split; [|split]; intros; simpl in *; discriminate. Qed.

  (** theorem 14 applied: the compiled code run on the model VM returns a value representing the SPEC's *)
  Example end_to_end : exists s0 n v' s' W' st',
    init_state (generate true SV0 None e0 ++ [IRet]) [] [] = Next s0 /\
    run n s0 = Done v' s' /\ heap s' = wh W' /\ vrelW SV0 W' v' expected /\ wc W' = cells st'.
  Proof.
    destruct eval_e0 as [st' He].
    destruct (compile_correct_toplevel_expr_imperative SV0 40 e0 st0 _ st' SV0 W0 [] frag_e0 He (fun m => eq_refl) eq_refl winv0)
      as (s0 & n & v' & s' & W' & Hi & Hr & _ & Hh & Hc & _ & Hv & _).
    { intros g w Hg. discriminate Hg. }
    exists s0, n, v', s', W', st'. auto.
  Qed.

  (** observed directly on the model VM *)
  Fixpoint decode (fuel : nat) (h : list hobj) (v : value) : option sval :=
    match fuel with
    | 0 => None
    | S k =>
        match v with
        | VLit l => Some (SLit l)
        | VPair a =>
            match nth_error h a with
            | Some (HPair x y) =>
                match decode k h x, decode k h y with Some p, Some q => Some (SPair p q) | _, _ => None end
            | _ => None
            end
        | _ => None
        end
    end.

  Example run_e0 : exists s0 v' s', init_state (generate true SV0 None e0 ++ [IRet]) [] [] = Next s0 /\
                                    run 400 s0 = Done v' s' /\ decode 20 (heap s') v' = Some expected.
  Proof.
    eexists. eexists. eexists. split; [|split].
    - vm_compute. reflexivity.
    - vm_compute. reflexivity.
    - vm_compute. reflexivity.
  Qed.
End ExampleStale.
