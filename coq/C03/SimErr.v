(** C03 — compile_correct, ERROR OUTCOMES of the pure call-free fragment of Simulation.v.

    [Simulation.compile_correct_pure_fragment] says: if the SPEC gives a value, the code runs to the
    instruction after it with a related value pushed.  This file adds

    1. [compile_correct_pure_error]: if the SPEC gives [SErr er] with [er <> EStuck] (a primitive type
       error [EType]: car / cdr of a non-pair, arithmetic / comparison on a non-number; or a reference to
       an unbound global [EUndefGlobal]) then the VM, after finitely many steps, is in a state whose
       next [step] is [Fail er]: the SAME error class.
       Extra hypothesis w.r.t. the value theorem: [globals_complete st s] (a global the SPEC store does
       not bind is not bound in the VM either).  [env_ok] only relates the globals the SPEC binds, which
       is all the value theorem needs; for "unbound in the SPEC => unbound in the VM" the other
       inclusion is indispensable (without it the statement is false: VM globals could bind more).
    2. [compile_correct_pure_total]: with fuel >= [depth e] and an environment that binds the frame
       variables the term mentions ([binds]), the SPEC answers either a value (store unchanged) or
       [SErr EType] / [SErr EUndefGlobal]; never [SOut], never [SErr EStuck].
    3. [compile_correct_pure_iff]: when the code of e is followed by the halting instruction IDone
       (so that "the VM run of e's code" is a complete run: the fall-through state is terminal), for such
       fuel:   SPEC error er  <->  the VM reaches a state whose step is [Fail er];
               SPEC value v   <->  the VM reaches the fall-through state with a value related to v.
       The <- directions are totality + determinism of [nsteps] ([nsteps_stop_unique]).
       WHY the IDone hypothesis: with an arbitrary continuation [post] the <- direction for errors is
       FALSE as stated with bare [nsteps]/[step] (e = (Lit 1), post = [IPrim PCar]: the SPEC gives the
       value 1, the VM fails with EType one step after the fall-through state).  The -> directions
       ([compile_correct_pure_error], [Simulation.compile_correct_pure_fragment]) hold for every [post].
       [compile_correct_pure_run_iff] is the same equivalence phrased with [Model.run].
       [compile_correct_pure_error_iff] is the error equivalence for an ARBITRARY [post], under the
       hypothesis that the fall-through state cannot itself reach a failure of class er.
    4. Examples ([ExampleErr]): (car (if (< x 1) 5 x)) with x = 0 => SPEC [SErr EType], VM [Error EType];
       (+ x g) with g unbound => [SErr EUndefGlobal] / [Error EUndefGlobal]; the hypotheses of the
       theorems are satisfiable on them. *)
From Coq Require Import ZArith List Bool Arith Lia.
From ChibiV Require Import C03.Defs C03.Model C03.Spec C03.Simulation.
Import ListNotations.
Local Open Scope nat_scope.

(* ------------------------------------------------------------------ hypotheses and vocabulary *)

(** a global that the SPEC store does not bind is unbound in the VM too *)
Definition globals_complete (st : sstore) (s : state) : Prop :=
  forall g, glob_lookup g (sglobals st) = None -> assoc_nat g (globals s) = None.

(** the VM, started in s, reaches after finitely many steps a state whose step fails with er *)
Definition fails (s : state) (er : err) : Prop :=
  exists n s1, nsteps n s = Some s1 /\ step s1 = Fail er.

Lemma fails_after : forall n s s1 er, nsteps n s = Some s1 -> fails s1 er -> fails s er.
Proof.
  intros n s s1 er Hn (m & s2 & Hm & Hf). exists (n + m), s2. split; auto. eapply nsteps_app; eauto.
Qed.

Lemma fails_now : forall s er, step s = Fail er -> fails s er.
Proof. intros s er H. exists 0, s. split; auto. Qed.

(* ------------------------------------------------------------------ failing instructions *)

Lemma step_global_ref_undef : forall s pre g post, at_code s pre [IGlobalRef g] post ->
  assoc_nat g (globals s) = None -> step s = Fail EUndefGlobal.
Proof. intros s pre g post H Hg. unfold step. rewrite (fetch _ _ _ _ H), Hg. reflexivity. Qed.

Lemma step_prim_err : forall s pre p post er, at_code s pre [IPrim p] post ->
  prim_step p (stk s) (heap s) = inr er -> step s = Fail er.
Proof. intros s pre p post er H Hp. unfold step. rewrite (fetch _ _ _ _ H), Hp. reflexivity. Qed.

(* ------------------------------------------------------------------ primitives: error version of prim1_ok / prim2_ok *)

Lemma prim1_err : forall p h v w er stk0,
  prim_arity p = 1 -> vrel h v w -> prim_sem p [w] = inr er ->
  prim_step p (v :: stk0) h = inr er.
Proof.
  intros p h v w er stk0 Ha Hv Hs.
  destruct p; try discriminate Ha; destruct w as [l | x y | ]; simpl in Hv; try contradiction;
    try (destruct Hv as (a & vx & vy & -> & Hn & H1 & H2)); subst; simpl in Hs; try discriminate;
    inversion Hs; subst; reflexivity.
Qed.

Lemma prim2_err : forall p h v1 v2 w1 w2 er stk0,
  prim_arity p = 2 -> pure_prim p = true -> vrel h v1 w1 -> vrel h v2 w2 ->
  prim_sem p [w1; w2] = inr er ->
  (if prim_inverse p then prim_step (prim_opcode p) (v2 :: v1 :: stk0) h
   else prim_step p (v1 :: v2 :: stk0) h) = inr er.
Proof.
  intros p h v1 v2 w1 w2 er stk0 Ha Hp H1 H2 Hs.
  destruct p; try discriminate Ha; try discriminate Hp; try discriminate Hs.
  all: destruct w1 as [[za| | | | | | |] | x1 y1 |]; simpl in H1; try contradiction;
       try (destruct H1 as (a1 & vx1 & vy1 & -> & Hn1 & _)); subst;
       destruct w2 as [[zb| | | | | | |] | x2 y2 |]; simpl in H2; try contradiction;
       try (destruct H2 as (a2 & vx2 & vy2 & -> & Hn2 & _)); subst;
       simpl in Hs; try discriminate Hs; inversion Hs; subst; reflexivity.
Qed.

(** a primitive of the fragment applied to the right number of operands never answers "outside the
    model", and its only error class is EType *)
Lemma prim_sem_total1 : forall p w, prim_arity p = 1 ->
  (exists r, prim_sem p [w] = inl (Some r)) \/ prim_sem p [w] = inr EType.
Proof.
  intros p w Ha. destruct p; try discriminate Ha; destruct w as [[z|b| | | | |o|nd] | x y |]; simpl; eauto.
Qed.

Lemma prim_sem_total2 : forall p w1 w2, prim_arity p = 2 ->
  (exists r, prim_sem p [w1; w2] = inl (Some r)) \/ prim_sem p [w1; w2] = inr EType.
Proof.
  intros p w1 w2 Ha. destruct p; try discriminate Ha;
    destruct w1 as [[z|b| | | | |o|nd] | x y |]; destruct w2 as [[z2|b2| | | | |o2|nd2] | x2 y2 |]; simpl; eauto.
Qed.

(* ------------------------------------------------------------------ 1. error simulation *)

Definition err_at (c : lctx) (svs : nat -> list name) (f : nat) (e : ast) : Prop :=
  forall env st er, pure (l_id c) (svs (l_id c)) e = true ->
  eval f e env st = SErr er -> er <> EStuck ->
  forall tl s pre post,
  at_code s pre (generate tl svs (Some c) e) post ->
  env_ok c svs env st s -> globals_complete st s ->
  fails s er.

Lemma globals_complete_ext : forall st s s1, globals_complete st s -> globals s1 = globals s -> globals_complete st s1.
Proof. intros st s s1 H E g Hg. rewrite E. auto. Qed.

Section Err.
  Variable c : lctx.
  Variable svs : nat -> list name.

  Lemma err_seq : forall f, (forall e, err_at c svs f e) ->
    forall es env st er, es <> [] -> forallb (pure (l_id c) (svs (l_id c))) es = true ->
    eval_seq f env es st = SErr er -> er <> EStuck ->
    forall tl s pre post,
    at_code s pre (gen_seq tl svs (Some c) es) post ->
    env_ok c svs env st s -> globals_complete st s ->
    fails s er.
  Proof.
    intros f IH es. induction es as [|a r IHr]; intros env st er Hne Hp He Hner tl s pre post Hat Hok Hgc.
    - congruence.
    - simpl in Hp. apply andb_true_iff in Hp. destruct Hp as [Hpa Hpr].
      destruct r as [|b r'].
      + (* last element *) simpl in He, Hat. eapply IH; eauto.
      + change (eval_seq f env (a :: b :: r') st) with
          (match eval f a env st with SVal _ st1 => eval_seq f env (b :: r') st1 | x => x end) in He.
        change (gen_seq tl svs (Some c) (a :: b :: r')) with
          ((if is_lit a then [] else drop_prev a (generate false svs (Some c) a)) ++ gen_seq tl svs (Some c) (b :: r')) in *.
        destruct (is_lit a) eqn:La.
        * (* a literal emits no code and cannot fail *)
          destruct a; try discriminate La. destruct f; [discriminate He|]. rewrite eval_Lit in He.
          simpl app in *. eapply IHr; eauto. congruence.
        * assert (Hd : drop_prev a (generate false svs (Some c) a) = generate false svs (Some c) a ++ [IDrop]).
          { unfold drop_prev. destruct a; simpl in La, Hpa |- *; try discriminate; reflexivity. }
          rewrite Hd in *. set (ca := generate false svs (Some c) a) in *.
          set (cr := gen_seq tl svs (Some c) (b :: r')) in *.
          destruct Hat as [Hcode Hip].
          assert (Hat1 : at_code s pre ca ([IDrop] ++ cr ++ post)).
          { split; auto. rewrite Hcode. norm_code. }
          destruct (eval f a env st) as [va st1| er1 |] eqn:Ea; try discriminate.
          -- (* a gives a value, which is dropped; the error is later *)
             destruct (sim_all c svs f a env st va st1 Hpa Ea false s pre _ Hat1 Hok) as (-> & n1 & v1 & h1 & Hn1 & Hv1).
             fold ca in Hn1.
             set (s1 := final s v1 pre ca h1) in *.
             assert (Hat2 : at_code s1 (pre ++ ca) [IDrop] (cr ++ post)).
             { split; simpl; [|rewrite app_length; reflexivity]. rewrite Hcode. norm_code. }
             pose proof (step_drop s1 _ _ v1 (stk s) Hat2 eq_refl) as Hstep.
             set (s2 := upd s1 (stk s) (S (ip s1)) (heap s1)) in *.
             assert (Hat3 : at_code s2 (pre ++ ca ++ [IDrop]) cr post).
             { split; simpl; [|solve_len]. rewrite Hcode. norm_code. }
             assert (Hok2 : env_ok c svs env st s2).
             { eapply (env_ok_ext c svs env st s s2 [] h1); eauto. }
             assert (Hgc2 : globals_complete st s2) by (eapply globals_complete_ext; eauto).
             assert (Hne2 : b :: r' <> []) by congruence.
             pose proof (IHr env st er Hne2 Hpr He Hner tl s2 _ post Hat3 Hok2 Hgc2) as Hf.
             eapply fails_after; [exact Hn1|]. eapply fails_after; [apply nsteps_one; exact Hstep|]. exact Hf.
          -- (* a itself fails *)
             inversion He; subst er1.
             eapply (IH a env st er Hpa Ea Hner false s pre _ Hat1 Hok Hgc).
  Qed.

  Lemma err_all : forall f e, err_at c svs f e.
  Proof.
    induction f as [|f IH]; intros e env st er Hp He Hner tl s pre post Hat Hok Hgc.
    - discriminate He.
    - destruct e as [l | x o | x o e1 | t p e2 | es | id ps r ls sv fv b | g args | p args]; try discriminate Hp.
      + (* Lit *) rewrite eval_Lit in He. discriminate He.
      + (* Ref *)
        destruct o as [|m].
        * (* unbound global *)
          simpl in He. destruct (glob_lookup x (sglobals st)) as [w|] eqn:Eg; try discriminate.
          inversion He; subst er. apply fails_now. simpl generate in Hat.
          eapply step_global_ref_undef; eauto.
        * (* frame variable: the SPEC can only answer EStuck *)
          simpl in He. destruct (env_lookup (x, Local m) env) as [a|]; [|inversion He; congruence].
          destruct (nth_error (cells st) a); inversion He; congruence.
      + (* Cnd *)
        simpl in Hp. apply andb_true_iff in Hp. destruct Hp as [Hp Hpf]. apply andb_true_iff in Hp. destruct Hp as [Hpt Hpp].
        rewrite eval_Cnd in He.
        simpl generate in *.
        set (ct := generate false svs (Some c) t) in *.
        set (cp := generate tl svs (Some c) p) in *.
        set (cf := generate tl svs (Some c) e2) in *.
        destruct Hat as [Hcode Hip].
        assert (Hat1 : at_code s pre ct (([IJumpUnless (S (length cp))] ++ cp ++ [IJump (length cf)] ++ cf) ++ post)).
        { split; auto. rewrite Hcode. norm_code. }
        destruct (eval f t env st) as [vt st1| er1 |] eqn:Et; try discriminate.
        2:{ (* the test fails *) inversion He; subst er1. eapply (IH t env st er Hpt Et Hner false s pre _ Hat1 Hok Hgc). }
        destruct (sim_all c svs f t env st vt st1 Hpt Et false s pre _ Hat1 Hok) as (-> & n1 & v1 & h1 & Hn1 & Hv1).
        fold ct in Hn1. set (s1 := final s v1 pre ct h1) in *.
        assert (Hat2 : at_code s1 (pre ++ ct) [IJumpUnless (S (length cp))] (cp ++ [IJump (length cf)] ++ cf ++ post)).
        { split; simpl; [|rewrite app_length; reflexivity]. rewrite Hcode. norm_code. }
        destruct (sval_false_dec _ _ _ Hv1) as [[-> ->] | [Hw Hv]].
        * (* test false: the else branch fails *)
          pose proof (step_jump_unless_false s1 _ _ _ (stk s) Hat2 eq_refl) as Hstep.
          set (s2 := upd s1 (stk s) (S (ip s1) + S (length cp)) (heap s1)) in *.
          assert (Hat3 : at_code s2 (pre ++ ct ++ [IJumpUnless (S (length cp))] ++ cp ++ [IJump (length cf)]) cf post).
          { split; simpl; [|solve_len]. rewrite Hcode. norm_code. }
          assert (Hok2 : env_ok c svs env st s2) by (eapply (env_ok_ext c svs env st s s2 [] h1); eauto).
          assert (Hgc2 : globals_complete st s2) by (eapply globals_complete_ext; eauto).
          pose proof (IH e2 env st er Hpf He Hner tl s2 _ post Hat3 Hok2 Hgc2) as Hf.
          eapply fails_after; [exact Hn1|]. eapply fails_after; [apply nsteps_one; exact Hstep|]. exact Hf.
        * (* test true: the then branch fails *)
          assert (Hep : eval f p env st = SErr er).
          { destruct vt as [[z|[|]| | | | |o|nd] | |]; try exact He; congruence. }
          pose proof (step_jump_unless_true s1 _ _ _ v1 (stk s) Hat2 eq_refl Hv) as Hstep.
          set (s2 := upd s1 (stk s) (S (ip s1)) (heap s1)) in *.
          assert (Hat3 : at_code s2 (pre ++ ct ++ [IJumpUnless (S (length cp))]) cp ([IJump (length cf)] ++ cf ++ post)).
          { split; simpl; [|solve_len]. rewrite Hcode. norm_code. }
          assert (Hok2 : env_ok c svs env st s2) by (eapply (env_ok_ext c svs env st s s2 [] h1); eauto).
          assert (Hgc2 : globals_complete st s2) by (eapply globals_complete_ext; eauto).
          pose proof (IH p env st er Hpp Hep Hner tl s2 _ _ Hat3 Hok2 Hgc2) as Hf.
          eapply fails_after; [exact Hn1|]. eapply fails_after; [apply nsteps_one; exact Hstep|]. exact Hf.
      + (* Seq *)
        rewrite eval_Seq in He. rewrite generate_Seq in *.
        simpl in Hp. destruct es as [|a r]; try discriminate Hp.
        eapply (err_seq f IH (a :: r)); eauto. congruence.
      + (* OpApp *)
        simpl in Hp. apply andb_true_iff in Hp. destruct Hp as [Hp Hall]. apply andb_true_iff in Hp. destruct Hp as [Hpp Hlen].
        apply Nat.eqb_eq in Hlen. rewrite eval_OpApp in He.
        destruct args as [|a [|b [|c0 args]]]; simpl in Hlen.
        * destruct p; discriminate Hlen.
        * (* unary *)
          assert (Ha1 : prim_arity p = 1) by auto.
          assert (Hinv : (if prim_inverse p then [a] else rev [a]) = [a]) by (destruct (prim_inverse p); reflexivity).
          rewrite Hinv in He. simpl evlist in He. simpl in Hall. apply andb_true_iff in Hall. destruct Hall as [Hpa _].
          rewrite gen_op1 in * by auto.
          set (ca := generate false svs (Some c) a) in *.
          destruct Hat as [Hcode Hip].
          assert (Hat1 : at_code s pre ca ([IPrim p] ++ post)).
          { split; auto. rewrite Hcode. norm_code. }
          destruct (eval f a env st) as [va st1| er1 |] eqn:Ea; try discriminate.
          2:{ (* the operand fails *) inversion He; subst er1. eapply (IH a env st er Hpa Ea Hner false s pre _ Hat1 Hok Hgc). }
          assert (Hinv2 : (if prim_inverse p then [va] else rev [va]) = [va]) by (destruct (prim_inverse p); reflexivity).
          rewrite Hinv2 in He.
          destruct (prim_sem p [va]) as [[rv|]|er1] eqn:Eprim; try discriminate; [inversion He; congruence|].
          inversion He; subst er1. clear He.
          destruct (sim_all c svs f a env st va st1 Hpa Ea false s pre _ Hat1 Hok) as (-> & n1 & v1 & h1 & Hn1 & Hv1).
          fold ca in Hn1. set (s1 := final s v1 pre ca h1) in *.
          pose proof (prim1_err p _ _ _ _ (stk s) Ha1 Hv1 Eprim) as Hps.
          assert (Hat2 : at_code s1 (pre ++ ca) [IPrim p] post).
          { split; simpl; [|rewrite app_length; reflexivity]. rewrite Hcode. norm_code. }
          pose proof (step_prim_err s1 _ _ _ _ Hat2 Hps) as Hstep.
          eapply fails_after; [exact Hn1|]. apply fails_now; exact Hstep.
        * (* binary *)
          assert (Ha2 : prim_arity p = 2) by auto.
          simpl in Hall. apply andb_true_iff in Hall. destruct Hall as [Hpa Hall].
          apply andb_true_iff in Hall. destruct Hall as [Hpb _].
          rewrite gen_op2 in * by auto.
          destruct Hat as [Hcode Hip].
          destruct (prim_inverse p) eqn:Einv.
          -- (* > >= : operands left to right *)
             simpl evlist in He.
             set (ca := generate false svs (Some c) a) in *. set (cb := generate false svs (Some c) b) in *.
             assert (Hat1 : at_code s pre ca ((cb ++ [IPrim (prim_opcode p)]) ++ post)).
             { split; auto. rewrite Hcode. norm_code. }
             destruct (eval f a env st) as [va st1| er1 |] eqn:Ea; try discriminate.
             2:{ inversion He; subst er1. eapply (IH a env st er Hpa Ea Hner false s pre _ Hat1 Hok Hgc). }
             destruct (sim_all c svs f a env st va st1 Hpa Ea false s pre _ Hat1 Hok) as (-> & n1 & v1 & h1 & Hn1 & Hv1).
             fold ca in Hn1. set (s1 := final s v1 pre ca h1) in *.
             assert (Hat2 : at_code s1 (pre ++ ca) cb ([IPrim (prim_opcode p)] ++ post)).
             { split; simpl; [|rewrite app_length; reflexivity]. rewrite Hcode. norm_code. }
             assert (Hok1 : env_ok c svs env st s1) by (eapply (env_ok_ext c svs env st s s1 [v1] h1); eauto).
             assert (Hgc1 : globals_complete st s1) by (eapply globals_complete_ext; eauto).
             destruct (eval f b env st) as [vb st2| er1 |] eqn:Eb; try discriminate.
             2:{ (* the second operand fails after the first produced a value *)
                 inversion He; subst er1. eapply fails_after; [exact Hn1|].
                 eapply (IH b env st er Hpb Eb Hner false s1 _ _ Hat2 Hok1 Hgc1). }
             destruct (prim_sem p [va; vb]) as [[rv|]|er1] eqn:Eprim; try discriminate; [inversion He; congruence|].
             inversion He; subst er1. clear He.
             destruct (sim_all c svs f b env st vb st2 Hpb Eb false s1 _ _ Hat2 Hok1) as (-> & n2 & v2 & h2 & Hn2 & Hv2).
             fold cb in Hn2. set (s2 := final s1 v2 (pre ++ ca) cb h2) in *.
             simpl in Hv2. assert (Hv1' : vrel ((heap s ++ h1) ++ h2) v1 va) by auto using vrel_ext.
             pose proof (prim2_err p _ _ _ _ _ _ (stk s) Ha2 Hpp Hv1' Hv2 Eprim) as Hps.
             rewrite Einv in Hps.
             assert (Hat3 : at_code s2 (pre ++ ca ++ cb) [IPrim (prim_opcode p)] post).
             { split; simpl; [|solve_len]. rewrite Hcode. norm_code. }
             pose proof (step_prim_err s2 _ _ _ _ Hat3 Hps) as Hstep.
             eapply fails_after; [exact Hn1|]. eapply fails_after; [exact Hn2|]. apply fails_now; exact Hstep.
          -- (* operands right to left *)
             simpl evlist in He.
             set (ca := generate false svs (Some c) a) in *. set (cb := generate false svs (Some c) b) in *.
             assert (Hat1 : at_code s pre cb ((ca ++ [IPrim p]) ++ post)).
             { split; auto. rewrite Hcode. norm_code. }
             destruct (eval f b env st) as [vb st1| er1 |] eqn:Eb; try discriminate.
             2:{ inversion He; subst er1. eapply (IH b env st er Hpb Eb Hner false s pre _ Hat1 Hok Hgc). }
             destruct (sim_all c svs f b env st vb st1 Hpb Eb false s pre _ Hat1 Hok) as (-> & n1 & v1 & h1 & Hn1 & Hv1).
             fold cb in Hn1. set (s1 := final s v1 pre cb h1) in *.
             assert (Hat2 : at_code s1 (pre ++ cb) ca ([IPrim p] ++ post)).
             { split; simpl; [|rewrite app_length; reflexivity]. rewrite Hcode. norm_code. }
             assert (Hok1 : env_ok c svs env st s1) by (eapply (env_ok_ext c svs env st s s1 [v1] h1); eauto).
             assert (Hgc1 : globals_complete st s1) by (eapply globals_complete_ext; eauto).
             destruct (eval f a env st) as [va st2| er1 |] eqn:Ea; try discriminate.
             2:{ (* the first operand (evaluated second) fails after the second produced a value *)
                 inversion He; subst er1. eapply fails_after; [exact Hn1|].
                 eapply (IH a env st er Hpa Ea Hner false s1 _ _ Hat2 Hok1 Hgc1). }
             simpl rev in He.
             destruct (prim_sem p [va; vb]) as [[rv|]|er1] eqn:Eprim; try discriminate; [inversion He; congruence|].
             inversion He; subst er1. clear He.
             destruct (sim_all c svs f a env st va st2 Hpa Ea false s1 _ _ Hat2 Hok1) as (-> & n2 & v2 & h2 & Hn2 & Hv2).
             fold ca in Hn2. set (s2 := final s1 v2 (pre ++ cb) ca h2) in *.
             simpl in Hv2. assert (Hv1' : vrel ((heap s ++ h1) ++ h2) v1 vb) by auto using vrel_ext.
             pose proof (prim2_err p _ _ _ _ _ _ (stk s) Ha2 Hpp Hv2 Hv1' Eprim) as Hps.
             rewrite Einv in Hps.
             assert (Hat3 : at_code s2 (pre ++ cb ++ ca) [IPrim p] post).
             { split; simpl; [|solve_len]. rewrite Hcode. norm_code. }
             pose proof (step_prim_err s2 _ _ _ _ Hat3 Hps) as Hstep.
             eapply fails_after; [exact Hn1|]. eapply fails_after; [exact Hn2|]. apply fails_now; exact Hstep.
        * destruct p; discriminate Hlen.
  Qed.
End Err.

(** the theorem in closed form *)
Theorem compile_correct_pure_error : forall c svs fuel e env st er tl s pre post,
  pure (l_id c) (svs (l_id c)) e = true ->
  eval fuel e env st = SErr er -> er <> EStuck ->
  code_of (self s) = pre ++ generate tl svs (Some c) e ++ post -> ip s = length pre ->
  env_ok c svs env st s -> globals_complete st s ->
  exists n s1, nsteps n s = Some s1 /\ step s1 = Fail er.
Proof.
  intros c svs fuel e env st er tl s pre post Hp He Hner Hc Hi Hok Hgc.
  exact (err_all c svs fuel e env st er Hp He Hner tl s pre post (conj Hc Hi) Hok Hgc).
Qed.

(* ------------------------------------------------------------------ 2. totality of the SPEC on the fragment *)

(** nesting depth: the fuel [eval] needs on a call-free term *)
Fixpoint depth (e : ast) {struct e} : nat :=
  match e with
  | Cnd t p f => S (Nat.max (depth t) (Nat.max (depth p) (depth f)))
  | Seq es => S ((fix go (l : list ast) : nat := match l with [] => 0 | a :: r => Nat.max (depth a) (go r) end) es)
  | OpApp _ args => S ((fix go (l : list ast) : nat := match l with [] => 0 | a :: r => Nat.max (depth a) (go r) end) args)
  | _ => 1
  end.

Definition depth_list : list ast -> nat :=
  fix go (l : list ast) : nat := match l with [] => 0 | a :: r => Nat.max (depth a) (go r) end.

Lemma depth_Seq : forall es, depth (Seq es) = S (depth_list es).
Proof. reflexivity. Qed.
Lemma depth_OpApp : forall p args, depth (OpApp p args) = S (depth_list args).
Proof. reflexivity. Qed.
Lemma depth_Cnd : forall t p f, depth (Cnd t p f) = S (Nat.max (depth t) (Nat.max (depth p) (depth f))).
Proof. reflexivity. Qed.
Lemma depth_list_cons : forall a r, depth_list (a :: r) = Nat.max (depth a) (depth_list r).
Proof. reflexivity. Qed.

(** the environment binds (to an allocated cell) every variable of frame [id] that e mentions *)
Definition binds (id : nat) (env : senv) (st : sstore) (e : ast) : Prop :=
  forall x, mentions id x e = true ->
  exists a w, env_lookup (x, Local id) env = Some a /\ nth_error (cells st) a = Some w.

Definition good_err (er : err) : Prop := er = EType \/ er = EUndefGlobal.

(** value with unchanged store, or one of the two Scheme-level error classes *)
Definition total_res (r : sres) (st : sstore) : Prop :=
  (exists v, r = SVal v st) \/ (exists er, r = SErr er /\ good_err er).

Lemma binds_Cnd : forall id env st t p f, binds id env st (Cnd t p f) ->
  binds id env st t /\ binds id env st p /\ binds id env st f.
Proof.
  intros id env st t p f H. repeat split; intros x Hx; apply H; simpl; rewrite Hx, ?orb_true_r; reflexivity.
Qed.

Definition binds_list (id : nat) (env : senv) (st : sstore) (es : list ast) : Prop :=
  forall x, existsb (mentions id x) es = true ->
  exists a w, env_lookup (x, Local id) env = Some a /\ nth_error (cells st) a = Some w.

Lemma binds_list_cons : forall id env st a r, binds_list id env st (a :: r) ->
  binds id env st a /\ binds_list id env st r.
Proof.
  intros id env st a r H. split; intros x Hx; apply H; simpl; rewrite Hx, ?orb_true_r; reflexivity.
Qed.

Section Total.
  Variable id : nat.
  Variable sv : list name.
  Variable env : senv.
  Variable st : sstore.

  Definition total_at (f : nat) (e : ast) : Prop :=
    depth e <= f -> pure id sv e = true -> binds id env st e -> total_res (eval f e env st) st.

  Lemma total_seq : forall f, (forall e, total_at f e) ->
    forall es, es <> [] -> depth_list es <= f -> forallb (pure id sv) es = true -> binds_list id env st es ->
    total_res (eval_seq f env es st) st.
  Proof.
    intros f IH es. induction es as [|a r IHr]; intros Hne Hd Hp Hb.
    - congruence.
    - rewrite depth_list_cons in Hd. simpl in Hp. apply andb_true_iff in Hp. destruct Hp as [Hpa Hpr].
      apply binds_list_cons in Hb. destruct Hb as [Hba Hbr].
      assert (Hda : depth a <= f) by lia. assert (Hdr : depth_list r <= f) by lia.
      destruct r as [|b r'].
      + simpl. apply IH; auto.
      + change (eval_seq f env (a :: b :: r') st) with
          (match eval f a env st with SVal _ st1 => eval_seq f env (b :: r') st1 | x => x end).
        destruct (IH a Hda Hpa Hba) as [[v Ev] | [er [Ev Hg]]]; rewrite Ev.
        * apply IHr; auto. congruence.
        * right. exists er. auto.
  Qed.

  Lemma total_all : forall f e, total_at f e.
  Proof.
    induction f as [|f IH]; intros e Hd Hp Hb.
    - destruct e; simpl in Hd; lia.
    - destruct e as [l | x o | x o e1 | t p e2 | es | lid ps r ls lsv fv b | g args | p args]; try discriminate Hp.
      + rewrite eval_Lit. left. eauto.
      + destruct o as [|m].
        * simpl. destruct (glob_lookup x (sglobals st)) as [w|].
          -- left; eauto.
          -- right. exists EUndefGlobal. split; auto. right; reflexivity.
        * simpl in Hp. apply andb_true_iff in Hp. destruct Hp as [Hm _]. apply Nat.eqb_eq in Hm. subst m.
          destruct (Hb x) as (a & w & Ha & Hw).
          { simpl. rewrite !Nat.eqb_refl. reflexivity. }
          simpl. rewrite Ha, Hw. left; eauto.
      + (* Cnd *)
        rewrite depth_Cnd in Hd.
        simpl in Hp. apply andb_true_iff in Hp. destruct Hp as [Hp Hpf]. apply andb_true_iff in Hp. destruct Hp as [Hpt Hpp].
        apply binds_Cnd in Hb. destruct Hb as (Hbt & Hbp & Hbf).
        rewrite eval_Cnd.
        assert (Hdt : depth t <= f) by lia. assert (Hdp : depth p <= f) by lia. assert (Hdf : depth e2 <= f) by lia.
        destruct (IH t Hdt Hpt Hbt) as [[v Ev] | [er [Ev Hg]]]; rewrite Ev.
        * destruct v as [[z|[|]| | | | |o|nd] | |]; try (apply IH; assumption).
        * right. exists er. auto.
      + (* Seq *)
        rewrite depth_Seq in Hd. rewrite eval_Seq.
        simpl in Hp. destruct es as [|a r]; try discriminate Hp.
        apply (total_seq f IH (a :: r)); auto; [congruence | lia].
      + (* OpApp *)
        rewrite depth_OpApp in Hd.
        simpl in Hp. apply andb_true_iff in Hp. destruct Hp as [Hp Hall]. apply andb_true_iff in Hp. destruct Hp as [Hpp Hlen].
        apply Nat.eqb_eq in Hlen. rewrite eval_OpApp.
        assert (Hbl : binds_list id env st args) by exact Hb.
        destruct args as [|a [|b [|c0 args]]]; simpl in Hlen.
        * destruct p; discriminate Hlen.
        * (* unary *)
          assert (Ha1 : prim_arity p = 1) by auto.
          assert (Hinv : (if prim_inverse p then [a] else rev [a]) = [a]) by (destruct (prim_inverse p); reflexivity).
          rewrite Hinv. simpl evlist. simpl in Hall. apply andb_true_iff in Hall. destruct Hall as [Hpa _].
          apply binds_list_cons in Hbl. destruct Hbl as [Hba _].
          rewrite depth_list_cons in Hd. assert (Hda : depth a <= f) by lia.
          destruct (IH a Hda Hpa Hba) as [[v Ev] | [er [Ev Hg]]]; rewrite Ev.
          2:{ right. exists er. auto. }
          assert (Hinv2 : (if prim_inverse p then [v] else rev [v]) = [v]) by (destruct (prim_inverse p); reflexivity).
          rewrite Hinv2.
          destruct (prim_sem_total1 p v Ha1) as [[rv Er] | Er]; rewrite Er.
          -- left; eauto.
          -- right. exists EType. split; auto. left; reflexivity.
        * (* binary *)
          assert (Ha2 : prim_arity p = 2) by auto.
          simpl in Hall. apply andb_true_iff in Hall. destruct Hall as [Hpa Hall].
          apply andb_true_iff in Hall. destruct Hall as [Hpb _].
          apply binds_list_cons in Hbl. destruct Hbl as [Hba Hbl].
          apply binds_list_cons in Hbl. destruct Hbl as [Hbb _].
          rewrite !depth_list_cons in Hd.
          assert (Hda : depth a <= f) by lia. assert (Hdb : depth b <= f) by lia.
          destruct (prim_inverse p) eqn:Einv.
          -- simpl evlist.
             destruct (IH a Hda Hpa Hba) as [[va Ea] | [er [Ea Hg]]]; rewrite Ea.
             2:{ right. exists er. auto. }
             destruct (IH b Hdb Hpb Hbb) as [[vb Eb] | [er [Eb Hg]]]; rewrite Eb.
             2:{ right. exists er. auto. }
             destruct (prim_sem_total2 p va vb Ha2) as [[rv Er] | Er]; rewrite Er.
             ++ left; eauto.
             ++ right. exists EType. split; auto. left; reflexivity.
          -- simpl evlist.
             destruct (IH b Hdb Hpb Hbb) as [[vb Eb] | [er [Eb Hg]]]; rewrite Eb.
             2:{ right. exists er. auto. }
             destruct (IH a Hda Hpa Hba) as [[va Ea] | [er [Ea Hg]]]; rewrite Ea.
             2:{ right. exists er. auto. }
             simpl rev.
             destruct (prim_sem_total2 p va vb Ha2) as [[rv Er] | Er]; rewrite Er.
             ++ left; eauto.
             ++ right. exists EType. split; auto. left; reflexivity.
        * destruct p; discriminate Hlen.
  Qed.
End Total.

(** the theorem in closed form; note that no relation to a VM state is needed: [pure] restricts frame
    references to frame [id], and [binds] says those the term mentions are bound to allocated cells *)
Theorem compile_correct_pure_total : forall id sv fuel e env st,
  pure id sv e = true -> depth e <= fuel -> binds id env st e ->
  (exists v, eval fuel e env st = SVal v st)
  \/ (exists er, eval fuel e env st = SErr er /\ (er = EType \/ er = EUndefGlobal)).
Proof.
  intros id sv fuel e env st Hp Hd Hb. exact (total_all id sv env st fuel e Hd Hp Hb).
Qed.

(* ------------------------------------------------------------------ 3. determinism of the VM and the equivalence *)

(** [nsteps] is a function of (n, s), and a terminal state (one whose [step] is not [Next]) cannot be passed:
    two terminal states reached from the same start coincide, after the same number of steps *)
Lemma nsteps_stop_unique : forall n m s s1 s2,
  nsteps n s = Some s1 -> (forall s', step s1 <> Next s') ->
  nsteps m s = Some s2 -> (forall s', step s2 <> Next s') ->
  n = m /\ s1 = s2.
Proof.
  induction n as [|n IH]; intros m s s1 s2 H1 T1 H2 T2.
  - simpl in H1. inversion H1; subst s1. destruct m as [|m].
    + simpl in H2. inversion H2; auto.
    + simpl in H2. destruct (step s) as [s'| |] eqn:Es; try discriminate. exfalso. exact (T1 s' eq_refl).
  - simpl in H1. destruct (step s) as [s'| |] eqn:Es; try discriminate.
    destruct m as [|m].
    + simpl in H2. inversion H2; subst s2. exfalso. exact (T2 s' Es).
    + simpl in H2. rewrite Es in H2. destruct (IH m s' s1 s2 H1 T1 H2 T2) as [-> ->]. auto.
Qed.

(** a state whose step fails is not passed by a longer run *)
Lemma nsteps_fail_stuck : forall n k s s1 er,
  nsteps n s = Some s1 -> step s1 = Fail er -> nsteps (n + S k) s = None.
Proof.
  induction n as [|n IH]; intros k s s1 er H1 Hf.
  - simpl in H1. inversion H1; subst s1. simpl. rewrite Hf. reflexivity.
  - simpl in H1 |- *. destruct (step s) as [s'| |]; try discriminate. eapply IH; eauto.
Qed.

(** a VM value represents at most one SPEC value *)
Lemma vrel_fun : forall w1 h v w2, vrel h v w1 -> vrel h v w2 -> w1 = w2.
Proof.
  induction w1 as [l | x IHx y IHy | ]; intros h v w2 H1 H2; simpl in H1; try contradiction.
  - subst v. destruct w2 as [l2 | x2 y2 | ]; simpl in H2; try contradiction.
    + congruence.
    + destruct H2 as (a & vx & vy & E & _). discriminate E.
  - destruct H1 as (a & vx & vy & -> & Hn & Hx & Hy).
    destruct w2 as [l2 | x2 y2 | ]; simpl in H2; try contradiction.
    + discriminate H2.
    + destruct H2 as (a2 & vx2 & vy2 & E & Hn2 & Hx2 & Hy2). inversion E; subst a2.
      rewrite Hn in Hn2. inversion Hn2; subst vx2 vy2.
      f_equal; eauto.
Qed.

Lemma step_done : forall s pre post v r, at_code s pre [IDone] post -> stk s = v :: r -> step s = Halt v s.
Proof. intros s pre post v r H Hs. unfold step. rewrite (fetch _ _ _ _ H), Hs. reflexivity. Qed.

Lemma not_next_halt : forall s1 v sf, step s1 = Halt v sf -> forall s', step s1 <> Next s'.
Proof. intros; congruence. Qed.
Lemma not_next_fail : forall s1 er, step s1 = Fail er -> forall s', step s1 <> Next s'.
Proof. intros; congruence. Qed.

(** [run] vs [nsteps] *)
Lemma run_Error_inv : forall k s0 er, run k s0 = Error er -> exists n s1, nsteps n s0 = Some s1 /\ step s1 = Fail er.
Proof.
  induction k as [|k IH]; intros s0 er H; simpl in H; try discriminate.
  destruct (step s0) as [s'|v s'|er'] eqn:Es; try discriminate.
  - destruct (IH s' er H) as (n & s1 & Hn & Hf). exists (S n), s1. simpl. rewrite Es. auto.
  - inversion H; subst er'. exists 0, s0. auto.
Qed.

Lemma run_Done_inv : forall k s0 v sf, run k s0 = Done v sf -> exists n s1, nsteps n s0 = Some s1 /\ step s1 = Halt v sf.
Proof.
  induction k as [|k IH]; intros s0 v sf H; simpl in H; try discriminate.
  destruct (step s0) as [s'|v' s'|er'] eqn:Es; try discriminate.
  - destruct (IH s' v sf H) as (n & s1 & Hn & Hf). exists (S n), s1. simpl. rewrite Es. auto.
  - inversion H; subst v' s'. exists 0, s0. auto.
Qed.

Lemma run_of_fail : forall n s0 s1 er, nsteps n s0 = Some s1 -> step s1 = Fail er -> run (n + 1) s0 = Error er.
Proof. intros n s0 s1 er Hn Hf. rewrite (run_nsteps n 1 s0 s1 Hn). simpl. rewrite Hf. reflexivity. Qed.

Lemma run_of_halt : forall n s0 s1 v sf, nsteps n s0 = Some s1 -> step s1 = Halt v sf -> run (n + 1) s0 = Done v sf.
Proof. intros n s0 s1 v sf Hn Hf. rewrite (run_nsteps n 1 s0 s1 Hn). simpl. rewrite Hf. reflexivity. Qed.

(** the fall-through state of the value theorem *)
Definition exit_state (s : state) (v' : value) (pre cd : code) (hx : list hobj) : state :=
  mkst (v' :: stk s) (fp s) (self s) (length pre + length cd) (heap s ++ hx) (globals s).

Section Iff.
  Variables (c : lctx) (svs : nat -> list name) (fuel : nat) (e : ast) (env : senv) (st : sstore).
  Variables (tl : bool) (s : state) (pre post : code).
  Let cd := generate tl svs (Some c) e.
  Hypothesis Hpure : pure (l_id c) (svs (l_id c)) e = true.
  Hypothesis Hfuel : depth e <= fuel.
  Hypothesis Hbinds : binds (l_id c) env st e.
  Hypothesis Hcode : code_of (self s) = pre ++ cd ++ IDone :: post.
  Hypothesis Hip : ip s = length pre.
  Hypothesis Hok : env_ok c svs env st s.
  Hypothesis Hgc : globals_complete st s.

  Lemma exit_halts : forall v' hx, step (exit_state s v' pre cd hx) = Halt v' (exit_state s v' pre cd hx).
  Proof.
    intros v' hx. apply (step_done _ (pre ++ cd) post v' (stk s)); [|reflexivity].
    split; simpl; [|rewrite app_length; reflexivity]. rewrite Hcode. norm_code.
  Qed.

  (** exactly one of the two outcomes, on both sides *)
  Lemma pure_outcome :
    (exists v n v' hx, eval fuel e env st = SVal v st
        /\ nsteps n s = Some (exit_state s v' pre cd hx) /\ vrel (heap s ++ hx) v' v)
    \/ (exists er n s1, eval fuel e env st = SErr er /\ (er = EType \/ er = EUndefGlobal)
        /\ nsteps n s = Some s1 /\ step s1 = Fail er).
  Proof.
    destruct (compile_correct_pure_total _ _ fuel e env st Hpure Hfuel Hbinds) as [[v Ev] | [er [Ev Hg]]].
    - left. destruct (compile_correct_pure_fragment c svs fuel e env st v st tl s pre (IDone :: post) Hpure Ev Hcode Hip Hok)
        as (_ & n & v' & hx & Hn & Hv).
      exists v, n, v', hx. auto.
    - right. assert (Hner : er <> EStuck) by (destruct Hg; congruence).
      destruct (compile_correct_pure_error c svs fuel e env st er tl s pre (IDone :: post) Hpure Ev Hner Hcode Hip Hok Hgc)
        as (n & s1 & Hn & Hf).
      exists er, n, s1. auto.
  Qed.

  Theorem pure_iff_err : forall er,
    eval fuel e env st = SErr er <-> exists n s1, nsteps n s = Some s1 /\ step s1 = Fail er.
  Proof.
    intro er. destruct pure_outcome as [(v0 & n0 & v0' & hx0 & Ev & Hn0 & Hv0) | (er0 & n0 & s0 & Ev & Hg & Hn0 & Hf0)].
    - split; [rewrite Ev; discriminate|]. intros (n & s1 & Hn & Hf). exfalso.
      destruct (nsteps_stop_unique _ _ _ _ _ Hn (not_next_fail _ _ Hf) Hn0 (not_next_halt _ _ _ (exit_halts v0' hx0))) as [_ ->].
      rewrite exit_halts in Hf. discriminate Hf.
    - split.
      + rewrite Ev. intro E; inversion E; subst er0. eauto.
      + intros (n & s1 & Hn & Hf).
        destruct (nsteps_stop_unique _ _ _ _ _ Hn (not_next_fail _ _ Hf) Hn0 (not_next_fail _ _ Hf0)) as [_ ->].
        rewrite Hf0 in Hf. inversion Hf; subst er0. exact Ev.
  Qed.

  Theorem pure_iff_val : forall v,
    eval fuel e env st = SVal v st <->
    exists n v' hx, nsteps n s = Some (exit_state s v' pre cd hx) /\ vrel (heap s ++ hx) v' v.
  Proof.
    intro v. destruct pure_outcome as [(v0 & n0 & v0' & hx0 & Ev & Hn0 & Hv0) | (er0 & n0 & s0 & Ev & Hg & Hn0 & Hf0)].
    - split.
      + rewrite Ev. intro E; inversion E; subst v0. eauto.
      + intros (n & v' & hx & Hn & Hv).
        destruct (nsteps_stop_unique _ _ _ _ _ Hn (not_next_halt _ _ _ (exit_halts v' hx))
                    Hn0 (not_next_halt _ _ _ (exit_halts v0' hx0))) as [_ E].
        pose proof (f_equal stk E) as Es. pose proof (f_equal heap E) as Eh. simpl in Es, Eh.
        inversion Es; subst v0'. rewrite <- Eh in Hv0. rewrite (vrel_fun _ _ _ _ Hv Hv0). exact Ev.
    - split; [rewrite Ev; discriminate|]. intros (n & v' & hx & Hn & Hv). exfalso.
      destruct (nsteps_stop_unique _ _ _ _ _ Hn (not_next_halt _ _ _ (exit_halts v' hx)) Hn0 (not_next_fail _ _ Hf0)) as [_ E].
      rewrite <- E, exit_halts in Hf0. discriminate Hf0.
  Qed.

  (** the same with [Model.run] *)
  Theorem pure_run_iff_err : forall er, eval fuel e env st = SErr er <-> exists k, run k s = Error er.
  Proof.
    intro er. rewrite pure_iff_err. split.
    - intros (n & s1 & Hn & Hf). exists (n + 1). eapply run_of_fail; eauto.
    - intros (k & Hk). eapply run_Error_inv; eauto.
  Qed.

  Theorem pure_run_iff_val : forall v,
    eval fuel e env st = SVal v st <-> exists k v' sf, run k s = Done v' sf /\ vrel (heap sf) v' v.
  Proof.
    intro v. split.
    - intro Ev. apply pure_iff_val in Ev. destruct Ev as (n & v' & hx & Hn & Hv).
      exists (n + 1), v', (exit_state s v' pre cd hx). split; [|exact Hv].
      eapply run_of_halt; [exact Hn|]. apply exit_halts.
    - intros (k & v' & sf & Hk & Hv).
      destruct (run_Done_inv _ _ _ _ Hk) as (n & s1 & Hn & Hh).
      destruct pure_outcome as [(v0 & n0 & v0' & hx0 & Ev & Hn0 & Hv0) | (er0 & n0 & s0 & Ev & Hg & Hn0 & Hf0)].
      + destruct (nsteps_stop_unique _ _ _ _ _ Hn (not_next_halt _ _ _ Hh)
                    Hn0 (not_next_halt _ _ _ (exit_halts v0' hx0))) as [_ E].
        subst s1. rewrite exit_halts in Hh. inversion Hh; subst v0' sf. simpl in Hv.
        rewrite (vrel_fun _ _ _ _ Hv Hv0). exact Ev.
      + exfalso.
        destruct (nsteps_stop_unique _ _ _ _ _ Hn (not_next_halt _ _ _ Hh) Hn0 (not_next_fail _ _ Hf0)) as [_ E].
        subst s1. rewrite Hf0 in Hh. discriminate Hh.
  Qed.
End Iff.

(** the equivalence in closed form: e's code followed by IDone (a complete VM run) *)
Theorem compile_correct_pure_iff : forall c svs fuel e env st tl s pre post,
  pure (l_id c) (svs (l_id c)) e = true ->
  depth e <= fuel -> binds (l_id c) env st e ->
  code_of (self s) = pre ++ generate tl svs (Some c) e ++ IDone :: post -> ip s = length pre ->
  env_ok c svs env st s -> globals_complete st s ->
  (forall er, eval fuel e env st = SErr er <-> exists n s1, nsteps n s = Some s1 /\ step s1 = Fail er)
  /\ (forall v, eval fuel e env st = SVal v st <->
        exists n v' hx,
          nsteps n s = Some (mkst (v' :: stk s) (fp s) (self s) (length pre + length (generate tl svs (Some c) e))
                                  (heap s ++ hx) (globals s))
          /\ vrel (heap s ++ hx) v' v).
Proof.
  intros c svs fuel e env st tl s pre post Hp Hd Hb Hc Hi Hok Hgc. split.
  - intro er. eapply pure_iff_err; eauto.
  - intro v. exact (pure_iff_val c svs fuel e env st tl s pre post Hp Hd Hb Hc Hi Hok Hgc v).
Qed.

(** the equivalence phrased with the VM's [run]: the SPEC errs with class er iff the VM run ends in
    [Error er]; the SPEC gives v iff the VM run ends in [Done v' _] with v' representing v *)
Theorem compile_correct_pure_run_iff : forall c svs fuel e env st tl s pre post,
  pure (l_id c) (svs (l_id c)) e = true ->
  depth e <= fuel -> binds (l_id c) env st e ->
  code_of (self s) = pre ++ generate tl svs (Some c) e ++ IDone :: post -> ip s = length pre ->
  env_ok c svs env st s -> globals_complete st s ->
  (forall er, eval fuel e env st = SErr er <-> exists k, run k s = Error er)
  /\ (forall v, eval fuel e env st = SVal v st <-> exists k v' sf, run k s = Done v' sf /\ vrel (heap sf) v' v).
Proof.
  intros c svs fuel e env st tl s pre post Hp Hd Hb Hc Hi Hok Hgc. split.
  - intro er. eapply pure_run_iff_err; eauto.
  - intro v. exact (pure_run_iff_val c svs fuel e env st tl s pre post Hp Hd Hb Hc Hi Hok Hgc v).
Qed.

(** the error equivalence for an ARBITRARY continuation [post]: it suffices that the fall-through state
    cannot itself run into the error class er later on (so that a VM failure of class er is attributable
    to e's code).  The IDone case above is the instance where the fall-through state halts. *)
Lemma nsteps_split : forall m n s s1 s2,
  nsteps m s = Some s2 -> nsteps (m + n) s = Some s1 -> nsteps n s2 = Some s1.
Proof.
  induction m as [|m IH]; intros n s s1 s2 H1 H2.
  - simpl in H1, H2. inversion H1; subst s2. exact H2.
  - simpl in H1, H2. destruct (step s) as [s'| |]; try discriminate. eapply IH; eauto.
Qed.

Theorem compile_correct_pure_error_iff : forall c svs fuel e env st er tl s pre post,
  pure (l_id c) (svs (l_id c)) e = true ->
  depth e <= fuel -> binds (l_id c) env st e ->
  code_of (self s) = pre ++ generate tl svs (Some c) e ++ post -> ip s = length pre ->
  env_ok c svs env st s -> globals_complete st s ->
  (forall v' hx, ~ exists n s1,
      nsteps n (mkst (v' :: stk s) (fp s) (self s) (length pre + length (generate tl svs (Some c) e))
                     (heap s ++ hx) (globals s)) = Some s1 /\ step s1 = Fail er) ->
  (eval fuel e env st = SErr er <-> exists n s1, nsteps n s = Some s1 /\ step s1 = Fail er).
Proof.
  intros c svs fuel e env st er tl s pre post Hp Hd Hb Hc Hi Hok Hgc Hexit.
  destruct (compile_correct_pure_total _ _ fuel e env st Hp Hd Hb) as [[v0 Ev] | [er0 [Ev Hg]]].
  - split; [rewrite Ev; discriminate|]. intros (n & s1 & Hn & Hf). exfalso.
    destruct (compile_correct_pure_fragment c svs fuel e env st v0 st tl s pre post Hp Ev Hc Hi Hok)
      as (_ & n0 & v' & hx & Hn0 & _).
    destruct (le_lt_dec n0 n) as [Hle | Hlt].
    + replace n with (n0 + (n - n0)) in Hn by lia.
      apply (Hexit v' hx). exists (n - n0), s1. split; auto. eapply nsteps_split; eauto.
    + replace n0 with (n + S (n0 - n - 1)) in Hn0 by lia.
      rewrite (nsteps_fail_stuck _ _ _ _ _ Hn Hf) in Hn0. discriminate Hn0.
  - assert (Hner : er0 <> EStuck) by (destruct Hg; congruence).
    destruct (compile_correct_pure_error c svs fuel e env st er0 tl s pre post Hp Ev Hner Hc Hi Hok Hgc)
      as (n0 & s0 & Hn0 & Hf0).
    split.
    + rewrite Ev. intro E; inversion E; subst er0. eauto.
    + intros (n & s1 & Hn & Hf).
      destruct (nsteps_stop_unique _ _ _ _ _ Hn (not_next_fail _ _ Hf) Hn0 (not_next_fail _ _ Hf0)) as [_ ->].
      rewrite Hf0 in Hf. inversion Hf; subst er0. exact Ev.
Qed.

(* ------------------------------------------------------------------ 4. the hypotheses are satisfiable; concrete runs *)

Module ExampleErr.
  Definition c0 : lctx := mk_lctx 0 [0] None [] [].
  Definition svs0 : nat -> list name := fun _ => [].
  Definition env0 : senv := [((0, Local 0), 0)].
  (** the parameter x = 0; the only global is 9 (= 7) *)
  Definition st0 : sstore := mkstore [SLit (LInt 0)] [(9, SLit (LInt 7))].

  (** (lambda (x) (car (if (< x 1) 5 x))) applied to 0: car of the fixnum 5 *)
  Definition e1 : ast :=
    OpApp PCar [Cnd (OpApp PLt [Ref 0 (Local 0); Lit (LInt 1)]) (Lit (LInt 5)) (Ref 0 (Local 0))].
  (** (lambda (x) (+ x (begin 1 g8))) applied to 0, global 8 unbound: the error arises in the operand
      evaluated first (right to left), behind a skipped literal of a sequence *)
  Definition e2 : ast := OpApp PAdd [Ref 0 (Local 0); Seq [Lit (LInt 1); Ref 8 Global]].
  (** (> (car x) g8): for the inverse primitive the operands go left to right, so the type error of
      (car 0) wins over the unbound global; with (< g8 (car x)) it is the same (right to left) *)
  Definition e3 : ast := OpApp PGt [OpApp PCar [Ref 0 (Local 0)]; Ref 8 Global].
  (** (< (car x) g8): right to left, the unbound global wins *)
  Definition e4 : ast := OpApp PLt [OpApp PCar [Ref 0 (Local 0)]; Ref 8 Global].

  (** as a procedure body (followed by RET), and as a complete run (followed by DONE) *)
  Definition code_ret (e : ast) : code := generate true svs0 (Some c0) e ++ [IRet].
  Definition code_done (e : ast) : code := generate false svs0 (Some c0) e ++ [IDone].
  (** the frame make_call builds for one argument 0 *)
  Definition state_for (cd : code) : state :=
    mkst [vint 0; VLit LVoid; vint 0; vint 1; VLit (LInt 0)] 1 (VProc 0 1 cd (VLit LVoid)) 0 [] [(9, VLit (LInt 7))].

  Example pure_e1 : pure (l_id c0) (svs0 (l_id c0)) e1 = true. Proof. reflexivity. Qed.
  Example pure_e2 : pure (l_id c0) (svs0 (l_id c0)) e2 = true. Proof. reflexivity. Qed.
  Example pure_e3 : pure (l_id c0) (svs0 (l_id c0)) e3 = true. Proof. reflexivity. Qed.
  Example pure_e4 : pure (l_id c0) (svs0 (l_id c0)) e4 = true. Proof. reflexivity. Qed.

  (** SPEC outcomes *)
  Example eval_e1 : eval 10 e1 env0 st0 = SErr EType. Proof. vm_compute. reflexivity. Qed.
  Example eval_e2 : eval 10 e2 env0 st0 = SErr EUndefGlobal. Proof. vm_compute. reflexivity. Qed.
  Example eval_e3 : eval 10 e3 env0 st0 = SErr EType. Proof. vm_compute. reflexivity. Qed.
  Example eval_e4 : eval 10 e4 env0 st0 = SErr EUndefGlobal. Proof. vm_compute. reflexivity. Qed.

  (** VM outcomes, observed *)
  Example run_e1 : run 20 (state_for (code_ret e1)) = Error EType. Proof. vm_compute. reflexivity. Qed.
  Example run_e2 : run 20 (state_for (code_ret e2)) = Error EUndefGlobal. Proof. vm_compute. reflexivity. Qed.
  Example run_e3 : run 20 (state_for (code_ret e3)) = Error EType. Proof. vm_compute. reflexivity. Qed.
  Example run_e4 : run 20 (state_for (code_ret e4)) = Error EUndefGlobal. Proof. vm_compute. reflexivity. Qed.
  Example run_e1_done : run 20 (state_for (code_done e1)) = Error EType. Proof. vm_compute. reflexivity. Qed.

  (** the hypotheses of the theorems hold *)
  Lemma env_ok_for : forall cd, env_ok c0 svs0 env0 st0 (state_for cd).
  Proof.
    intro cd. split.
    - intros x a w _ He Hc. simpl in He. unfold vref_eqb in He. simpl in He.
      destruct (Nat.eqb x 0) eqn:E; simpl in He; try discriminate. apply Nat.eqb_eq in E. subst x.
      inversion He; subst a. simpl in Hc. inversion Hc; subst w.
      exists 0, (VLit (LInt 0)). repeat split.
    - intros g w Hg. simpl in Hg. destruct (Nat.eqb g 9) eqn:E; try discriminate. apply Nat.eqb_eq in E. subst g.
      inversion Hg; subst w. exists (VLit (LInt 7)). split; reflexivity.
  Qed.

  Lemma globals_complete_for : forall cd, globals_complete st0 (state_for cd).
  Proof. intros cd g Hg. simpl in Hg |- *. destruct (Nat.eqb g 9); [discriminate|reflexivity]. Qed.

  Lemma binds_e1 : binds (l_id c0) env0 st0 e1.
  Proof.
    intros x Hx. destruct x as [|x]; [|vm_compute in Hx; discriminate Hx].
    exists 0, (SLit (LInt 0)). split; reflexivity.
  Qed.

  Lemma binds_e2 : binds (l_id c0) env0 st0 e2.
  Proof.
    intros x Hx. destruct x as [|x]; [|cbn in Hx; rewrite ?andb_false_r in Hx; discriminate Hx].
    exists 0, (SLit (LInt 0)). split; reflexivity.
  Qed.

  (** [compile_correct_pure_error] applied: the VM reaches a failing state of the SPEC's error class *)
  Example thm_e1 : exists n s', nsteps n (state_for (code_ret e1)) = Some s' /\ step s' = Fail EType.
  Proof.
    apply (compile_correct_pure_error c0 svs0 10 e1 env0 st0 EType true (state_for (code_ret e1)) [] [IRet] pure_e1 eval_e1).
    - discriminate.
    - reflexivity.
    - reflexivity.
    - apply env_ok_for.
    - apply globals_complete_for.
  Qed.

  Example thm_e2 : exists n s', nsteps n (state_for (code_ret e2)) = Some s' /\ step s' = Fail EUndefGlobal.
  Proof.
    apply (compile_correct_pure_error c0 svs0 10 e2 env0 st0 EUndefGlobal true (state_for (code_ret e2)) [] [IRet] pure_e2 eval_e2).
    - discriminate.
    - reflexivity.
    - reflexivity.
    - apply env_ok_for.
    - apply globals_complete_for.
  Qed.

  (** [compile_correct_pure_total] and [compile_correct_pure_run_iff] applied *)
  Example total_e1 : (exists v, eval 4 e1 env0 st0 = SVal v st0)
                     \/ (exists er, eval 4 e1 env0 st0 = SErr er /\ (er = EType \/ er = EUndefGlobal)).
  Proof. apply (compile_correct_pure_total (l_id c0) (svs0 (l_id c0))); [reflexivity | vm_compute; lia | apply binds_e1]. Qed.

  Example iff_e1 : forall er, eval 4 e1 env0 st0 = SErr er <-> exists k, run k (state_for (code_done e1)) = Error er.
  Proof.
    apply (compile_correct_pure_run_iff c0 svs0 4 e1 env0 st0 false (state_for (code_done e1)) [] []).
    - reflexivity.
    - vm_compute; lia.
    - apply binds_e1.
    - reflexivity.
    - reflexivity.
    - apply env_ok_for.
    - apply globals_complete_for.
  Qed.

  Example iff_e2 : forall er, eval 3 e2 env0 st0 = SErr er <-> exists k, run k (state_for (code_done e2)) = Error er.
  Proof.
    apply (compile_correct_pure_run_iff c0 svs0 3 e2 env0 st0 false (state_for (code_done e2)) [] []).
    - reflexivity.
    - vm_compute; lia.
    - apply binds_e2.
    - reflexivity.
    - reflexivity.
    - apply env_ok_for.
    - apply globals_complete_for.
  Qed.
End ExampleErr.

(** the counterexample that motivates the IDone hypothesis of the equivalence: with the continuation
    [IPrim PCar] after the code of the literal 1, the SPEC gives a value but the VM reaches a failing state *)
Module CounterExample.
  Import ExampleErr.
  Definition sx : state := state_for (generate false svs0 (Some c0) (Lit (LInt 1)) ++ [IPrim PCar]).
  Example spec_value : eval 1 (Lit (LInt 1)) env0 st0 = SVal (SLit (LInt 1)) st0.
  Proof. reflexivity. Qed.
  Example vm_fails_later : exists n s', nsteps n sx = Some s' /\ step s' = Fail EType.
  Proof. exists 1. eexists. split; vm_compute; reflexivity. Qed.
End CounterExample.

Print Assumptions compile_correct_pure_error.
Print Assumptions compile_correct_pure_total.
Print Assumptions compile_correct_pure_iff.
Print Assumptions compile_correct_pure_run_iff.
Print Assumptions compile_correct_pure_error_iff.
