(** C03 — executable model of chibi-scheme's free-variable pass, slot indexing, unused-rest
    analysis, code generator and VM call protocol.  No proofs in this file.

    Mirrors (pinned tree + fixes/C03-*.patch):
      eval.c:272-293    sexp_param_index          -> [param_index]
      eval.c:1232-1296  insert/union/diff/sexp_free_vars -> [insert_free_var] ... [free_vars], [annotate]
      simplify.c:160-194 usedp / sexp_rest_unused_p -> [usedp], [rest_unused]
      vm.c:217-346, 503-524, 664-778  generate_*  -> [generate]
      vm.c:1282-1356, 2270-2279  TAIL_CALL / CALL / make_call / RET -> [make_call], [step]          *)
From Coq Require Import ZArith List Bool Arith Lia.
From ChibiV Require Import C03.Defs.
Import ListNotations.
Local Open Scope nat_scope.

(* ------------------------------------------------------------------ free variables *)

(** eval.c:1232-1239 insert_free_var *)
Definition insert_free_var (x : vref) (fv : list vref) : list vref :=
  if existsb (vref_eqb x) fv then fv else x :: fv.

(** eval.c:1241-1250 union_free_vars: fv2 is the accumulator, fv1 is inserted element by element *)
Definition union_free_vars (fv1 fv2 : list vref) : list vref :=
  match fv2 with
  | [] => fv1
  | _ => fold_left (fun res x => insert_free_var x res) fv1 fv2
  end.

(** eval.c:1252-1263 diff_free_vars: keeps what the lambda does not bind; sexp_push reverses *)
Definition diff_keep (id : nat) (bound : list name) (x : vref) : bool :=
  negb (loc_eqb (snd x) (Local id)) || negb (memn (fst x) bound).
Definition diff_free_vars (id : nat) (fv : list vref) (bound : list name) : list vref :=
  fold_left (fun res x => if diff_keep id bound x then x :: res else res) fv [].

(** eval.c:1271-1272: locals ++ flatten_dot(params) *)
Definition bound_names (ps : list name) (r : option name) (ls : list name) : list name :=
  ls ++ ps ++ match r with Some x => [x] | None => [] end.

(** eval.c:1265-1296 sexp_free_vars (the accumulator is threaded exactly as in C) *)
Fixpoint free_vars (x : ast) (fv : list vref) {struct x} : list vref :=
  match x with
  | Lit _ => fv
  | Ref n o => match o with Local _ => insert_free_var (n, o) fv | Global => fv end
  | SetV n o v =>
      let fv1 := free_vars v fv in
      match o with Local _ => insert_free_var (n, o) fv1 | Global => fv1 end
  | Cnd t p f => free_vars f (free_vars p (free_vars t fv))
  | Seq es =>
      (fix go (l : list ast) (acc : list vref) : list vref :=
         match l with [] => acc | e :: r => go r (free_vars e acc) end) es fv
  | Lam id ps r ls _ _ b =>
      union_free_vars (diff_free_vars id (free_vars b []) (bound_names ps r ls)) fv
  | App f args =>
      (fix go (l : list ast) (acc : list vref) : list vref :=
         match l with [] => acc | e :: r => go r (free_vars e acc) end) args (free_vars f fv)
  | OpApp _ args =>
      (fix go (l : list ast) (acc : list vref) : list vref :=
         match l with [] => acc | e :: r => go r (free_vars e acc) end) args fv
  end.

(** the value stored into sexp_lambda_fv (eval.c:1273-1274) *)
Definition lam_fv (id : nat) (ps : list name) (r : option name) (ls : list name) (b : ast) : list vref :=
  diff_free_vars id (free_vars b []) (bound_names ps r ls).

(** the in-place update of every lambda's fv field done by sexp_free_vars *)
Fixpoint annotate (x : ast) : ast :=
  match x with
  | Lit l => Lit l
  | Ref n o => Ref n o
  | SetV n o v => SetV n o (annotate v)
  | Cnd t p f => Cnd (annotate t) (annotate p) (annotate f)
  | Seq es => Seq (map annotate es)
  | Lam id ps r ls sv _ b => Lam id ps r ls sv (lam_fv id ps r ls b) (annotate b)
  | App f args => App (annotate f) (map annotate args)
  | OpApp p args => OpApp p (map annotate args)
  end.

(* ------------------------------------------------------------------ slot indices *)

Fixpoint index_of (x : name) (l : list name) : option nat :=
  match l with
  | [] => None
  | y :: r => if Nat.eqb y x then Some 0 else option_map S (index_of x r)
  end.

(** eval.c:272-293 sexp_param_index: parameters 0,1,..; rest = number of fixed parameters;
    locals -5,-6,.. (i starts at -1 and the result is i-4); -10000 "can't happen" *)
Definition param_index (ps : list name) (r : option name) (ls : list name) (x : name) : Z :=
  match index_of x ps with
  | Some i => Z.of_nat i
  | None =>
      if match r with Some y => Nat.eqb y x | None => false end then Z.of_nat (length ps)
      else match index_of x ls with
           | Some i => (- Z.of_nat i - 5)%Z
           | None => (-10000)%Z
           end
  end.

(* ------------------------------------------------------------------ unused rest parameter *)

(** simplify.c:160-186 usedp.  [fixed = true] is the repaired function (fixes/C03-rest-assigned.patch:
    the target of a set! counts as a use); [fixed = false] is the pinned behaviour, kept only for
    the refutation witness in Proofs.v. *)
Fixpoint usedp (fixed : bool) (id : nat) (var : name) (x : ast) {struct x} : bool :=
  match x with
  | Lit _ => false
  | Ref n o => Nat.eqb n var && loc_eqb o (Local id)
  | SetV n o v => (fixed && Nat.eqb n var && loc_eqb o (Local id)) || usedp fixed id var v
  | Lam _ _ _ _ _ _ b => usedp fixed id var b
  | Cnd t p f => usedp fixed id var t || usedp fixed id var p || usedp fixed id var f
  | Seq es =>
      (fix go (l : list ast) : bool :=
         match l with [] => false | e :: r => usedp fixed id var e || go r end) es
  | App f args =>
      usedp fixed id var f ||
      (fix go (l : list ast) : bool :=
         match l with [] => false | e :: r => usedp fixed id var e || go r end) args
  | OpApp _ args =>
      (fix go (l : list ast) : bool :=
         match l with [] => false | e :: r => usedp fixed id var e || go r end) args
  end.

(** simplify.c:188-194 sexp_rest_unused_p, the [usedp] part (the whole function up to /repo 7788b66) *)
Definition rest_unused (fixed : bool) (id : nat) (r : option name) (body : ast) : bool :=
  match r with
  | None => false
  | Some v => negb (usedp fixed id v body)
  end.

(** simplify.c:190-201 sexp_rest_unused_p as of /repo 7788b66: a rest parameter listed in the lambda's
    set-vars is never unused (the prologue boxes its slot, vm.c:699-707, whether or not an assignment
    survived simplification); the set-vars loop runs BEFORE usedp. *)
Definition rest_in_sv (r : option name) (sv : list name) : bool :=
  match r with
  | None => false
  | Some v => existsb (Nat.eqb v) sv
  end.

Definition rest_unused_p (fixed : bool) (id : nat) (r : option name) (sv : list name) (body : ast) : bool :=
  if rest_in_sv r sv then false else rest_unused fixed id r body.

(* ------------------------------------------------------------------ code generation *)

Record lctx := mk_lctx {
  l_id : nat; l_params : list name; l_rest : option name; l_locals : list name; l_fv : list vref }.

(** vm.c:276-279: position of (name, loc) in the current lambda's fv list; length when absent *)
Fixpoint closure_index (r : vref) (fv : list vref) : nat :=
  match fv with
  | [] => 0
  | y :: t => if vref_eqb r y then 0 else S (closure_index r t)
  end.

Definition sv_of (svs : nat -> list name) (o : loc) : list name :=
  match o with Local m => svs m | Global => [] end.

(** vm.c:266-286 generate_non_global_ref *)
Definition gen_non_global_ref (svs : nat -> list name) (cur : option lctx)
           (x : name) (o : loc) (unboxp : bool) : code :=
  (match cur with
   | Some c =>
       if loc_eqb o (Local (l_id c))
       then [ILocalRef (param_index (l_params c) (l_rest c) (l_locals c) x)]
       else [IClosureRef (closure_index (x, o) (l_fv c))]
   | None => [IClosureRef 0]
   end) ++ (if unboxp && memn x (sv_of svs o) then [ICdr] else []).

(** vm.c:288-310 generate_ref *)
Definition gen_ref (svs : nat -> list name) (cur : option lctx) (x : name) (o : loc) (unboxp : bool) : code :=
  match o with
  | Global => if unboxp then [IGlobalRef x] else [IPushCell x]
  | Local _ =>
      match cur with
      | None => [IPush LVoid]                      (* "variable out of phase" *)
      | Some _ => gen_non_global_ref svs cur x o unboxp
      end
  end.

Definition is_set_or_lit (e : ast) : bool :=
  match e with SetV _ _ _ | Lit _ => true | _ => false end.
Definition is_lit (e : ast) : bool := match e with Lit _ => true | _ => false end.

(** vm.c:221-230 generate_drop_prev: a trailing PUSH (of a set!'s void or a literal) is rewound *)
Definition drop_prev (e : ast) (c : code) : code :=
  if is_set_or_lit e then removelast c else c ++ [IDrop].

Definition prim_inverse (p : prim) : bool := match p with PGt | PGe => true | _ => false end.
Definition prim_arith (p : prim) : bool := match p with PAdd | PSub | PMul => true | _ => false end.
(** ">" and ">=" are the LT / LE opcodes *)
Definition prim_opcode (p : prim) : prim := match p with PGt => PLt | PGe => PLe | q => q end.

Definition lam_flags (id : nat) (r : option name) (b : ast) : nat :=
  match r with
  | None => 0
  | Some _ => PROC_VARIADIC + (if rest_unused true id r b then PROC_UNUSED_REST else 0)
  end.

(** vm.c generate_lambda: flags from the real sexp_rest_unused_p (set-vars consulted first) *)
Definition lam_flags_sv (id : nat) (r : option name) (sv : list name) (b : ast) : nat :=
  match r with
  | None => 0
  | Some _ => PROC_VARIADIC + (if rest_unused_p true id r sv b then PROC_UNUSED_REST else 0)
  end.

(** vm.c:699-707: box every variable in sv at procedure entry *)
Definition box_code (ps : list name) (r : option name) (ls sv : list name) : code :=
  flat_map (fun x => let k := param_index ps r ls x in
                     [ILocalRef k; IPush (LSym x); ICons; ILocalSet k]) sv.

(** vm.c:740-749: fill the closure vector in fv order *)
Fixpoint closure_fill (svs : nat -> list name) (cur : option lctx) (k : nat) (l : list vref) : code :=
  match l with
  | [] => []
  | (x, o) :: t =>
      gen_non_global_ref svs cur x o false
      ++ [IPush (LInt (Z.of_nat k)); IStackRef 3; IVectorSet] ++ closure_fill svs cur (S k) t
  end.

(** vm.c:761-778 sexp_generate and the generate_* it dispatches to.  [tail] = sexp_context_tailp,
    [cur] = sexp_context_lambda, [svs m] = sexp_lambda_sv of the lambda with id m. *)
Fixpoint generate (tail : bool) (svs : nat -> list name) (cur : option lctx) (e : ast) {struct e} : code :=
  match e with
  | Lit l => [IPush (lit_value l)]                                  (* generate_lit; vm.c:772 SEXP_LIT: the unwrapped value *)
  | Ref x o => gen_ref svs cur x o true
  | SetV x o v =>                                                   (* generate_set *)
      generate false svs cur v ++
      (match o with
       | Global => [IPushCell x; ISetCdr]
       | Local m =>
           if memn x (svs m) then gen_ref svs cur x o false ++ [ISetCdr]
           else [ILocalSet (match cur with
                            | Some c => if Nat.eqb m (l_id c)
                                        then param_index (l_params c) (l_rest c) (l_locals c) x
                                        else (-10000)%Z
                            | None => (-10000)%Z
                            end)]
       end) ++ [IPush LVoid]
  | Cnd t p f =>                                                   (* generate_cnd *)
      let cp := generate tail svs cur p in
      let cf := generate tail svs cur f in
      generate false svs cur t ++ [IJumpUnless (S (length cp))] ++ cp ++ [IJump (length cf)] ++ cf
  | Seq es =>                                                      (* generate_seq *)
      (fix go (l : list ast) : code :=
         match l with
         | [] => []
         | e :: r =>
             match r with
             | [] => generate tail svs cur e
             | _ :: _ => (if is_lit e then [] else drop_prev e (generate false svs cur e)) ++ go r
             end
         end) es
  | App f args =>                                                  (* generate_general_app *)
      (fix go (l : list ast) : code :=
         match l with [] => [] | a :: r => go r ++ generate false svs cur a end) args
      ++ generate false svs cur f
      ++ [if tail then ITailCall (length args) else ICall (length args)]
  | OpApp p args =>                                                (* generate_opcode_app *)
      (if prim_inverse p
       then (fix go (l : list ast) : code :=
               match l with [] => [] | a :: r => generate false svs cur a ++ go r end) args
       else (fix go (l : list ast) : code :=
               match l with [] => [] | a :: r => go r ++ generate false svs cur a end) args)
      ++ (if prim_arith p then repeat (IPrim (prim_opcode p)) (length args - 1)
          else [IPrim (prim_opcode p)])
  | Lam id ps r ls sv fv b =>                                      (* generate_lambda *)
      let c := mk_lctx id ps r ls fv in
      let svs' := fun m => if Nat.eqb m id then sv else svs m in
      let body := repeat (IPush LUndef) (length ls) ++ box_code ps r ls sv
                  ++ generate true svs' (Some c) b ++ [IRet] in
      let flags := lam_flags_sv id r sv b in
      match fv with
      | [] => [IPushProc flags (length ps) body]
      | _ :: _ =>
          [IPush LVoid; IPush (LInt (Z.of_nat (length fv))); IMakeVector]
          ++ closure_fill svs cur 0 fv ++ [IMakeProc flags (length ps) body]
      end
  end.

(** eval.c:2690-2711 sexp_generate_op: a top-level form becomes a thunk; the context is created
    with tailp = 1 (sexp.c:697) *)
Definition compile_toplevel (e : ast) : code :=
  generate true (fun _ => []) None (annotate e) ++ [IRet].

(* ------------------------------------------------------------------ the VM *)

Record state := mkst {
  stk : list value;            (* head = top of stack; absolute index 0 = last element *)
  fp : nat; self : value; ip : nat;
  heap : list hobj; globals : list (nat * value) }.

Inductive outcome := Next (s : state) | Halt (v : value) (s : state) | Fail (e : err).

Definition sget (s : list value) (k : nat) : option value :=
  if k <? length s then nth_error s (length s - 1 - k) else None.

Fixpoint list_set {A} (l : list A) (n : nat) (v : A) : list A :=
  match l, n with
  | [], _ => []
  | _ :: t, 0 => v :: t
  | h :: t, S m => h :: list_set t m v
  end.

Definition sset (s : list value) (k : nat) (v : value) : option (list value) :=
  if k <? length s then Some (list_set s (length s - 1 - k) v) else None.

(** the lowest k slots *)
Definition below (k : nat) (s : list value) : list value := skipn (length s - k) s.

(** stack[fp - 1 - k] *)
Definition slot (fp : nat) (k : Z) : option nat :=
  let a := (Z.of_nat fp - 1 - k)%Z in
  if (a <? 0)%Z then None else Some (Z.to_nat a).

Definition vint (n : nat) : value := VLit (LInt (Z.of_nat n)).

Definition alloc (h : list hobj) (o : hobj) : list hobj * nat := (h ++ [o], length h).

(** vm.c:1326-1328: the rest list is consed from the last extra argument backwards *)
Fixpoint build_list (h : list hobj) (vs : list value) : list hobj * value :=
  match vs with
  | [] => (h, VLit LNil)
  | v :: r =>
      let '(h1, tl) := build_list h r in
      let '(h2, a) := alloc h1 (HPair v tl) in
      (h2, VPair a)
  end.

Definition code_of (v : value) : code := match v with VProc _ _ c _ => c | _ => [] end.
Definition vars_of (v : value) : value := match v with VProc _ _ _ vs => vs | _ => VLit LVoid end.

(** vm.c:1305-1356 make_call.  [st] = the stack with the procedure already popped: the i
    arguments (first argument on top) followed by the rest of the stack. *)
Definition make_call (s : state) (proc : value) (st : list value) (i : nat)
           (ret_ip : nat) (ret_self : value) (ret_fp : nat) : outcome :=
  match proc with
  | VProc flags nargs c vars =>
      if length st <? i then Fail EStuck else
      if i <? nargs then Fail ENotEnoughArgs else
      let j := i - nargs in
      let variadic := Nat.testbit flags 0 in
      let unused := Nat.testbit flags 1 in
      let enter (st' : list value) (i' : nat) (h' : list hobj) :=
        Next (mkst (vint ret_fp :: ret_self :: vint ret_ip :: vint i' :: st')
                   (length st') proc 0 h' (globals s)) in
      if 0 <? j then
        if variadic then
          if unused then enter st i (heap s)
          else
            let '(h', l) := build_list (heap s) (firstn j (skipn nargs st)) in
            enter (firstn nargs st ++ l :: skipn i st) (S nargs) h'
        else Fail ETooManyArgs
      else if variadic && negb unused then
        enter (firstn i st ++ VLit LNil :: skipn i st) (S i) (heap s)
      else enter st i (heap s)
  | _ => Fail ENotProc
  end.

Definition frame_info (s : state) : option (nat * nat * value * nat) :=
  match sget (stk s) (fp s), sget (stk s) (fp s + 1), sget (stk s) (fp s + 2), sget (stk s) (fp s + 3) with
  | Some (VLit (LInt j)), Some (VLit (LInt rip)), Some rself, Some (VLit (LInt rfp)) =>
      if ((j <? 0) || (rip <? 0) || (rfp <? 0))%Z then None
      else Some (Z.to_nat j, Z.to_nat rip, rself, Z.to_nat rfp)
  | _, _, _, _ => None
  end.

Definition lit_eqb (a b : lit) : bool :=
  match a, b with
  | LInt x, LInt y => Z.eqb x y
  | LBool x, LBool y => Bool.eqb x y
  | LNil, LNil | LVoid, LVoid | LUndef, LUndef => true
  | LSym x, LSym y => Nat.eqb x y
  | LOpaque x, LOpaque y => Nat.eqb x y
  | _, _ => false
  end.

(** pointer equality (SEXP_OP_EQ); procedures are never equal in the model (not compared by
    the generated programs) *)
Definition value_eq (a b : value) : bool :=
  match a, b with
  | VLit x, VLit y => lit_eqb x y
  | VPair x, VPair y | VVec x, VVec y | VCell x, VCell y => Nat.eqb x y
  | _, _ => false
  end.

Definition vbool (b : bool) : value := VLit (LBool b).

(** opcode bodies of vm.c (ADD 1763, SUB 1792, MUL, LT 1930, LE, EQN, EQ 2051, CONS 1758, CAR,
    CDR 1738, NULLP 1633, TYPEP pair, NOT): stack in, stack out *)
Definition prim_step (p : prim) (st : list value) (h : list hobj) : option (list value * list hobj) + err :=
  match p, st with
  | (PAdd | PSub | PMul | PLt | PLe | PGt | PGe | PEqn), VLit (LInt a) :: VLit (LInt b) :: r =>
      inl (Some ((match p with
                  | PAdd => VLit (LInt (a + b)) | PSub => VLit (LInt (a - b)) | PMul => VLit (LInt (a * b))
                  | PLt | PGt => vbool (a <? b)%Z | PLe | PGe => vbool (a <=? b)%Z
                  | _ => vbool (a =? b)%Z
                  end) :: r, h))
  | (PAdd | PSub | PMul | PLt | PLe | PGt | PGe | PEqn), _ :: _ :: _ => inr EType
  | PEq, a :: b :: r => inl (Some (vbool (value_eq a b) :: r, h))
  | PCons, a :: d :: r => let '(h', ad) := alloc h (HPair a d) in inl (Some (VPair ad :: r, h'))
  | PCar, VPair a :: r =>
      match nth_error h a with Some (HPair x _) => inl (Some (x :: r, h)) | _ => inl None end
  | PCdr, VPair a :: r =>
      match nth_error h a with Some (HPair _ y) => inl (Some (y :: r, h)) | _ => inl None end
  | (PCar | PCdr), _ :: _ => inr EType
  | PNullp, v :: r => inl (Some (vbool (match v with VLit LNil => true | _ => false end) :: r, h))
  | PPairp, v :: r => inl (Some (vbool (match v with VPair _ => true | _ => false end) :: r, h))
  | PNot, v :: r => inl (Some (vbool (match v with VLit (LBool false) => true | _ => false end) :: r, h))
  | _, _ => inl None
  end.

Fixpoint assoc_nat {A} (k : nat) (l : list (nat * A)) : option A :=
  match l with
  | [] => None
  | (k', v) :: t => if Nat.eqb k k' then Some v else assoc_nat k t
  end.

Fixpoint assoc_set {A} (k : nat) (v : A) (l : list (nat * A)) : list (nat * A) :=
  match l with
  | [] => [(k, v)]
  | (k', v') :: t => if Nat.eqb k k' then (k, v) :: t else (k', v') :: assoc_set k v t
  end.

(** one iteration of the dispatch loop of sexp_apply (vm.c:1168-2285) for the modelled opcodes *)
Definition step (s : state) : outcome :=
  let st := stk s in
  let goto (st' : list value) (ip' : nat) (h' : list hobj) :=
    Next (mkst st' (fp s) (self s) ip' h' (globals s)) in
  let next (st' : list value) := goto st' (S (ip s)) (heap s) in
  match nth_error (code_of (self s)) (ip s) with
  | None => Fail EStuck
  | Some ins =>
    match ins with
    | IPush l => next (VLit l :: st)
    | IPushProc fl n c => next (VProc fl n c (VLit LVoid) :: st)
    | IMakeProc fl n c =>
        match st with v :: r => next (VProc fl n c v :: r) | _ => Fail EStuck end
    | ILocalRef k =>
        match slot (fp s) k with
        | Some a => match sget st a with Some v => next (v :: st) | None => Fail EStuck end
        | None => Fail EStuck
        end
    | ILocalSet k =>
        match st, slot (fp s) k with
        | v :: r, Some a => match sset r a v with Some r' => next r' | None => Fail EStuck end
        | _, _ => Fail EStuck
        end
    | IClosureRef k =>
        match vars_of (self s) with
        | VVec a =>
            match nth_error (heap s) a with
            | Some (HVec els) =>
                match nth_error els k with Some v => next (v :: st) | None => Fail EStuck end
            | _ => Fail EStuck
            end
        | _ => Fail EStuck
        end
    | IGlobalRef g =>
        match assoc_nat g (globals s) with Some v => next (v :: st) | None => Fail EUndefGlobal end
    | IPushCell g => next (VCell g :: st)
    | ICdr =>
        match st with
        | VPair a :: r =>
            match nth_error (heap s) a with Some (HPair _ d) => next (d :: r) | _ => Fail EStuck end
        | _ :: _ => Fail EType
        | [] => Fail EStuck
        end
    | ISetCdr =>
        match st with
        | VPair a :: v :: r =>
            match nth_error (heap s) a with
            | Some (HPair x _) => goto r (S (ip s)) (list_set (heap s) a (HPair x v))
            | _ => Fail EStuck
            end
        | VCell g :: v :: r =>
            Next (mkst r (fp s) (self s) (S (ip s)) (heap s) (assoc_set g v (globals s)))
        | _ :: _ :: _ => Fail EType
        | _ => Fail EStuck
        end
    | ICons =>
        match st with
        | a :: d :: r => let '(h', ad) := alloc (heap s) (HPair a d) in goto (VPair ad :: r) (S (ip s)) h'
        | _ => Fail EStuck
        end
    | IMakeVector =>
        match st with
        | VLit (LInt n) :: fill :: r =>
            if (n <? 0)%Z then Fail EType else
            let '(h', a) := alloc (heap s) (HVec (repeat fill (Z.to_nat n))) in
            goto (VVec a :: r) (S (ip s)) h'
        | _ :: _ :: _ => Fail EType
        | _ => Fail EStuck
        end
    | IStackRef k =>
        match k with
        | 0 => Fail EStuck
        | S k' => match nth_error st k' with Some v => next (v :: st) | None => Fail EStuck end
        end
    | IVectorSet =>
        match st with
        | VVec a :: VLit (LInt i) :: v :: r =>
            match nth_error (heap s) a with
            | Some (HVec els) =>
                if ((i <? 0) || (Z.of_nat (length els) <=? i))%Z then Fail EType
                else goto r (S (ip s)) (list_set (heap s) a (HVec (list_set els (Z.to_nat i) v)))
            | _ => Fail EStuck
            end
        | _ :: _ :: _ :: _ => Fail EType
        | _ => Fail EStuck
        end
    | IDrop => match st with _ :: r => next r | [] => Fail EStuck end
    | IJumpUnless n =>
        match st with
        | VLit (LBool false) :: r => goto r (S (ip s) + n) (heap s)
        | _ :: r => next r
        | [] => Fail EStuck
        end
    | IJump n => goto st (S (ip s) + n) (heap s)
    | ICall n =>
        match st with
        | proc :: r => make_call s proc r n (S (ip s)) (self s) (fp s)
        | [] => Fail EStuck
        end
    | ITailCall n =>                                       (* vm.c:1282-1300 *)
        match st, frame_info s with
        | proc :: r, Some (j, rip, rself, rfp) =>
            if (length r <? n) || (fp s <? j) then Fail EStuck
            else make_call s proc (firstn n r ++ below (fp s - j) st) n rip rself rfp
        | _, _ => Fail EStuck
        end
    | IRet =>                                              (* vm.c:2270-2279 *)
        match st, frame_info s with
        | res :: _, Some (j, rip, rself, rfp) =>
            if fp s <? j then Fail EStuck
            else Next (mkst (res :: below (fp s - j) st) rfp rself rip (heap s) (globals s))
        | _, _ => Fail EStuck
        end
    | IDone => match st with v :: _ => Halt v s | [] => Fail EStuck end
    | IPrim p =>
        match prim_step p st (heap s) with
        | inl (Some (st', h')) => goto st' (S (ip s)) h'
        | inl None => Fail EStuck
        | inr e => Fail e
        end
    end
  end.

Inductive result := Done (v : value) (s : state) | Error (e : err) | OutOfFuel.

Fixpoint run (fuel : nat) (s : state) : result :=
  match fuel with
  | 0 => OutOfFuel
  | S f =>
      match step s with
      | Next s' => run f s'
      | Halt v s' => Done v s'
      | Fail e => Error e
      end
  end.

(** vm.c:1072-1101 sexp_apply of a thunk: four scratch slots stand for whatever is below, the
    final resumer (bytecode DONE) is the procedure returned into *)
Definition final_resumer : value := VProc 0 0 [IDone] (VLit LVoid).

Definition init_state (c : code) (h : list hobj) (g : list (nat * value)) : outcome :=
  let base := [VLit LVoid; VLit LVoid; VLit LVoid; VLit LVoid] in
  make_call (mkst base 0 final_resumer 0 h g) (VProc 0 0 c (VLit LVoid)) base 0 0 final_resumer 0.

(** run a program = list of top-level forms, each compiled and applied in turn
    (eval.c:2745-2767 sexp_eval_op); the value of the last form is the result *)
Fixpoint run_program (fuel : nat) (forms : list ast) (h : list hobj) (g : list (nat * value)) : result :=
  match forms with
  | [] => Error EStuck
  | e :: r =>
      match init_state (compile_toplevel e) h g with
      | Next s0 =>
          match run fuel s0 with
          | Done v s' =>
              match r with
              | [] => Done v s'
              | _ :: _ => run_program fuel r (heap s') (globals s')
              end
          | x => x
          end
      | Halt v s' => Done v s'
      | Fail e => Error e
      end
  end.

(* ------------------------------------------------------------------ well-formed analyser output *)

(** What the theorems assume about an AST and what the check validates on every AST the real
    analyser produces: references resolve to an enclosing lambda that binds the name, every
    assigned variable is in its owner's sv, sv names are bound by the lambda, frame variables
    are distinct, sequences are non-empty and primitives have their fixed arity. *)
Definition frame_vars (ps : list name) (r : option name) (ls : list name) : list name :=
  ps ++ match r with Some x => [x] | None => [] end ++ ls.

Fixpoint nodupb (l : list name) : bool :=
  match l with [] => true | x :: t => negb (memn x t) && nodupb t end.

Fixpoint scope_lookup (m : nat) (sc : list (nat * (list name * list name))) : option (list name * list name) :=
  match sc with
  | [] => None
  | (k, e) :: t => if Nat.eqb m k then Some e else scope_lookup m t
  end.

Definition prim_arity (p : prim) : nat :=
  match p with PCar | PCdr | PNullp | PPairp | PNot => 1 | _ => 2 end.

Fixpoint wf (sc : list (nat * (list name * list name))) (e : ast) {struct e} : bool :=
  match e with
  | Lit _ => true
  | Ref x o =>
      match o with
      | Global => true
      | Local m => match scope_lookup m sc with Some (bd, _) => memn x bd | None => false end
      end
  | SetV x o v =>
      match o with
      | Global => true
      | Local m => match scope_lookup m sc with Some (bd, sv) => memn x bd && memn x sv | None => false end
      end && wf sc v
  | Cnd t p f => wf sc t && wf sc p && wf sc f
  | Seq es => match es with [] => false | _ :: _ => forallb (wf sc) es end
  | Lam id ps r ls sv _ b =>
      nodupb (frame_vars ps r ls) && forallb (fun x => memn x (frame_vars ps r ls)) sv
      && match scope_lookup id sc with Some _ => false | None => true end
      && wf ((id, (frame_vars ps r ls, sv)) :: sc) b
  | App f args => wf sc f && forallb (wf sc) args
  | OpApp p args => Nat.eqb (length args) (prim_arity p) && forallb (wf sc) args
  end.

Definition wf_program (e : ast) : bool := wf [] e.
