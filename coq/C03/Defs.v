(** C03 — core-language AST, bytecode and run-time values (definitions only).

    The AST is the one eval.c's analyser produces (sexp.h:555-590: lambda / cnd / ref / set / seq /
    lit records, applications as lists).  Variables are numbered; a reference carries the name and
    the id of the lambda that owns the binding (in C: the cdr of the environment cell is the
    owning lambda object, [Global] when it is not a lambda). *)
From Coq Require Import ZArith List Bool Arith.
Import ListNotations.

Definition name := nat.

Inductive loc := Global | Local (lam : nat).

(** What an AST position or a stack slot can hold as a constant.  [LOpaque n] is the n-th constant of the
    program that the model does not interpret (string, character, flonum, bignum, vector, quoted pair:
    only pushed, passed around, tested for truth and printed).  [LNode v] is a SEXP_LIT *node* of the AST
    (eval.c:461 sexp_make_lit) holding the datum v: what [analyze] makes of (quote v) (eval.c:1151-1160)
    and what simplify.c's constant folding produces; an immediate written in its self-evaluating spelling
    stays the bare immediate (eval.c:1229-1234).  The optimisation passes test [sexp_litp] separately from
    "not a pointer", so the two spellings are different inputs for them; the code generator pushes the
    unwrapped datum ([lit_value], the idiom `sexp_litp(x) ? sexp_lit_value(x) : x`).  A node never occurs
    as a run-time value. *)
Inductive lit :=
| LInt (z : Z) | LBool (b : bool) | LNil | LVoid | LUndef | LSym (s : nat)
| LOpaque (n : nat) | LNode (v : lit).

Definition lit_value (l : lit) : lit := match l with LNode v => v | v => v end.

(** opcodes.c:84-114: the primitives that [analyze] inlines as opcode applications.
    [PGt]/[PGe] are the "inverse" entries of LT/LE (arguments pushed in source order). *)
Inductive prim :=
| PAdd | PSub | PMul | PLt | PLe | PGt | PGe | PEqn | PEq
| PCons | PCar | PCdr | PNullp | PPairp | PNot.

Definition vref := (name * loc)%type.

Inductive ast :=
| Lit (l : lit)
| Ref (x : name) (o : loc)
| SetV (x : name) (o : loc) (v : ast)
| Cnd (t p f : ast)
| Seq (es : list ast)
| Lam (id : nat) (params : list name) (rest : option name) (locals sv : list name)
      (fv : list vref) (body : ast)
| App (f : ast) (args : list ast)
| OpApp (p : prim) (args : list ast).

(** induction principle that reaches inside the argument / sequence lists *)
Section AstInd.
  Variable P : ast -> Prop.
  Hypothesis HLit : forall l, P (Lit l).
  Hypothesis HRef : forall x o, P (Ref x o).
  Hypothesis HSet : forall x o v, P v -> P (SetV x o v).
  Hypothesis HCnd : forall t p f, P t -> P p -> P f -> P (Cnd t p f).
  Hypothesis HSeq : forall es, Forall P es -> P (Seq es).
  Hypothesis HLam : forall id ps r ls sv fv b, P b -> P (Lam id ps r ls sv fv b).
  Hypothesis HApp : forall f args, P f -> Forall P args -> P (App f args).
  Hypothesis HOp : forall p args, Forall P args -> P (OpApp p args).

  Fixpoint ast_ind' (e : ast) : P e :=
    let fix go (es : list ast) : Forall P es :=
      match es with
      | [] => Forall_nil P
      | e :: es' => Forall_cons e (ast_ind' e) (go es')
      end in
    match e with
    | Lit l => HLit l
    | Ref x o => HRef x o
    | SetV x o v => HSet x o v (ast_ind' v)
    | Cnd t p f => HCnd t p f (ast_ind' t) (ast_ind' p) (ast_ind' f)
    | Seq es => HSeq es (go es)
    | Lam id ps r ls sv fv b => HLam id ps r ls sv fv b (ast_ind' b)
    | App f args => HApp f args (ast_ind' f) (go args)
    | OpApp p args => HOp p args (go args)
    end.
End AstInd.

(** Bytecode (vm.c / opcodes).  Jump operands are counted in instructions to skip (the C code
    stores byte offsets; the correspondence harness converts).  A lambda's code is nested inside
    the instruction that creates the procedure: [IPushProc] is the PUSH of a closed procedure
    literal (vm.c:728-733), [IMakeProc] is MAKE_PROCEDURE (vm.c:751-754). *)
Inductive instr :=
| IPush (l : lit)
| IPushProc (flags nargs : nat) (code : list instr)
| IMakeProc (flags nargs : nat) (code : list instr)
| ILocalRef (k : Z) | ILocalSet (k : Z) | IClosureRef (k : nat)
| IGlobalRef (g : nat) | IPushCell (g : nat)
| ICdr | ISetCdr | ICons | IMakeVector | IStackRef (k : nat) | IVectorSet | IDrop
| IJumpUnless (n : nat) | IJump (n : nat)
| ICall (n : nat) | ITailCall (n : nat) | IRet | IDone
| IPrim (p : prim).

Definition code := list instr.

(** run-time values of the VM model; heap objects are addressed by index *)
Inductive value :=
| VLit (l : lit)
| VPair (a : nat)
| VVec (a : nat)
| VProc (flags nargs : nat) (c : code) (vars : value)
| VCell (g : nat).

Inductive hobj :=
| HPair (car cdr : value)
| HVec (elems : list value).

(** error classes shared by the VM model and the SPEC interpreter; [EStuck] is not a Scheme error
    but "outside the model" (ill-formed code or AST) *)
Inductive err := ENotProc | ENotEnoughArgs | ETooManyArgs | EType | EUndefGlobal | EStuck.

Definition PROC_VARIADIC := 1%nat.     (* sexp.h:271 *)
Definition PROC_UNUSED_REST := 2%nat.   (* sexp.h:272 *)

Definition name_eqb := Nat.eqb.
Definition loc_eqb (a b : loc) : bool :=
  match a, b with
  | Global, Global => true
  | Local m, Local n => Nat.eqb m n
  | _, _ => false
  end.
Definition vref_eqb (a b : vref) : bool := Nat.eqb (fst a) (fst b) && loc_eqb (snd a) (snd b).

Lemma loc_eqb_eq : forall a b, loc_eqb a b = true <-> a = b.
Proof.
  intros [|m] [|n]; simpl; split; intro H; try congruence; try discriminate.
  - apply Nat.eqb_eq in H. congruence.
  - inversion H. apply Nat.eqb_refl.
Qed.

Lemma vref_eqb_eq : forall a b, vref_eqb a b = true <-> a = b.
Proof.
  intros [x o] [y p]; unfold vref_eqb; simpl. rewrite andb_true_iff, Nat.eqb_eq, loc_eqb_eq.
  split; [intros [-> ->]; reflexivity | intro H; inversion H; auto].
Qed.

Definition memn (x : name) (l : list name) : bool := existsb (Nat.eqb x) l.

Lemma memn_In : forall x l, memn x l = true <-> In x l.
Proof.
  intros x l; unfold memn; rewrite existsb_exists; split.
  - intros [y [Hy E]]. apply Nat.eqb_eq in E. subst; auto.
  - intro H; exists x; split; auto. apply Nat.eqb_refl.
Qed.
