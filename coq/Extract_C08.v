From Coq Require Import ExtrOcamlBasic.
From ChibiV Require Import Common.ExtractBase C08.Datum Gen.C08_Leaf C08.Write C08.Read C08.Labels C08.Model3 C08.Model4 C08.SRead C08.SReadChar C08.FloSpec C08.Numbers.
Extraction "model.ml" ext_base write write_nat write_symbol write_string write_char sym_needs_bars
  read_top read_raw sexp_decode_utf8_char utf8_encode
  read_labels wr g2l fill
  swrite_char height dec2flo_strtod utext stext dval patched flo_canon flip_sign
  write_xnum read_num_token swrite same_char_text sread_quoted sread_atom.
