(** C16 — weak references and finalizers track reachability exactly: property theorems only.
    [gc] is the executable model of sexp_gc (gc.c with fixes/C16-ephemeron-value-retained.patch),
    [live] the SPEC (least set closed under roots, strong slots and "value of a live ephemeron with a live key"),
    [sreach] strong reachability.  [order_complete h]: the heap walk meets every object.  The premise
    [gc ... = Some _] says the model's fuel sufficed (None = out of fuel). *)
From Coq Require Import ZArith List Bool PArith FMapPositive.
From ChibiV Require Import C16.Model C16.Spec C16.Proofs C16.GcProofs C16.FdProofs C16.FdSafety C16.History C16.HistProofs C16.FdOnce C16.Fuel C16.Examples C16.LayoutCheck C16.ScanOrder C16.Gate C16.GateProofs C16.NumOs C16.NumOsProofs C16.NoLeak C16.AutoGc C16.AutoGcProofs Gen.C16_Layout.
Import ListNotations.

(** the mark phase + ephemeron fixpoint mark exactly the SPEC's live set *)
Theorem gc_marks_exactly_live : forall fuel passes h roots m, order_complete h ->
  marks fuel passes h roots = Some m -> forall a, mem a m = true <-> live (objs h) roots a.
Proof. exact marks_exact. Qed.
Print Assumptions gc_marks_exactly_live.

(** after a collection the heap holds exactly the live objects *)
Theorem gc_retains_exactly_live : forall fuel passes h roots log h' log' m,
  order_complete h -> gc fuel passes h roots log = Some (h', log', m) ->
  forall a, isobj (objs h') a <-> live (objs h) roots a.
Proof. exact gc_retains_exactly_live_l. Qed.
Print Assumptions gc_retains_exactly_live.

(** and live objects keep their strong slots *)
Theorem gc_live_objects_unchanged : forall fuel passes h roots log h' log' m,
  order_complete h -> gc fuel passes h roots log = Some (h', log', m) ->
  forall a o, live (objs h) roots a -> PM.find a (objs h) = Some o ->
  exists o', PM.find a (objs h') = Some o' /\ strong o' = strong o.
Proof. exact gc_live_strong_kept. Qed.
Print Assumptions gc_live_objects_unchanged.

(** a live ephemeron after a collection: key live => key, value and broken flag untouched;
    key not live => key and value read #f and it is broken *)
Theorem key_broken_iff_unreachable : forall fuel passes h roots log h' log' m e o k,
  order_complete h -> gc fuel passes h roots log = Some (h', log', m) ->
  live (objs h) roots e -> PM.find e (objs h) = Some o -> weakp o = true -> weak o = [Ptr k] ->
  exists o', PM.find e (objs h') = Some o' /\
    (live (objs h) roots k -> weak o' = [Ptr k] /\ extra o' = extra o /\ brokenp o' = brokenp o) /\
    (~ live (objs h) roots k -> weak o' = [Imm] /\ extra o' = map (fun _ => Imm) (extra o) /\ brokenp o' = true).
Proof. exact key_broken_iff_unreachable_l. Qed.
Print Assumptions key_broken_iff_unreachable.

(** never reported broken while a strong path to the key exists *)
Theorem broken_only_after_unreachable : forall fuel passes h roots log h' log' m e o k,
  order_complete h -> gc fuel passes h roots log = Some (h', log', m) ->
  live (objs h) roots e -> PM.find e (objs h) = Some o -> weakp o = true -> weak o = [Ptr k] ->
  sreach (objs h) roots k ->
  exists o', PM.find e (objs h') = Some o' /\ weak o' = [Ptr k] /\ extra o' = extra o /\ brokenp o' = brokenp o.
Proof. exact broken_only_after_unreachable_l. Qed.
Print Assumptions broken_only_after_unreachable.

(** the value of a live ephemeron with a live (or immediate) key is kept, with everything reachable from it *)
Theorem value_retained_while_key_live : forall fuel passes h roots log h' log' m e o v,
  order_complete h -> gc fuel passes h roots log = Some (h', log', m) ->
  live (objs h) roots e -> PM.find e (objs h) = Some o -> weakp o = true ->
  (In Imm (weak o) \/ exists k, In (Ptr k) (weak o) /\ live (objs h) roots k) ->
  In (Ptr v) (extra o) -> isobj (objs h) v ->
  (exists o', PM.find e (objs h') = Some o' /\ extra o' = extra o) /\
  forall b ob, reach_from (objs h) v b -> PM.find b (objs h) = Some ob ->
    exists ob', PM.find b (objs h') = Some ob' /\ strong ob' = strong ob.
Proof. exact value_retained_while_key_live_l. Qed.
Print Assumptions value_retained_while_key_live.

(** a dead key: the value is dropped from the ephemeron ... *)
Theorem value_not_retained_by_dead_key : forall fuel passes h roots log h' log' m e o,
  order_complete h -> gc fuel passes h roots log = Some (h', log', m) ->
  live (objs h) roots e -> PM.find e (objs h) = Some o -> weakp o = true ->
  (forall r, In r (weak o) -> ~ rlive (objs h) roots r) ->
  exists o', PM.find e (objs h') = Some o' /\ extra o' = map (fun _ => Imm) (extra o) /\
             Forall (fun r => r = Imm) (weak o') /\ (weak o <> [] -> brokenp o' = true).
Proof. exact value_not_retained_by_dead_key_l. Qed.
Print Assumptions value_not_retained_by_dead_key.

(** ... and it never contributed to what is retained: clearing the value before the collection gives the
    same live set (a key reachable only through values of ephemerons with dead keys is dead) *)
Theorem dead_key_extras_irrelevant : forall h roots e o, PM.find e h = Some o ->
  (forall r, In r (weak o) -> ~ rlive h roots r) ->
  forall b, live h roots b <-> live (without_extras h e o) roots b.
Proof. exact dead_key_extras_irrelevant_l. Qed.
Print Assumptions dead_key_extras_irrelevant.

(** descriptors.  [fileno_of h f = Some (openp, no_close, fd, count)], [port_of h p = Some (openp, no_close, stream)];
    the log is the sequence of close(fd) calls. *)

(** no leak: a closable open fileno that is not live has its descriptor closed by this very collection;
    the log never loses entries *)
Theorem fd_closed_by_first_collection : forall fuel passes h roots log h' log' m f fd c,
  order_complete h -> gc fuel passes h roots log = Some (h', log', m) ->
  fileno_of (objs h) f = Some (true, false, fd, c) -> ~ live (objs h) roots f ->
  In fd log' /\ (forall x, In x log -> In x log').
Proof. exact gc_closes_unreachable_filenos. Qed.
Print Assumptions fd_closed_by_first_collection.

(** the same for the FILE* of a dropped, unclosed file port: so a program that keeps dropping unclosed ports
    holds, after each collection, no descriptor that is not owned by a live port *)
Theorem dropping_ports_bounded_fds : forall fuel passes h roots log h' log' m p s,
  order_complete h -> gc fuel passes h roots log = Some (h', log', m) ->
  port_of (objs h) p = Some (true, false, Some s) -> ~ live (objs h) roots p -> In s log'.
Proof. exact gc_closes_unreachable_streams. Qed.
Print Assumptions dropping_ports_bounded_fds.

(** never while the owner is reachable: a live port is exactly as open after the collection as before
    (no finaliser runs on it, and no other object's finaliser changes a port) *)
Theorem live_port_not_finalised : forall fuel passes h roots log h' log' m p,
  order_complete h -> gc fuel passes h roots log = Some (h', log', m) ->
  live (objs h) roots p -> port_of (objs h') p = port_of (objs h) p.
Proof. exact gc_live_port_untouched. Qed.
Print Assumptions live_port_not_finalised.

(** never while a reachable open port refers to it: if the fileno counts dominate the number of open closable
    ports per fileno ([count_ok]: sexp_fileno_count(f) >= #open ports on f — established by
    open-input-file-descriptor's count++) then the fileno of a LIVE open port is still open after the collection,
    whatever other ports on the same fileno were finalised by it *)
Theorem fd_not_closed_while_live_port_refers : forall fuel passes h roots log h' log' m p f nc fd c,
  order_complete h -> NoDup (order h) -> count_ok (objs h) (order h) ->
  gc fuel passes h roots log = Some (h', log', m) ->
  live (objs h) roots p -> open_port_on (objs h) f p = true -> fileno_of (objs h) f = Some (true, nc, fd, c) ->
  exists c', fileno_of (objs h') f = Some (true, nc, fd, c').
Proof. exact gc_keeps_fileno_of_live_port. Qed.
Print Assumptions fd_not_closed_while_live_port_refers.

(** finalisers never reopen, never change fd / no_close / stream, and a fileno that goes from open to closed
    was closable and its descriptor is in the log: each fileno is closed at most once *)
Theorem finalisers_close_at_most_once : forall m ord h log, evol (h, log) (finalize m h log ord).
Proof. exact finalize_evol. Qed.
Print Assumptions finalisers_close_at_most_once.

(** histories (coq/C16/History.v): for EVERY sequence of allocations, drops, explicit closes, port openings on
    shared filenos and collections, from the empty state, the premises used above hold at every point ... *)
Theorem history_invariants : forall ops n fuel st,
  run ops (init n fuel) = Some st ->
  order_complete (hp st) /\ NoDup (order (hp st)) /\ count_ok (objs (hp st)) (order (hp st)).
Proof. exact history_invariants_l. Qed.
Print Assumptions history_invariants.

(** ... so at any point of any history a collection breaks exactly the ephemerons whose key is not live, *)
Theorem history_key_broken_iff_unreachable : forall ops n fl st h' log' m e o k,
  run ops (init n fl) = Some st ->
  gc (fuel st) (fuel st) (hp st) (roots_of st) (oslog st) = Some (h', log', m) ->
  live (objs (hp st)) (roots_of st) e -> PM.find e (objs (hp st)) = Some o -> weakp o = true -> weak o = [Ptr k] ->
  exists o', PM.find e (objs h') = Some o' /\
    (live (objs (hp st)) (roots_of st) k -> weak o' = [Ptr k] /\ extra o' = extra o /\ brokenp o' = brokenp o) /\
    (~ live (objs (hp st)) (roots_of st) k -> weak o' = [Imm] /\ extra o' = map (fun _ => Imm) (extra o) /\ brokenp o' = true).
Proof. exact history_key_broken_iff_unreachable_l. Qed.
Print Assumptions history_key_broken_iff_unreachable.

(** never closes the fileno under a live open port (over all interleavings of explicit close and gc), *)
Theorem history_fd_not_closed_while_live_port_refers : forall ops n fl st h' log' m p f nc fd c,
  run ops (init n fl) = Some st ->
  gc (fuel st) (fuel st) (hp st) (roots_of st) (oslog st) = Some (h', log', m) ->
  live (objs (hp st)) (roots_of st) p -> open_port_on (objs (hp st)) f p = true ->
  fileno_of (objs (hp st)) f = Some (true, nc, fd, c) ->
  exists c', fileno_of (objs h') f = Some (true, nc, fd, c').
Proof. exact history_fd_not_closed_while_live_port_refers_l. Qed.
Print Assumptions history_fd_not_closed_while_live_port_refers.

(** and closes the descriptor of every fileno that is no longer live *)
Theorem history_fd_closed_by_first_collection : forall ops n fl st h' log' m f fd c,
  run ops (init n fl) = Some st ->
  gc (fuel st) (fuel st) (hp st) (roots_of st) (oslog st) = Some (h', log', m) ->
  fileno_of (objs (hp st)) f = Some (true, false, fd, c) -> ~ live (objs (hp st)) (roots_of st) f ->
  In fd log' /\ (forall x, In x (oslog st) -> In x log').
Proof. exact history_fd_closed_by_first_collection_l. Qed.
Print Assumptions history_fd_closed_by_first_collection.

(** released at most once, over all interleavings of explicit close and gc: the log of close() calls of any
    history has no duplicates (descriptors are named by instance); a descriptor whose owner (fileno object or
    stream port) is still open and closable has not been closed; every descriptor has a single owner.
    The histories (coq/C16/History.v [op]) contain every explicit way of closing: close-port / close-input-port /
    close-output-port on stream ports and on ports over (shared, counted) filenos [OClose], close-file-descriptor on a
    fileno object [OCloseFd], and the ways of making further descriptors: open, open-pipe [OFileno], ports on filenos
    [OPortOn], duplicate-file-descriptor [ODup], duplicate-file-descriptor-to / renumber-file-descriptor [ODupTo].
    [run .. = Some _] excludes, besides lack of fuel, only operations on the number of a fileno object that is already
    closed (a second close by hand, dup of a closed fileno): see History.v [step]. *)
Theorem history_fd_closed_at_most_once : forall ops n fl st,
  run ops (init n fl) = Some st ->
  NoDup (oslog st) /\
  (forall a x, open_owner (objs (hp st)) a x -> ~ In x (oslog st)) /\
  (forall a b x, owns (objs (hp st)) a x -> owns (objs (hp st)) b x -> a = b).
Proof. exact history_fd_closed_at_most_once_l. Qed.
Print Assumptions history_fd_closed_at_most_once.

(** F-C16-2: with close-file-descriptor as pinned before its fix (close(2) on the number, the fileno object left open:
    [close_fd_pinned]) the same descriptor is closed twice: by hand and by the finaliser of the dropped object *)
Theorem closed_once_refuted_for_pinned_close_file_descriptor :
  exists st, run [ODrop 0; OGc] (close_fd_pinned 0 (open_fileno 0 (init 1 100))) = Some st /\ oslog st = [0; 0]%Z.
Proof. exact closed_once_refuted_for_pinned_close_file_descriptor_l. Qed.
Print Assumptions closed_once_refuted_for_pinned_close_file_descriptor.

(** the premise [gc ... = Some _] is satisfiable for every heap: with fuel above (roots + one unit per object and per
    strong slot) and passes above the number of objects the model's collector always returns (this is the fuel the
    drivers pass); together with history_invariants: at any point of any history *)
Theorem gc_fuel_suffices : forall fuel passes h roots log,
  order_complete h -> NoDup (order h) ->
  (length roots + total_size h + 1 < fuel)%nat -> (length (order h) < passes)%nat ->
  exists r, gc fuel passes h roots log = Some r.
Proof. exact gc_fuel_suffices_l. Qed.
Print Assumptions gc_fuel_suffices.

(** F-C16-1: the collector as pinned (no ephemeron fixpoint, [gc_pinned]) violates value_retained_while_key_live:
    a live ephemeron with a live key still points at its value after the collection and the value has been swept.
    (witness: coq/C16/Examples.v; the repaired collector [gc] satisfies the positive theorem above) *)
Theorem value_retained_refuted_for_pinned_collector :
  exists h roots e v h' log' m o',
    gc_pinned 100 h roots [] = Some (h', log', m) /\
    live (objs h) roots e /\ PM.find e (objs h') = Some o' /\ weak o' = [Ptr 2%positive] /\
    live (objs h) roots 2%positive /\ extra o' = [Ptr v] /\ PM.find v (objs h') = None.
Proof. exact value_retained_refuted_for_pinned_collector_l. Qed.
Print Assumptions value_retained_refuted_for_pinned_collector.

(** (G) regenerated from the build on every run (gen/c16_layout.py -> Gen/C16_Layout.v): the running type table has
    exactly one weak type, the ephemeron, laid out as the model assumes; port/fileno finalisers are where the model
    puts them; sexp_gc runs its phases in the modelled order with the ephemeron fixpoint first in the weak pass *)
Theorem layout_and_phase_order_as_modelled :
  weak_types = [(ephemeron_tag, 0, 0, true, 1, 0, 1)]%Z /\
  filter (fun p => snd p <? 3)%Z finalised_types = [(iport_tag, 1); (iport_tag + 1, 1); (fileno_tag, 2)]%Z /\
  gc_phases = [1; 2; 3; 4; 5]%Z.
Proof. exact layout_as_modelled_l. Qed.
Print Assumptions layout_and_phase_order_as_modelled.

(** (G) the control skeleton of sexp_mark_weak_extras read from gc.c on every run is the one [eph_loop] mirrors: walk all
    heaps by increasing address, repeat while a walk marked something; another pass is requested whenever sexp_mark
    marked the value ([scan_rerun = [1]]: no condition on the value's address); nothing else in the function *)
Theorem scan_skeleton_as_modelled :
  scan_loop = 1%Z /\ scan_pieces = [1; 1; 1; 1; 1; 1]%Z /\ scan_rerun = [1]%Z /\ scan_nothing_else = 1%Z.
Proof. exact scan_skeleton_as_modelled_l. Qed.
Print Assumptions scan_skeleton_as_modelled.

(** the scan, run in ANY order that meets every object (any address layout of the heap), marks exactly the least
    fixpoint [live] *)
Theorem scan_fixpoint_equals_least_fixpoint : forall fuel passes (os : objmap) (ord : list addr) roots m,
  (forall a, isobj os a -> In a ord) ->
  marks fuel passes (mkHeap os ord) roots = Some m ->
  forall a, mem a m = true <-> live os roots a.
Proof. exact scan_fixpoint_equals_least_fixpoint_l. Qed.
Print Assumptions scan_fixpoint_equals_least_fixpoint.

(** hence the outcome does not depend on the address layout *)
Theorem scan_order_irrelevant : forall f1 p1 f2 p2 (os : objmap) ord1 ord2 roots m1 m2,
  (forall a, isobj os a -> In a ord1) -> (forall a, isobj os a -> In a ord2) ->
  marks f1 p1 (mkHeap os ord1) roots = Some m1 -> marks f2 p2 (mkHeap os ord2) roots = Some m2 ->
  forall a, mem a m1 = mem a m2.
Proof. exact scan_order_irrelevant_l. Qed.
Print Assumptions scan_order_irrelevant.

(** whereas requesting another pass only when the newly marked value lies below the scan pointer ([marks_opt]) is
    wrong: on the witness heap (dependent ephemeron below the ephemeron whose value, above it, reaches its key) a
    live object stays unmarked, while the scan as written marks it *)
Theorem scan_below_pointer_optimisation_refuted :
  exists m, marks_opt 100 100 (mkHeap w_objs w_ord) w_roots = Some m /\
            live w_objs w_roots 6%positive /\ mem 6%positive m = false /\
            (forall m', marks 100 100 (mkHeap w_objs w_ord) w_roots = Some m' -> mem 6%positive m' = true).
Proof. exact scan_below_pointer_optimisation_refuted_l. Qed.
Print Assumptions scan_below_pointer_optimisation_refuted.

(** (G) lib/chibi/filesystem.stub: close-file-descriptor on a fileno object marks the object closed before closing
    the descriptor, which is what [OCloseFd] of History.v mirrors *)
Theorem close_file_descriptor_marks_fileno_closed : close_fd_marks_fileno_closed = 1%Z.
Proof. exact close_fd_as_modelled_l. Qed.
Print Assumptions close_file_descriptor_marks_fileno_closed.

(* ------------------------------------------------------------------ round 3 *)
(** the gate of the weak pass.  [run_gated]: the history machine whose collector has the early return of
    sexp_reset_weak_references (flag SEXP_G_WEAK_OBJECTS_PRESENT: off in a fresh context, switched on by every
    make-ephemeron, never off again).  For EVERY history it runs in lock step with [run], the machine whose weak pass is
    always on — about which theorems 1-27 speak — and the flag is on exactly when make-ephemeron has been called.
    What must not change: make-ephemeron sets the flag whatever its key and value are (theorems 31, 32). *)
Theorem history_gate_transparent : forall ops n f,
  run_gated ops (false, init n (S f)) = option_map (fun st => (existsb is_eph ops, st)) (run ops (init n (S f))).
Proof. exact history_gate_transparent_l. Qed.
Print Assumptions history_gate_transparent.

(** the reason: skipping the weak pass is unobservable on a heap without weak objects, and a history that has not called
    make-ephemeron has none *)
Theorem gate_off_sound : forall fuel passes h roots log, no_weak (objs h) ->
  gc_gated false fuel (S passes) h roots log = gc fuel (S passes) h roots log.
Proof. exact gate_off_sound_l. Qed.
Print Assumptions gate_off_sound.

Theorem history_no_weak_object_before_first_ephemeron : forall ops n f st,
  run ops (init n f) = Some st -> existsb is_eph ops = false -> no_weak (objs (hp st)).
Proof. exact history_no_weak_object_before_first_ephemeron_l. Qed.
Print Assumptions history_no_weak_object_before_first_ephemeron.

(** switching the weak pass on only when the VALUE is a heap object is wrong: the first ephemeron of a context with a heap key
    and an immediate value, key dropped, collection: the live ephemeron keeps an unbroken pointer to a swept key, where the
    collector as modelled reports it broken with key and value #f *)
Theorem gate_on_pointer_value_refuted :
  (exists st, run_gated_if (fun _ v => is_ptr v) ops_imm_value (false, init 3 100) = Some (false, st) /\ dangling_key st) /\
    (exists st e o, run ops_imm_value (init 3 100) = Some st /\ obs st = [e] /\ PM.find e (objs (hp st)) = Some o /\
    weak o = [Imm] /\ extra o = [Imm] /\ brokenp o = true).
Proof. exact gate_on_pointer_value_refuted_l. Qed.
Print Assumptions gate_on_pointer_value_refuted.

(** ... and so is switching it on only when the KEY is a heap object: an ephemeron with an immediate key retains its value
    (theorem 6, [In Imm (weak o)]), which needs sexp_mark_weak_extras, which lives behind the gate *)
Theorem gate_on_pointer_key_refuted :
  (exists st, run_gated_if (fun k _ => is_ptr k) ops_imm_key (false, init 3 100) = Some (false, st) /\ dangling_value st) /\
    (exists st e o v, run ops_imm_key (init 3 100) = Some st /\ obs st = [e] /\ PM.find e (objs (hp st)) = Some o /\
    extra o = [Ptr v] /\ isobj (objs (hp st)) v).
Proof. exact gate_on_pointer_key_refuted_l. Qed.
Print Assumptions gate_on_pointer_key_refuted.

(** an ephemeron whose key is an immediate (fixnum, boolean, character, '()) is never broken and keeps its value *)
Theorem immediate_key_never_broken : forall fuel passes h roots log h' log' m e o,
  order_complete h -> gc fuel passes h roots log = Some (h', log', m) ->
  live (objs h) roots e -> PM.find e (objs h) = Some o -> weak o = [Imm] ->
  exists o', PM.find e (objs h') = Some o' /\ weak o' = [Imm] /\ extra o' = extra o /\ brokenp o' = brokenp o.
Proof. exact immediate_key_never_broken_l. Qed.
Print Assumptions immediate_key_never_broken.

(** (G) sexp_finalize_fileno, sexp_finalize_port, the walk of sexp_finalize and the reset walk of
    sexp_reset_weak_references read as Model.v mirrors them *)
Theorem finaliser_skeletons_as_modelled :
  finalize_fileno_as_modelled = 1%Z /\ finalize_port_as_modelled = 1%Z /\ finalize_walk_as_modelled = 1%Z /\
    weak_reset_walk_as_modelled = 1%Z.
Proof. exact finaliser_skeletons_as_modelled_l. Qed.
Print Assumptions finaliser_skeletons_as_modelled.

(** (G) every mention of the gate in the sources: initialised false, set by make-ephemeron unconditionally, tested by the
    weak pass, declared; make-ephemeron is the only allocator of weak objects *)
Theorem weak_gate_as_modelled :
  weak_gate_sites = [1; 2; 3; 4]%Z /\ make_ephemeron_sets_gate = 1%Z /\ ephemeron_alloc_sites = 1%Z.
Proof. exact weak_gate_as_modelled_l. Qed.
Print Assumptions weak_gate_as_modelled.

(** (G) collect-and-retry of open-input-file / open-output-file: EMFILE is tested directly after the failed fopen *)
Theorem open_retry_skeleton_as_modelled : open_retry_as_modelled = [1; 1; 1]%Z.
Proof. exact open_retry_as_modelled_l. Qed.
Print Assumptions open_retry_skeleton_as_modelled.

(* ------------------------------------------------------------------ round 3: number-level OS model (C16/NumOs.v) *)
(** the OS never hands out a number that is open (open / dup / pipe / socketpair take [lowest_free]) *)
Theorem lowest_free_is_free : forall t, tab_find (lowest_free t) t = None.
Proof. exact lowest_free_is_free_l. Qed.
Print Assumptions lowest_free_is_free.

(** in EVERY number-level history — closes by raw integer, closes / dups / dup2s of fileno objects that are already closed,
    collections whose finalisers close stale numbers — an open number names exactly one file instance at any time *)
Theorem number_names_one_instance : forall ops n f ns,
  nrun ops (ninit n f) = Some ns -> NoDup (map fst (tab ns)).
Proof. exact number_names_one_instance_l. Qed.
Print Assumptions number_names_one_instance.

(** what a raw close does: open R0; close its NUMBER by hand; open R1 (same number again); drop R0; collect — R1's object is live,
    open and closable, yet its number is no longer open: the stale owner's finaliser released R1's file (instances 0 and 1
    both released).  This is why History.v keeps raw closes outside its domain and FdOnce.v can prove release-once there;
    the collector itself did what it must (R0 was unreachable and open). *)
Theorem raw_close_lets_a_stale_owner_close_anothers_descriptor :
  exists ns a o n c, nrun ops_raw (ninit 2 100) = Some ns /\
    slot (ist ns) 1 = Ptr a /\ PM.find a (objs (hp (ist ns))) = Some o /\ kind o = KFileno true false n c /\
    names ns n = None /\ rel ns = [0; 1]%Z.
Proof. exact raw_close_lets_a_stale_owner_close_anothers_descriptor_l. Qed.
Print Assumptions raw_close_lets_a_stale_owner_close_anothers_descriptor.

(* ------------------------------------------------------------------ round 3: no descriptor is leaked (C16/NoLeak.v) *)
(** at every point of EVERY history: each descriptor the process has opened is either released (in the close log) or owned
    by an open, closable owner object (fileno or stream port) that is still in the heap *)
Theorem history_no_orphan_descriptors : forall ops n fl st,
  run ops (init n fl) = Some st ->
  forall x, (0 <= x < nextfd st)%Z -> In x (oslog st) \/ exists a, open_owner (objs (hp st)) a x.
Proof. exact history_no_orphan_descriptors_l. Qed.
Print Assumptions history_no_orphan_descriptors.

(** right after a collection, at any point of any history: a descriptor that is still open belongs to an owner that was LIVE
    when the collection started — what the program dropped holds no descriptor any more.  With collect-and-retry on EMFILE
    (theorem open_retry_skeleton_as_modelled) this is "a program that keeps dropping unclosed ports does not run out of
    descriptors": after the forced collection the open descriptors number at most the live owners. *)
Theorem history_open_descriptors_have_live_owners_after_gc : forall ops n fl st0 st,
  run ops (init n fl) = Some st0 -> step OGc st0 = Some st ->
  forall x, (0 <= x < nextfd st)%Z -> ~ In x (oslog st) ->
  exists a, open_owner (objs (hp st)) a x /\ live (objs (hp st0)) (roots_of st0) a.
Proof. exact history_open_descriptors_have_live_owners_after_gc_l. Qed.
Print Assumptions history_open_descriptors_have_live_owners_after_gc.

(* ------------------------------------------------------------------ round 4: automatic collections and the gate (C16/AutoGc.v) *)
(** [run_sched pol sched]: the history machine WITH the gate in which the allocation inside any operation may trigger a
    collection (sexp_alloc: first fit failed), under a protocol [pol] for the flag: pinned (set after the allocation inside
    make-ephemeron, never cleared), or with "the reset walk clears the flag when it met no marked weak object", or with "set
    before the allocation".  For EVERY schedule from a fresh context and each protocol except both edits together: exactly
    the states of the machine whose weak pass is always on, run on the history with an explicit collection in front of each
    operation whose allocation triggered one — so every history_* theorem above holds under automatic collections. *)
Theorem auto_gc_gate_transparent : forall pol sched n f, clears pol && sets_before pol = false ->
  option_map snd (run_sched pol sched (false, init n (S f))) = run (expand sched) (init n (S f)).
Proof. exact auto_gc_gate_transparent_l. Qed.
Print Assumptions auto_gc_gate_transparent.

(** pinned protocol: the flag is on exactly when make-ephemeron has been called, whatever the schedule *)
Theorem auto_gc_pinned_flag : forall sched fl st n f,
  run_sched pinned_policy sched (false, init n (S f)) = Some (fl, st) -> fl = existsb (fun ao => is_eph (snd ao)) sched.
Proof. exact pinned_flag_l. Qed.
Print Assumptions auto_gc_pinned_flag.

(** the property under automatic collections and the gate: at any point of any scheduled history the NEXT collection
    (explicit or automatic) breaks exactly the live ephemerons whose key is not live, and leaves the others untouched *)
Theorem scheduled_key_broken_iff_unreachable : forall pol sched n f fl st fl' st' e o k,
  clears pol && sets_before pol = false ->
  run_sched pol sched (false, init n (S f)) = Some (fl, st) ->
  gc_flag pol (fl, st) = Some (fl', st') ->
  live (objs (hp st)) (roots_of st) e -> PM.find e (objs (hp st)) = Some o -> weakp o = true -> weak o = [Ptr k] ->
  exists o', PM.find e (objs (hp st')) = Some o' /\
    (live (objs (hp st)) (roots_of st) k -> weak o' = [Ptr k] /\ extra o' = extra o /\ brokenp o' = brokenp o) /\
    (~ live (objs (hp st)) (roots_of st) k -> weak o' = [Imm] /\ extra o' = map (fun _ => Imm) (extra o) /\ brokenp o' = true).
Proof. exact scheduled_key_broken_iff_unreachable_l. Qed.
Print Assumptions scheduled_key_broken_iff_unreachable.

(** _refuted: both edits together (flag cleared by a reset walk that met no weak object + flag set before the allocation):
    K0; K1; make-ephemeron(R0,R1) whose allocation triggers a collection; drop R0; gc leaves a live, unbroken ephemeron
    pointing at its swept key with the flag off, where the ungated machine breaks it; each edit alone agrees with it *)
Theorem gate_cleared_and_set_before_allocation_refuted :
  (exists st, run_sched (mkPolicy true true) sched_auto_eph (false, init 3 100) = Some (false, st) /\ dangling_key st) /\
  (exists st e o, run (expand sched_auto_eph) (init 3 100) = Some st /\ obs st = [e] /\ PM.find e (objs (hp st)) = Some o /\
                  weak o = [Imm] /\ extra o = [Imm] /\ brokenp o = true) /\
  (forall pol, pol = mkPolicy true false \/ pol = mkPolicy false true \/ pol = pinned_policy ->
     option_map snd (run_sched pol sched_auto_eph (false, init 3 100)) = run (expand sched_auto_eph) (init 3 100)).
Proof. exact gate_cleared_and_set_before_allocation_refuted_l. Qed.
Print Assumptions gate_cleared_and_set_before_allocation_refuted.
