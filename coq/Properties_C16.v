(** C16 — weak references and finalizers track reachability exactly: property theorems only.
    [gc] is the executable model of sexp_gc (gc.c with fixes/C16-ephemeron-value-retained.patch),
    [live] the SPEC (least set closed under roots, strong slots and "value of a live ephemeron with a live key"),
    [sreach] strong reachability.  [order_complete h]: the heap walk meets every object.  The premise
    [gc ... = Some _] says the model's fuel sufficed (None = out of fuel). *)
From Coq Require Import ZArith List Bool PArith FMapPositive.
From ChibiV Require Import C16.Model C16.Spec C16.Proofs C16.GcProofs C16.FdProofs C16.FdSafety C16.History C16.HistProofs C16.FdOnce C16.Fuel C16.Examples C16.LayoutCheck Gen.C16_Layout.
Import ListNotations.

(** the mark phase + ephemeron fixpoint mark exactly the SPEC's live set *)
Theorem gc_marks_exactly_live : forall fuel passes h roots m, order_complete h ->
  marks fuel passes h roots = Some m -> forall a, mem a m = true <-> live (objs h) roots a.
Proof. exact marks_exact. Qed.
Print Assumptions gc_marks_exactly_live.

(** after a collection the heap holds exactly the live objects *)
Theorem gc_retains_exactly_live : forall fuel passes h roots log h' log' m,
  order_complete h -> gc fuel passes h roots log = Some (h', log', m) ->
  forall a, isobj (objs h') a <-> live (objs h) roots a.
Proof. exact gc_retains_exactly_live_l. Qed.
Print Assumptions gc_retains_exactly_live.

(** and live objects keep their strong slots *)
Theorem gc_live_objects_unchanged : forall fuel passes h roots log h' log' m,
  order_complete h -> gc fuel passes h roots log = Some (h', log', m) ->
  forall a o, live (objs h) roots a -> PM.find a (objs h) = Some o ->
  exists o', PM.find a (objs h') = Some o' /\ strong o' = strong o.
Proof. exact gc_live_strong_kept. Qed.
Print Assumptions gc_live_objects_unchanged.

(** a live ephemeron after a collection: key live => key, value and broken flag untouched;
    key not live => key and value read #f and it is broken *)
Theorem key_broken_iff_unreachable : forall fuel passes h roots log h' log' m e o k,
  order_complete h -> gc fuel passes h roots log = Some (h', log', m) ->
  live (objs h) roots e -> PM.find e (objs h) = Some o -> weakp o = true -> weak o = [Ptr k] ->
  exists o', PM.find e (objs h') = Some o' /\
    (live (objs h) roots k -> weak o' = [Ptr k] /\ extra o' = extra o /\ brokenp o' = brokenp o) /\
    (~ live (objs h) roots k -> weak o' = [Imm] /\ extra o' = map (fun _ => Imm) (extra o) /\ brokenp o' = true).
Proof. exact key_broken_iff_unreachable_l. Qed.
Print Assumptions key_broken_iff_unreachable.

(** never reported broken while a strong path to the key exists *)
Theorem broken_only_after_unreachable : forall fuel passes h roots log h' log' m e o k,
  order_complete h -> gc fuel passes h roots log = Some (h', log', m) ->
  live (objs h) roots e -> PM.find e (objs h) = Some o -> weakp o = true -> weak o = [Ptr k] ->
  sreach (objs h) roots k ->
  exists o', PM.find e (objs h') = Some o' /\ weak o' = [Ptr k] /\ extra o' = extra o /\ brokenp o' = brokenp o.
Proof. exact broken_only_after_unreachable_l. Qed.
Print Assumptions broken_only_after_unreachable.

(** the value of a live ephemeron with a live (or immediate) key is kept, with everything reachable from it *)
Theorem value_retained_while_key_live : forall fuel passes h roots log h' log' m e o v,
  order_complete h -> gc fuel passes h roots log = Some (h', log', m) ->
  live (objs h) roots e -> PM.find e (objs h) = Some o -> weakp o = true ->
  (In Imm (weak o) \/ exists k, In (Ptr k) (weak o) /\ live (objs h) roots k) ->
  In (Ptr v) (extra o) -> isobj (objs h) v ->
  (exists o', PM.find e (objs h') = Some o' /\ extra o' = extra o) /\
  forall b ob, reach_from (objs h) v b -> PM.find b (objs h) = Some ob ->
    exists ob', PM.find b (objs h') = Some ob' /\ strong ob' = strong ob.
Proof. exact value_retained_while_key_live_l. Qed.
Print Assumptions value_retained_while_key_live.

(** a dead key: the value is dropped from the ephemeron ... *)
Theorem value_not_retained_by_dead_key : forall fuel passes h roots log h' log' m e o,
  order_complete h -> gc fuel passes h roots log = Some (h', log', m) ->
  live (objs h) roots e -> PM.find e (objs h) = Some o -> weakp o = true ->
  (forall r, In r (weak o) -> ~ rlive (objs h) roots r) ->
  exists o', PM.find e (objs h') = Some o' /\ extra o' = map (fun _ => Imm) (extra o) /\
             Forall (fun r => r = Imm) (weak o') /\ (weak o <> [] -> brokenp o' = true).
Proof. exact value_not_retained_by_dead_key_l. Qed.
Print Assumptions value_not_retained_by_dead_key.

(** ... and it never contributed to what is retained: clearing the value before the collection gives the
    same live set (a key reachable only through values of ephemerons with dead keys is dead) *)
Theorem dead_key_extras_irrelevant : forall h roots e o, PM.find e h = Some o ->
  (forall r, In r (weak o) -> ~ rlive h roots r) ->
  forall b, live h roots b <-> live (without_extras h e o) roots b.
Proof. exact dead_key_extras_irrelevant_l. Qed.
Print Assumptions dead_key_extras_irrelevant.

(** descriptors.  [fileno_of h f = Some (openp, no_close, fd, count)], [port_of h p = Some (openp, no_close, stream)];
    the log is the sequence of close(fd) calls. *)

(** no leak: a closable open fileno that is not live has its descriptor closed by this very collection;
    the log never loses entries *)
Theorem fd_closed_by_first_collection : forall fuel passes h roots log h' log' m f fd c,
  order_complete h -> gc fuel passes h roots log = Some (h', log', m) ->
  fileno_of (objs h) f = Some (true, false, fd, c) -> ~ live (objs h) roots f ->
  In fd log' /\ (forall x, In x log -> In x log').
Proof. exact gc_closes_unreachable_filenos. Qed.
Print Assumptions fd_closed_by_first_collection.

(** the same for the FILE* of a dropped, unclosed file port: so a program that keeps dropping unclosed ports
    holds, after each collection, no descriptor that is not owned by a live port *)
Theorem dropping_ports_bounded_fds : forall fuel passes h roots log h' log' m p s,
  order_complete h -> gc fuel passes h roots log = Some (h', log', m) ->
  port_of (objs h) p = Some (true, false, Some s) -> ~ live (objs h) roots p -> In s log'.
Proof. exact gc_closes_unreachable_streams. Qed.
Print Assumptions dropping_ports_bounded_fds.

(** never while the owner is reachable: a live port is exactly as open after the collection as before
    (no finaliser runs on it, and no other object's finaliser changes a port) *)
Theorem live_port_not_finalised : forall fuel passes h roots log h' log' m p,
  order_complete h -> gc fuel passes h roots log = Some (h', log', m) ->
  live (objs h) roots p -> port_of (objs h') p = port_of (objs h) p.
Proof. exact gc_live_port_untouched. Qed.
Print Assumptions live_port_not_finalised.

(** never while a reachable open port refers to it: if the fileno counts dominate the number of open closable
    ports per fileno ([count_ok]: sexp_fileno_count(f) >= #open ports on f — established by
    open-input-file-descriptor's count++) then the fileno of a LIVE open port is still open after the collection,
    whatever other ports on the same fileno were finalised by it *)
Theorem fd_not_closed_while_live_port_refers : forall fuel passes h roots log h' log' m p f nc fd c,
  order_complete h -> NoDup (order h) -> count_ok (objs h) (order h) ->
  gc fuel passes h roots log = Some (h', log', m) ->
  live (objs h) roots p -> open_port_on (objs h) f p = true -> fileno_of (objs h) f = Some (true, nc, fd, c) ->
  exists c', fileno_of (objs h') f = Some (true, nc, fd, c').
Proof. exact gc_keeps_fileno_of_live_port. Qed.
Print Assumptions fd_not_closed_while_live_port_refers.

(** finalisers never reopen, never change fd / no_close / stream, and a fileno that goes from open to closed
    was closable and its descriptor is in the log: each fileno is closed at most once *)
Theorem finalisers_close_at_most_once : forall m ord h log, evol (h, log) (finalize m h log ord).
Proof. exact finalize_evol. Qed.
Print Assumptions finalisers_close_at_most_once.

(** histories (coq/C16/History.v): for EVERY sequence of allocations, drops, explicit closes, port openings on
    shared filenos and collections, from the empty state, the premises used above hold at every point ... *)
Theorem history_invariants : forall ops n fuel st,
  run ops (init n fuel) = Some st ->
  order_complete (hp st) /\ NoDup (order (hp st)) /\ count_ok (objs (hp st)) (order (hp st)).
Proof. exact history_invariants_l. Qed.
Print Assumptions history_invariants.

(** ... so at any point of any history a collection breaks exactly the ephemerons whose key is not live, *)
Theorem history_key_broken_iff_unreachable : forall ops n fl st h' log' m e o k,
  run ops (init n fl) = Some st ->
  gc (fuel st) (fuel st) (hp st) (roots_of st) (oslog st) = Some (h', log', m) ->
  live (objs (hp st)) (roots_of st) e -> PM.find e (objs (hp st)) = Some o -> weakp o = true -> weak o = [Ptr k] ->
  exists o', PM.find e (objs h') = Some o' /\
    (live (objs (hp st)) (roots_of st) k -> weak o' = [Ptr k] /\ extra o' = extra o /\ brokenp o' = brokenp o) /\
    (~ live (objs (hp st)) (roots_of st) k -> weak o' = [Imm] /\ extra o' = map (fun _ => Imm) (extra o) /\ brokenp o' = true).
Proof. exact history_key_broken_iff_unreachable_l. Qed.
Print Assumptions history_key_broken_iff_unreachable.

(** never closes the fileno under a live open port (over all interleavings of explicit close and gc), *)
Theorem history_fd_not_closed_while_live_port_refers : forall ops n fl st h' log' m p f nc fd c,
  run ops (init n fl) = Some st ->
  gc (fuel st) (fuel st) (hp st) (roots_of st) (oslog st) = Some (h', log', m) ->
  live (objs (hp st)) (roots_of st) p -> open_port_on (objs (hp st)) f p = true ->
  fileno_of (objs (hp st)) f = Some (true, nc, fd, c) ->
  exists c', fileno_of (objs h') f = Some (true, nc, fd, c').
Proof. exact history_fd_not_closed_while_live_port_refers_l. Qed.
Print Assumptions history_fd_not_closed_while_live_port_refers.

(** and closes the descriptor of every fileno that is no longer live *)
Theorem history_fd_closed_by_first_collection : forall ops n fl st h' log' m f fd c,
  run ops (init n fl) = Some st ->
  gc (fuel st) (fuel st) (hp st) (roots_of st) (oslog st) = Some (h', log', m) ->
  fileno_of (objs (hp st)) f = Some (true, false, fd, c) -> ~ live (objs (hp st)) (roots_of st) f ->
  In fd log' /\ (forall x, In x (oslog st) -> In x log').
Proof. exact history_fd_closed_by_first_collection_l. Qed.
Print Assumptions history_fd_closed_by_first_collection.

(** released at most once, over all interleavings of explicit close and gc: the log of close() calls of any
    history has no duplicates (descriptors are named by instance); a descriptor whose owner (fileno object or
    stream port) is still open and closable has not been closed; every descriptor has a single owner *)
Theorem history_fd_closed_at_most_once : forall ops n fl st,
  run ops (init n fl) = Some st ->
  NoDup (oslog st) /\
  (forall a x, open_owner (objs (hp st)) a x -> ~ In x (oslog st)) /\
  (forall a b x, owns (objs (hp st)) a x -> owns (objs (hp st)) b x -> a = b).
Proof. exact history_fd_closed_at_most_once_l. Qed.
Print Assumptions history_fd_closed_at_most_once.

(** the premise [gc ... = Some _] is satisfiable for every heap: with fuel above (roots + one unit per object and per
    strong slot) and passes above the number of objects the model's collector always returns (this is the fuel the
    drivers pass); together with history_invariants: at any point of any history *)
Theorem gc_fuel_suffices : forall fuel passes h roots log,
  order_complete h -> NoDup (order h) ->
  (length roots + total_size h + 1 < fuel)%nat -> (length (order h) < passes)%nat ->
  exists r, gc fuel passes h roots log = Some r.
Proof. exact gc_fuel_suffices_l. Qed.
Print Assumptions gc_fuel_suffices.

(** F-C16-1: the collector as pinned (no ephemeron fixpoint, [gc_pinned]) violates value_retained_while_key_live:
    a live ephemeron with a live key still points at its value after the collection and the value has been swept.
    (witness: coq/C16/Examples.v; the repaired collector [gc] satisfies the positive theorem above) *)
Theorem value_retained_refuted_for_pinned_collector :
  exists h roots e v h' log' m o',
    gc_pinned 100 h roots [] = Some (h', log', m) /\
    live (objs h) roots e /\ PM.find e (objs h') = Some o' /\ weak o' = [Ptr 2%positive] /\
    live (objs h) roots 2%positive /\ extra o' = [Ptr v] /\ PM.find v (objs h') = None.
Proof. exact value_retained_refuted_for_pinned_collector_l. Qed.
Print Assumptions value_retained_refuted_for_pinned_collector.

(** (G) regenerated from the build on every run (gen/c16_layout.py -> Gen/C16_Layout.v): the running type table has
    exactly one weak type, the ephemeron, laid out as the model assumes; port/fileno finalisers are where the model
    puts them; sexp_gc runs its phases in the modelled order with the ephemeron fixpoint first in the weak pass *)
Theorem layout_and_phase_order_as_modelled :
  weak_types = [(ephemeron_tag, 0, 0, true, 1, 0, 1)]%Z /\
  filter (fun p => snd p <? 3)%Z finalised_types = [(iport_tag, 1); (iport_tag + 1, 1); (fileno_tag, 2)]%Z /\
  gc_phases = [1; 2; 3; 4; 5]%Z.
Proof. exact layout_as_modelled_l. Qed.
Print Assumptions layout_and_phase_order_as_modelled.
