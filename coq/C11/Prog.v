(** C11 — a small thread language on top of the scheduler model (Model.v), with the retry loops of
    lib/srfi/18/interface.scm built in exactly as the Scheme wrappers do them, and
    [run : nat -> schedule -> prog -> outcome].

    A thread = a list of instructions + two registers ([acc]: the thread's result, changed by local steps only;
    [tmp]: the value last read from a shared variable).  One *micro-step* = at most one access to shared state
    (one SRFI-18 primitive = one FCALL instruction of the VM, one read or one write of a shared variable, or a
    local step), so a pre-emption of the real VM between two arbitrary bytecode instructions falls between two
    micro-steps.  A schedule = the list of slice lengths (in micro-steps; what hook H4 injects, in VM
    instructions) + by how much the clock advances at each scheduler call.

    Wrappers mirrored (interface.scm):
      mutex-lock! :50-62   %mutex-lock! -> #t: go on.  #f: (thread-yield!), then (thread-timeout?) -> #f (failed),
                           otherwise call mutex-lock! again (same relative timeout)            = ICrit / RLock, IAcq / RAcq
      mutex-unlock! :64-72 %mutex-unlock! m condvar tmo -> #f: (thread-yield!), result (not (thread-timeout?))
                           (ignored by the language); the program re-locks m untimed           = IWait, then IAcq
      thread-join! :22-37  %thread-join! -> #t: go on.  #f: (thread-yield!), (and timeout (thread-timeout?)) -> give up,
                           otherwise retry                                                      = IJoin / RJoin
      thread-sleep! :46-48 %thread-sleep!, (thread-yield!)                                      = ISleep
    The VM (vm.c:1200-1250): fuel counts instructions down; at 0 (or after yield!, which sets fuel = 0) the scheduler is
    called; if the thread it returns is waiting or has ended the scheduler is called again (no instruction runs);
    otherwise the hook supplies the next slice length.  No proofs in this file. *)
From Coq Require Import ZArith List Bool Arith.
From ChibiV Require Import C11.Model.
Import ListNotations.
Local Open Scope Z_scope.

Definition var := nat.

Inductive instr :=
(* source instructions *)
| ICrit (m : mid) (tmo : timeout) (body : list instr)  (* (if (mutex-lock! m [tmo]) (begin body.. (mutex-unlock! m))) *)
| IWait (m : mid) (c : cid) (tmo : timeout)            (* (mutex-unlock! m c [tmo]) (mutex-lock! m) *)
| ISignal (c : cid)
| IBroadcast (c : cid)
| IYield
| ISleep (tmo : timeout)
| IJoin (t : tid) (tmo : timeout)                      (* (thread-join! t [tmo 'tmo]), result ignored *)
| IStart (t : tid)
| ILocal (k : Z)                                       (* acc := (3*acc + k) mod 1000003 *)
| IRead (x : var)                                      (* tmp := x *)
| IWrite (x : var) (k : Z)                             (* x := tmp + k *)
(* continuations that arise while running (never in source programs) *)
| IUnlock (m : mid)                                    (* the (mutex-unlock! m) that ends a critical section *)
| RLock (m : mid) (tmo : timeout) (body : list instr)  (* inside mutex-lock!, after its (thread-yield!) *)
| IAcq (m : mid)                                       (* the (mutex-lock! m) after a condvar wait *)
| RAcq (m : mid)                                       (* inside that mutex-lock!, after its (thread-yield!) *)
| RJoin (t : tid) (tmo : timeout).                     (* inside thread-join!, after its (thread-yield!) *)

Record tstate := mkTS { code : list instr; acc : Z; tmp : Z }.
Record mstate := mkMS { sch : st; ts : tid -> tstate; store : var -> Z; clock : Z }.

Definition now_of (c : Z) : Z * Z := (c / 1000000, c mod 1000000).
Definition local_step (a k : Z) : Z := (3 * a + k) mod 1000003.
Definition is_untimed (t : timeout) : bool := match t with TNone => true | _ => false end.

Definition set_code (M : mstate) (t : tid) (c : list instr) : mstate :=
  mkMS (sch M) (upd (ts M) t (mkTS c (acc (ts M t)) (tmp (ts M t)))) (store M) (clock M).

(* one primitive of threads.c, called by the running thread; every call reads the clock once (virtual clock: +1 us) *)
Definition prim (M : mstate) (o : op) : mstate * bool :=
  let r := step true (sch M) o in
  (mkMS (fst r) (ts M) (store M) (clock M + 1), snd r).

(* one micro-step of the running thread.  Result: new state and whether the thread called yield! (the scheduler runs
   next); None = a mutex-lock! WITHOUT timeout returned #f (the wrapper saw a stale timeout flag) *)
Definition mstep (M : mstate) : option (mstate * bool) :=
  let c := cur (sch M) in
  let T := ts M c in
  let nw := now_of (clock M) in
  match code T with
  | [] => Some (fst (prim M OExit), true)                              (* the thunk returns: vm.c:2314 *)
  | i :: r =>
    match i with
    | ICrit m tmo b =>
        let p := prim M (OLock m tmo nw (Some c)) in
        if snd p then Some (set_code (fst p) c (b ++ IUnlock m :: r), false)
        else Some (set_code (fst p) c (RLock m tmo b :: r), true)
    | RLock m tmo b =>
        if timeoutp (th (sch M) c) then
          (if is_untimed tmo then None else Some (set_code M c r, false))
        else Some (set_code M c (ICrit m tmo b :: r), false)
    | IUnlock m => Some (set_code (fst (prim M (OUnlock m None TNone nw))) c r, false)
    | IWait m cv tmo => Some (set_code (fst (prim M (OUnlock m (Some cv) tmo nw))) c (IAcq m :: r), true)
    | IAcq m =>
        let p := prim M (OLock m TNone nw (Some c)) in
        if snd p then Some (set_code (fst p) c r, false)
        else Some (set_code (fst p) c (RAcq m :: r), true)
    | RAcq m => if timeoutp (th (sch M) c) then None else Some (set_code M c (IAcq m :: r), false)
    | ISignal cv => Some (set_code (fst (prim M (OSignal cv))) c r, false)
    | IBroadcast cv => Some (set_code (fst (prim M (OBroadcast cv))) c r, false)
    | IYield => Some (set_code M c r, true)
    | ISleep tmo => Some (set_code (fst (prim M (OSleep false tmo nw))) c r, true)
    | IJoin t tmo =>
        let p := prim M (OJoin t tmo nw) in
        if snd p then Some (set_code (fst p) c r, false)
        else Some (set_code (fst p) c (RJoin t tmo :: r), true)
    | RJoin t tmo =>
        if negb (is_untimed tmo) && timeoutp (th (sch M) c) then Some (set_code M c r, false)
        else Some (set_code M c (IJoin t tmo :: r), false)
    | IStart t =>
        if started (sch M) t then Some (set_code M c r, false)
        else Some (set_code (fst (prim M (OStart t))) c r, false)
    | ILocal k => Some (mkMS (sch M) (upd (ts M) c (mkTS r (local_step (acc T) k) (tmp T))) (store M) (clock M), false)
    | IRead x => Some (mkMS (sch M) (upd (ts M) c (mkTS r (acc T) (store M x))) (store M) (clock M), false)
    | IWrite x k => Some (mkMS (sch M) (upd (ts M) c (mkTS r (acc T) (tmp T))) (upd (store M) x (tmp T + k)) (clock M), false)
    end
  end.

(* a scheduler call (threads.c sexp_scheduler + vm.c:1218-1236).  The clock advances by [adv] (time spent running),
   by its two readings, and by the 10 ms nap when the thread chosen is still waiting (threads.c:"take a nap") *)
Definition do_sched (M : mstate) (adv : Z) : mstate :=
  let c0 := clock M + adv in
  let s' := scheduler true (sch M) (now_of c0) (now_of (c0 + 1)) in
  mkMS s' (ts M) (store M) (c0 + 2 + (if waitp (th s' (cur s')) then 10000 else 0)).

Record slice := mkSl { len : nat; adv : Z }.
Definition schedule := list slice.
Definition default_slice := mkSl 500 0.

Record prog := mkP { codes : list (list instr); vmutex : list mid }.
Definition nthreads (P : prog) := length (codes P).
Definition nvars (P : prog) := length (vmutex P).
Definition mu (P : prog) (x : var) : mid := nth x (vmutex P) O.   (* the mutex assigned to shared variable x *)
Definition init_acc (t : tid) : Z := 100 + Z.of_nat t.
Definition init_m (P : prog) : mstate :=
  mkMS init (fun t => mkTS (nth t (codes P) []) (init_acc t) 0) (fun _ => 0) 1000000000.

Inductive outcome :=
| Finished (vals : list Z) (results : list Z)   (* every thread ran to completion: final store, thread results *)
| Abandoned                                     (* the root thread ended while another thread had not *)
| LockFailed                                    (* a mutex-lock! without timeout returned #f *)
| OutOfFuel.

Definition runnable (M : mstate) : bool :=
  let c := cur (sch M) in live (th (sch M) c) && negb (waitp (th (sch M) c)).
Definition root_done (M : mstate) : bool := negb (live (th (sch M) O)).
Definition thread_done (M : mstate) (t : tid) : bool :=
  match code (ts M t) with [] => negb (live (th (sch M) t)) | _ => false end.
Definition final (P : prog) (M : mstate) : outcome :=
  if forallb (thread_done M) (seq 0 (nthreads P))
  then Finished (map (store M) (seq 0 (nvars P))) (map (fun t => acc (ts M t)) (seq 0 (nthreads P)))
  else Abandoned.

(* the VM loop.  [left] = instructions left in the current slice. *)
Fixpoint exec (P : prog) (fuel : nat) (sc : schedule) (left : nat) (M : mstate) : outcome :=
  match fuel with
  | O => OutOfFuel
  | S f =>
    if root_done M then final P M
    else if runnable M then
      match left with
      | S l => match mstep M with
               | None => LockFailed
               | Some (M', y) => exec P f sc (if y then O else l) M'
               end
      | O => let sl := hd default_slice sc in
             exec P f (tl sc) (len sl) (do_sched M (adv sl))
      end
    else exec P f sc left (do_sched M 0)    (* waiting / ended thread returned: scheduler again, vm.c:1243-1247 *)
  end.

Definition run (fuel : nat) (sc : schedule) (P : prog) : outcome := exec P fuel sc O (init_m P).

(** * the locking discipline, as a checker *)

Fixpoint mids_eqb (a b : list mid) : bool :=
  match a, b with
  | [], [] => true
  | x :: a', y :: b' => Nat.eqb x y && mids_eqb a' b'
  | _, _ => false
  end.

(* no effect on registers or store (bodies of sections entered by a TIMED lock: whether they run depends on the schedule) *)
Fixpoint neutral (i : instr) : bool :=
  match i with
  | ICrit _ _ b => forallb neutral b
  | ILocal _ | IRead _ | IWrite _ _ => false
  | IUnlock _ | RLock _ _ _ | IAcq _ | RAcq _ | RJoin _ _ => false
  | _ => true
  end.

Fixpoint source (i : instr) : bool :=
  match i with
  | ICrit _ _ b => forallb source b
  | IUnlock _ | RLock _ _ _ | IAcq _ | RAcq _ | RJoin _ _ => false
  | _ => true
  end.

(* [f = Some x]: tmp holds the current value of x, and the mutex of x has been held ever since it was read *)
Definition drop (mu : var -> mid) (m : mid) (f : option var) : option var :=
  match f with Some x => if Nat.eqb (mu x) m then None else f | None => None end.

Definition astate := (list mid * option var)%type.     (* mutexes held, what tmp mirrors *)

(* abstract execution of one instruction; None = the discipline is violated *)
Fixpoint chk (mu : var -> mid) (i : instr) (hf : astate) {struct i} : option astate :=
  let chks := fix chks (l : list instr) (hf : astate) {struct l} : option astate :=
                match l with
                | [] => Some hf
                | j :: l' => match chk mu j hf with Some hf' => chks l' hf' | None => None end
                end in
  let crit := fun (m : mid) (tmo : timeout) (b : list instr) =>
    let (H, f) := hf in
    if memb m H || negb (forallb source b) then None
    else if is_untimed tmo then
      match chks b (m :: H, f) with
      | Some (H1, f1) => if mids_eqb H1 (m :: H) then Some (H, drop mu m f1) else None
      | None => None
      end
    else if forallb neutral b then
      match chks b (m :: H, None) with
      | Some (H1, None) => if mids_eqb H1 (m :: H) then Some (H, None) else None
      | _ => None
      end
    else None in
  match i with
  | ICrit m tmo b => crit m tmo b
  | RLock m tmo b => crit m tmo b
  | IWait m _ _ => let (H, f) := hf in if memb m H then Some (H, drop mu m f) else None
  | IAcq m | RAcq m =>
      let (H, f) := hf in
      if memb m H then match drop mu m f, f with
                       | None, Some _ => None
                       | _, _ => Some (H, f)
                       end
      else None
  | IUnlock m => let (H, f) := hf in if memb m H then Some (remove Nat.eq_dec m H, drop mu m f) else None
  | IRead x => let (H, f) := hf in if memb (mu x) H then Some (H, Some x) else None
  | IWrite x _ =>
      let (H, f) := hf in
      match f with Some y => if Nat.eqb x y then Some (H, None) else None | None => None end
  | _ => Some hf
  end.

Definition chks (mu : var -> mid) : list instr -> astate -> option astate :=
  fix chks (l : list instr) (hf : astate) {struct l} : option astate :=
    match l with
    | [] => Some hf
    | j :: l' => match chk mu j hf with Some hf' => chks l' hf' | None => None end
    end.

(* every access to a shared variable x happens while holding the mutex assigned to x; every section that touches
   registers or store is entered by an untimed lock; every write [x := tmp + k] directly follows (no release of the
   mutex in between) the read [tmp := x]: the sections on x are commutative updates *)
Definition properly_locked (P : prog) : bool :=
  forallb (fun c => forallb source c && match chks (mu P) c ([], None) with Some _ => true | None => false end) (codes P).

(* the canonical schedule: default quantum, the clock stands still between scheduler calls *)
Definition canonical : schedule := [].

(* entry points with names of their own for the extracted driver (Model.v has a [run] too) *)
Definition prog_outcome (fuel : nat) (sc : schedule) (P : prog) : outcome := run fuel sc P.
Definition prog_properly_locked (P : prog) : bool := properly_locked P.
