(** C11 — schedule independence of properly locked programs of Prog.v.
    Invariant-based proof (n threads): for a program accepted by [properly_locked], in every state the machine can
    reach under ANY schedule
      - each thread has an abstract state (mutexes held, what tmp mirrors) under which its remaining code checks,
        the mutexes it claims are really locked with that thread as owner ([holds]; hence no two threads are inside
        sections of one mutex), and when tmp is claimed to mirror x then tmp = x;
      - store x + (sum of the increments of the writes to x still to be executed by all threads) is constant;
      - the final value of every thread's result register is determined by its remaining code.
    What is used about the scheduler model: %mutex-lock! succeeds iff the mutex is unlocked and then records the
    caller as owner; %mutex-unlock! clears the lock; nothing else touches the mutex table. *)
From Coq Require Import ZArith List Bool Arith Lia.
From ChibiV Require Import C11.Model C11.Lists C11.Invariant C11.SchedProofs C11.Round2 C11.Prog.
Import ListNotations.
Local Open Scope Z_scope.

(** * facts about the scheduler model's mutex table *)

Definition holds (s : st) (t : tid) (m : mid) : Prop := locked (mx s m) = true /\ owner (mx s m) = Some t.

Lemma lock_free_mx : forall s m tmo now o, locked (mx s m) = false ->
  snd (step true s (OLock m tmo now o)) = true /\
  mx (fst (step true s (OLock m tmo now o))) = upd (mx s) m (mkM true o).
Proof. intros s m tmo now o E. cbn [step]. unfold mutex_lock. rewrite E. cbn [negb fst snd]. split; reflexivity. Qed.

Lemma lock_busy_mx : forall s m tmo now o, locked (mx s m) = true ->
  snd (step true s (OLock m tmo now o)) = false /\ mx (fst (step true s (OLock m tmo now o))) = mx s.
Proof.
  intros s m tmo now o E. cbn [step]. unfold mutex_lock. rewrite E. cbn [negb fst snd]. split; [reflexivity|].
  rewrite mx_insert_timed. reflexivity.
Qed.

Lemma unlock_mx_full : forall s m cv tmo now x,
  mx (fst (mutex_unlock s m cv tmo now)) x =
  if Nat.eqb x m then (if locked (mx s m) then mkM false (Some (cur s)) else mx s m) else mx s x.
Proof.
  intros s m cv tmo now x. unfold mutex_unlock.
  set (s1 := if locked (mx s m) then _ else s).
  assert (H1 : mx s1 x = if Nat.eqb x m then (if locked (mx s m) then mkM false (Some (cur s)) else mx s m) else mx s x).
  { unfold s1. destruct (locked (mx s m)) eqn:El.
    - set (s0 := with_mx s (upd (mx s) m {| locked := false; owner := Some (cur s) |})).
      assert (H0 : mx s0 x = if Nat.eqb x m then mkM false (Some (cur s)) else mx s x).
      { unfold s0; unf. unfold upd. destruct (Nat.eqb x m); reflexivity. }
      destruct (wake_front s0 (EMutex m)) as [s'|] eqn:E; [rewrite (mx_wake_front _ _ _ E)|]; exact H0.
    - destruct (Nat.eqb_spec x m); [subst; reflexivity | reflexivity]. }
  destruct cv; cbn [fst]; [rewrite mx_insert_timed; unf; exact H1 | exact H1].
Qed.

Lemma mx_broadcast_loop : forall fuel s c r, mx (fst (broadcast_loop fuel s c r)) = mx s.
Proof.
  induction fuel as [|f IH]; intros s c r; simpl; [reflexivity|].
  destruct (wake_front s (ECond c)) as [s'|] eqn:E; [|reflexivity].
  rewrite IH. apply (mx_wake_front _ _ _ E).
Qed.

Lemma mx_other_ops : forall s o,
  match o with OLock _ _ _ _ | OUnlock _ _ _ _ | OTerminate _ => False | _ => True end ->
  mx (fst (step true s o)) = mx s.
Proof.
  intros s o Ho. destruct o; try contradiction; cbn [step fst].
  - unfold thread_start. rewrite mx_enqueue. reflexivity.
  - unfold thread_join. destruct (negb (live (th s t))); cbn [fst]; [|rewrite mx_insert_timed]; reflexivity.
  - unfold thread_sleep. destruct forever; cbn [fst]; [|rewrite mx_insert_timed]; reflexivity.
  - unfold condvar_signal. destruct (wake_front s (ECond c)) as [s'|] eqn:E; cbn [fst]; [rewrite (mx_wake_front _ _ _ E)|]; reflexivity.
  - unfold condvar_broadcast. apply mx_broadcast_loop.
  - reflexivity.
  - apply mx_scheduler.
Qed.

(** * induction over instructions (sections nest) *)

Section InstrInd.
  Variable Q : instr -> Prop.
  Hypothesis Hcrit : forall m tmo b, Forall Q b -> Q (ICrit m tmo b).
  Hypothesis Hrlock : forall m tmo b, Forall Q b -> Q (RLock m tmo b).
  Hypothesis Hother : forall i, match i with ICrit _ _ _ | RLock _ _ _ => False | _ => True end -> Q i.
  Fixpoint instr_ind2 (i : instr) : Q i :=
    let go := fix go (l : list instr) : Forall Q l :=
                match l with [] => Forall_nil Q | j :: l' => Forall_cons j (instr_ind2 j) (go l') end in
    match i with
    | ICrit m tmo b => Hcrit m tmo b (go b)
    | RLock m tmo b => Hrlock m tmo b (go b)
    | IWait m c tmo => Hother (IWait m c tmo) I
    | ISignal c => Hother (ISignal c) I
    | IBroadcast c => Hother (IBroadcast c) I
    | IYield => Hother IYield I
    | ISleep tmo => Hother (ISleep tmo) I
    | IJoin t tmo => Hother (IJoin t tmo) I
    | IStart t => Hother (IStart t) I
    | ILocal k => Hother (ILocal k) I
    | IRead x => Hother (IRead x) I
    | IWrite x k => Hother (IWrite x k) I
    | IUnlock m => Hother (IUnlock m) I
    | IAcq m => Hother (IAcq m) I
    | RAcq m => Hother (RAcq m) I
    | RJoin t tmo => Hother (RJoin t tmo) I
    end.
End InstrInd.

(** * what a piece of code still adds to a variable / does to the result register *)

Fixpoint pend (x : var) (i : instr) : Z :=
  match i with
  | ICrit _ _ b => (fix go (l : list instr) : Z := match l with [] => 0 | j :: l' => pend x j + go l' end) b
  | RLock _ _ b => (fix go (l : list instr) : Z := match l with [] => 0 | j :: l' => pend x j + go l' end) b
  | IWrite y k => if Nat.eqb x y then k else 0
  | _ => 0
  end.
Definition pends (x : var) : list instr -> Z :=
  fix go (l : list instr) : Z := match l with [] => 0 | j :: l' => pend x j + go l' end.

Fixpoint facc1 (i : instr) (a : Z) : Z :=
  match i with
  | ICrit _ _ b => (fix go (l : list instr) (a : Z) : Z := match l with [] => a | j :: l' => go l' (facc1 j a) end) b a
  | RLock _ _ b => (fix go (l : list instr) (a : Z) : Z := match l with [] => a | j :: l' => go l' (facc1 j a) end) b a
  | ILocal k => local_step a k
  | _ => a
  end.
Definition facc : list instr -> Z -> Z :=
  fix go (l : list instr) (a : Z) : Z := match l with [] => a | j :: l' => go l' (facc1 j a) end.

Lemma pends_cons : forall x i l, pends x (i :: l) = pend x i + pends x l.
Proof. reflexivity. Qed.
Lemma pends_app : forall x a b, pends x (a ++ b) = pends x a + pends x b.
Proof. induction a as [|i a IH]; intros b; [reflexivity|]. rewrite <- app_comm_cons, !pends_cons, IH. lia. Qed.
Lemma pend_crit : forall x m tmo b, pend x (ICrit m tmo b) = pends x b.
Proof. reflexivity. Qed.
Lemma pend_rlock : forall x m tmo b, pend x (RLock m tmo b) = pends x b.
Proof. reflexivity. Qed.
Lemma facc_cons : forall i l a, facc (i :: l) a = facc l (facc1 i a).
Proof. reflexivity. Qed.
Lemma facc_app : forall a b z, facc (a ++ b) z = facc b (facc a z).
Proof. induction a as [|i a IH]; intros b z; [reflexivity|]. rewrite <- app_comm_cons, !facc_cons, IH. reflexivity. Qed.
Lemma facc1_crit : forall m tmo b a, facc1 (ICrit m tmo b) a = facc b a.
Proof. reflexivity. Qed.
Lemma facc1_rlock : forall m tmo b a, facc1 (RLock m tmo b) a = facc b a.
Proof. reflexivity. Qed.

Lemma neutral_no_effect : forall i, neutral i = true -> (forall x, pend x i = 0) /\ (forall a, facc1 i a = a).
Proof.
  induction i using instr_ind2.
  - intros Hn. simpl in Hn.
    assert (K : (forall x, pends x b = 0) /\ (forall a, facc b a = a)).
    { induction H as [|j l Hj Hl IH]; [split; reflexivity|].
      simpl in Hn. apply andb_prop in Hn. destruct Hn as [N1 N2].
      destruct (Hj N1) as [A1 A2]. destruct (IH N2) as [B1 B2]. split.
      - intros x. rewrite pends_cons, A1, B1. reflexivity.
      - intros a. rewrite facc_cons, A2, B2. reflexivity. }
    destruct K as [K1 K2]. split; [intros x; rewrite pend_crit; apply K1 | intros a; rewrite facc1_crit; apply K2].
  - intros Hn. discriminate.
  - intros Hn. destruct i; try contradiction; try discriminate; split; reflexivity.
Qed.

Lemma neutral_body : forall b, forallb neutral b = true -> (forall x, pends x b = 0) /\ (forall a, facc b a = a).
Proof.
  induction b as [|j l IH]; intros Hn; [split; reflexivity|].
  simpl in Hn. apply andb_prop in Hn. destruct Hn as [N1 N2].
  destruct (neutral_no_effect j N1) as [A1 A2]. destruct (IH N2) as [B1 B2]. split.
  - intros x. rewrite pends_cons, A1, B1. reflexivity.
  - intros a. rewrite facc_cons, A2, B2. reflexivity.
Qed.

(** * the checker *)

Lemma mids_eqb_eq : forall a b, mids_eqb a b = true -> a = b.
Proof.
  induction a as [|x a IH]; destruct b as [|y b]; simpl; intros H; try discriminate; [reflexivity|].
  apply andb_prop in H. destruct H as [H1 H2]. apply Nat.eqb_eq in H1. rewrite (IH b H2), H1. reflexivity.
Qed.

Definition crit_chk (mu : var -> mid) (m : mid) (tmo : timeout) (b : list instr) (hf : astate) : option astate :=
  let (H, f) := hf in
  if memb m H || negb (forallb source b) then None
  else if is_untimed tmo then
    match chks mu b (m :: H, f) with
    | Some (H1, f1) => if mids_eqb H1 (m :: H) then Some (H, drop mu m f1) else None
    | None => None
    end
  else if forallb neutral b then
    match chks mu b (m :: H, None) with
    | Some (H1, None) => if mids_eqb H1 (m :: H) then Some (H, None) else None
    | _ => None
    end
  else None.

Lemma chk_crit : forall mu m tmo b hf, chk mu (ICrit m tmo b) hf = crit_chk mu m tmo b hf.
Proof. reflexivity. Qed.
Lemma chk_rlock : forall mu m tmo b hf, chk mu (RLock m tmo b) hf = crit_chk mu m tmo b hf.
Proof. reflexivity. Qed.
Lemma chks_cons : forall mu i l hf, chks mu (i :: l) hf = match chk mu i hf with Some hf' => chks mu l hf' | None => None end.
Proof. reflexivity. Qed.
Lemma chks_app : forall mu a b hf, chks mu (a ++ b) hf = match chks mu a hf with Some hf' => chks mu b hf' | None => None end.
Proof.
  induction a as [|i a IH]; intros b hf; [reflexivity|].
  rewrite <- app_comm_cons, !chks_cons. destruct (chk mu i hf); [apply IH | reflexivity].
Qed.

(* what a successful check of a section says *)
Lemma crit_chk_some : forall mu m tmo b H f hf', crit_chk mu m tmo b (H, f) = Some hf' ->
  ~ In m H /\
  ((tmo = TNone /\ exists f1, chks mu b (m :: H, f) = Some (m :: H, f1) /\ hf' = (H, drop mu m f1)) \/
   (tmo <> TNone /\ forallb neutral b = true /\ chks mu b (m :: H, None) = Some (m :: H, None) /\ hf' = (H, None))).
Proof.
  intros mu m tmo b H f hf' E. unfold crit_chk in E.
  destruct (memb m H) eqn:Em; [discriminate|]. cbn [orb] in E.
  destruct (negb (forallb source b)); [discriminate|].
  split; [apply memb_false; exact Em|].
  destruct tmo; cbn [is_untimed] in E.
  - left. split; [reflexivity|].
    destruct (chks mu b (m :: H, f)) as [[H1 f1]|]; [|discriminate].
    destruct (mids_eqb H1 (m :: H)) eqn:Eq; [|discriminate]. apply mids_eqb_eq in Eq. subst H1.
    inversion E. exists f1. split; reflexivity.
  - right. split; [discriminate|]. destruct (forallb neutral b); [|discriminate].
    destruct (chks mu b (m :: H, None)) as [[H1 [x|]]|]; try discriminate.
    destruct (mids_eqb H1 (m :: H)) eqn:Eq; [|discriminate]. apply mids_eqb_eq in Eq. subst H1.
    inversion E. repeat split; reflexivity.
  - right. split; [discriminate|]. destruct (forallb neutral b); [|discriminate].
    destruct (chks mu b (m :: H, None)) as [[H1 [x|]]|]; try discriminate.
    destruct (mids_eqb H1 (m :: H)) eqn:Eq; [|discriminate]. apply mids_eqb_eq in Eq. subst H1.
    inversion E. repeat split; reflexivity.
Qed.

(* the set of mutexes held only shrinks along a check *)
Lemma chk_subset : forall mu i H f H' f', chk mu i (H, f) = Some (H', f') -> forall m, In m H' -> In m H.
Proof.
  intros mu i H f H' f' E m Hm.
  destruct i; try (rewrite chk_crit in E || rewrite chk_rlock in E);
    try (destruct (crit_chk_some _ _ _ _ _ _ _ E) as [_ [[_ [f1 [_ K]]]|[_ [_ [_ K]]]]]; inversion K; subst; exact Hm);
    cbn [chk] in E.
  all: try (inversion E; subst; exact Hm).
  all: try (destruct (memb _ H); [|discriminate]).
  all: try (inversion E; subst; exact Hm).
  - (* write *) destruct f as [y|]; [|discriminate]. destruct (Nat.eqb x y); inversion E; subst; exact Hm.
  - (* unlock *) inversion E; subst. apply in_remove in Hm. tauto.
  - destruct (drop mu m0 f), f; inversion E; subst; exact Hm.
  - destruct (drop mu m0 f), f; inversion E; subst; exact Hm.
Qed.

Lemma unlock_in_held : forall mu m l H f, chks mu l (H, f) <> None -> In (IUnlock m) l -> In m H.
Proof.
  induction l as [|i l IH]; intros H f Hc Hin; [destruct Hin|].
  rewrite chks_cons in Hc. destruct (chk mu i (H, f)) as [[H1 f1]|] eqn:E; [|congruence].
  destruct Hin as [Hi|Hin].
  - subst i. cbn [chk] in E. destruct (memb m H) eqn:Em; [|discriminate]. apply memb_In. exact Em.
  - eapply chk_subset; [exact E|]. eapply IH; eassumption.
Qed.

(** * the invariant *)

Fixpoint sumN (g : nat -> Z) (k : nat) : Z := match k with O => 0 | S k' => sumN g k' + g k' end.

Lemma sumN_ext_except : forall g g' c k, (forall t, t <> c -> g' t = g t) ->
  sumN g' k = sumN g k + (if (c <? k)%nat then g' c - g c else 0).
Proof.
  intros g g' c k E. induction k as [|k IH]; [reflexivity|]. cbn [sumN]. rewrite IH.
  destruct (Nat.eq_dec k c) as [Hc|Hne].
  - subst k. rewrite Nat.ltb_irrefl. assert (K : (c <? S c)%nat = true) by (apply Nat.ltb_lt; lia). rewrite K. lia.
  - rewrite (E k Hne). destruct (Nat.ltb_spec c k), (Nat.ltb_spec c (S k)); lia.
Qed.

Lemma sumN_zero : forall g k, (forall t, (t < k)%nat -> g t = 0) -> sumN g k = 0.
Proof. induction k as [|k IH]; intros H; [reflexivity|]. cbn [sumN]. rewrite IH, H by (intros; try apply H; lia). reflexivity. Qed.

Definition pending_acq (c : list instr) (m : mid) : Prop :=
  match c with IAcq m' :: _ => m' = m | RAcq m' :: _ => m' = m | _ => False end.

Section WithProg.
Variable P : prog.
Notation MU := (mu P).
Notation NT := (nthreads P).

(* thread t in abstract state (H, f): remaining code checks; claimed mutexes are really held (except the one the thread
   is re-acquiring after a condvar wait); a claimed mirror is exact *)
Record tok (M : mstate) (t : tid) (H : list mid) (f : option var) : Prop := {
  t_chk : chks MU (code (ts M t)) (H, f) <> None;
  t_held : forall m, In m H -> pending_acq (code (ts M t)) m \/ holds (sch M) t m;
  t_fresh : forall x, f = Some x -> tmp (ts M t) = store M x /\ In (MU x) H
}.

Definition total (x : var) : Z := sumN (fun t => pends x (nth t (codes P) [])) NT.

Record Inv (M : mstate) : Prop := {
  I_thr : forall t, exists H f, tok M t H f;
  I_sum : forall x, store M x + sumN (fun t => pends x (code (ts M t))) NT = total x;
  I_acc : forall t, facc (code (ts M t)) (acc (ts M t)) = facc (nth t (codes P) []) (init_acc t);
  I_out : forall t, (NT <= t)%nat -> code (ts M t) = []
}.

Lemma fresh_not_pending : forall l H x, chks MU l (H, Some x) <> None -> ~ pending_acq l (MU x).
Proof.
  intros l H x Hc Hp. destruct l as [|i r]; [exact Hp|]. rewrite chks_cons in Hc.
  destruct i; try exact Hp; cbn [pending_acq] in Hp; subst m; cbn [chk] in Hc;
    (destruct (memb (MU x) H); [|congruence]); cbn [drop] in Hc; rewrite Nat.eqb_refl in Hc; congruence.
Qed.

Lemma fresh_holds : forall M t H x, tok M t H (Some x) -> tmp (ts M t) = store M x /\ holds (sch M) t (MU x).
Proof.
  intros M t H x [A B C]. destruct (C x eq_refl) as [C1 C2]. split; [exact C1|].
  destruct (B _ C2) as [K|K]; [|exact K]. exfalso. eapply fresh_not_pending; eassumption.
Qed.

Lemma holds_unique : forall s t u m, holds s t m -> holds s u m -> t = u.
Proof. intros s t u m [_ A] [_ B]. congruence. Qed.

Lemma tok_other : forall M M' t H f, tok M t H f -> ts M' t = ts M t ->
  (forall m, holds (sch M) t m -> holds (sch M') t m) ->
  (forall x, f = Some x -> store M' x = store M x) -> tok M' t H f.
Proof.
  intros M M' t H f [A B C] Et Hh Hs. constructor; rewrite ?Et.
  - exact A.
  - intros m Hm. destruct (B m Hm); [left | right; apply Hh]; assumption.
  - intros x Hx. destruct (C x Hx). split; [rewrite (Hs x Hx)|]; assumption.
Qed.

(* the running thread c makes a step; the others are framed *)
Lemma Inv_upd : forall M M' c H' f', Inv M ->
  (forall t, t <> c -> ts M' t = ts M t) ->
  (forall t m, t <> c -> holds (sch M) t m -> holds (sch M') t m) ->
  (forall t H x, t <> c -> tok M t H (Some x) -> store M' x = store M x) ->
  tok M' c H' f' ->
  (forall x, store M' x + pends x (code (ts M' c)) = store M x + pends x (code (ts M c))) ->
  ((NT <= c)%nat -> code (ts M' c) = []) ->
  facc (code (ts M' c)) (acc (ts M' c)) = facc (code (ts M c)) (acc (ts M c)) ->
  Inv M'.
Proof.
  intros M M' c H' f' [Ithr Isum Iacc Iout] Hts Hh Hst Hc Hsum Hout Hacc. constructor.
  - intros t. destruct (Nat.eq_dec t c) as [E|E]; [subst t; exists H', f'; exact Hc|].
    destruct (Ithr t) as [H [f K]]. exists H, f. apply (tok_other M M' t H f K (Hts t E)).
    + intros m. apply Hh. exact E.
    + intros x Hx. subst f. eapply Hst; eassumption.
  - intros x. rewrite <- (Isum x).
    rewrite (sumN_ext_except (fun t => pends x (code (ts M t))) (fun t => pends x (code (ts M' t))) c NT)
      by (intros t Ht; rewrite (Hts t Ht); reflexivity).
    specialize (Hsum x). destruct (Nat.ltb_spec c NT) as [L|L]; [lia|].
    rewrite (Hout L), (Iout c L) in Hsum. cbn [pends] in Hsum. lia.
  - intros t. destruct (Nat.eq_dec t c) as [E|E]; [subst t; rewrite Hacc; apply Iacc | rewrite (Hts t E); apply Iacc].
  - intros t L. destruct (Nat.eq_dec t c) as [E|E]; [subst t; apply Hout; exact L | rewrite (Hts t E); apply Iout; exact L].
Qed.

(* only the scheduler state changes, the mutex table does not *)
Lemma Inv_sch : forall M s' clk, Inv M -> mx s' = mx (sch M) -> Inv (mkMS s' (ts M) (store M) clk).
Proof.
  intros M s' clk [Ithr Isum Iacc Iout] Hm. constructor; cbn [ts store sch]; try assumption.
  intros t. destruct (Ithr t) as [H [f K]]. exists H, f. apply (tok_other M _ t H f K); cbn [ts store sch]; try reflexivity.
  intros m. unfold holds. rewrite Hm. tauto.
Qed.

Lemma cur_inside : forall M c i r, Inv M -> code (ts M c) = i :: r -> (NT <= c)%nat -> False.
Proof. intros M c i r Hi Ec L. rewrite (I_out M Hi c L) in Ec. discriminate. Qed.

Lemma upd_ts_same : forall (f : tid -> tstate) c v, upd f c v c = v.
Proof. intros. apply upd_same. Qed.

(** K1: the mutex table and the store are unchanged; the thread's code is replaced by code that checks in the same
    abstract state (or with the mirror forgotten) *)
Lemma step_K1 : forall M s' i r new H f f2 clk a', Inv M ->
  code (ts M (cur (sch M))) = i :: r -> tok M (cur (sch M)) H f ->
  mx s' = mx (sch M) ->
  chks MU new (H, f2) <> None -> (f2 = f \/ f2 = None) ->
  (forall m, pending_acq (i :: r) m -> pending_acq new m) ->
  (forall x, pends x new = pends x (i :: r)) -> facc new a' = facc (i :: r) (acc (ts M (cur (sch M)))) ->
  Inv (mkMS s' (upd (ts M) (cur (sch M)) (mkTS new a' (tmp (ts M (cur (sch M)))))) (store M) clk).
Proof.
  intros M s' i r new H f f2 clk a' Hi Ec [A B C] Hm Hn Hf Hp Hpe Hfa. set (c := cur (sch M)) in *.
  apply (Inv_upd M _ c H f2 Hi); cbn [ts store sch].
  - intros t Ht. apply upd_other. exact Ht.
  - intros t m _. unfold holds. rewrite Hm. tauto.
  - reflexivity.
  - constructor; cbn [ts store sch]; rewrite upd_same; cbn [code tmp].
    + exact Hn.
    + intros m Hin. destruct (B m Hin) as [K|K]; [left; apply Hp; rewrite <- Ec; exact K | right; unfold holds; rewrite Hm; exact K].
    + intros x Hx. destruct Hf as [Hf|Hf]; [subst f2; apply C; exact Hx | congruence].
  - intros x. rewrite upd_same. cbn [code]. rewrite Ec, Hpe. reflexivity.
  - intros L. exfalso. eapply cur_inside; eassumption.
  - rewrite upd_same. cbn [code acc]. rewrite Ec. apply Hfa.
Qed.

(** K2: %mutex-lock! granted on mutex m (it was unlocked) *)
Lemma step_K2 : forall M s' i r new m H f H2 f2 clk, Inv M ->
  code (ts M (cur (sch M))) = i :: r -> tok M (cur (sch M)) H f ->
  locked (mx (sch M) m) = false -> mx s' = upd (mx (sch M)) m (mkM true (Some (cur (sch M)))) ->
  chks MU new (H2, f2) <> None -> (f2 = f \/ f2 = None) ->
  (forall m', In m' H2 -> m' = m \/ In m' H) -> (forall m', In m' H -> In m' H2) ->
  (forall m', pending_acq (i :: r) m' -> m' = m) ->
  (forall x, pends x new = pends x (i :: r)) -> (forall a, facc new a = facc (i :: r) a) ->
  Inv (mkMS s' (upd (ts M) (cur (sch M)) (mkTS new (acc (ts M (cur (sch M)))) (tmp (ts M (cur (sch M)))))) (store M) clk).
Proof.
  intros M s' i r new m H f H2 f2 clk Hi Ec [A B C] Hl Hm Hn Hf Hsub1 Hsub2 Hp Hpe Hfa. set (c := cur (sch M)) in *.
  assert (Hkeep : forall t m', holds (sch M) t m' -> holds s' t m').
  { intros t m' [K1 K2]. assert (m' <> m) by (intros E; subst; congruence).
    unfold holds. rewrite Hm, upd_other by assumption. tauto. }
  apply (Inv_upd M _ c H2 f2 Hi); cbn [ts store sch].
  - intros t Ht. apply upd_other. exact Ht.
  - intros t m' _. apply Hkeep.
  - reflexivity.
  - constructor; cbn [ts store sch]; rewrite upd_same; cbn [code tmp].
    + exact Hn.
    + intros m' Hin. right. destruct (Nat.eq_dec m' m) as [E|E].
      * subst m'. unfold holds. rewrite Hm, upd_same. split; reflexivity.
      * destruct (Hsub1 m' Hin) as [K|K]; [contradiction|].
        destruct (B m' K) as [Q|Q]; [rewrite Ec in Q; exfalso; apply E; apply Hp; exact Q | apply Hkeep; exact Q].
    + intros x Hx. destruct Hf as [Hf|Hf]; [subst f2 | congruence]. destruct (C x Hx) as [C1 C2]. split; [exact C1 | apply Hsub2; exact C2].
  - intros x. rewrite upd_same. cbn [code]. rewrite Ec, Hpe. reflexivity.
  - intros L. exfalso. eapply cur_inside; eassumption.
  - rewrite upd_same. cbn [code acc]. rewrite Ec. apply Hfa.
Qed.

(** K3: %mutex-unlock! of mutex m by the thread that holds it *)
Lemma step_K3 : forall M s' i r new m H f H2 clk, Inv M ->
  code (ts M (cur (sch M))) = i :: r -> tok M (cur (sch M)) H f ->
  In m H -> (forall m', ~ pending_acq (i :: r) m') ->
  (forall x, mx s' x = if Nat.eqb x m then (if locked (mx (sch M) m) then mkM false (Some (cur (sch M))) else mx (sch M) m) else mx (sch M) x) ->
  chks MU new (H2, drop MU m f) <> None ->
  (forall m', In m' H2 -> pending_acq new m' \/ (m' <> m /\ In m' H)) ->
  (forall m', In m' H -> m' <> m -> In m' H2) ->
  (forall x, pends x new = pends x (i :: r)) -> (forall a, facc new a = facc (i :: r) a) ->
  Inv (mkMS s' (upd (ts M) (cur (sch M)) (mkTS new (acc (ts M (cur (sch M)))) (tmp (ts M (cur (sch M)))))) (store M) clk).
Proof.
  intros M s' i r new m H f H2 clk Hi Ec [A B C] Hin Hnp Hm Hn Hsub1 Hsub2 Hpe Hfa. set (c := cur (sch M)) in *.
  assert (Hcm : holds (sch M) c m).
  { destruct (B m Hin) as [K|K]; [rewrite Ec in K; exfalso; exact (Hnp m K) | exact K]. }
  assert (Hkeep : forall t m', m' <> m -> holds (sch M) t m' -> holds s' t m').
  { intros t m' Hne K. unfold holds. rewrite Hm. destruct (Nat.eqb_spec m' m); [contradiction | exact K]. }
  apply (Inv_upd M _ c H2 (drop MU m f) Hi); cbn [ts store sch].
  - intros t Ht. apply upd_other. exact Ht.
  - intros t m' Ht K. apply Hkeep; [|exact K]. intros E. subst m'. apply Ht. eapply holds_unique; eassumption.
  - reflexivity.
  - constructor; cbn [ts store sch]; rewrite upd_same; cbn [code tmp].
    + exact Hn.
    + intros m' Hin'. destruct (Hsub1 m' Hin') as [K|[K1 K2]]; [left; exact K | right].
      destruct (B m' K2) as [Q|Q]; [rewrite Ec in Q; exfalso; exact (Hnp m' Q) | apply Hkeep; assumption].
    + intros x Hx. unfold drop in Hx. destruct f as [y|]; [|discriminate].
      destruct (Nat.eqb_spec (MU y) m) as [E|E]; [discriminate|]. inversion Hx; subst y.
      destruct (C x eq_refl) as [C1 C2]. split; [exact C1 | apply Hsub2; assumption].
  - intros x. rewrite upd_same. cbn [code]. rewrite Ec, Hpe. reflexivity.
  - intros L. exfalso. eapply cur_inside; eassumption.
  - rewrite upd_same. cbn [code acc]. rewrite Ec. apply Hfa.
Qed.

Lemma remove_head : forall m (H : list mid), ~ In m H -> remove Nat.eq_dec m (m :: H) = H.
Proof. intros m H Hn. simpl. destruct (Nat.eq_dec m m); [apply notin_remove; exact Hn | congruence]. Qed.

Lemma memb_head : forall m (H : list mid), memb m (m :: H) = true.
Proof. intros. unfold memb. simpl. rewrite Nat.eqb_refl. reflexivity. Qed.

Lemma chks_enter : forall m H b r f0 f1, ~ In m H -> chks MU b (m :: H, f0) = Some (m :: H, f1) ->
  chks MU r (H, drop MU m f1) <> None -> chks MU (b ++ IUnlock m :: r) (m :: H, f0) <> None.
Proof.
  intros m H b r f0 f1 Hn Eb Hr. rewrite chks_app, Eb, chks_cons. cbn [chk]. rewrite memb_head, (remove_head m H Hn). exact Hr.
Qed.

Lemma drop_idem : forall mu m f, drop mu m (drop mu m f) = drop mu m f.
Proof. intros mu m [x|]; [|reflexivity]. cbn [drop]. destruct (Nat.eqb (mu x) m) eqn:E; [reflexivity|]. cbn [drop]. rewrite E. reflexivity. Qed.

Lemma chk_acq_after_drop : forall m H f, memb m H = true -> chk MU (IAcq m) (H, drop MU m f) = Some (H, drop MU m f).
Proof.
  intros m H f Em. cbn [chk]. rewrite Em. rewrite drop_idem. destruct (drop MU m f); reflexivity.
Qed.

Lemma chk_acq_some : forall m H f hf', chk MU (IAcq m) (H, f) = Some hf' -> In m H /\ hf' = (H, f).
Proof.
  intros m H f hf' E. cbn [chk] in E. destruct (memb m H) eqn:Em; [|discriminate]. split; [apply memb_In; exact Em|].
  destruct (drop MU m f), f; inversion E; reflexivity.
Qed.

Lemma prim_fst : forall M o, fst (prim M o) = mkMS (fst (step true (sch M) o)) (ts M) (store M) (clock M + 1).
Proof. reflexivity. Qed.
Lemma prim_snd : forall M o, snd (prim M o) = snd (step true (sch M) o).
Proof. reflexivity. Qed.

Ltac k1_same Hi Ec Hk :=
  eapply (step_K1 _ _ _ _ _ _ _ _ _ _ Hi Ec Hk).

Theorem Inv_mstep : forall M M' y, Inv M -> mstep M = Some (M', y) -> Inv M'.
Proof.
  intros M M' y Hi E. unfold mstep in E.
  destruct (I_thr M Hi (cur (sch M))) as [H [f Hk]].
  pose proof (t_chk _ _ _ _ Hk) as Hc.
  destruct (code (ts M (cur (sch M)))) as [|i r] eqn:Ec.
  - (* the thunk returns *) injection E as E1 E2; subst M' y. change (Inv (mkMS (fst (step true (sch M) OExit)) (ts M) (store M) (clock M + 1))). apply Inv_sch; [exact Hi|]. apply mx_other_ops. exact I.
  - rewrite chks_cons in Hc. destruct i; cbv zeta in E; rewrite ?prim_snd, ?prim_fst in E; unfold set_code in E; cbn [sch ts store clock] in E.
    + (* ICrit *)
      rewrite chk_crit in Hc. destruct (crit_chk MU m tmo body (H, f)) as [hf'|] eqn:Ek; [|congruence].
      destruct (locked (mx (sch M) m)) eqn:El.
      * destruct (lock_busy_mx (sch M) m tmo (now_of (clock M)) (Some (cur (sch M))) El) as [R1 R2].
        rewrite R1 in E. injection E as E1 E2; subst M' y.
        eapply (step_K1 _ _ _ _ _ _ _ f _ _ Hi Ec Hk R2).
        -- rewrite chks_cons, chk_rlock, Ek. exact Hc.
        -- left; reflexivity.
        -- intros m' [].
        -- reflexivity.
        -- reflexivity.
      * destruct (lock_free_mx (sch M) m tmo (now_of (clock M)) (Some (cur (sch M))) El) as [R1 R2].
        rewrite R1 in E. injection E as E1 E2; subst M' y.
        destruct (crit_chk_some _ _ _ _ _ _ _ Ek) as [Hnm [[Et [f1 [Eb Ehf]]]|[Et [Hneu [Eb Ehf]]]]]; subst hf'.
        -- eapply (step_K2 _ _ _ _ _ m _ _ (m :: H) f _ Hi Ec Hk El R2).
           ++ eapply chks_enter; eassumption.
           ++ left; reflexivity.
           ++ intros m' [K|K]; [left; symmetry; exact K | right; exact K].
           ++ intros m' K. right. exact K.
           ++ intros m' [].
           ++ intros x. rewrite pends_app, !pends_cons, pend_crit. cbn [pend]. lia.
           ++ intros a. rewrite facc_app, !facc_cons, facc1_crit. reflexivity.
        -- eapply (step_K2 _ _ _ _ _ m _ _ (m :: H) None _ Hi Ec Hk El R2).
           ++ eapply chks_enter; [exact Hnm | exact Eb | exact Hc].
           ++ right; reflexivity.
           ++ intros m' [K|K]; [left; symmetry; exact K | right; exact K].
           ++ intros m' K. right. exact K.
           ++ intros m' [].
           ++ intros x. rewrite pends_app, !pends_cons, pend_crit. cbn [pend]. lia.
           ++ intros a. rewrite facc_app, !facc_cons, facc1_crit. reflexivity.
    + (* IWait *)
      cbn [chk] in Hc. destruct (memb m H) eqn:Em; [|congruence]. injection E as E1 E2; subst M' y.
      eapply (step_K3 _ _ _ _ _ m _ _ H _ Hi Ec Hk).
      * apply memb_In. exact Em.
      * intros m' [].
      * intros x. exact (unlock_mx_full (sch M) m (Some c) tmo (now_of (clock M)) x).
      * rewrite chks_cons.
        match goal with |- match ?X with _ => _ end <> None =>
          replace X with (Some (H, drop MU m f)) by (symmetry; exact (chk_acq_after_drop m H f Em)) end.
        exact Hc.
      * intros m' K. destruct (Nat.eq_dec m' m) as [Q|Q]; [left; cbn [pending_acq]; symmetry; exact Q | right; tauto].
      * intros m' K _. exact K.
      * reflexivity.
      * reflexivity.
    + (* ISignal *) cbn [chk] in Hc. injection E as E1 E2; subst M' y.
      eapply (step_K1 _ _ _ _ _ _ _ f _ _ Hi Ec Hk); [exact (mx_other_ops (sch M) (OSignal c) I) | exact Hc | left; reflexivity | intros m' [] | reflexivity | reflexivity].
    + (* IBroadcast *) cbn [chk] in Hc. injection E as E1 E2; subst M' y.
      eapply (step_K1 _ _ _ _ _ _ _ f _ _ Hi Ec Hk); [exact (mx_other_ops (sch M) (OBroadcast c) I) | exact Hc | left; reflexivity | intros m' [] | reflexivity | reflexivity].
    + (* IYield *) cbn [chk] in Hc. injection E as E1 E2; subst M' y.
      eapply (step_K1 _ _ _ _ _ _ _ f _ _ Hi Ec Hk); [reflexivity | exact Hc | left; reflexivity | intros m' [] | reflexivity | reflexivity].
    + (* ISleep *) cbn [chk] in Hc. injection E as E1 E2; subst M' y.
      eapply (step_K1 _ _ _ _ _ _ _ f _ _ Hi Ec Hk); [exact (mx_other_ops (sch M) (OSleep false tmo (now_of (clock M))) I) | exact Hc | left; reflexivity | intros m' [] | reflexivity | reflexivity].
    + (* IJoin *) cbn [chk] in Hc.
      destruct (snd (step true (sch M) (OJoin t tmo (now_of (clock M))))); injection E as E1 E2; subst M' y.
      * eapply (step_K1 _ _ _ _ _ _ _ f _ _ Hi Ec Hk); [exact (mx_other_ops (sch M) (OJoin t tmo (now_of (clock M))) I) | exact Hc | left; reflexivity | intros m' [] | reflexivity | reflexivity].
      * eapply (step_K1 _ _ _ _ _ _ _ f _ _ Hi Ec Hk); [exact (mx_other_ops (sch M) (OJoin t tmo (now_of (clock M))) I) | rewrite chks_cons; cbn [chk]; exact Hc | left; reflexivity | intros m' [] | reflexivity | reflexivity].
    + (* IStart *) cbn [chk] in Hc.
      destruct (started (sch M) t); injection E as E1 E2; subst M' y.
      * eapply (step_K1 _ _ _ _ _ _ _ f _ _ Hi Ec Hk); [reflexivity | exact Hc | left; reflexivity | intros m' [] | reflexivity | reflexivity].
      * eapply (step_K1 _ _ _ _ _ _ _ f _ _ Hi Ec Hk); [exact (mx_other_ops (sch M) (OStart t) I) | exact Hc | left; reflexivity | intros m' [] | reflexivity | reflexivity].
    + (* ILocal *) cbn [chk] in Hc. injection E as E1 E2; subst M' y.
      eapply (step_K1 _ _ _ _ _ _ _ f _ _ Hi Ec Hk); [reflexivity | exact Hc | left; reflexivity | intros m' [] | reflexivity | reflexivity].
    + (* IRead *) cbn [chk] in Hc. destruct (memb (MU x) H) eqn:Em; [|congruence]. injection E as E1 E2; subst M' y.
      destruct Hk as [A B C].
      apply (Inv_upd M _ (cur (sch M)) H (Some x) Hi); cbn [ts store sch].
      * intros t Ht. apply upd_other. exact Ht.
      * tauto.
      * reflexivity.
      * constructor; cbn [ts store sch]; rewrite upd_same; cbn [code tmp].
        -- exact Hc.
        -- intros m Hm. destruct (B m Hm) as [K|K]; [rewrite Ec in K; destruct K | right; exact K].
        -- intros x' Hx. inversion Hx; subst x'. split; [reflexivity | apply memb_In; exact Em].
      * intros x'. rewrite upd_same. cbn [code]. rewrite Ec. reflexivity.
      * intros L. exfalso. eapply cur_inside; eassumption.
      * rewrite upd_same. cbn [code acc]. rewrite Ec. reflexivity.
    + (* IWrite *) cbn [chk] in Hc. destruct f as [x'|]; [|congruence].
      destruct (Nat.eqb_spec x x') as [Ex|Ex]; [subst x'|congruence]. injection E as E1 E2; subst M' y.
      destruct (fresh_holds _ _ _ _ Hk) as [Htmp Hh]. destruct Hk as [A B C].
      apply (Inv_upd M _ (cur (sch M)) H None Hi); cbn [ts store sch].
      * intros t Ht. apply upd_other. exact Ht.
      * tauto.
      * intros t Ht x' Hne Hk'. destruct (Nat.eq_dec x' x) as [Q|Q]; [|apply upd_other; exact Q]. subst x'.
        exfalso. apply Hne. destruct (fresh_holds _ _ _ _ Hk') as [_ Hh']. eapply holds_unique; eassumption.
      * constructor; cbn [ts store sch]; rewrite upd_same; cbn [code tmp].
        -- exact Hc.
        -- intros m Hm. destruct (B m Hm) as [K|K]; [rewrite Ec in K; destruct K | right; exact K].
        -- intros x' Hx. discriminate.
      * intros x'. rewrite upd_same. cbn [code]. rewrite Ec, pends_cons. cbn [pend]. unfold upd.
        destruct (Nat.eqb_spec x' x) as [Q|Q]; [subst x'; rewrite Htmp; lia | lia].
      * intros L. exfalso. eapply cur_inside; eassumption.
      * rewrite upd_same. cbn [code acc]. rewrite Ec. reflexivity.
    + (* IUnlock *) cbn [chk] in Hc. destruct (memb m H) eqn:Em; [|congruence]. injection E as E1 E2; subst M' y.
      eapply (step_K3 _ _ _ _ _ m _ _ (remove Nat.eq_dec m H) _ Hi Ec Hk).
      * apply memb_In. exact Em.
      * intros m' [].
      * intros x. exact (unlock_mx_full (sch M) m None TNone (now_of (clock M)) x).
      * exact Hc.
      * intros m' K. apply in_remove in K. right. tauto.
      * intros m' K1 K2. apply in_in_remove; assumption.
      * reflexivity.
      * reflexivity.
    + (* RLock *)
      rewrite chk_rlock in Hc. destruct (crit_chk MU m tmo body (H, f)) as [hf'|] eqn:Ek; [|congruence].
      destruct (timeoutp (th (sch M) (cur (sch M)))).
      * destruct (crit_chk_some _ _ _ _ _ _ _ Ek) as [Hnm [[Et [f1 [Eb Ehf]]]|[Et [Hneu [Eb Ehf]]]]]; subst hf'.
        -- subst tmo. discriminate.
        -- destruct tmo; [congruence| |]; cbn [is_untimed] in E; injection E as E1 E2; subst M' y;
             destruct (neutral_body _ Hneu) as [N1 N2];
             (eapply (step_K1 _ _ _ _ _ _ _ None _ _ Hi Ec Hk); [reflexivity | exact Hc | right; reflexivity | intros m' [] | intros x; rewrite pends_cons, pend_rlock, N1; reflexivity | rewrite facc_cons, facc1_rlock, N2; reflexivity]).
      * injection E as E1 E2; subst M' y.
        eapply (step_K1 _ _ _ _ _ _ _ f _ _ Hi Ec Hk); [reflexivity | rewrite chks_cons, chk_crit, Ek; exact Hc | left; reflexivity | intros m' [] | reflexivity | reflexivity].
    + (* IAcq *)
      destruct (chk MU (IAcq m) (H, f)) as [hf'|] eqn:Ek; [|congruence].
      destruct (chk_acq_some _ _ _ _ Ek) as [Hin Ehf]. subst hf'.
      destruct (locked (mx (sch M) m)) eqn:El.
      * destruct (lock_busy_mx (sch M) m TNone (now_of (clock M)) (Some (cur (sch M))) El) as [R1 R2].
        rewrite R1 in E. injection E as E1 E2; subst M' y.
        eapply (step_K1 _ _ _ _ _ _ _ f _ _ Hi Ec Hk R2).
        -- rewrite chks_cons. change (chk MU (RAcq m) (H, f)) with (chk MU (IAcq m) (H, f)). rewrite Ek. exact Hc.
        -- left; reflexivity.
        -- intros m' K. exact K.
        -- reflexivity.
        -- reflexivity.
      * destruct (lock_free_mx (sch M) m TNone (now_of (clock M)) (Some (cur (sch M))) El) as [R1 R2].
        rewrite R1 in E. injection E as E1 E2; subst M' y.
        eapply (step_K2 _ _ _ _ _ m _ _ H f _ Hi Ec Hk El R2).
        -- exact Hc.
        -- left; reflexivity.
        -- intros m' K. right. exact K.
        -- intros m' K. exact K.
        -- intros m' K. cbn [pending_acq] in K. symmetry. exact K.
        -- reflexivity.
        -- reflexivity.
    + (* RAcq *)
      destruct (timeoutp (th (sch M) (cur (sch M)))); [discriminate|]. injection E as E1 E2; subst M' y.
      eapply (step_K1 _ _ _ _ _ _ _ f _ _ Hi Ec Hk).
      * reflexivity.
      * rewrite chks_cons. change (chk MU (IAcq m) (H, f)) with (chk MU (RAcq m) (H, f)). exact Hc.
      * left; reflexivity.
      * intros m' K. exact K.
      * reflexivity.
      * reflexivity.
    + (* RJoin *) cbn [chk] in Hc.
      destruct (negb (is_untimed tmo) && timeoutp (th (sch M) (cur (sch M)))); injection E as E1 E2; subst M' y.
      * eapply (step_K1 _ _ _ _ _ _ _ f _ _ Hi Ec Hk); [reflexivity | exact Hc | left; reflexivity | intros m' [] | reflexivity | reflexivity].
      * eapply (step_K1 _ _ _ _ _ _ _ f _ _ Hi Ec Hk); [reflexivity | rewrite chks_cons; cbn [chk]; exact Hc | left; reflexivity | intros m' [] | reflexivity | reflexivity].
Qed.

Lemma Inv_sched : forall M a, Inv M -> Inv (do_sched M a).
Proof. intros M a Hi. unfold do_sched. apply Inv_sch; [exact Hi | apply mx_scheduler]. Qed.

Hypothesis HPL : properly_locked P = true.

Lemma Inv_init : Inv (init_m P).
Proof.
  constructor; cbn [init_m ts store sch code acc tmp].
  - intros t. exists [], None. constructor; cbn [init_m ts store sch code acc tmp].
    + destruct (Nat.lt_ge_cases t NT) as [L|L].
      * unfold properly_locked in HPL. rewrite forallb_forall in HPL.
        specialize (HPL (nth t (codes P) []) (nth_In _ _ L)). apply andb_prop in HPL. destruct HPL as [_ K].
        destruct (chks MU (nth t (codes P) []) ([], None)); [discriminate | discriminate].
      * rewrite (nth_overflow _ _ L). discriminate.
    + intros m [].
    + intros x K. discriminate.
  - intros x. reflexivity.
  - intros t. reflexivity.
  - intros t L. apply nth_overflow. exact L.
Qed.

(** the states the machine can reach, under any schedule *)
Inductive mreach : mstate -> Prop :=
| mr_init : mreach (init_m P)
| mr_step : forall M M' y, mreach M -> runnable M = true -> mstep M = Some (M', y) -> mreach M'
| mr_sched : forall M a, mreach M -> mreach (do_sched M a).

Lemma mreach_Inv : forall M, mreach M -> Inv M.
Proof. induction 1; [apply Inv_init | eapply Inv_mstep; eassumption | apply Inv_sched; assumption]. Qed.

(* thread t is inside a critical section of mutex m: the section's unlock is still to come and the thread is not
   re-acquiring m after a condvar wait *)
Definition inside (M : mstate) (t : tid) (m : mid) : Prop :=
  In (IUnlock m) (code (ts M t)) /\ ~ pending_acq (code (ts M t)) m.

(* SPEC (a): critical sections of one mutex do not interleave, and therefore a section's read-modify-write of a
   shared variable acts on the current value: no slice boundary inside the section changes its effect *)
Theorem mutex_sections_do_not_interleave_thm : forall M, mreach M ->
  (forall t u m, inside M t m -> inside M u m -> t = u) /\
  (forall t m, inside M t m -> locked (mx (sch M) m) = true /\ owner (mx (sch M) m) = Some t) /\
  (forall t x k r, code (ts M t) = IWrite x k :: r -> tmp (ts M t) = store M x /\ holds (sch M) t (mu P x)).
Proof.
  intros M Hr. pose proof (mreach_Inv M Hr) as Hi.
  assert (Hin : forall t m, inside M t m -> holds (sch M) t m).
  { intros t m [K1 K2]. destruct (I_thr M Hi t) as [H [f [A B C]]].
    destruct (B m (unlock_in_held MU m _ H f A K1)) as [Q|Q]; [contradiction | exact Q]. }
  split; [|split].
  - intros t u m Ht Hu. eapply holds_unique; apply Hin; eassumption.
  - intros t m Ht. apply Hin. exact Ht.
  - intros t x k r Ec. destruct (I_thr M Hi t) as [H [f Hk]].
    pose proof (t_chk _ _ _ _ Hk) as Hc. rewrite Ec, chks_cons in Hc. cbn [chk] in Hc.
    destruct f as [x'|]; [|congruence]. destruct (Nat.eqb_spec x x') as [E|E]; [subst x'|congruence].
    apply (fresh_holds _ _ _ _ Hk).
Qed.

(** the outcome predicted from the program text alone *)
Definition expected_vals : list Z := map total (seq 0 (nvars P)).
Definition expected_results : list Z := map (fun t => facc (nth t (codes P) []) (init_acc t)) (seq 0 NT).

Lemma final_static : forall M v r, Inv M -> final P M = Finished v r -> v = expected_vals /\ r = expected_results.
Proof.
  intros M v r Hi E. unfold final in E.
  destruct (forallb (thread_done M) (seq 0 NT)) eqn:Ed; [|discriminate].
  rewrite forallb_forall in Ed.
  assert (Hd : forall t, (t < NT)%nat -> code (ts M t) = []).
  { intros t L. assert (K : In t (seq 0 NT)) by (apply in_seq; lia). specialize (Ed t K).
    unfold thread_done in Ed. destruct (code (ts M t)); [reflexivity | discriminate]. }
  inversion E; subst v r; clear E. split.
  - unfold expected_vals. apply map_ext. intros x. rewrite <- (I_sum M Hi x).
    rewrite sumN_zero; [lia|]. intros t L. rewrite (Hd t L). reflexivity.
  - unfold expected_results. apply map_ext_in. intros t Ht. apply in_seq in Ht.
    rewrite <- (I_acc M Hi t). rewrite (Hd t) by lia. reflexivity.
Qed.

Lemma exec_static : forall fuel sc left M v r, Inv M -> exec P fuel sc left M = Finished v r ->
  v = expected_vals /\ r = expected_results.
Proof.
  induction fuel as [|fuel IH]; intros sc left M v r Hi E; [discriminate|]. cbn [exec] in E.
  destruct (root_done M); [eapply final_static; eassumption|].
  destruct (runnable M).
  - destruct left as [|l].
    + eapply IH; [|exact E]. apply Inv_sched. exact Hi.
    + destruct (mstep M) as [[M' y]|] eqn:Es; [|discriminate].
      eapply IH; [|exact E]. eapply Inv_mstep; eassumption.
  - eapply IH; [|exact E]. apply Inv_sched. exact Hi.
Qed.

Theorem finished_outcome_is_static_thm : forall fuel sc v r, run fuel sc P = Finished v r ->
  v = expected_vals /\ r = expected_results.
Proof. intros fuel sc v r E. unfold run in E. eapply exec_static; [apply Inv_init | exact E]. Qed.

End WithProg.

(* SPEC (schedule independence, partial correctness form): two runs of a properly locked program that both run every
   thread to completion end with the same store and the same thread results, whatever the two schedules (slice lengths
   >= 0, clock advances) and fuel bounds are *)
Theorem schedule_independence_locked_partial_thm : forall P, properly_locked P = true ->
  forall fuel1 sc1 fuel2 sc2 v1 r1 v2 r2,
    run fuel1 sc1 P = Finished v1 r1 -> run fuel2 sc2 P = Finished v2 r2 -> v1 = v2 /\ r1 = r2.
Proof.
  intros P HPL fuel1 sc1 fuel2 sc2 v1 r1 v2 r2 E1 E2.
  destruct (finished_outcome_is_static_thm P HPL _ _ _ _ E1) as [A1 B1].
  destruct (finished_outcome_is_static_thm P HPL _ _ _ _ E2) as [A2 B2]. split; congruence.
Qed.

(** * non-vacuity and the need for the hypothesis *)

Definition ex_root : list instr := [IStart 1%nat; IStart 2%nat; IJoin 1%nat TNone; IJoin 2%nat TNone].
Definition ex_locked : prog :=
  mkP [ex_root; [ICrit O TNone [IRead O; IYield; IWrite O 5]; ILocal 7];
                [ICrit O TNone [IRead O; IYield; IWrite O 11]; ILocal 1]] [O].
Definition ex_unlocked : prog :=
  mkP [ex_root; [IRead O; IWrite O 5; ILocal 7]; [IRead O; IWrite O 11; ILocal 1]] [O].
Definition ones (k : nat) : schedule := repeat (mkSl 1 0) k.

(* the hypotheses of the theorems are satisfiable: a properly locked program with a yield inside its critical sections
   finishes under the default quantum and under single-instruction slices, with the statically predicted outcome *)
Example locked_demo : properly_locked ex_locked = true /\
  run 2000 canonical ex_locked = Finished [16] [100; 310; 307] /\
  run 2000 (ones 200) ex_locked = Finished [16] [100; 310; 307] /\
  expected_vals ex_locked = [16] /\ expected_results ex_locked = [100; 310; 307].
Proof. vm_compute. repeat split; reflexivity. Qed.

(* without the locks the class is left and the outcome depends on the schedule (lost update) *)
Theorem unlocked_sections_schedule_dependent_thm : properly_locked ex_unlocked = false /\
  run 2000 canonical ex_unlocked = Finished [16] [100; 310; 307] /\
  run 2000 (mkSl 2 0 :: ones 200) ex_unlocked = Finished [5] [100; 310; 307].
Proof. vm_compute. repeat split; reflexivity. Qed.
