(** C11 round 2 — the paused list is time ordered (timed waiters by wake time, then the untimed ones) in
    every reachable state, and therefore a timed wait ends at the first scheduler call after its deadline. *)
From Coq Require Import ZArith List Bool Arith Lia.
From ChibiV Require Import C11.Model C11.Lists C11.Invariant C11.SchedProofs C11.Theorems C11.Round2.
Import ListNotations.
Local Open Scope Z_scope.

(** * the order *)

Lemma timeval_lt_spec : forall a1 a2 b1 b2,
  timeval_lt a1 a2 b1 b2 = true <-> (a1 < b1 \/ (a1 = b1 /\ a2 < b2)).
Proof.
  intros. unfold timeval_lt. rewrite orb_true_iff, andb_true_iff, !Z.ltb_lt, Z.eqb_eq. tauto.
Qed.

(* SPEC: y may stand before z in the paused list *)
Definition pleb (y z : thread) : bool :=
  if timed y then negb (timed z) || negb (timeval_lt (tsec z) (tusec z) (tsec y) (tusec y))
  else negb (timed z).

Fixpoint psorted (thf : tid -> thread) (l : list tid) : Prop :=
  match l with
  | [] => True
  | y :: r => (forall z, In z r -> pleb (thf y) (thf z) = true) /\ psorted thf r
  end.

(* wake times are never negative, and a zero second means "no timeout" (the untimed insertion scans on tv_sec) *)
Definition wf_time (x : thread) : Prop := 0 <= tsec x /\ 0 <= tusec x /\ (tsec x = 0 -> tusec x = 0).

Record tinv (s : st) : Prop := {
  t_wf : forall x, wf_time (th s x);
  t_sorted : psorted (th s) (paused s)
}.

Lemma timed_iff_sec : forall x, wf_time x -> timed x = negb (tsec x =? 0).
Proof.
  intros x [H1 [H2 H3]]. unfold timed. destruct (tsec x =? 0) eqn:E; simpl; [|reflexivity].
  apply Z.eqb_eq in E. rewrite (H3 E). reflexivity.
Qed.

Lemma psorted_ext : forall f g l, (forall y, In y l -> tsec (f y) = tsec (g y) /\ tusec (f y) = tusec (g y)) ->
  psorted f l -> psorted g l.
Proof.
  induction l as [|y r IH]; simpl; intros He H; [exact I|]. destruct H as [H1 H2]. split.
  - intros z Hz. specialize (H1 z Hz). unfold pleb, timed in *.
    destruct (He y (or_introl eq_refl)) as [A1 A2]. destruct (He z (or_intror Hz)) as [B1 B2].
    rewrite <- A1, <- A2, <- B1, <- B2. exact H1.
  - apply IH; [intros z Hz; apply He; right; exact Hz | exact H2].
Qed.

Lemma psorted_remove1 : forall f t l, psorted f l -> psorted f (remove1 t l).
Proof.
  induction l as [|y r IH]; simpl; intros H; [exact I|]. destruct H as [H1 H2].
  destruct (Nat.eqb y t); [exact H2|]. simpl. split; [|apply IH; exact H2].
  intros z Hz. apply H1. eapply remove1_In. exact Hz.
Qed.

Lemma psorted_filter : forall f p l, psorted f l -> psorted f (filter p l).
Proof.
  induction l as [|y r IH]; simpl; intros H; [exact I|]. destruct H as [H1 H2].
  destruct (p y); [|apply IH; exact H2]. simpl. split; [|apply IH; exact H2].
  intros z Hz. apply H1. apply filter_In in Hz. tauto.
Qed.

Lemma psorted_app_r : forall f a b, psorted f (a ++ b) -> psorted f b.
Proof. induction a as [|y r IH]; simpl; intros b H; [exact H | apply IH; tauto]. Qed.

Lemma psorted_app_remove : forall f a w b, psorted f (a ++ w :: b) -> psorted f (a ++ b).
Proof.
  induction a as [|y r IH]; simpl; intros w b H; [tauto|]. destruct H as [H1 H2]. split; [|eapply IH; exact H2].
  intros z Hz. apply H1. rewrite in_app_iff in *. simpl. tauto.
Qed.

(** * insertion keeps the order *)

Lemma psorted_insert_timed : forall f t d1 d2 l,
  psorted f l -> timed (f t) = true -> tsec (f t) = d1 -> tusec (f t) = d2 ->
  psorted f (insert_when (fun y => before (f y) d1 d2) t l).
Proof.
  intros f t d1 d2 l Hs Ht E1 E2. induction l as [|y r IH]; simpl.
  - split; [intros z []| exact I].
  - destruct Hs as [H1 H2]. destruct (before (f y) d1 d2) eqn:Eb.
    + simpl. split; [|apply IH; exact H2].
      intros z Hz. apply insert_when_In in Hz. destruct Hz as [Hz|Hz]; [|apply H1; exact Hz].
      subst z. unfold before in Eb. apply andb_true_iff in Eb. destruct Eb as [Ty Ly].
      unfold pleb. rewrite Ty, Ht. simpl. apply negb_true_iff.
      destruct (timeval_lt (tsec (f t)) (tusec (f t)) (tsec (f y)) (tusec (f y))) eqn:El; [|reflexivity].
      apply timeval_lt_spec in El. apply timeval_lt_spec in Ly. lia.
    + simpl. split; [|split; assumption].
      assert (Hy : pleb (f t) (f y) = true).
      { unfold pleb. rewrite Ht. unfold before in Eb. rewrite E1, E2.
        destruct (timed (f y)); simpl in *; [rewrite Eb; reflexivity | reflexivity]. }
      intros z [Hz|Hz]; [subst z; exact Hy|].
      specialize (H1 z Hz). unfold pleb in *. rewrite Ht in *.
      destruct (timed (f z)) eqn:Tz; simpl; [|reflexivity].
      destruct (timed (f y)) eqn:Ty; simpl in *; [|discriminate].
      apply negb_true_iff in H1, Hy. apply negb_true_iff.
      destruct (timeval_lt (tsec (f z)) (tusec (f z)) (tsec (f t)) (tusec (f t))) eqn:El; [|reflexivity].
      apply timeval_lt_spec in El.
      assert (A : ~ (tsec (f z) < tsec (f y) \/ tsec (f z) = tsec (f y) /\ tusec (f z) < tusec (f y))).
      { intros K. apply timeval_lt_spec in K. congruence. }
      assert (B : ~ (tsec (f y) < tsec (f t) \/ tsec (f y) = tsec (f t) /\ tusec (f y) < tusec (f t))).
      { intros K. apply timeval_lt_spec in K. congruence. }
      lia.
Qed.

Lemma psorted_insert_untimed : forall f t l,
  psorted f l -> (forall y, wf_time (f y)) -> timed (f t) = false ->
  psorted f (insert_when (fun y => negb (tsec (f y) =? 0)) t l).
Proof.
  intros f t l Hs Hwf Ht. induction l as [|y r IH]; simpl.
  - split; [intros z []| exact I].
  - destruct Hs as [H1 H2]. destruct (negb (tsec (f y) =? 0)) eqn:Eb.
    + simpl. split; [|apply IH; exact H2].
      intros z Hz. apply insert_when_In in Hz. destruct Hz as [Hz|Hz]; [|apply H1; exact Hz].
      subst z. unfold pleb. rewrite (timed_iff_sec _ (Hwf y)), Eb, Ht. reflexivity.
    + simpl. split; [|split; assumption].
      assert (Ty : timed (f y) = false) by (rewrite (timed_iff_sec _ (Hwf y)); exact Eb).
      intros z [Hz|Hz]; unfold pleb; rewrite Ht; [subst z; rewrite Ty; reflexivity|].
      specialize (H1 z Hz). unfold pleb in H1. rewrite Ty in H1. exact H1.
Qed.

(* which timeouts a primitive may be given: seconds/microseconds not negative and a clock past second 0 *)
Definition tmo_ok (tmo : timeout) (now : Z * Z) : Prop :=
  match tmo with
  | TNone => True
  | TRel ds dus => 0 < fst now /\ 0 <= snd now /\ 0 <= ds /\ 0 <= dus
  | TSelf => False
  end.

Lemma tinv_insert_timed : forall s t tmo now, NoDup (paused s) -> tinv s ->
  match tmo with TSelf => timed (th s t) = true | _ => tmo_ok tmo now end ->
  tinv (insert_timed s t tmo now).
Proof.
  intros s t tmo now Hnd [Hwf Hs] Hok. unfold insert_timed.
  set (d := deadline (th s t) tmo now).
  set (th' := upd (th s) t (set_time (th s t) (fst d) (snd d))).
  assert (Hwf' : forall x, wf_time (th' x)).
  { intros x. unfold th', upd. destruct (Nat.eqb x t); [|apply Hwf].
    unfold wf_time, set_time. simpl. unfold d, deadline. destruct tmo as [|ds dus|].
    - simpl. lia.
    - simpl in Hok. destruct (snd now + dus >? 1000000) eqn:E; simpl; [apply Z.gtb_lt in E|]; lia.
    - simpl. apply Hwf. }
  assert (Hp1 : psorted th' (remove1 t (paused s))).
  { apply (psorted_ext (th s)); [|apply psorted_remove1; exact Hs].
    intros y Hy. unfold th'. rewrite upd_other; [tauto|]. intros K. subst y. exact (remove1_notin t (paused s) Hnd Hy). }
  assert (Et : tsec (th' t) = fst d /\ tusec (th' t) = snd d) by (unfold th'; rewrite upd_same; simpl; tauto).
  destruct Et as [Et1 Et2].
  constructor; unf; [exact Hwf'|].
  destruct tmo as [|ds dus|].
  - apply psorted_insert_untimed; [exact Hp1 | exact Hwf'|].
    unfold timed. rewrite Et1, Et2. reflexivity.
  - apply psorted_insert_timed; [exact Hp1 | | exact Et1 | exact Et2].
    rewrite (timed_iff_sec _ (Hwf' t)). rewrite Et1. unfold d, deadline. simpl in Hok.
    destruct (snd now + dus >? 1000000); simpl; apply negb_true_iff; apply Z.eqb_neq; lia.
  - apply psorted_insert_timed; [exact Hp1 | | exact Et1 | exact Et2].
    unfold timed in *. rewrite Et1, Et2. exact Hok.
Qed.

(** * every operation keeps the order *)

(* a state whose paused list shrank (order kept) and whose wake times did not change *)
Lemma tinv_frame : forall s s', tinv s ->
  (forall x, tsec (th s' x) = tsec (th s x) /\ tusec (th s' x) = tusec (th s x)) ->
  psorted (th s) (paused s') -> tinv s'.
Proof.
  intros s s' [Hwf Hs] Ht Hp. constructor.
  - intros x. destruct (Ht x) as [A B]. unfold wf_time. rewrite A, B. apply Hwf.
  - apply (psorted_ext (th s)); [intros y _; destruct (Ht y); split; congruence | exact Hp].
Qed.

Lemma times_upd_flags : forall (f : tid -> thread) k g x,
  (tsec g = tsec (f k) /\ tusec g = tusec (f k)) ->
  tsec (upd f k g x) = tsec (f x) /\ tusec (upd f k g x) = tusec (f x).
Proof. intros f k g x H. unfold upd. destruct (Nat.eqb_spec x k); [subst; exact H | tauto]. Qed.

Lemma tinv_wake_front : forall s e s', tinv s -> wake_front s e = Some s' -> tinv s'.
Proof.
  intros s e s' Ht H. destruct (wake_front_shape s e s' H) as [pre [w [post [Ep [_ [_ [P1 [_ [_ [_ [_ [_ T1]]]]]]]]]]]].
  apply (tinv_frame s); [exact Ht | | ].
  - intros x. rewrite T1. apply times_upd_flags. simpl. tauto.
  - rewrite P1. apply (psorted_app_remove _ pre w post). rewrite <- Ep. apply (t_sorted s Ht).
Qed.

Lemma tinv_broadcast_loop : forall fuel s c r, tinv s -> tinv (fst (broadcast_loop fuel s c r)).
Proof.
  induction fuel as [|f IH]; simpl; intros s c r Ht; [exact Ht|].
  destruct (wake_front s (ECond c)) as [s1|] eqn:E; [|exact Ht].
  apply IH. eapply tinv_wake_front; eassumption.
Qed.

Lemma tinv_upd_th : forall s k g, tinv s -> tsec g = tsec (th s k) -> tusec g = tusec (th s k) -> tinv (upd_th s k g).
Proof.
  intros s k g Ht A B. apply (tinv_frame s); [exact Ht | | unf; apply (t_sorted s Ht)].
  intros x. unf. apply times_upd_flags. tauto.
Qed.

Lemma tinv_enqueue : forall s t, tinv s -> tinv (enqueue s t).
Proof.
  intros s t Ht. destruct (enqueue_frame s t) as [_ [F2 [F3 _]]].
  apply (tinv_frame s); [exact Ht | rewrite F3; tauto | rewrite F2; apply (t_sorted s Ht)].
Qed.

Lemma tinv_fold_wake1 : forall b X a, tinv a -> tinv (fold_left (wake1 b) X a).
Proof.
  induction X as [|y X IH]; simpl; intros a Ht; [exact Ht|]. apply IH. unfold wake1.
  apply tinv_enqueue. apply tinv_upd_th; [exact Ht | reflexivity | reflexivity].
Qed.

Lemma tinv_with_paused : forall s p, tinv s -> psorted (th s) p -> tinv (with_paused s p).
Proof. intros s p Ht Hp. apply (tinv_frame s); [exact Ht | unf; tauto | exact Hp]. Qed.

Definition op_clock_ok (o : op) : Prop :=
  match o with
  | OJoin _ tmo now | OSleep _ tmo now | OLock _ tmo now _ | OUnlock _ _ tmo now => tmo_ok tmo now
  | _ => True
  end.

Lemma tmo_ok_match : forall tmo now (P : Prop), tmo_ok tmo now ->
  match tmo with TSelf => P | _ => tmo_ok tmo now end.
Proof. intros tmo now P H. destruct tmo; simpl in *; tauto. Qed.

Lemma tinv_block : forall s g tmo now, inv s -> tinv s -> tmo_ok tmo now ->
  tsec g = tsec (th s (cur s)) -> tusec g = tusec (th s (cur s)) ->
  tinv (insert_timed (upd_th s (cur s) g) (cur s) tmo now).
Proof.
  intros s g tmo now Hi Ht Hok A B. apply tinv_insert_timed.
  - unf. apply (q_ndp s (i_q s Hi)).
  - apply tinv_upd_th; assumption.
  - apply tmo_ok_match. exact Hok.
Qed.

Lemma tinv_step_prim : forall s o, inv s -> tinv s -> op_clock_ok o ->
  match o with OSched _ _ => True | _ => tinv (fst (step true s o)) end.
Proof.
  intros s o Hi Ht Hok. destruct o; cbn [step fst]; try exact I.
  - unfold thread_start. apply tinv_enqueue. apply (tinv_frame s); [exact Ht | unf; tauto | unf; apply (t_sorted s Ht)].
  - unfold thread_terminate. cbn [fst].
    set (s1 := if live (th s (cur s)) then upd_th s t (set_live (th s t) false) else s).
    assert (H1 : tinv s1) by (unfold s1; destruct (live (th s (cur s))); [apply tinv_upd_th; [exact Ht | reflexivity | reflexivity] | exact Ht]).
    destruct (memb t (paused s1)); [|exact H1].
    apply tinv_enqueue. apply tinv_upd_th; [|reflexivity|reflexivity].
    apply tinv_with_paused; [exact H1 | apply psorted_remove1; apply (t_sorted s1 H1)].
  - unfold thread_join. destruct (negb (live (th s t))); cbn [fst]; [exact Ht|].
    apply tinv_block; try assumption; reflexivity.
  - unfold thread_sleep. destruct forever; cbn [fst].
    + apply tinv_upd_th; [exact Ht | reflexivity | reflexivity].
    + set (s1 := upd_th s (cur s) (set_wait (th s (cur s)) true)).
      assert (Hc : cur s1 = cur s) by reflexivity. rewrite <- Hc.
      assert (Hi1 : NoDup (paused s1)) by (unfold s1; unf; apply (q_ndp s (i_q s Hi))).
      assert (Ht1 : tinv s1) by (unfold s1; apply tinv_upd_th; [exact Ht | reflexivity | reflexivity]).
      apply tinv_insert_timed; [unf; exact Hi1 | apply tinv_upd_th; [exact Ht1 | reflexivity | reflexivity] | apply tmo_ok_match; exact Hok].
  - unfold mutex_lock. destruct (negb (locked (mx s m))); cbn [fst].
    + apply (tinv_frame s); [exact Ht | unf; tauto | unf; apply (t_sorted s Ht)].
    + apply tinv_block; try assumption; reflexivity.
  - unfold mutex_unlock.
    set (s1 := if locked (mx s m) then _ else s).
    assert (H1 : tinv s1 /\ NoDup (paused s1)).
    { unfold s1. destruct (locked (mx s m)); [|split; [exact Ht | apply (q_ndp s (i_q s Hi))]].
      set (s0 := with_mx s (upd (mx s) m {| locked := false; owner := Some (cur s) |})).
      assert (H0 : tinv s0) by (apply (tinv_frame s); [exact Ht | unf; tauto | unf; apply (t_sorted s Ht)]).
      destruct (wake_front s0 (EMutex m)) as [s'|] eqn:E.
      - split; [eapply tinv_wake_front; eassumption|].
        destruct (wake_front_shape s0 _ s' E) as [pre [w [post [Ep [_ [_ [P1 _]]]]]]]. rewrite P1.
        assert (Hn : NoDup (pre ++ w :: post)) by (rewrite <- Ep; unfold s0; unf; apply (q_ndp s (i_q s Hi))).
        apply (NoDup_remove_mid pre w post Hn).
      - split; [exact H0 | unfold s0; unf; apply (q_ndp s (i_q s Hi))]. }
    destruct H1 as [H1 N1]. destruct cv; cbn [fst]; [|exact H1].
    apply tinv_insert_timed; [unf; exact N1 | apply tinv_upd_th; [exact H1 | reflexivity | reflexivity] | apply tmo_ok_match; exact Hok].
  - unfold condvar_signal. destruct (wake_front s (ECond c)) as [s'|] eqn:E; cbn [fst]; [eapply tinv_wake_front; eassumption | exact Ht].
  - unfold condvar_broadcast. apply tinv_broadcast_loop. exact Ht.
  - apply tinv_upd_th; [exact Ht | reflexivity | reflexivity].
Qed.

(** * the scheduler keeps the order *)

Lemma fold_flags_times : forall b (pre : list tid) (f : tid -> thread) x,
  tsec (fold_left (fun f y => upd f y (set_flags (f y) false b)) pre f x) = tsec (f x) /\
  tusec (fold_left (fun f y => upd f y (set_flags (f y) false b)) pre f x) = tusec (f x).
Proof.
  induction pre as [|y pre IH]; simpl; intros f x; [tauto|].
  destruct (IH (upd f y (set_flags (f y) false b)) x) as [A B]. rewrite A, B.
  apply times_upd_flags. simpl. tauto.
Qed.

Lemma tinv_wake_joiners : forall s, tinv s -> tinv (wake_joiners s).
Proof.
  intros s Ht. unfold wake_joiners.
  change (fun a y => enqueue (upd_th a y (set_flags (th a y) false false)) y) with (wake1 false).
  apply tinv_fold_wake1. apply tinv_with_paused; [exact Ht | apply psorted_filter; apply (t_sorted s Ht)].
Qed.

Lemma tinv_wake_current_timeout : forall s now, tinv s -> tinv (wake_current_timeout s now).
Proof.
  intros s now Ht. unfold wake_current_timeout.
  destruct (waitp (th s (cur s)) && before (th s (cur s)) (fst now) (snd now) && memb (cur s) (paused s)); [|exact Ht].
  apply tinv_upd_th; [|reflexivity|reflexivity].
  apply tinv_with_paused; [exact Ht | apply psorted_remove1; apply (t_sorted s Ht)].
Qed.

Lemma tinv_wake_timeouts : forall s now, tinv s -> tinv (wake_timeouts true s now).
Proof.
  intros s now Ht. unfold wake_timeouts. destruct (paused s) as [|p0 pr] eqn:Ep; [exact Ht|]. clear Ep p0 pr.
  pose proof (tinv_wake_current_timeout s now Ht) as H0. set (s0 := wake_current_timeout s now) in *.
  destruct (span_before (th s0) now (paused s0)) as [pre post] eqn:Esp.
  destruct (span_before_spec _ _ _ _ _ Esp) as [Epp _].
  destruct pre as [|y pre']; [exact H0|].
  apply (tinv_frame s0); [exact H0 | | ].
  - intros x. unf. apply (fold_flags_times true (y :: pre') (th s0) x).
  - unf. apply (psorted_app_r _ (y :: pre') post). change ((y :: pre') ++ post) with (y :: pre' ++ post). rewrite <- Epp. apply (t_sorted s0 H0).
Qed.

Lemma tinv_dequeue : forall s, inv s -> tinv s -> tinv (snd (dequeue s)).
Proof.
  intros s Hi Ht. unfold dequeue. destruct (front s) as [|x rest]; [exact Ht|].
  destruct (negb (live (th s (cur s))) || waitp (th s (cur s))); cbn [snd].
  - set (s1 := with_queue s rest (match rest with [] => None | _ :: _ => back s end)).
    assert (H1 : tinv s1) by (apply (tinv_frame s); [exact Ht | unfold s1; unf; tauto | unfold s1; unf; apply (t_sorted s Ht)]).
    destruct (live (th s (cur s)) && negb (memb (cur s) (paused s))); [|exact H1].
    apply tinv_insert_timed; [unfold s1; unf; apply (q_ndp s (i_q s Hi)) | exact H1 | exact I].
  - apply (tinv_frame s); [exact Ht | unf; tauto | unf; apply (t_sorted s Ht)].
Qed.

Lemma before_timed : forall x y, wf_time x -> before x (tsec y) (tusec y) = true -> timed y = true.
Proof.
  intros x y [A [B C]] H. unfold before in H. apply andb_true_iff in H. destruct H as [_ H].
  apply timeval_lt_spec in H. unfold timed. destruct (tsec y =? 0) eqn:E1; [|reflexivity].
  destruct (tusec y =? 0) eqn:E2; [|rewrite orb_true_r; reflexivity].
  apply Z.eqb_eq in E1, E2. lia.
Qed.

Lemma tinv_only_waiting : forall s res now2, NoDup (paused s) -> tinv s -> tinv (snd (only_waiting s res now2)).
Proof.
  intros s res now2 Hnd Ht. unfold only_waiting. destruct (waitp (th s res)); [|exact Ht].
  assert (Hfin : forall s1 res', tinv s1 ->
            tinv (snd (match nap_usecs (th s1 res') now2 with Some _ => (res', s1) | None => (res', upd_th s1 res' (set_flags (th s1 res') false true)) end))).
  { intros s1 res' H1. destruct (nap_usecs (th s1 res') now2); cbn [snd]; [exact H1|].
    apply tinv_upd_th; [exact H1 | reflexivity | reflexivity]. }
  destruct (paused s) as [|y prest] eqn:Ep.
  - apply Hfin. exact Ht.
  - pose proof (t_sorted s Ht) as Hs. rewrite Ep in Hs. destruct Hs as [_ Hs].
    destruct (before (th s y) (tsec (th s res)) (tusec (th s res))) eqn:Eb.
    + assert (H0 : tinv (with_paused s prest)) by (apply tinv_with_paused; assumption).
      destruct (negb (memb res prest)); apply Hfin; [|exact H0].
      apply tinv_insert_timed; [unf; inversion Hnd; assumption | exact H0|].
      unf. eapply before_timed; [apply (t_wf s Ht y) | exact Eb].
    + apply Hfin. apply tinv_with_paused; [exact Ht|]. rewrite <- Ep. apply psorted_remove1. apply (t_sorted s Ht).
Qed.

Theorem tinv_scheduler : forall s n1 n2, inv s -> tinv s -> tinv (scheduler true s n1 n2).
Proof.
  intros s n1 n2 Hi Ht. unfold scheduler.
  set (s1 := if negb (live (th s (cur s))) then wake_joiners s else s).
  assert (H1 : inv s1 /\ tinv s1).
  { unfold s1. destruct (live (th s (cur s))) eqn:El; simpl; [tauto|].
    split; [apply inv_wake_joiners; assumption | apply tinv_wake_joiners; exact Ht]. }
  destruct H1 as [Hi1 Ht1].
  assert (Hi2 : inv (wake_timeouts true s1 n1)) by (apply inv_wake_timeouts; exact Hi1).
  assert (Ht2 : tinv (wake_timeouts true s1 n1)) by (apply tinv_wake_timeouts; exact Ht1).
  set (s2 := wake_timeouts true s1 n1) in *.
  pose proof (inv_dequeue s2 Hi2) as Hi3. pose proof (tinv_dequeue s2 Hi2 Ht2) as Ht3.
  destruct (dequeue s2) as [res s3]. cbn [fst snd] in *.
  assert (Hnd : NoDup (paused s3)) by (pose proof (q_ndp _ (i_q _ Hi3)) as K; unf; exact K).
  pose proof (tinv_only_waiting s3 res n2 Hnd Ht3) as Ht4.
  destruct (only_waiting s3 res n2) as [res' s4]. cbn [snd] in Ht4.
  apply (tinv_frame s4); [exact Ht4 | unf; tauto | unf; apply (t_sorted s4 Ht4)].
Qed.

Theorem tinv_step : forall s o, inv s -> tinv s -> op_clock_ok o -> tinv (fst (step true s o)).
Proof.
  intros s o Hi Ht Hok. pose proof (tinv_step_prim s o Hi Ht Hok) as H. destruct o; try exact H.
  cbn [step fst]. apply tinv_scheduler; assumption.
Qed.

Lemma tinv_init : tinv init.
Proof. constructor; simpl; [intros x; unfold wf_time; simpl; lia | exact I]. Qed.

Theorem tinv_run : forall ops s s' tr, inv s -> tinv s -> Forall op_clock_ok ops ->
  run true s ops = Some (s', tr) -> tinv s'.
Proof.
  induction ops as [|o ops IH]; intros s s' tr Hi Ht Hok Hr; simpl in Hr.
  - inversion Hr; subst. exact Ht.
  - destruct (enabled s o) eqn:En; [|discriminate].
    destruct (step true s o) as [s1 b] eqn:Es.
    destruct (run true s1 ops) as [[s2 tr']|] eqn:Er; [|discriminate]. inversion Hr; subst s' tr; clear Hr.
    inversion Hok as [|a l Ho Hl]; subst.
    pose proof (inv_step s o Hi En) as Hi1. pose proof (tinv_step s o Hi Ht Ho) as Ht1. rewrite Es in Hi1, Ht1.
    exact (IH s1 s2 tr' Hi1 Ht1 Hl Er).
Qed.

(* SPEC (paused-list order): in every state reachable with sane clock readings the paused list holds the
   timed waiters in order of their wake times, followed by the untimed ones *)
Theorem paused_sorted_thm : forall ops s tr, Forall op_clock_ok ops -> run true init ops = Some (s, tr) ->
  psorted (th s) (paused s) /\ forall x, wf_time (th s x).
Proof.
  intros ops s tr Hok Hr. pose proof (tinv_run ops init s tr inv_init tinv_init Hok Hr) as [A B]. tauto.
Qed.

(** * timed waits are bounded *)

Lemma span_covers : forall f now l t, psorted f l -> In t l -> before (f t) (fst now) (snd now) = true ->
  In t (fst (span_before f now l)).
Proof.
  induction l as [|y r IH]; simpl; intros t Hs Ht Hb; [destruct Ht|]. destruct Hs as [H1 H2].
  destruct (before (f y) (fst now) (snd now)) eqn:Ey.
  - destruct (span_before f now r) as [a b] eqn:Esp. simpl.
    destruct Ht as [Ht|Ht]; [left; exact Ht | right]. exact (IH t H2 Ht Hb).
  - exfalso. destruct Ht as [Ht|Ht]; [subst; congruence|].
    specialize (H1 t Ht). unfold pleb in H1. unfold before in Hb, Ey.
    apply andb_true_iff in Hb. destruct Hb as [Tt Lt]. rewrite Tt in H1. simpl in H1.
    destruct (timed (f y)); [|discriminate]. simpl in *. apply negb_true_iff in H1.
    apply timeval_lt_spec in Lt.
    assert (A : ~ (tsec (f t) < tsec (f y) \/ tsec (f t) = tsec (f y) /\ tusec (f t) < tusec (f y))).
    { intros K. apply timeval_lt_spec in K. congruence. }
    assert (B : ~ (tsec (f y) < fst now \/ tsec (f y) = fst now /\ tusec (f y) < snd now)).
    { intros K. apply timeval_lt_spec in K. congruence. }
    lia.
Qed.

Lemma fold_flags_in : forall (pre : list tid) (f : tid -> thread) t,
  In t pre -> waitp (fold_left (fun f y => upd f y (set_flags (f y) false true)) pre f t) = false /\
              timeoutp (fold_left (fun f y => upd f y (set_flags (f y) false true)) pre f t) = true.
Proof.
  induction pre as [|y pre IH]; simpl; intros f t Ht; [destruct Ht|].
  destruct (in_dec Nat.eq_dec t pre) as [K|K]; [apply IH; exact K|].
  destruct Ht as [Ht|Ht]; [subst y | tauto].
  rewrite (fold_flags_notin pre _ t true K). rewrite upd_same. simpl. tauto.
Qed.

(* SPEC: a paused thread whose wake time lies before the scheduler's clock reading leaves the paused list in
   this very call: it is in the run queue (or is the running thread, woken in place) with waitp = false and
   timeoutp = true — whatever else is in the paused list *)
Theorem timeout_wakes_thm : forall s now t, inv s -> tinv s -> In t (paused s) ->
  before (th s t) (fst now) (snd now) = true ->
  let s' := wake_timeouts true s now in
  (t = cur s' \/ In t (front s')) /\ ~ In t (paused s') /\ waitp (th s' t) = false /\ timeoutp (th s' t) = true.
Proof.
  intros s now t Hi Ht Hin Hb. cbv zeta. unfold wake_timeouts.
  destruct (paused s) as [|p0 pr] eqn:Ep; [destruct Hin|]. rewrite <- Ep in *. clear Ep p0 pr.
  destruct (inv_wake_current_timeout s now Hi) as [Hi0 [Hc0 _]].
  pose proof (tinv_wake_current_timeout s now Ht) as Ht0.
  set (s0 := wake_current_timeout s now) in *.
  assert (H0 : (t = cur s /\ ~ In t (paused s0) /\ waitp (th s0 t) = false /\ timeoutp (th s0 t) = true) \/
               (t <> cur s /\ In t (paused s0) /\ th s0 t = th s t)).
  { unfold s0, wake_current_timeout. destruct (Nat.eq_dec t (cur s)) as [E|E].
    - left. subst t. rewrite (q_pw s (i_q s Hi) _ Hin), Hb. apply memb_In in Hin. rewrite Hin. simpl. unf.
      rewrite upd_same. simpl. repeat split; try reflexivity. apply remove1_notin. apply (q_ndp s (i_q s Hi)).
    - right. destruct (waitp (th s (cur s)) && before (th s (cur s)) (fst now) (snd now) && memb (cur s) (paused s)); unf.
      + repeat split; [exact E | apply remove1_In_neq; assumption | apply upd_other; exact E].
      + tauto. }
  destruct (span_before (th s0) now (paused s0)) as [pre post] eqn:Esp.
  destruct (span_before_spec _ _ _ _ _ Esp) as [Epp _].
  pose proof (q_ndp s0 (i_q s0 Hi0)) as Hnd. rewrite Epp in Hnd.
  destruct (NoDup_app_inv pre post Hnd) as [_ [_ Hdis]].
  destruct H0 as [[E [A [B C]]]|[E [A B]]].
  - (* the running thread's own timeout: woken in place *)
    assert (Hnp : ~ In t pre) by (intros K; apply A; rewrite Epp; apply in_or_app; left; exact K).
    destruct pre as [|y pre'].
    + rewrite Hc0. repeat split; try assumption. left. exact E.
    + pose proof (fold_flags_notin (y :: pre') (th s0) t true Hnp) as Hfl.
      unf. simpl in Hfl. rewrite Hc0. rewrite Hfl.
      repeat split; try assumption; [left; exact E|]. intros K. apply A. rewrite Epp. right. apply in_or_app. right. exact K.
  - assert (Hcov : In t pre).
    { pose proof (span_covers (th s0) now (paused s0) t (t_sorted s0 Ht0) A) as K. rewrite Esp in K. apply K. rewrite B. exact Hb. }
    destruct pre as [|y pre']; [destruct Hcov|]. unf.
    destruct (fold_flags_in (y :: pre') (th s0) t Hcov) as [F1 F2].
    repeat split; [| apply Hdis; exact Hcov | exact F1 | exact F2].
    right. destruct (back s0); [apply in_or_app; right; exact Hcov | exact Hcov].
Qed.

(* non-vacuity: a timed lock (2 s) and a later sleep (1 s): the sleeper is queued before the lock waiter, and a
   scheduler call after both deadlines wakes both *)
Definition tw_ops : list op :=
  [OStart 1%nat; OStart 2%nat; OLock O TNone (0, 0) (Some O);
   OSched (0, 0) (0, 0); OLock O (TRel 2 0) (1000, 1) (Some 1%nat);
   OSched (1000, 2) (0, 0); OSleep false (TRel 1 0) (1000, 3)].
Example timed_demo : exists s tr, run true init tw_ops = Some (s, tr) /\ Forall op_clock_ok tw_ops /\
  paused s = [2%nat; 1%nat] /\ cur s = 2%nat /\
  paused (scheduler true s (1003, 0) (0, 0)) = [] /\ timeoutp (th (scheduler true s (1003, 0) (0, 0)) 1%nat) = true.
Proof.
  destruct (run true init tw_ops) as [[s tr]|] eqn:E; [|vm_compute in E; discriminate].
  exists s, tr. split; [reflexivity|]. split.
  - repeat constructor; simpl; lia.
  - vm_compute in E. inversion E. repeat split; reflexivity.
Qed.

(** * the whole scheduler call: a timed wait ends at the first call after its deadline *)

Lemma fold_flags_live : forall b (pre : list tid) (f : tid -> thread) x,
  live (fold_left (fun f y => upd f y (set_flags (f y) false b)) pre f x) = live (f x).
Proof.
  induction pre as [|y pre IH]; simpl; intros f x; [reflexivity|]. rewrite IH. unfold upd.
  destruct (Nat.eqb_spec x y); [subst; reflexivity | reflexivity].
Qed.

Lemma wake_timeouts_live : forall s now x, live (th (wake_timeouts true s now) x) = live (th s x).
Proof.
  intros s now x. unfold wake_timeouts. destruct (paused s) as [|p0 pr]; [reflexivity|].
  set (s0 := wake_current_timeout s now).
  assert (H0 : live (th s0 x) = live (th s x)).
  { unfold s0, wake_current_timeout.
    destruct (waitp (th s (cur s)) && before (th s (cur s)) (fst now) (snd now) && memb (cur s) (paused s)); [|reflexivity].
    unf. unfold upd. destruct (Nat.eqb_spec x (cur s)); [subst; reflexivity | reflexivity]. }
  destruct (span_before (th s0) now (paused s0)) as [pre post]. destruct pre as [|y pre']; [exact H0|].
  unf. rewrite <- H0. apply (fold_flags_live true (y :: pre') (th s0) x).
Qed.

Lemma dequeue_keeps_cur : forall s, live (th s (cur s)) = true -> waitp (th s (cur s)) = false ->
  (cur s = fst (dequeue s) \/ In (cur s) (front (snd (dequeue s)))) /\ waitp (th (snd (dequeue s)) (cur s)) = false.
Proof.
  intros s Hl Hw. unfold dequeue. destruct (front s) as [|x rest]; [cbn [fst snd]; tauto|].
  rewrite Hl, Hw. cbn [negb orb fst snd]. unf. split; [right; apply in_or_app; right; left; reflexivity | exact Hw].
Qed.

(* SPEC (timed_wait_bounded): in a reachable state (inv, time-ordered paused list) a paused thread whose wake time
   is before the clock reading of a scheduler call is, after that one call, the running thread or in the run
   queue and not waiting any more — no other waiter can delay it *)
Theorem timed_wait_bounded_thm : forall s n1 n2 t, inv s -> tinv s -> In t (paused s) ->
  before (th s t) (fst n1) (snd n1) = true ->
  let s' := scheduler true s n1 n2 in
  (t = cur s' \/ In t (front s')) /\ waitp (th s' t) = false.
Proof.
  intros s n1 n2 t Hi Ht Hin Hb. cbv zeta. unfold scheduler.
  set (s1 := if negb (live (th s (cur s))) then wake_joiners s else s).
  assert (H1 : inv s1 /\ tinv s1 /\ cur s1 = cur s /\
               ((In t (paused s1) /\ th s1 t = th s t) \/ (In t (front s1) /\ waitp (th s1 t) = false))).
  { unfold s1. destruct (live (th s (cur s))) eqn:El; cbn [negb]; [tauto|].
    destruct (inv_wake_joiners s Hi El) as [A B].
    split; [exact A | split; [apply tinv_wake_joiners; exact Ht | split; [exact B|]]].
    destruct (join_wakes_all_joiners_thm s (q_back s (i_q s Hi))) as [_ [J2 [J3 J4]]].
    destruct (event_eqb (ev (th s t)) (EThread (cur s))) eqn:Ee.
    - right. apply event_eqb_eq in Ee. destruct (J3 t Hin Ee) as [K1 [_ [K3 _]]]. tauto.
    - left. split; [rewrite J2; apply filter_In; split; [exact Hin | rewrite Ee; reflexivity]|].
      apply J4. intros K. rewrite K in Ee. rewrite event_eqb_refl in Ee. discriminate. }
  destruct H1 as [Hi1 [Ht1 [Hc1 H1]]].
  destruct (inv_wake_timeouts s1 n1 Hi1) as [Hi2 Hc2].
  assert (H2 : (t = cur (wake_timeouts true s1 n1) /\ live (th s t) = true \/ In t (front (wake_timeouts true s1 n1))) /\
               waitp (th (wake_timeouts true s1 n1) t) = false).
  { destruct H1 as [[A B]|[A B]].
    - assert (Hb1 : before (th s1 t) (fst n1) (snd n1) = true) by (rewrite B; exact Hb).
      destruct (timeout_wakes_thm s1 n1 t Hi1 Ht1 A Hb1) as [K1 [_ [K3 _]]]. split; [|exact K3].
      destruct K1 as [K1|K1]; [left | right; exact K1]. split; [exact K1|].
      rewrite Hc2, Hc1 in K1. subst t. destruct (live (th s (cur s))) eqn:El; [reflexivity|].
      exfalso. exact (i_dead s Hi El Hin).
    - destruct (wake_timeouts_keeps_runnable s1 n1 t Hi1 A) as [K1 K2]. split; [right; exact K1 | rewrite K2; exact B]. }
  set (s2 := wake_timeouts true s1 n1) in *.
  destruct H2 as [H2 Hw2].
  assert (H3 : (t = fst (dequeue s2) \/ In t (front (snd (dequeue s2)))) /\ waitp (th (snd (dequeue s2)) t) = false).
  { destruct H2 as [[E L]|K].
    - subst t. apply dequeue_keeps_cur; [|exact Hw2].
      rewrite Hc2, Hc1 in L. rewrite Hc2, Hc1. unfold s2. rewrite wake_timeouts_live.
      unfold s1. rewrite L. exact L.
    - destruct (dequeue_keeps_runnable s2 t K) as [D1 D2]. split; [exact D1 | rewrite D2; exact Hw2]. }
  pose proof (inv_dequeue s2 Hi2) as Hi3.
  destruct (dequeue s2) as [res s3]. cbn [fst snd] in *. destruct H3 as [D1 Hw3].
  assert (Hp3 : ~ In t (paused s3)).
  { intros K. destruct D1 as [D1|D1].
    - subst res. pose proof (q_pw _ (i_q _ Hi3) t) as Hpw. unf. rewrite (Hpw K) in Hw3. discriminate.
    - pose proof (q_disj _ (i_q _ Hi3) t) as Hd. unf. exact (Hd D1 K). }
  destruct (only_waiting_keeps_runnable s3 res n2 t D1 Hw3 Hp3) as [O1 O2].
  destruct (only_waiting s3 res n2) as [res' s4]. cbn [fst snd] in *. unf. tauto.
Qed.
