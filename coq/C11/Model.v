(** C11 — executable model of chibi-scheme's green-thread scheduler and SRFI-18 primitives.
    Mirrors lib/srfi/18/threads.c (with fixes/C11-timeout-while-current.patch applied) function
    by function.  Modelling decisions (see notes/C11.md):
    - cons cells of the run queue / paused list are abstracted to Coq lists of thread ids; the
      global THREADS_BACK is kept as [back] = the thread stored in the back cell, and every C test
      [sexp_pairp(BACK)] / [sexp_pairp(FRONT)] is mirrored on that field / on the list, so a
      forgotten update of BACK shows as a lost thread exactly as in C;
    - per thread: waitp, timeoutp, live (refuel > 0), event, wake time (tv_sec, tv_usec);
    - clock readings (gettimeofday) are explicit inputs of each operation;
    - signals, fd polling (sexp_blocker) and child contexts are not modelled.
    No proofs in this file. *)
From Coq Require Import ZArith List Bool Arith.
Import ListNotations.
Local Open Scope Z_scope.

Definition tid := nat.
Definition mid := nat.
Definition cid := nat.

Inductive event := ENone | EMutex (m : mid) | ECond (c : cid) | EThread (t : tid).

Definition event_eqb (a b : event) : bool :=
  match a, b with
  | ENone, ENone => true
  | EMutex x, EMutex y => Nat.eqb x y
  | ECond x, ECond y => Nat.eqb x y
  | EThread x, EThread y => Nat.eqb x y
  | _, _ => false
  end.

(* struct sexp_context fields used by the scheduler: include/chibi/sexp.h:590-595, 582 *)
Record thread := mkT { waitp : bool; timeoutp : bool; live : bool; ev : event; tsec : Z; tusec : Z }.
(* Mutex record: lib/srfi/18/types.scm:5-11 (slots thread, lock) *)
Record mutex := mkM { locked : bool; owner : option tid }.

Record st := mkS {
  cur : tid;                 (* the running context *)
  front : list tid;          (* SEXP_G_THREADS_FRONT, first cell first *)
  back : option tid;         (* SEXP_G_THREADS_BACK: thread in the back cell, None when not a pair *)
  paused : list tid;         (* SEXP_G_THREADS_PAUSED *)
  th : tid -> thread;
  mx : mid -> mutex;
  started : tid -> bool      (* ghost: thread-start! was applied (or it is the root thread) *)
}.

Definition upd {A} (f : nat -> A) (k : nat) (v : A) : nat -> A :=
  fun x => if Nat.eqb x k then v else f x.

Definition set_flags (x : thread) (w tmo : bool) := mkT w tmo (live x) (ev x) (tsec x) (tusec x).
Definition set_wait (x : thread) (w : bool) := mkT w (timeoutp x) (live x) (ev x) (tsec x) (tusec x).
Definition set_ev (x : thread) (e : event) := mkT (waitp x) (timeoutp x) (live x) e (tsec x) (tusec x).
Definition set_time (x : thread) (s us : Z) := mkT (waitp x) (timeoutp x) (live x) (ev x) s us.
Definition set_live (x : thread) (l : bool) := mkT (waitp x) (timeoutp x) l (ev x) (tsec x) (tusec x).

Definition with_cur (s : st) c := mkS c (front s) (back s) (paused s) (th s) (mx s) (started s).
Definition with_queue (s : st) f b := mkS (cur s) f b (paused s) (th s) (mx s) (started s).
Definition with_paused (s : st) p := mkS (cur s) (front s) (back s) p (th s) (mx s) (started s).
Definition with_th (s : st) t := mkS (cur s) (front s) (back s) (paused s) t (mx s) (started s).
Definition with_mx (s : st) m := mkS (cur s) (front s) (back s) (paused s) (th s) m (started s).
Definition with_started (s : st) m := mkS (cur s) (front s) (back s) (paused s) (th s) (mx s) m.
Definition upd_th (s : st) (t : tid) (x : thread) := with_th s (upd (th s) t x).

Definition memb (x : tid) (l : list tid) : bool := existsb (Nat.eqb x) l.

(* sexp_delete_list, threads.c:126-137: unlink the first cell holding x *)
Fixpoint remove1 (x : tid) (l : list tid) : list tid :=
  match l with
  | [] => []
  | y :: r => if Nat.eqb y x then r else y :: remove1 x r
  end.

(* timeval_le / sexp_context_before, threads.c:35-36 (the comparison is strict) *)
Definition timeval_lt (a1 a2 b1 b2 : Z) : bool := (a1 <? b1) || ((a1 =? b1) && (a2 <? b2)).
Definition timed (x : thread) : bool := negb (tsec x =? 0) || negb (tusec x =? 0).
Definition before (x : thread) (s us : Z) : bool := timed x && timeval_lt (tsec x) (tusec x) s us.

(* the timeout argument of the primitives after timeout->seconds: #f, a real (seconds and
   microseconds as sexp_insert_timed splits it), or the thread itself (re-insertion, threads.c:603) *)
Inductive timeout := TNone | TRel (ds dus : Z) | TSelf.

(* sexp_insert_timed, threads.c:160-198: the new wake time *)
Definition deadline (x : thread) (tmo : timeout) (now : Z * Z) : Z * Z :=
  match tmo with
  | TNone => (0, 0)
  | TRel ds dus =>
      let s := fst now + ds in
      let us := snd now + dus in
      if us >? 1000000 then (s + 1, us - 1000000) else (s, us)
  | TSelf => (tsec x, tusec x)
  end.

Fixpoint insert_when (skip : tid -> bool) (x : tid) (l : list tid) : list tid :=
  match l with
  | [] => [x]
  | y :: r => if skip y then y :: insert_when skip x r else x :: l
  end.

(* sexp_insert_timed, threads.c:160-209 *)
Definition insert_timed (s : st) (t : tid) (tmo : timeout) (now : Z * Z) : st :=
  let p1 := remove1 t (paused s) in
  let d := deadline (th s t) tmo now in
  let th' := upd (th s) t (set_time (th s t) (fst d) (snd d)) in
  let skip := match tmo with
              | TNone => fun y => negb (tsec (th' y) =? 0)
              | _ => fun y => before (th' y) (fst d) (snd d)
              end in
  with_paused (with_th s th') (insert_when skip t p1).

(* the list surgery of sexp_thread_start, threads.c:116-122 (also used inline by the scheduler) *)
Definition enqueue (s : st) (t : tid) : st :=
  match back s with
  | Some _ => with_queue s (front s ++ [t]) (Some t)
  | None => with_queue s [t] (Some t)
  end.

(* sexp_thread_start, threads.c:112-124 *)
Definition thread_start (s : st) (t : tid) : st :=
  enqueue (with_started s (upd (started s) t true)) t.

(* sexp_thread_terminate, threads.c:139-158 (children not modelled) with fixes/C11-terminate-timed-waiter.patch: a paused victim
   stops waiting (waitp = timeoutp = 0) before it is queued for its last scheduler call; result: terminating self *)
Definition thread_terminate (s : st) (t : tid) : st * bool :=
  let s1 := if live (th s (cur s)) then upd_th s t (set_live (th s t) false) else s in
  let s2 := if memb t (paused s1)
            then enqueue (upd_th (with_paused s1 (remove1 t (paused s1))) t (set_flags (th s1 t) false false)) t
            else s1 in
  (s2, Nat.eqb (cur s) t).

(* sexp_thread_join, threads.c:211-221 *)
Definition thread_join (s : st) (t : tid) (tmo : timeout) (now : Z * Z) : st * bool :=
  if negb (live (th s t)) then (s, true)
  else
    let c := cur s in
    let s1 := upd_th s c (set_ev (set_flags (th s c) true false) (EThread t)) in
    (insert_timed s1 c tmo now, false).

(* sexp_thread_sleep, threads.c:223-231; [forever] is the timeout #t used by the signal runner *)
Definition thread_sleep (s : st) (forever : bool) (tmo : timeout) (now : Z * Z) : st * bool :=
  let c := cur s in
  let s1 := upd_th s c (set_wait (th s c) true) in
  if forever then (s1, false)
  else (insert_timed (upd_th s1 c (set_ev (th s1 c) ENone)) c tmo now, false).

(* sexp_mutex_lock, threads.c:248-261; [o] is the owner to record (#t = the caller) *)
Definition mutex_lock (s : st) (m : mid) (tmo : timeout) (now : Z * Z) (o : option tid) : st * bool :=
  if negb (locked (mx s m)) then (with_mx s (upd (mx s) m (mkM true o)), true)
  else
    let c := cur s in
    let s1 := upd_th s c (set_ev (set_wait (th s c) true) (EMutex m)) in
    (insert_timed s1 c tmo now, false).

(* first cell of l whose thread satisfies p, with the cells before and after it *)
Fixpoint split_first (p : tid -> bool) (l : list tid) : option (list tid * tid * list tid) :=
  match l with
  | [] => None
  | y :: r =>
      if p y then Some ([], y, r)
      else match split_first p r with
           | Some (pre, w, post) => Some (y :: pre, w, post)
           | None => None
           end
  end.

(* the surgery shared by %mutex-unlock! (threads.c:270-284) and condition-variable-signal!
   (threads.c:299-312): unlink the first paused thread waiting on e, push it on the FRONT of
   the run queue, fix BACK when the queue was empty, clear waitp and timeoutp *)
Definition wake_front (s : st) (e : event) : option st :=
  match split_first (fun y => event_eqb (ev (th s y)) e) (paused s) with
  | None => None
  | Some (pre, w, post) =>
      let s1 := with_paused s (pre ++ post) in
      let s2 := with_queue s1 (w :: front s) (match front s with [] => Some w | _ => back s end) in
      Some (upd_th s2 w (set_flags (th s w) false false))
  end.

(* sexp_mutex_unlock, threads.c:263-294 *)
Definition mutex_unlock (s : st) (m : mid) (cv : option cid) (tmo : timeout) (now : Z * Z) : st * bool :=
  let s1 :=
    if locked (mx s m) then
      let s0 := with_mx s (upd (mx s) m (mkM false (Some (cur s)))) in
      match wake_front s0 (EMutex m) with Some s' => s' | None => s0 end
    else s in
  match cv with
  | Some c =>
      let k := cur s1 in
      let s2 := upd_th s1 k (set_ev (set_wait (th s1 k) true) (ECond c)) in
      (insert_timed s2 k tmo now, false)
  | None => (s1, true)
  end.

(* sexp_condition_variable_signal, threads.c:298-314 *)
Definition condvar_signal (s : st) (c : cid) : st * bool :=
  match wake_front s (ECond c) with
  | Some s' => (s', true)
  | None => (s, false)
  end.

(* sexp_condition_variable_broadcast, threads.c:316-321: signal until it returns #f.  Every
   successful signal shortens the paused list, so [length (paused s)] rounds always suffice
   (proved: broadcast_fuel_suffices). *)
Fixpoint broadcast_loop (fuel : nat) (s : st) (c : cid) (res : bool) : st * bool :=
  match fuel with
  | O => (s, res)
  | S f => match wake_front s (ECond c) with
           | Some s' => broadcast_loop f s' c true
           | None => (s, res)
           end
  end.
Definition condvar_broadcast (s : st) (c : cid) : st * bool :=
  broadcast_loop (length (paused s)) s c false.

(** the scheduler, threads.c:420-634 (signal and fd sections not modelled) *)

(* threads.c:505-529: the terminated current thread wakes the threads joining it, in paused-list
   order, each appended at the BACK of the run queue *)
Definition wake_joiners (s : st) : st :=
  let isj := fun y => event_eqb (ev (th s y)) (EThread (cur s)) in
  let js := filter isj (paused s) in
  let rest := filter (fun y => negb (isj y)) (paused s) in
  fold_left (fun a y => enqueue (upd_th a y (set_flags (th a y) false false)) y) js (with_paused s rest).

Fixpoint span_before (thf : tid -> thread) (now : Z * Z) (l : list tid) : list tid * list tid :=
  match l with
  | [] => ([], [])
  | y :: r => if before (thf y) (fst now) (snd now)
              then let (a, b) := span_before thf now r in (y :: a, b)
              else ([], l)
  end.

Fixpoint last_opt (l : list tid) : option tid :=
  match l with
  | [] => None
  | [x] => Some x
  | _ :: r => last_opt r
  end.

(* fixes/C11-timeout-while-current.patch: the running thread whose own timeout has passed is woken
   in place.  [fixed = false] gives the pinned code, where it is spliced into the run queue. *)
Definition wake_current_timeout (s : st) (now : Z * Z) : st :=
  let c := cur s in
  if waitp (th s c) && before (th s c) (fst now) (snd now) && memb c (paused s)
  then upd_th (with_paused s (remove1 c (paused s))) c (set_flags (th s c) false true)
  else s.

(* threads.c:531-553: the maximal prefix of the paused list whose wake time has passed is spliced
   onto the BACK of the run queue *)
Definition wake_timeouts (fixed : bool) (s : st) (now : Z * Z) : st :=
  match paused s with
  | [] => s
  | _ :: _ =>
      let s0 := if fixed then wake_current_timeout s now else s in
      let (pre, post) := span_before (th s0) now (paused s0) in
      match pre with
      | [] => s0
      | _ :: _ =>
          let th' := fold_left (fun f y => upd f y (set_flags (f y) false true)) pre (th s0) in
          let f' := match back s0 with Some _ => front s0 ++ pre | None => pre end in
          with_paused (with_queue (with_th s0 th') f' (last_opt pre)) post
      end
  end.

(* threads.c:555-591: dequeue the next thread (result: chosen thread, state) *)
Definition dequeue (s : st) : tid * st :=
  match front s with
  | x :: rest =>
      let c := cur s in
      if negb (live (th s c)) || waitp (th s c) then
        let s1 := with_queue s rest (match rest with [] => None | _ => back s end) in
        let s2 := if live (th s c) && negb (memb c (paused s)) then insert_timed s1 c TNone (0, 0) else s1 in
        (x, s2)
      else
        (x, with_queue s (rest ++ [c]) (Some c))
  | [] => (cur s, s)
  end.

(* threads.c:609-627: how long to nap; None = the thread stops waiting (timeout reached) *)
Definition nap_usecs (x : thread) (now : Z * Z) : option Z :=
  if (tsec x =? 0) && (tusec x =? 0) then Some 10000
  else
    let u0 := if fst now <=? tsec x then (tsec x - fst now) * 1000000 else 0 in
    let u := if (fst now <=? tsec x) && ((snd now <? tusec x) || (u0 >? 0)) then u0 + (tusec x - snd now) else u0 in
    if u >? 10000 then Some 10000 else None.

(* threads.c:593-630: the chosen thread is itself waiting (every thread is blocked) *)
Definition only_waiting (s : st) (res : tid) (now2 : Z * Z) : tid * st :=
  if waitp (th s res) then
    let r := th s res in
    let '(res', s1) :=
      match paused s with
      | y :: prest =>
          if before (th s y) (tsec r) (tusec r) then
            let s0 := with_paused s prest in
            (y, if negb (memb res prest) then insert_timed s0 res TSelf (0, 0) else s0)
          else (res, with_paused s (remove1 res (paused s)))
      | [] => (res, s)
      end in
    match nap_usecs (th s1 res') now2 with
    | Some _ => (res', s1)
    | None => (res', upd_th s1 res' (set_flags (th s1 res') false true))
    end
  else (res, s).

(* sexp_scheduler, threads.c:420-634, followed by the VM making the result the running thread
   (vm.c:1123).  now1 / now2: the clock readings at threads.c:533 and :615 *)
Definition scheduler (fixed : bool) (s : st) (now1 now2 : Z * Z) : st :=
  let s1 := if negb (live (th s (cur s))) then wake_joiners s else s in
  let s2 := wake_timeouts fixed s1 now1 in
  let (res, s3) := dequeue s2 in
  let (res', s4) := only_waiting s3 res now2 in
  with_cur s4 res'.

(** operations = what one thread can do in one VM instruction, plus the scheduler call *)
Inductive op :=
| OStart (t : tid)
| OTerminate (t : tid)
| OJoin (t : tid) (tmo : timeout) (now : Z * Z)
| OSleep (forever : bool) (tmo : timeout) (now : Z * Z)
| OLock (m : mid) (tmo : timeout) (now : Z * Z) (o : option tid)
| OUnlock (m : mid) (cv : option cid) (tmo : timeout) (now : Z * Z)
| OSignal (c : cid)
| OBroadcast (c : cid)
| OExit                                   (* the thread's thunk returned: vm.c:2314 refuel = 0 *)
| OSched (now1 now2 : Z * Z).

Definition step (fixed : bool) (s : st) (o : op) : st * bool :=
  match o with
  | OStart t => (thread_start s t, true)
  | OTerminate t => thread_terminate s t
  | OJoin t tmo now => thread_join s t tmo now
  | OSleep f tmo now => thread_sleep s f tmo now
  | OLock m tmo now o => mutex_lock s m tmo now o
  | OUnlock m cv tmo now => mutex_unlock s m cv tmo now
  | OSignal c => condvar_signal s c
  | OBroadcast c => condvar_broadcast s c
  | OExit => (upd_th s (cur s) (set_live (th s (cur s)) false), true)
  | OSched n1 n2 => (scheduler fixed s n1 n2, true)
  end.

(* what the VM and the wrappers of lib/srfi/18/interface.scm allow: a primitive runs only in a
   live, non-waiting current thread (after a primitive returned #f the wrapper's next instruction
   is yield!); thread-start! only on a new thread; the scheduler can be entered at any instruction
   boundary.  thread-terminate! is allowed on EVERY thread (round 4: the exclusion of a paused victim
   with a pending timeout is gone; the repaired sexp_thread_terminate clears its wait flags). *)
Definition enabled (s : st) (o : op) : bool :=
  match o with
  | OSched _ _ => true
  | _ =>
      live (th s (cur s)) && negb (waitp (th s (cur s))) &&
      match o with
      | OStart t => negb (started s t)
      | _ => true
      end
  end.

Definition thread0 := mkT false false true ENone 0 0.
Definition init : st := mkS O [] None [] (fun _ => thread0) (fun _ => mkM false None) (fun t => Nat.eqb t O).

(* run a sequence of operations; None when one of them is not enabled.  The trace records who
   ran what with which result. *)
Fixpoint run (fixed : bool) (s : st) (ops : list op) : option (st * list (tid * op * bool)) :=
  match ops with
  | [] => Some (s, [])
  | o :: r =>
      if enabled s o then
        let (s', b) := step fixed s o in
        match run fixed s' r with
        | Some (s'', tr) => Some (s'', (cur s, o, b) :: tr)
        | None => None
        end
      else None
  end.
