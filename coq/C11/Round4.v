(** C11 round 4 — thread-terminate! of EVERY thread is inside the reachable fragment (Model.enabled no longer
    excludes a paused victim with a pending timeout):
    - an ended thread never waits and is never in the paused list, in every reachable state (the "dead thread
      that waits" of F-C11-3 cannot exist in the repaired scheduler), so every wake-up reaches a live thread;
    - the exact effect of thread-terminate! on a paused victim;
    - the wake time computed by sexp_insert_timed (microsecond carry included) denotes the instant
      now + timeout, and a timed wait is never ended by the timeout test before that instant. *)
From Coq Require Import ZArith List Bool Arith Lia.
From ChibiV Require Import C11.Model C11.Lists C11.Invariant C11.SchedProofs C11.Theorems C11.Round2 C11.Sorted.
Import ListNotations.
Local Open Scope Z_scope.

(** * an ended thread never waits *)

Definition dnw (s : st) : Prop := forall t, live (th s t) = false -> waitp (th s t) = false.

(* g keeps every live flag of f and sets no wait flag *)
Definition tmono (f g : tid -> thread) : Prop :=
  forall t, live (g t) = live (f t) /\ (waitp (f t) = false -> waitp (g t) = false).

Lemma tmono_refl : forall f, tmono f f.
Proof. intros f t. split; [reflexivity | intros H; exact H]. Qed.

Lemma tmono_trans : forall f g h, tmono f g -> tmono g h -> tmono f h.
Proof.
  intros f g h A B t. destruct (A t) as [A1 A2]. destruct (B t) as [B1 B2].
  split; [congruence | intros H; apply B2; apply A2; exact H].
Qed.

Lemma tmono_clear : forall f y b, tmono f (upd f y (set_flags (f y) false b)).
Proof.
  intros f y b t. unfold upd. destruct (Nat.eqb_spec t y) as [E|E].
  - subst. split; [reflexivity | intros _; reflexivity].
  - split; [reflexivity | intros H; exact H].
Qed.

Lemma dnw_tmono : forall s s', dnw s -> tmono (th s) (th s') -> dnw s'.
Proof. intros s s' H M t Hl. destruct (M t) as [M1 M2]. apply M2. apply H. congruence. Qed.

Lemma th_enqueue : forall s t, th (enqueue s t) = th s.
Proof. intros. unfold enqueue. destruct (back s); reflexivity. Qed.

Lemma tmono_fold_wake1 : forall b X a, tmono (th a) (th (fold_left (wake1 b) X a)).
Proof.
  induction X as [|y X IH]; simpl; intros a; [apply tmono_refl|].
  eapply tmono_trans; [|apply IH]. unfold wake1. rewrite th_enqueue. unfold upd_th, with_th; cbn [th].
  apply tmono_clear.
Qed.

Lemma tmono_wake_joiners : forall s, tmono (th s) (th (wake_joiners s)).
Proof.
  intros s. unfold wake_joiners.
  change (fun a y => enqueue (upd_th a y (set_flags (th a y) false false)) y) with (wake1 false).
  cbv zeta.
  exact (tmono_fold_wake1 false _ (with_paused s _)).
Qed.

Lemma tmono_fold_flags : forall (pre : list tid) (f : tid -> thread),
  tmono f (fold_left (fun f y => upd f y (set_flags (f y) false true)) pre f).
Proof.
  induction pre as [|y pre IH]; simpl; intros f; [apply tmono_refl|].
  eapply tmono_trans; [apply (tmono_clear f y true) | apply IH].
Qed.

Lemma tmono_wake_current_timeout : forall s now, tmono (th s) (th (wake_current_timeout s now)).
Proof.
  intros s now. unfold wake_current_timeout.
  destruct (waitp (th s (cur s)) && before (th s (cur s)) (fst now) (snd now) && memb (cur s) (paused s)); [|apply tmono_refl].
  unfold upd_th, with_th, with_paused; cbn [th]. apply tmono_clear.
Qed.

Lemma tmono_wake_timeouts : forall s now, tmono (th s) (th (wake_timeouts true s now)).
Proof.
  intros s now. unfold wake_timeouts. destruct (paused s) eqn:Ep; [apply tmono_refl|].
  set (s0 := wake_current_timeout s now).
  assert (H0 : tmono (th s) (th s0)) by apply tmono_wake_current_timeout.
  destruct (span_before (th s0) now (paused s0)) as [pre post]. destruct pre as [|p pre]; [exact H0|].
  eapply tmono_trans; [exact H0|]. unfold with_paused, with_queue, with_th; cbn [th]. apply tmono_fold_flags.
Qed.

Lemma tmono_insert_timed : forall s t tmo now, tmono (th s) (th (insert_timed s t tmo now)).
Proof.
  intros s t tmo now x. destruct (insert_timed_flags s t tmo now x) as [F1 [F2 _]]. rewrite F1, F2.
  split; [reflexivity | intros H; exact H].
Qed.

Lemma tmono_dequeue : forall s, tmono (th s) (th (snd (dequeue s))).
Proof.
  intros s. unfold dequeue. destruct (front s) as [|x rest]; [apply tmono_refl|].
  destruct (negb (live (th s (cur s))) || waitp (th s (cur s))); [|apply tmono_refl].
  cbn [snd]. destruct (live (th s (cur s)) && negb (memb (cur s) (paused s))); [|apply tmono_refl].
  exact (tmono_insert_timed (with_queue s _ _) _ _ _).
Qed.

Lemma tmono_clear_after : forall f g y b, tmono f g -> tmono f (upd g y (set_flags (g y) false b)).
Proof. intros f g y b H. eapply tmono_trans; [exact H | apply tmono_clear]. Qed.

Ltac nap_case := match goal with |- context [nap_usecs ?a ?b] => destruct (nap_usecs a b) end.

Lemma tmono_only_waiting : forall s res now2, tmono (th s) (th (snd (only_waiting s res now2))).
Proof.
  intros s res now2. unfold only_waiting. destruct (waitp (th s res)); [|apply tmono_refl].
  destruct (paused s) as [|y prest].
  - nap_case; cbn [snd]; [apply tmono_refl|]. unfold upd_th, with_th; cbn [th]. apply tmono_clear.
  - destruct (before (th s y) (tsec (th s res)) (tusec (th s res))).
    + destruct (negb (memb res prest)).
      * pose proof (tmono_insert_timed (with_paused s prest) res TSelf (0, 0)) as H1.
        change (th (with_paused s prest)) with (th s) in H1.
        nap_case; cbn [snd]; [exact H1|]. unfold upd_th, with_th; cbn [th]. apply tmono_clear_after. exact H1.
      * nap_case; cbn [snd]; [apply tmono_refl|]. unfold upd_th, with_th, with_paused; cbn [th]. apply tmono_clear.
    + nap_case; cbn [snd]; [apply tmono_refl|]. unfold upd_th, with_th, with_paused; cbn [th]. apply tmono_clear.
Qed.

Lemma tmono_scheduler : forall s n1 n2, tmono (th s) (th (scheduler true s n1 n2)).
Proof.
  intros s n1 n2. unfold scheduler.
  set (s1 := if negb (live (th s (cur s))) then wake_joiners s else s).
  assert (H1 : tmono (th s) (th s1)) by (unfold s1; destruct (negb (live (th s (cur s)))); [apply tmono_wake_joiners | apply tmono_refl]).
  set (s2 := wake_timeouts true s1 n1).
  assert (H2 : tmono (th s) (th s2)) by (eapply tmono_trans; [exact H1 | apply tmono_wake_timeouts]).
  pose proof (tmono_dequeue s2) as H3. destruct (dequeue s2) as [res s3]. cbn [snd] in H3.
  pose proof (tmono_only_waiting s3 res n2) as H4. destruct (only_waiting s3 res n2) as [res' s4]. cbn [snd] in H4.
  unfold with_cur; cbn [th].
  eapply tmono_trans; [exact H2|]. eapply tmono_trans; [exact H3 | exact H4].
Qed.

Lemma tmono_wake_front : forall s e s', wake_front s e = Some s' -> tmono (th s) (th s') /\ cur s' = cur s.
Proof.
  intros s e s' H. destruct (wake_front_shape s e s' H) as [pre [w [post [_ [_ [_ [_ [_ [_ [C [_ [_ T]]]]]]]]]]]].
  rewrite T. split; [apply tmono_clear | exact C].
Qed.

Lemma tmono_broadcast_loop : forall fuel s c r,
  tmono (th s) (th (fst (broadcast_loop fuel s c r))).
Proof.
  induction fuel as [|f IH]; simpl; intros s c r; [apply tmono_refl|].
  destruct (wake_front s (ECond c)) as [s'|] eqn:E; [|apply tmono_refl].
  destruct (tmono_wake_front s _ s' E) as [A _]. eapply tmono_trans; [exact A | apply IH].
Qed.

(* the running thread changes its own record but stays live *)
Lemma dnw_upd_live : forall s c x, dnw s -> live x = true -> dnw (upd_th s c x).
Proof.
  intros s c x H Hx t Hl. unfold upd_th, with_th in *; cbn [th] in *. unfold upd in *.
  destruct (Nat.eqb t c); [congruence | apply H; exact Hl].
Qed.

Theorem dnw_step : forall s o, inv s -> dnw s -> enabled s o = true -> dnw (fst (step true s o)).
Proof.
  intros s o Hi Hd He.
  destruct o;
    try (simpl in He; apply andb_prop in He; destruct He as [He He2]; apply andb_prop in He;
         destruct He as [Hl Hw]; apply negb_true_iff in Hw);
    cbn [step fst].
  - (* start *) eapply dnw_tmono; [exact Hd|]. unfold thread_start. rewrite th_enqueue. apply tmono_refl.
  - (* terminate *) unfold thread_terminate. rewrite Hl. cbn [fst].
    change (paused (upd_th s t (set_live (th s t) false))) with (paused s).
    destruct (memb t (paused s)) eqn:Em.
    + intros y Hy. rewrite th_enqueue in *. unfold upd_th, with_th, with_paused in *; cbn [th] in *.
      destruct (Nat.eq_dec y t) as [E|E].
      * subst y. rewrite upd_same. reflexivity.
      * rewrite !upd_other in * by exact E. apply Hd. exact Hy.
    + intros y Hy. unfold upd_th, with_th in *; cbn [th] in *.
      destruct (Nat.eq_dec y t) as [E|E].
      * subst y. rewrite upd_same. simpl.
        destruct (live (th s t)) eqn:Elt; [|apply Hd; exact Elt].
        destruct (waitp (th s t)) eqn:Ewt; [|reflexivity]. exfalso.
        destruct (i_wp s Hi t Ewt Elt) as [K|K].
        -- subst t. congruence.
        -- apply memb_In in K. congruence.
      * rewrite upd_other in * by exact E. apply Hd. exact Hy.
  - (* join *) unfold thread_join. destruct (negb (live (th s t))); cbn [fst]; [exact Hd|]. cbv zeta.
    eapply dnw_tmono; [|apply tmono_insert_timed]. apply dnw_upd_live; [exact Hd | simpl; exact Hl].
  - (* sleep *) unfold thread_sleep. cbv zeta. destruct forever; cbn [fst].
    + apply dnw_upd_live; [exact Hd | simpl; exact Hl].
    + eapply dnw_tmono; [|apply tmono_insert_timed]. apply dnw_upd_live.
      * apply dnw_upd_live; [exact Hd | simpl; exact Hl].
      * unfold upd_th, with_th; cbn [th]. rewrite upd_same. simpl. exact Hl.
  - (* lock *) unfold mutex_lock. destruct (negb (locked (mx s m))); cbn [fst]; [exact Hd|]. cbv zeta.
    eapply dnw_tmono; [|apply tmono_insert_timed]. apply dnw_upd_live; [exact Hd | simpl; exact Hl].
  - (* unlock *) unfold mutex_unlock.
    set (s1 := if locked (mx s m) then _ else s).
    assert (H1 : tmono (th s) (th s1) /\ cur s1 = cur s).
    { unfold s1. destruct (locked (mx s m)); [|split; [apply tmono_refl | reflexivity]].
      set (s0 := with_mx s (upd (mx s) m {| locked := false; owner := Some (cur s) |})).
      destruct (wake_front s0 (EMutex m)) as [s'|] eqn:E; [|split; [apply tmono_refl | reflexivity]].
      exact (tmono_wake_front s0 _ s' E). }
    destruct H1 as [M1 C1].
    assert (Hd1 : dnw s1) by (eapply dnw_tmono; [exact Hd | exact M1]).
    destruct cv as [c|]; cbn [fst]; [|exact Hd1]. cbv zeta.
    eapply dnw_tmono; [|apply tmono_insert_timed]. apply dnw_upd_live; [exact Hd1|]. simpl.
    destruct (M1 (cur s)) as [L _]. rewrite C1, L. exact Hl.
  - (* signal *) unfold condvar_signal. destruct (wake_front s (ECond c)) as [s'|] eqn:E; cbn [fst]; [|exact Hd].
    eapply dnw_tmono; [exact Hd | apply (tmono_wake_front s _ s' E)].
  - (* broadcast *) unfold condvar_broadcast. eapply dnw_tmono; [exact Hd | apply tmono_broadcast_loop].
  - (* exit *) intros y Hy. unfold upd_th, with_th in *; cbn [th] in *.
    destruct (Nat.eq_dec y (cur s)) as [E|E].
    + subst y. rewrite upd_same. simpl. exact Hw.
    + rewrite upd_other in * by exact E. apply Hd. exact Hy.
  - (* scheduler *) eapply dnw_tmono; [exact Hd | apply tmono_scheduler].
Qed.

Lemma dnw_run : forall ops s s' tr, inv s -> dnw s -> run true s ops = Some (s', tr) -> dnw s'.
Proof.
  induction ops as [|o r IH]; simpl; intros s s' tr Hi Hd H.
  - inversion H; subst. exact Hd.
  - destruct (enabled s o) eqn:Ee; [|discriminate].
    destruct (step true s o) as [s1 b] eqn:Es.
    destruct (run true s1 r) as [[s2 tr2]|] eqn:Er; [|discriminate].
    inversion H; subst. eapply IH; [| |exact Er].
    + assert (K := inv_step s o Hi Ee). rewrite Es in K. exact K.
    + assert (K := dnw_step s o Hi Hd Ee). rewrite Es in K. exact K.
Qed.

Lemma dnw_init : dnw init.
Proof. intros t H. simpl in H. discriminate. Qed.

(** SPEC: in every reachable state (thread-terminate! of any thread included) an ended thread is not marked
    waiting and is not in the paused list; equivalently every paused thread is live, so the waiter found by
    mutex-unlock! / condition-variable-signal! / the timeout splice is never a dead thread *)
Theorem dead_threads_do_not_wait_thm : forall s, reachable s ->
  (forall t, live (th s t) = false -> waitp (th s t) = false /\ ~ In t (paused s)) /\
  (forall t, In t (paused s) -> live (th s t) = true).
Proof.
  intros s Hr. assert (Hi := reachable_inv s Hr). destruct Hr as [ops [tr H]].
  assert (Hd : dnw s) by (eapply dnw_run; [apply inv_init | apply dnw_init | exact H]).
  assert (A : forall t, live (th s t) = false -> waitp (th s t) = false /\ ~ In t (paused s)).
  { intros t Hl. split; [apply Hd; exact Hl|]. intros Hin.
    pose proof (q_pw s (i_q s Hi) t Hin) as W. specialize (Hd t Hl). congruence. }
  split; [exact A|]. intros t Hin. destruct (live (th s t)) eqn:E; [reflexivity|].
  destruct (A t E) as [_ K]. contradiction.
Qed.

(** * thread-terminate! of a paused victim *)

(** SPEC: thread-terminate! applied by a live thread to ANOTHER thread that is paused (timed or not): the victim
    leaves the paused list, is appended at the back of the run queue for its last scheduler call, is ended, stops
    waiting (waitp = timeoutp = 0: fixes/C11-terminate-timed-waiter.patch), keeps event and wake time; every other
    thread record, the running thread and the mutexes are unchanged; the result is #f (the caller goes on) *)
Theorem terminate_paused_victim_thm : forall s t, live (th s (cur s)) = true -> t <> cur s -> In t (paused s) ->
  back s = last_opt (front s) ->
  let s' := fst (thread_terminate s t) in
  snd (thread_terminate s t) = false /\ cur s' = cur s /\
  paused s' = remove1 t (paused s) /\ front s' = front s ++ [t] /\ back s' = Some t /\
  th s' t = mkT false false false (ev (th s t)) (tsec (th s t)) (tusec (th s t)) /\
  (forall y, y <> t -> th s' y = th s y) /\ mx s' = mx s.
Proof.
  intros s t Hl Hne Hin Hb s'. unfold s', thread_terminate. rewrite Hl. cbn [fst snd].
  change (paused (upd_th s t (set_live (th s t) false))) with (paused s).
  assert (Em : memb t (paused s) = true) by (apply memb_In; exact Hin). rewrite Em.
  split; [apply Nat.eqb_neq; intros E; apply Hne; symmetry; exact E|].
  unfold enqueue. unfold upd_th, with_th, with_paused, with_queue; cbn [back front paused th cur mx].
  destruct (back s) as [b|] eqn:Eb; cbn [back front paused th cur mx].
  - repeat split; try reflexivity.
    + rewrite !upd_same. reflexivity.
    + intros y Hy. rewrite !upd_other by exact Hy. reflexivity.
  - assert (Ef : front s = []) by (apply last_opt_nil_iff; symmetry; exact Hb). rewrite Ef.
    repeat split; try reflexivity.
    + rewrite !upd_same. reflexivity.
    + intros y Hy. rewrite !upd_other by exact Hy. reflexivity.
Qed.

(** * wake time = now + timeout (sexp_insert_timed, threads.c: the microsecond carry) *)

Definition instant (sec usec : Z) : Z := sec * 1000000 + usec.

(** SPEC: for a clock reading with 0 <= usec < 10^6 and a timeout split into seconds and 0 <= microseconds < 10^6,
    the wake time stored by sexp_insert_timed denotes exactly the instant now + timeout, and its microsecond
    field lies in [0, 10^6] (10^6 itself is possible: the code tests > 1000000, the sum being exactly one second) *)
Theorem deadline_exact_thm : forall x ds dus now,
  let d := deadline x (TRel ds dus) now in
  instant (fst d) (snd d) = instant (fst now) (snd now) + instant ds dus /\
  (0 <= snd now < 1000000 -> 0 <= dus < 1000000 -> 0 <= snd d <= 1000000).
Proof.
  intros x ds dus now d. unfold d, deadline, instant.
  destruct (Z.gtb_spec (snd now + dus) 1000000) as [G|G]; cbn [fst snd]; split; intros; lia.
Qed.

(** SPEC (no early timeout): after a timed wait was entered at clock reading now0 with timeout ds + dus/10^6, the
    scheduler's timeout test (sexp_context_before, used by the splice of expired threads, by the wake-up of the
    running thread and by the choice among waiting threads) can succeed at a clock reading now only if
    now0 + timeout <= now as instants: the carry never produces a wake time that is too early *)
Theorem timed_wait_not_early_thm : forall s t ds dus now0 now,
  0 <= snd now0 < 1000000 -> 0 <= dus < 1000000 -> 0 <= snd now ->
  before (th (insert_timed s t (TRel ds dus) now0) t) (fst now) (snd now) = true ->
  instant (fst now0) (snd now0) + instant ds dus <= instant (fst now) (snd now).
Proof.
  intros s t ds dus now0 now H0 Hd Hn Hb.
  unfold insert_timed in Hb. unfold with_paused, with_th in Hb; cbn [th] in Hb. rewrite upd_same in Hb.
  unfold before in Hb. apply andb_prop in Hb. destruct Hb as [_ Hb]. cbn [tsec tusec set_time] in Hb.
  destruct (deadline_exact_thm (th s t) ds dus now0) as [E R]. cbv zeta in E, R. specialize (R H0 Hd).
  set (d := deadline (th s t) (TRel ds dus) now0) in *.
  rewrite <- E. unfold instant. unfold timeval_lt in Hb. apply orb_prop in Hb. destruct Hb as [Hb|Hb].
  - apply Z.ltb_lt in Hb. lia.
  - apply andb_prop in Hb. destruct Hb as [H1 H2]. apply Z.eqb_eq in H1. apply Z.ltb_lt in H2. lia.
Qed.


(** * round robin with an arbitrary paused list *)

Lemma front_wake_timeouts : forall s now, inv s -> exists app, front (wake_timeouts true s now) = front s ++ app.
Proof.
  intros s now Hi. unfold wake_timeouts. destruct (paused s) as [|p0 pr] eqn:Ep; [exists []; rewrite app_nil_r; reflexivity|].
  clear Ep p0 pr.
  destruct (inv_wake_current_timeout s now Hi) as [Hi0 _].
  assert (Hf0 : front (wake_current_timeout s now) = front s).
  { unfold wake_current_timeout. destruct (waitp (th s (cur s)) && before (th s (cur s)) (fst now) (snd now) && memb (cur s) (paused s)); reflexivity. }
  set (s0 := wake_current_timeout s now) in *.
  destruct (span_before (th s0) now (paused s0)) as [pre post]. destruct pre as [|p pre].
  - exists []. rewrite app_nil_r. exact Hf0.
  - unfold with_paused, with_queue, with_th; cbn [front]. rewrite <- Hf0.
    destruct (back s0) eqn:Eb; [exists (p :: pre); reflexivity|].
    pose proof (q_back s0 (i_q s0 Hi0)) as Hb. rewrite Eb in Hb. symmetry in Hb. apply last_opt_nil_iff in Hb.
    rewrite Hb. exists (p :: pre). reflexivity.
Qed.

(** SPEC: in every reachable state with a non-empty run queue x :: rest — whatever the paused list holds, whatever the
    clock readings, whether the caller is running, blocked or has ended — one scheduler call makes x the running thread
    and leaves rest, in order, at the head of the run queue (threads woken by this call and the pre-empted caller are
    appended behind it): a runnable thread is never overtaken by a scheduler call *)
Theorem scheduler_takes_front_thm : forall s n1 n2 x rest, reachable s -> front s = x :: rest ->
  let s' := scheduler true s n1 n2 in
  cur s' = x /\ waitp (th s' x) = false /\ exists app, front s' = rest ++ app.
Proof.
  intros s n1 n2 x rest Hr Hf s'.
  assert (Hi := reachable_inv s Hr).
  assert (Hd : dnw s).
  { destruct Hr as [ops [tr H]]. eapply dnw_run; [apply inv_init | apply dnw_init | exact H]. }
  unfold s', scheduler.
  set (s1 := if negb (live (th s (cur s))) then wake_joiners s else s).
  assert (H1 : inv s1 /\ tmono (th s) (th s1) /\ exists app, front s1 = front s ++ app).
  { unfold s1. destruct (negb (live (th s (cur s)))) eqn:El.
    - apply negb_true_iff in El. destruct (inv_wake_joiners s Hi El) as [A _].
      split; [exact A | split; [apply tmono_wake_joiners|]].
      destruct (join_wakes_all_joiners_thm s (q_back s (i_q s Hi))) as [F _]. cbv zeta in F. eexists. exact F.
    - split; [exact Hi | split; [apply tmono_refl | exists []; rewrite app_nil_r; reflexivity]]. }
  destruct H1 as [Hi1 [M1 [a1 F1]]].
  set (s2 := wake_timeouts true s1 n1).
  destruct (inv_wake_timeouts s1 n1 Hi1) as [Hi2 _]. fold s2 in Hi2.
  assert (M2 : tmono (th s) (th s2)) by (eapply tmono_trans; [exact M1 | apply tmono_wake_timeouts]).
  destruct (front_wake_timeouts s1 n1 Hi1) as [a2 F2]. fold s2 in F2.
  assert (Hf2 : front s2 = x :: rest ++ a1 ++ a2).
  { rewrite F2, F1, Hf. simpl. rewrite <- app_assoc. reflexivity. }
  assert (Hd2 : dnw s2) by (eapply dnw_tmono; [exact Hd | exact M2]).
  (* the head of the run queue does not wait *)
  assert (Hx : waitp (th s2 x) = false).
  { destruct (live (th s2 x)) eqn:Elx; [|apply Hd2; exact Elx].
    destruct (waitp (th s2 x)) eqn:Ewx; [|reflexivity]. exfalso.
    assert (Hin : In x (front s2)) by (rewrite Hf2; left; reflexivity).
    destruct (i_wp s2 Hi2 x Ewx Elx) as [K|K].
    - subst x. exact (i_cnf s2 Hi2 Hin).
    - exact (q_disj s2 (i_q s2 Hi2) x Hin K). }
  assert (Hxc : x <> cur s2).
  { intros E. apply (i_cnf s2 Hi2). rewrite <- E. rewrite Hf2. left. reflexivity. }
  unfold dequeue. rewrite Hf2.
  destruct (negb (live (th s2 (cur s2))) || waitp (th s2 (cur s2))).
  - set (s3a := with_queue s2 (rest ++ a1 ++ a2) _).
    set (s3 := if live (th s2 (cur s2)) && negb (memb (cur s2) (paused s2)) then insert_timed s3a (cur s2) TNone (0, 0) else s3a).
    assert (H3 : waitp (th s3 x) = false /\ front s3 = rest ++ a1 ++ a2).
    { unfold s3. destruct (live (th s2 (cur s2)) && negb (memb (cur s2) (paused s2))).
      - destruct (insert_timed_flags s3a (cur s2) TNone (0, 0) x) as [W _].
        destruct (insert_timed_frame s3a (cur s2) TNone (0, 0)) as [_ [Fr _]].
        rewrite W, Fr. split; [exact Hx | reflexivity].
      - split; [exact Hx | reflexivity]. }
    destruct H3 as [W3 F3].
    unfold only_waiting. rewrite W3. unfold with_cur; cbn [cur th front].
    split; [reflexivity | split; [exact W3 | exists (a1 ++ a2); exact F3]].
  - unfold only_waiting. cbn [th with_queue]. rewrite Hx. unfold with_cur; cbn [cur th front].
    split; [reflexivity | split; [exact Hx|]]. exists (a1 ++ a2 ++ [cur s2]). rewrite <- !app_assoc. reflexivity.
Qed.

(* the thread at position k of the run queue runs after exactly k+1 scheduler calls *)
Lemma sched_calls_reachable : forall clocks s, reachable s -> reachable (sched_calls clocks s).
Proof.
  induction clocks as [|c cl IH]; intros s Hr; [exact Hr|]. unfold sched_calls. simpl. apply IH.
  destruct Hr as [ops [tr H]].
  exists (ops ++ [OSched (fst c) (snd c)]).
  revert H. generalize init at 1 2. revert tr.
  induction ops as [|o r IHr]; simpl; intros tr s0 H.
  - inversion H; subst. eexists. reflexivity.
  - destruct (enabled s0 o); [|discriminate]. destruct (step true s0 o) as [s1 b].
    destruct (run true s1 r) as [[s2 tr2]|] eqn:Er; [|discriminate]. inversion H; subst.
    destruct (IHr _ _ Er) as [tr' E']. rewrite E'. eexists. reflexivity.
Qed.

(** SPEC (fairness of the run queue, general form): in every reachable state — any paused list, any clocks, any mix of
    running / blocked / ended threads — the thread at position k of the run queue is the running thread after exactly
    k+1 consecutive scheduler calls, and it is not waiting then.  (Between scheduler calls only mutex-unlock! /
    condition-variable-signal! can put a thread in front of it: one position per successful wake-up.) *)
Theorem round_robin_fair_general_thm : forall pre clocks s t post, reachable s ->
  front s = pre ++ t :: post -> length clocks = S (length pre) ->
  cur (sched_calls clocks s) = t /\ waitp (th (sched_calls clocks s) t) = false.
Proof.
  induction pre as [|a pre IH]; intros clocks s t post Hr Hf Hlen.
  - destruct clocks as [|c [|c2 cl]]; simpl in Hlen; try lia. unfold sched_calls. simpl. simpl in Hf.
    destruct (scheduler_takes_front_thm s (fst c) (snd c) t post Hr Hf) as [E [W _]]. split; assumption.
  - destruct clocks as [|c cl]; simpl in Hlen; [lia|]. unfold sched_calls. simpl. simpl in Hf.
    destruct (scheduler_takes_front_thm s (fst c) (snd c) a (pre ++ t :: post) Hr Hf) as [_ [_ [app F]]].
    apply (IH cl _ t (post ++ app)).
    + apply (sched_calls_reachable [c] s Hr).
    + rewrite F. rewrite <- app_assoc. reflexivity.
    + lia.
Qed.


(** * a woken waiter is resumed by the next scheduler call *)

Lemma run_snoc : forall ops s0 s tr o, run true s0 ops = Some (s, tr) -> enabled s o = true ->
  exists tr', run true s0 (ops ++ [o]) = Some (fst (step true s o), tr').
Proof.
  induction ops as [|a r IH]; simpl; intros s0 s tr o H He.
  - inversion H; subst. rewrite He. destruct (step true s o) as [s1 b]. eexists. reflexivity.
  - destruct (enabled s0 a); [|discriminate]. destruct (step true s0 a) as [s1 b].
    destruct (run true s1 r) as [[s2 tr2]|] eqn:Er; [|discriminate]. inversion H; subst.
    destruct (IH _ _ _ o Er He) as [tr' E']. rewrite E'. eexists. reflexivity.
Qed.

Lemma reachable_step : forall s o, reachable s -> enabled s o = true -> reachable (fst (step true s o)).
Proof.
  intros s o [ops [tr H]] He. destruct (run_snoc ops init s tr o H He) as [tr' E].
  exists (ops ++ [o]), tr'. exact E.
Qed.

(** SPEC (no lost wake-up, mutex): in a reachable state, when a live running thread unlocks a locked mutex m on which
    threads are blocked, the FIRST of them (paused-list order) is — after the very next scheduler call, whatever the
    clock readings and whatever else is runnable or paused — the running thread, alive and not waiting: it is resumed
    once the awaited event has happened (it then retries %mutex-lock!, interface.scm) *)
Theorem unlock_resumes_waiter_thm : forall s m pre w post n1 n2, reachable s ->
  live (th s (cur s)) = true -> waitp (th s (cur s)) = false ->
  locked (mx s m) = true -> paused s = pre ++ w :: post -> ev (th s w) = EMutex m ->
  (forall y, In y pre -> ev (th s y) <> EMutex m) ->
  let s1 := fst (step true s (OUnlock m None TNone (0, 0))) in
  let s2 := scheduler true s1 n1 n2 in
  cur s2 = w /\ waitp (th s2 w) = false /\ live (th s2 w) = true.
Proof.
  intros s m pre w post n1 n2 Hr Hl Hw Hlk Ep Hev Hpre s1 s2.
  assert (He : enabled s (OUnlock m None TNone (0, 0)) = true) by (simpl; rewrite Hl, Hw; reflexivity).
  assert (Hr1 : reachable s1) by (apply reachable_step; assumption).
  destruct (unlock_wakes_one_waiter_thm s m pre w post Hlk Ep Hev Hpre) as [F [_ [_ [_ [_ Hoth]]]]].
  cbv zeta in F, Hoth.
  assert (Hlw : live (th s w) = true).
  { destruct (dead_threads_do_not_wait_thm s Hr) as [_ A]. apply A. rewrite Ep. apply in_or_app. right. left. reflexivity. }
  destruct (scheduler_takes_front_thm s1 n1 n2 w (front s) Hr1 F) as [C [W _]].
  split; [exact C | split; [exact W|]].
  destruct (tmono_scheduler s1 n1 n2 w) as [L _]. fold s2 in L. rewrite L.
  unfold s1. cbn [step fst].
  assert (M : tmono (th s) (th (fst (mutex_unlock s m None TNone (0, 0))))).
  { unfold mutex_unlock. rewrite Hlk. cbn [fst].
    set (s0 := with_mx s (upd (mx s) m {| locked := false; owner := Some (cur s) |})).
    destruct (wake_front s0 (EMutex m)) as [s'|] eqn:E; [|apply tmono_refl].
    exact (proj1 (tmono_wake_front s0 _ s' E)). }
  destruct (M w) as [L2 _]. rewrite L2. exact Hlw.
Qed.

(** SPEC (no lost wake-up, condition variable): same for condition-variable-signal! — the first thread waiting on c is
    the running thread after the next scheduler call, alive and not waiting (its wrapper then returns #t and the program
    re-locks the mutex) *)
Theorem signal_resumes_waiter_thm : forall s c pre w post n1 n2, reachable s ->
  live (th s (cur s)) = true -> waitp (th s (cur s)) = false ->
  paused s = pre ++ w :: post -> ev (th s w) = ECond c ->
  (forall y, In y pre -> ev (th s y) <> ECond c) ->
  let s1 := fst (step true s (OSignal c)) in
  let s2 := scheduler true s1 n1 n2 in
  cur s2 = w /\ waitp (th s2 w) = false /\ live (th s2 w) = true.
Proof.
  intros s c pre w post n1 n2 Hr Hl Hw Ep Hev Hpre s1 s2.
  assert (He : enabled s (OSignal c) = true) by (simpl; rewrite Hl, Hw; reflexivity).
  assert (Hr1 : reachable s1) by (apply reachable_step; assumption).
  destruct (signal_wakes_one_waiter_thm s c pre w post Ep Hev Hpre) as [_ [F _]]. cbv zeta in F.
  assert (Hlw : live (th s w) = true).
  { destruct (dead_threads_do_not_wait_thm s Hr) as [_ A]. apply A. rewrite Ep. apply in_or_app. right. left. reflexivity. }
  destruct (scheduler_takes_front_thm s1 n1 n2 w (front s) Hr1 F) as [C [W _]].
  split; [exact C | split; [exact W|]].
  destruct (tmono_scheduler s1 n1 n2 w) as [L _]. fold s2 in L. rewrite L.
  unfold s1. cbn [step fst]. unfold condvar_signal.
  destruct (wake_front s (ECond c)) as [s'|] eqn:E; cbn [fst]; [|exact Hlw].
  destruct (proj1 (tmono_wake_front s _ s' E) w) as [L2 _]. rewrite L2. exact Hlw.
Qed.

(** SPEC: a thread in the run queue of a reachable state runs after at most (length of the run queue) consecutive
    scheduler calls — exactly position + 1 — and is not waiting then *)
Theorem runnable_thread_runs_thm : forall s t, reachable s -> In t (front s) ->
  exists k, (1 <= k <= length (front s))%nat /\
    forall clocks, length clocks = k -> cur (sched_calls clocks s) = t /\ waitp (th (sched_calls clocks s) t) = false.
Proof.
  intros s t Hr Hin. destruct (in_split t (front s) Hin) as [pre [post E]].
  exists (S (length pre)). split; [rewrite E, app_length; simpl; lia|].
  intros clocks Hlen. exact (round_robin_fair_general_thm pre clocks s t post Hr E Hlen).
Qed.

(** SPEC (no lost wake-up, join): in a reachable state whose running thread has ended (body returned or terminated), every
    thread t blocked in thread-join! on it is, after the ended thread's scheduler call, the running thread, or it runs —
    not waiting — after k further consecutive scheduler calls for some 1 <= k <= length of the run queue *)
Theorem ended_thread_resumes_joiner_thm : forall s n1 n2 t, reachable s -> live (th s (cur s)) = false ->
  In t (paused s) -> ev (th s t) = EThread (cur s) ->
  let s1 := scheduler true s n1 n2 in
  waitp (th s1 t) = false /\
  (cur s1 = t \/
   exists k, (1 <= k <= length (front s1))%nat /\
     forall clocks, length clocks = k -> cur (sched_calls clocks s1) = t /\ waitp (th (sched_calls clocks s1) t) = false).
Proof.
  intros s n1 n2 t Hr Hl Hin Hev s1.
  destruct (joiner_runnable_after_exit_thm s n1 n2 t (reachable_inv s Hr) Hl Hin Hev) as [H W]. fold s1 in H, W.
  split; [exact W|]. destruct H as [H|H]; [left; symmetry; exact H|]. right.
  assert (Hr1 : reachable s1) by (apply (reachable_step s (OSched n1 n2) Hr); reflexivity).
  exact (runnable_thread_runs_thm s1 t Hr1 H).
Qed.

(** SPEC (no lost wake-up, sleep and timed waits): in a state reached by operations with sane clock readings, a paused thread
    whose wake time lies before the clock reading of a scheduler call is, after that call, not waiting, and it is the running
    thread or runs — not waiting — after k further consecutive scheduler calls for some 1 <= k <= length of the run queue *)
Theorem expired_timed_wait_resumes_thm : forall ops s tr n1 n2 t, Forall op_clock_ok ops ->
  run true init ops = Some (s, tr) -> In t (paused s) -> before (th s t) (fst n1) (snd n1) = true ->
  let s1 := scheduler true s n1 n2 in
  waitp (th s1 t) = false /\
  (cur s1 = t \/
   exists k, (1 <= k <= length (front s1))%nat /\
     forall clocks, length clocks = k -> cur (sched_calls clocks s1) = t /\ waitp (th (sched_calls clocks s1) t) = false).
Proof.
  intros ops s tr n1 n2 t Hok Hrun Hin Hb s1.
  assert (Hr : reachable s) by (exists ops, tr; exact Hrun).
  pose proof (tinv_run ops init s tr inv_init tinv_init Hok Hrun) as Ht.
  destruct (timed_wait_bounded_thm s n1 n2 t (reachable_inv s Hr) Ht Hin Hb) as [H W]. fold s1 in H, W.
  split; [exact W|]. destruct H as [H|H]; [left; symmetry; exact H|]. right.
  assert (Hr1 : reachable s1) by (apply (reachable_step s (OSched n1 n2) Hr); reflexivity).
  exact (runnable_thread_runs_thm s1 t Hr1 H).
Qed.

(** non-vacuity *)

(* root starts 1, 2, 3; 1 blocks on the mutex the root holds (paused list not empty); thread 3, third in the run queue
   [2; 3; 0] after 1 was dequeued, runs after exactly 2 more scheduler calls *)
Definition rr4_ops : list op :=
  [OLock 0%nat TNone (0, 0) (Some O); OStart 1%nat; OStart 2%nat; OStart 3%nat; OSched (0, 0) (0, 0);
   OLock 0%nat (TRel 5 0) (100, 7) (Some 1%nat); OSched (100, 8) (100, 9)].
Example round_robin_general_demo : exists s tr, run true init rr4_ops = Some (s, tr) /\ paused s = [1%nat] /\
  front s = [3%nat; O] /\ cur (sched_calls [((100, 20), (0, 0))] s) = 3%nat.
Proof.
  destruct (run true init rr4_ops) as [[s tr]|] eqn:E; [|vm_compute in E; discriminate].
  exists s, tr. split; [reflexivity|]. vm_compute in E. inversion E. repeat split; reflexivity.
Qed.


(* root starts 1 and 2; 1 blocks on a mutex held by root with a 5 s timeout; root terminates the timed waiter *)
Definition term_ops : list op :=
  [OLock 0%nat TNone (0, 0) (Some O); OStart 1%nat; OSched (0, 0) (0, 0);
   OLock 0%nat (TRel 5 0) (100, 7) (Some 1%nat); OSched (100, 8) (100, 9); OTerminate 1%nat].

Example terminate_demo : exists s tr, run true init term_ops = Some (s, tr) /\ cur s = O /\ paused s = [] /\
  front s = [1%nat] /\ live (th s 1%nat) = false /\ waitp (th s 1%nat) = false /\ tsec (th s 1%nat) = 105.
Proof.
  destruct (run true init term_ops) as [[s tr]|] eqn:E; [|vm_compute in E; discriminate].
  exists s, tr. split; [reflexivity|]. vm_compute in E. inversion E. repeat split; reflexivity.
Qed.

(* the carry: 1000.999990 + 20 us = 1001.000010; the test succeeds at 1001.000011 and not at 1001.000010 *)
Example carry_demo :
  deadline thread0 (TRel 0 20) (1000, 999990) = (1001, 10) /\
  deadline thread0 (TRel 0 10) (1000, 999990) = (1000, 1000000) /\
  before (th (insert_timed init O (TRel 0 20) (1000, 999990)) O) 1001 11 = true /\
  before (th (insert_timed init O (TRel 0 20) (1000, 999990)) O) 1001 10 = false.
Proof. vm_compute. repeat split; reflexivity. Qed.

(* thread 1 blocks on the mutex the root holds; root unlocks; the next scheduler call runs thread 1 although thread 2 was
   queued before the unlock *)
Definition resume_ops : list op :=
  [OLock 0%nat TNone (0, 0) (Some O); OStart 1%nat; OSched (0, 0) (0, 0);
   OLock 0%nat TNone (0, 0) (Some 1%nat); OSched (100, 8) (100, 9); OStart 2%nat].
Example resume_demo : exists s tr, run true init resume_ops = Some (s, tr) /\ cur s = O /\ paused s = [1%nat] /\
  front s = [2%nat] /\ locked (mx s 0%nat) = true /\ ev (th s 1%nat) = EMutex 0%nat /\
  cur (scheduler true (fst (step true s (OUnlock 0%nat None TNone (0, 0)))) (100, 20) (0, 0)) = 1%nat.
Proof.
  destruct (run true init resume_ops) as [[s tr]|] eqn:E; [|vm_compute in E; discriminate].
  exists s, tr. split; [reflexivity|]. vm_compute in E. inversion E. repeat split; reflexivity.
Qed.

(* thread 1 locks mutex 1 and waits on condition variable 0; the root signals; the next scheduler call runs thread 1 *)
Definition signal_ops : list op :=
  [OStart 1%nat; OSched (0, 0) (0, 0); OLock 1%nat TNone (0, 0) (Some 1%nat);
   OUnlock 1%nat (Some 0%nat) TNone (0, 0); OSched (100, 8) (100, 9); OStart 2%nat].
Example signal_resume_demo : exists s tr, run true init signal_ops = Some (s, tr) /\ cur s = O /\ paused s = [1%nat] /\
  front s = [2%nat] /\ ev (th s 1%nat) = ECond 0%nat /\
  cur (scheduler true (fst (step true s (OSignal 0%nat))) (100, 20) (0, 0)) = 1%nat.
Proof.
  destruct (run true init signal_ops) as [[s tr]|] eqn:E; [|vm_compute in E; discriminate].
  exists s, tr. split; [reflexivity|]. vm_compute in E. inversion E. repeat split; reflexivity.
Qed.

(* the root joins thread 1, thread 1 ends: its scheduler call resumes the root *)
Definition join4_ops : list op :=
  [OStart 1%nat; OJoin 1%nat TNone (0, 0); OSched (0, 0) (0, 0); OExit].
Example join_resume_demo : exists s tr, run true init join4_ops = Some (s, tr) /\ cur s = 1%nat /\
  live (th s 1%nat) = false /\ paused s = [O] /\ ev (th s O) = EThread 1%nat /\
  cur (scheduler true s (100, 20) (0, 0)) = O /\ waitp (th (scheduler true s (100, 20) (0, 0)) O) = false.
Proof.
  destruct (run true init join4_ops) as [[s tr]|] eqn:E; [|vm_compute in E; discriminate].
  exists s, tr. split; [reflexivity|]. vm_compute in E. inversion E. repeat split; reflexivity.
Qed.
