(** C11 — the scheduler invariant and its preservation by every thread primitive
    (the scheduler itself is in SchedProofs.v). *)
From Coq Require Import ZArith List Bool Arith Lia.
From ChibiV Require Import C11.Model C11.Lists.
Import ListNotations.

(** SPEC: well-formed queues *)
Record qinv (s : st) : Prop := {
  q_ndf : NoDup (front s);
  q_ndp : NoDup (paused s);
  q_disj : forall t, In t (front s) -> ~ In t (paused s);
  q_back : back s = last_opt (front s);
  q_pw : forall t, In t (paused s) -> waitp (th s t) = true;
  q_st : forall t, In t (front s) \/ In t (paused s) -> started s t = true
}.

Definition placed (s : st) (t : tid) : Prop := t = cur s \/ In t (front s) \/ In t (paused s).

Record inv (s : st) : Prop := {
  i_q : qinv s;
  i_cnf : ~ In (cur s) (front s);
  i_dead : live (th s (cur s)) = false -> ~ In (cur s) (paused s);
  i_cst : started s (cur s) = true;
  i_wp : forall t, waitp (th s t) = true -> live (th s t) = true -> t = cur s \/ In t (paused s);
  i_alive : forall t, started s t = true -> live (th s t) = true -> placed s t
}.

Ltac unf := unfold upd_th, with_cur, with_queue, with_paused, with_th, with_mx, with_started in *; simpl in *.

Lemma upd_same : forall A (f : nat -> A) k v, upd f k v k = v.
Proof. intros. unfold upd. rewrite Nat.eqb_refl. reflexivity. Qed.
Lemma upd_other : forall A (f : nat -> A) k v x, x <> k -> upd f k v x = f x.
Proof. intros. unfold upd. destruct (Nat.eqb_spec x k); [congruence | reflexivity]. Qed.

Lemma inv_init : inv init.
Proof.
  constructor; simpl.
  - constructor; simpl; try constructor; try tauto.
  - tauto.
  - tauto.
  - reflexivity.
  - intros t Hs _. discriminate.
  - intros t Hs _. left. apply Nat.eqb_eq in Hs. exact Hs.
Qed.

(* the mutex table plays no role in the queue invariant *)
Lemma inv_with_mx : forall s m, inv s -> inv (with_mx s m).
Proof. intros s m [[? ? ? ? ? ?] ? ? ? ? ?]. constructor; [constructor|..]; unf; assumption. Qed.

(** the running thread marks itself waiting (first half of join / sleep / lock / unlock+condvar) *)
Lemma inv_upd_cur_wait : forall s x, inv s -> live x = live (th s (cur s)) -> waitp x = true ->
  inv (upd_th s (cur s) x).
Proof.
  intros s x [[Hf Hp Hd Hb Hw Hs] Hc Hdead Hcs Hwp Hal] Hl Hx.
  constructor; [constructor|..]; unf; try assumption.
  - intros t Ht. destruct (Nat.eq_dec t (cur s)) as [E|E]; [subst; rewrite upd_same; exact Hx | rewrite upd_other by exact E; apply Hw; exact Ht].
  - rewrite upd_same. rewrite Hl. exact Hdead.
  - intros t H2 H3. destruct (Nat.eq_dec t (cur s)) as [E|E]; [left; exact E|].
    rewrite upd_other in H2, H3 by exact E. apply Hwp; assumption.
  - intros t H1 H2. destruct (Nat.eq_dec t (cur s)) as [E|E]; [left; exact E|].
    rewrite upd_other in H2 by exact E. apply Hal; assumption.
Qed.

(* flags of every thread are unchanged by insert_timed (only t's wake time changes) *)
Lemma insert_timed_flags : forall s t tmo now x,
  waitp (th (insert_timed s t tmo now) x) = waitp (th s x) /\
  live (th (insert_timed s t tmo now) x) = live (th s x) /\
  ev (th (insert_timed s t tmo now) x) = ev (th s x) /\
  timeoutp (th (insert_timed s t tmo now) x) = timeoutp (th s x).
Proof.
  intros. unfold insert_timed; unf. unfold upd. destruct (Nat.eqb_spec x t); [subst|]; simpl; tauto.
Qed.

Lemma insert_timed_paused : forall s t tmo now x,
  In x (paused (insert_timed s t tmo now)) <-> x = t \/ In x (remove1 t (paused s)).
Proof. intros. unfold insert_timed; unf. apply insert_when_In. Qed.

Lemma insert_timed_frame : forall s t tmo now,
  cur (insert_timed s t tmo now) = cur s /\ front (insert_timed s t tmo now) = front s /\
  back (insert_timed s t tmo now) = back s /\ started (insert_timed s t tmo now) = started s /\
  mx (insert_timed s t tmo now) = mx s.
Proof. intros. unfold insert_timed; unf. tauto. Qed.

(** inserting a waiting thread that is not in the run queue keeps the queues well formed *)
Lemma qinv_insert_timed : forall s t tmo now, qinv s -> ~ In t (front s) -> waitp (th s t) = true ->
  started s t = true -> qinv (insert_timed s t tmo now).
Proof.
  intros s t tmo now [Hf Hp Hd Hb Hw Hs] Hnf Hwt Hst.
  destruct (insert_timed_frame s t tmo now) as [E1 [E2 [E3 [E4 E5]]]].
  constructor; try rewrite E2; try rewrite E3; try rewrite E4; try assumption.
  - unfold insert_timed; unf. apply insert_when_NoDup; [apply remove1_NoDup; exact Hp | apply remove1_notin; exact Hp].
  - intros x Hx Hin. apply insert_timed_paused in Hin. destruct Hin as [Hin|Hin]; [subst; tauto|].
    apply remove1_In in Hin. eapply Hd; eassumption.
  - intros x Hx. destruct (insert_timed_flags s t tmo now x) as [F1 _]. rewrite F1.
    apply insert_timed_paused in Hx. destruct Hx as [Hx|Hx]; [subst; exact Hwt | apply Hw; eapply remove1_In; exact Hx].
  - intros x [Hx|Hx]; [apply Hs; left; exact Hx|].
    apply insert_timed_paused in Hx. destruct Hx as [Hx|Hx]; [subst; exact Hst | apply Hs; right; eapply remove1_In; exact Hx].
Qed.

Lemma inv_insert_timed_cur : forall s tmo now, inv s -> waitp (th s (cur s)) = true ->
  live (th s (cur s)) = true -> inv (insert_timed s (cur s) tmo now).
Proof.
  intros s tmo now [Hq Hc Hdead Hcs Hwp Hal] Hw Hlive.
  destruct (insert_timed_frame s (cur s) tmo now) as [E1 [E2 [E3 [E4 E5]]]].
  constructor; try rewrite E1; try rewrite E2; try rewrite E4; try assumption.
  - apply qinv_insert_timed; assumption.
  - intros Hl. destruct (insert_timed_flags s (cur s) tmo now (cur s)) as [_ [F2 _]]. rewrite F2 in Hl. congruence.
  - intros t H2 H3. destruct (insert_timed_flags s (cur s) tmo now t) as [F1 [F2 _]]. rewrite F1 in H2. rewrite F2 in H3.
    destruct (Hwp t H2 H3) as [K|K]; [left; exact K|].
    destruct (Nat.eq_dec t (cur s)) as [E|E]; [left; exact E|].
    right. apply insert_timed_paused. right. apply remove1_In_neq; assumption.
  - intros t H1 H2. destruct (insert_timed_flags s (cur s) tmo now t) as [_ [F2 _]]. rewrite F2 in H2.
    unfold placed. rewrite E1, E2. destruct (Hal t H1 H2) as [K|[K|K]]; [left; exact K | right; left; exact K|].
    destruct (Nat.eq_dec t (cur s)) as [E|E]; [left; exact E|].
    right; right. apply insert_timed_paused. right. apply remove1_In_neq; assumption.
Qed.

(** blocking primitives: mark waiting (keeping live) then insert *)
Lemma inv_block : forall s x tmo now, inv s -> live (th s (cur s)) = true -> live x = true -> waitp x = true ->
  inv (insert_timed (upd_th s (cur s) x) (cur s) tmo now).
Proof.
  intros s x tmo now Hi Hl Hx Hw.
  assert (H1 : inv (upd_th s (cur s) x)) by (apply inv_upd_cur_wait; [exact Hi | congruence | exact Hw]).
  change (cur s) with (cur (upd_th s (cur s) x)) at 2.
  apply inv_insert_timed_cur; [exact H1 | unf; rewrite upd_same; exact Hw | unf; rewrite upd_same; exact Hx].
Qed.

(** appending at the BACK of the run queue (sexp_thread_start's surgery) *)
Lemma enqueue_front : forall s t, back s = last_opt (front s) -> front (enqueue s t) = front s ++ [t] /\ back (enqueue s t) = Some t.
Proof.
  intros s t Hb. unfold enqueue. destruct (back s) eqn:E; unf; [tauto|].
  symmetry in Hb. apply last_opt_nil_iff in Hb. rewrite Hb. simpl. tauto.
Qed.

Lemma enqueue_frame : forall s t, cur (enqueue s t) = cur s /\ paused (enqueue s t) = paused s /\
  th (enqueue s t) = th s /\ started (enqueue s t) = started s /\ mx (enqueue s t) = mx s.
Proof. intros. unfold enqueue. destruct (back s); unf; tauto. Qed.

Lemma qinv_enqueue : forall s t, qinv s -> ~ In t (front s) -> ~ In t (paused s) -> started s t = true ->
  qinv (enqueue s t).
Proof.
  intros s t [Hf Hp Hd Hb Hw Hs] Hnf Hnp Hst.
  destruct (enqueue_front s t Hb) as [E1 E2]. destruct (enqueue_frame s t) as [F1 [F2 [F3 [F4 F5]]]].
  constructor; try rewrite E1; try rewrite E2; try rewrite F2; try rewrite F3; try rewrite F4; try assumption.
  - apply NoDup_app_intro; [exact Hf | constructor; [simpl; tauto | constructor] |].
    intros x Hx [K|K]; [subst; tauto | destruct K].
  - intros x Hx. apply in_app_iff in Hx. destruct Hx as [Hx|[Hx|Hx]]; [apply Hd; exact Hx | subst; exact Hnp | destruct Hx].
  - symmetry. apply last_opt_app1.
  - intros x [Hx|Hx]; [|apply Hs; right; exact Hx].
    apply in_app_iff in Hx. destruct Hx as [Hx|[Hx|Hx]]; [apply Hs; left; exact Hx | subst; exact Hst | destruct Hx].
Qed.

Lemma inv_enqueue : forall s t, inv s -> ~ In t (front s) -> ~ In t (paused s) -> t <> cur s -> started s t = true ->
  inv (enqueue s t).
Proof.
  intros s t [Hq Hc Hdead Hcs Hwp Hal] Hnf Hnp Hne Hst.
  destruct (enqueue_front s t (q_back s Hq)) as [E1 E2]. destruct (enqueue_frame s t) as [F1 [F2 [F3 [F4 F5]]]].
  constructor; try rewrite F1; try rewrite E1; try rewrite F2; try rewrite F3; try rewrite F4; try assumption.
  - apply qinv_enqueue; assumption.
  - rewrite in_app_iff. intros [K|[K|K]]; [tauto | congruence | destruct K].
  - intros x H1 H2. unfold placed. rewrite F1, E1, F2. destruct (Hal x H1 H2) as [K|[K|K]]; [tauto | right; left; apply in_or_app; tauto | tauto].
Qed.

(** thread-start! of a new thread *)
Lemma inv_start : forall s t, inv s -> started s t = false -> inv (thread_start s t).
Proof.
  intros s t Hi Hn. unfold thread_start.
  assert (Hnf : ~ In t (front s)) by (intros K; rewrite (q_st s (i_q s Hi) t (or_introl K)) in Hn; discriminate).
  assert (Hnp : ~ In t (paused s)) by (intros K; rewrite (q_st s (i_q s Hi) t (or_intror K)) in Hn; discriminate).
  assert (Hne : t <> cur s) by (intros K; subst; rewrite (i_cst s Hi) in Hn; discriminate).
  destruct Hi as [[Hf Hp Hd Hb Hw Hs] Hc Hdead Hcs Hwp Hal].
  set (s0 := with_started s (upd (started s) t true)).
  assert (Hb0 : back s0 = last_opt (front s0)) by exact Hb.
  destruct (enqueue_front s0 t Hb0) as [E1 E2]. destruct (enqueue_frame s0 t) as [F1 [F2 [F3 [F4 F5]]]].
  constructor; [constructor|..]; unfold placed; repeat rewrite F1; repeat rewrite E1; repeat rewrite E2; repeat rewrite F2; repeat rewrite F3; repeat rewrite F4;
    unfold s0; unf; try assumption.
  - apply NoDup_app_intro; [exact Hf | constructor; [simpl; tauto | constructor] |].
    intros x Hx [K|K]; [subst; tauto | destruct K].
  - intros x Hx. apply in_app_iff in Hx. destruct Hx as [Hx|[Hx|Hx]]; [apply Hd; exact Hx | subst; exact Hnp | destruct Hx].
  - symmetry. apply last_opt_app1.
  - intros x Hx. destruct (Nat.eq_dec x t) as [E|E]; [subst; apply upd_same | rewrite upd_other by exact E].
    apply Hs. rewrite in_app_iff in Hx. simpl in Hx. intuition congruence.
  - rewrite in_app_iff. simpl. intuition congruence.
  - rewrite upd_other by (intros K; apply Hne; symmetry; exact K). exact Hcs.
  - intros x H1 H2. rewrite in_app_iff. simpl.
    destruct (Nat.eq_dec x t) as [E|E]; [subst; tauto|].
    rewrite upd_other in H1 by exact E. destruct (Hal x H1 H2) as [K|[K|K]]; tauto.
Qed.

(** %mutex-unlock! / condition-variable-signal!: the first paused waiter goes to the FRONT *)
Lemma wake_front_shape : forall s e s', wake_front s e = Some s' ->
  exists pre w post, paused s = pre ++ w :: post /\ event_eqb (ev (th s w)) e = true /\
    (forall y, In y pre -> event_eqb (ev (th s y)) e = false) /\
    paused s' = pre ++ post /\ front s' = w :: front s /\
    back s' = (match front s with [] => Some w | _ => back s end) /\
    cur s' = cur s /\ started s' = started s /\ mx s' = mx s /\
    th s' = upd (th s) w (set_flags (th s w) false false).
Proof.
  intros s e s' H. unfold wake_front in H.
  destruct (split_first _ (paused s)) as [[[pre w] post]|] eqn:Hs; [|discriminate].
  apply split_first_some in Hs. destruct Hs as [E [Hw Hpre]].
  inversion H; subst s'; clear H. exists pre, w, post. unf. tauto.
Qed.

Lemma inv_wake_front : forall s e s', inv s -> waitp (th s (cur s)) = false -> wake_front s e = Some s' -> inv s'.
Proof.
  intros s e s' [[Hf Hp Hd Hb Hw Hs] Hc Hdead Hcs Hwp Hal] Hcw H.
  destruct (wake_front_shape s e s' H) as [pre [w [post [E [Hev [Hpre [P1 [P2 [P3 [P4 [P5 [P6 P7]]]]]]]]]]]].
  unfold placed in Hal. rewrite E in *.
  destruct (NoDup_remove_mid pre w post Hp) as [Hnd Hwn].
  assert (Hwp_in : In w (pre ++ w :: post)) by (apply in_or_app; right; left; reflexivity).
  assert (Hwc : w <> cur s) by (intros K; subst w; rewrite (Hw _ Hwp_in) in Hcw; discriminate).
  assert (Hwf : ~ In w (front s)) by (intros K; exact (Hd w K Hwp_in)).
  assert (Hsub : forall x, In x (pre ++ post) -> In x (pre ++ w :: post))
    by (intros x Hx; apply in_app_iff in Hx; apply in_or_app; simpl; tauto).
  assert (Hrest : forall x, In x (pre ++ w :: post) -> x <> w -> In x (pre ++ post))
    by (intros x Hx Hn; apply in_app_iff in Hx; simpl in Hx; apply in_or_app; intuition congruence).
  constructor; [constructor|..]; unfold placed; rewrite ?P1, ?P2, ?P3, ?P4, ?P5, ?P7.
  - constructor; assumption.
  - exact Hnd.
  - intros x [Hx|Hx] K; [subst x; exact (Hwn K) | exact (Hd x Hx (Hsub x K))].
  - destruct (front s) as [|a r] eqn:Ef; [reflexivity|]. rewrite Hb. symmetry. apply last_opt_cons. discriminate.
  - intros x Hx. assert (x <> w) by (intros K; subst; exact (Hwn Hx)).
    rewrite upd_other by assumption. apply Hw. apply Hsub. exact Hx.
  - intros x [[Hx|Hx]|Hx]; [subst; apply Hs; right; exact Hwp_in | apply Hs; left; exact Hx | apply Hs; right; apply Hsub; exact Hx].
  - intros [K|K]; [apply Hwc; exact K | exact (Hc K)].
  - rewrite upd_other by (intros K; apply Hwc; symmetry; exact K). intros Hl K. exact (Hdead Hl (Hsub _ K)).
  - exact Hcs.
  - intros x H2 H3. destruct (Nat.eq_dec x w) as [Ex|Ex].
    + subst x. rewrite upd_same in H2. simpl in H2. discriminate.
    + rewrite upd_other in H2, H3 by exact Ex. destruct (Hwp x H2 H3) as [K|K]; [left; exact K | right; apply Hrest; assumption].
  - intros x H1 H2. destruct (Nat.eq_dec x w) as [Ex|Ex]; [subst x; right; left; left; reflexivity|].
    rewrite upd_other in H2 by exact Ex. destruct (Hal x H1 H2) as [K|[K|K]]; [left; exact K | right; left; right; exact K |].
    right; right. apply Hrest; assumption.
Qed.

Lemma wake_front_keeps_cur_flags : forall s e s', inv s -> waitp (th s (cur s)) = false -> wake_front s e = Some s' ->
  cur s' = cur s /\ th s' (cur s) = th s (cur s).
Proof.
  intros s e s' Hi Hcw H.
  destruct (wake_front_shape s e s' H) as [pre [w [post [E [Hev [Hpre [P1 [P2 [P3 [P4 [P5 [P6 P7]]]]]]]]]]]].
  split; [exact P4|]. rewrite P7. apply upd_other. intros K. subst w.
  assert (In (cur s) (paused s)) by (rewrite E; apply in_or_app; right; left; reflexivity).
  rewrite (q_pw s (i_q s Hi) _ H0) in Hcw. discriminate.
Qed.

(** the thread's thunk returned / the thread terminated itself: it is not waiting, hence not paused *)
Lemma inv_set_dead_cur : forall s, inv s -> waitp (th s (cur s)) = false ->
  inv (upd_th s (cur s) (set_live (th s (cur s)) false)).
Proof.
  intros s [[Hf Hp Hd Hb Hw Hs] Hc Hdead Hcs Hwp Hal] Hcw.
  assert (Hnp : ~ In (cur s) (paused s)) by (intros K; rewrite (Hw _ K) in Hcw; discriminate).
  constructor; [constructor|..]; unf; try assumption.
  - intros t Ht. destruct (Nat.eq_dec t (cur s)) as [E|E]; [subst; tauto | rewrite upd_other by exact E; apply Hw; exact Ht].
  - intros _. exact Hnp.
  - intros t H2 H3. destruct (Nat.eq_dec t (cur s)) as [E|E]; [left; exact E|].
    rewrite upd_other in H2, H3 by exact E. apply Hwp; assumption.
  - intros t H1 H2. destruct (Nat.eq_dec t (cur s)) as [E|E]; [left; exact E|].
    rewrite upd_other in H2 by exact E. apply Hal; assumption.
Qed.

(** thread-terminate! of another thread *)
Lemma inv_set_dead_other : forall s t, inv s -> t <> cur s -> inv (upd_th s t (set_live (th s t) false)).
Proof.
  intros s t [[Hf Hp Hd Hb Hw Hs] Hc Hdead Hcs Hwp Hal] Hne.
  constructor; [constructor|..]; unf; try assumption.
  - intros x Hx. destruct (Nat.eq_dec x t) as [E|E]; [subst; rewrite upd_same; simpl; apply Hw; exact Hx | rewrite upd_other by exact E; apply Hw; exact Hx].
  - rewrite upd_other by (intros K; apply Hne; symmetry; exact K). exact Hdead.
  - intros x H2 H3. destruct (Nat.eq_dec x t) as [E|E]; [subst; rewrite upd_same in H3; simpl in H3; discriminate|].
    rewrite upd_other in H2, H3 by exact E. apply Hwp; assumption.
  - intros x H1 H2. destruct (Nat.eq_dec x t) as [E|E]; [subst; rewrite upd_same in H2; simpl in H2; discriminate|].
    rewrite upd_other in H2 by exact E. apply Hal; assumption.
Qed.

(* moving a (dead) paused thread to the back of the run queue *)
Lemma inv_unpause_enqueue : forall s t, inv s -> In t (paused s) -> t <> cur s -> live (th s t) = false ->
  inv (enqueue (with_paused s (remove1 t (paused s))) t).
Proof.
  intros s t [[Hf Hp Hd Hb Hw Hs] Hc Hdead Hcs Hwp Hal] Hin Hne Hl.
  set (s0 := with_paused s (remove1 t (paused s))).
  assert (Hb0 : back s0 = last_opt (front s0)) by exact Hb.
  destruct (enqueue_front s0 t Hb0) as [E1 E2]. destruct (enqueue_frame s0 t) as [F1 [F2 [F3 [F4 F5]]]].
  assert (Htf : ~ In t (front s)) by (intros K; exact (Hd t K Hin)).
  constructor; [constructor|..]; unfold placed; repeat rewrite F1; repeat rewrite E1; repeat rewrite E2; repeat rewrite F2;
    repeat rewrite F3; repeat rewrite F4; unfold s0; unf; try assumption.
  - apply NoDup_app_intro; [exact Hf | constructor; [simpl; tauto | constructor] |].
    intros x Hx [K|K]; [subst; tauto | destruct K].
  - apply remove1_NoDup. exact Hp.
  - intros x Hx K. apply in_app_iff in Hx. destruct Hx as [Hx|[Hx|Hx]].
    + exact (Hd x Hx (remove1_In _ _ _ K)).
    + subst x. exact (remove1_notin t _ Hp K).
    + destruct Hx.
  - symmetry. apply last_opt_app1.
  - intros x Hx. apply Hw. eapply remove1_In. exact Hx.
  - intros x [Hx|Hx]; [|apply Hs; right; eapply remove1_In; exact Hx].
    apply in_app_iff in Hx. destruct Hx as [Hx|[Hx|Hx]]; [apply Hs; left; exact Hx | subst; apply Hs; right; exact Hin | destruct Hx].
  - rewrite in_app_iff. simpl. intuition congruence.
  - intros Hl' K. exact (Hdead Hl' (remove1_In _ _ _ K)).
  - intros x H2 H3. destruct (Hwp x H2 H3) as [K|K]; [left; exact K|].
    right. apply remove1_In_neq; [exact K | intros E; subst; congruence].
  - intros x H1 H2. rewrite in_app_iff. simpl. destruct (Hal x H1 H2) as [K|[K|K]]; [tauto | tauto |].
    right; right. apply remove1_In_neq; [exact K | intros E; subst; congruence].
Qed.

(* the flags of an ended thread that is not paused do not matter *)
Lemma inv_upd_dead : forall s t x, inv s -> live (th s t) = false -> ~ In t (paused s) -> live x = false ->
  inv (upd_th s t x).
Proof.
  intros s t x [[Hf Hp Hd Hb Hw Hs] Hc Hdead Hcs Hwp Hal] Hl Hnp Hx.
  constructor; [constructor|..]; unf; try assumption.
  - intros y Hy. destruct (Nat.eq_dec y t) as [E|E]; [subst; tauto | rewrite upd_other by exact E; apply Hw; exact Hy].
  - destruct (Nat.eq_dec (cur s) t) as [E|E]; [rewrite E; intros _; exact Hnp | rewrite upd_other by exact E; exact Hdead].
  - intros y H2 H3. destruct (Nat.eq_dec y t) as [E|E]; [subst; rewrite upd_same in H3; congruence|].
    rewrite upd_other in H2, H3 by exact E. apply Hwp; assumption.
  - intros y H1 H2. destruct (Nat.eq_dec y t) as [E|E]; [subst; rewrite upd_same in H2; congruence|].
    rewrite upd_other in H2 by exact E. apply Hal; assumption.
Qed.

Lemma enqueue_upd_th : forall s t u x, enqueue (upd_th s u x) t = upd_th (enqueue s t) u x.
Proof. intros. unfold enqueue. unf. destruct (back s); reflexivity. Qed.

(* thread-terminate! of a paused thread (repaired): it stops waiting and is queued for its last scheduler call *)
Lemma inv_unpause_enqueue_flags : forall s t, inv s -> In t (paused s) -> t <> cur s -> live (th s t) = false ->
  inv (enqueue (upd_th (with_paused s (remove1 t (paused s))) t (set_flags (th s t) false false)) t).
Proof.
  intros s t Hi Hin Hne Hl. rewrite enqueue_upd_th.
  pose proof (inv_unpause_enqueue s t Hi Hin Hne Hl) as Hi2.
  apply inv_upd_dead; [exact Hi2 | | | exact Hl].
  - destruct (enqueue_frame (with_paused s (remove1 t (paused s))) t) as [_ [_ [F3 _]]]. rewrite F3. exact Hl.
  - destruct (enqueue_frame (with_paused s (remove1 t (paused s))) t) as [_ [F2 _]]. rewrite F2. unf.
    apply remove1_notin. exact (q_ndp s (i_q s Hi)).
Qed.

Lemma inv_broadcast_loop : forall fuel s c r, inv s -> waitp (th s (cur s)) = false ->
  inv (fst (broadcast_loop fuel s c r)) /\ cur (fst (broadcast_loop fuel s c r)) = cur s.
Proof.
  induction fuel as [|f IH]; simpl; intros s c r Hi Hw; [tauto|].
  destruct (wake_front s (ECond c)) as [s'|] eqn:E; [|simpl; tauto].
  destruct (wake_front_keeps_cur_flags s _ s' Hi Hw E) as [K1 K2].
  assert (Hi' : inv s') by (eapply inv_wake_front; eassumption).
  assert (Hw' : waitp (th s' (cur s')) = false) by (rewrite K1, K2; exact Hw).
  destruct (IH s' c true Hi' Hw') as [A B]. split; [exact A | congruence].
Qed.

(** every thread primitive preserves the invariant *)
Theorem inv_step_prim : forall s o, inv s -> enabled s o = true ->
  (forall n1 n2, o <> OSched n1 n2) -> inv (fst (step true s o)).
Proof.
  intros s o Hi He Hns.
  assert (Hlw : live (th s (cur s)) = true /\ waitp (th s (cur s)) = false).
  { destruct o; simpl in He; try (apply andb_prop in He; destruct He as [He _]);
      try (apply andb_prop in He; destruct He as [A B]; apply negb_true_iff in B; tauto).
    exfalso. eapply Hns. reflexivity. }
  destruct Hlw as [Hl Hw].
  destruct o; simpl.
  - (* start *) simpl in He. apply andb_prop in He. destruct He as [_ He]. apply negb_true_iff in He.
    apply inv_start; assumption.
  - (* terminate *) unfold thread_terminate. rewrite Hl.
    destruct (Nat.eq_dec t (cur s)) as [E|E].
    + subst t. assert (Hi1 := inv_set_dead_cur s Hi Hw).
      destruct (memb (cur s) (paused (upd_th s (cur s) (set_live (th s (cur s)) false)))) eqn:Em; simpl; [|exact Hi1].
      exfalso. apply memb_In in Em. unf. rewrite (q_pw s (i_q s Hi) _ Em) in Hw. discriminate.
    + assert (Hi1 := inv_set_dead_other s t Hi E).
      destruct (memb t (paused (upd_th s t (set_live (th s t) false)))) eqn:Em; simpl; [|exact Hi1].
      apply memb_In in Em.
      apply (inv_unpause_enqueue_flags (upd_th s t (set_live (th s t) false)) t Hi1 Em E).
      unf. rewrite upd_same. reflexivity.
  - (* join *) unfold thread_join. destruct (negb (live (th s t))); simpl; [exact Hi|].
    apply inv_block; try assumption; reflexivity || exact Hl.
  - (* sleep *) unfold thread_sleep. destruct forever; simpl.
    + apply inv_upd_cur_wait; [exact Hi | reflexivity | reflexivity].
    + assert (Hi1 : inv (upd_th s (cur s) (set_wait (th s (cur s)) true))) by (apply inv_upd_cur_wait; [exact Hi | reflexivity | reflexivity]).
      set (s1 := upd_th s (cur s) (set_wait (th s (cur s)) true)) in *.
      change (cur s) with (cur s1).
      apply inv_block; [exact Hi1 | unfold s1; unf; rewrite upd_same; exact Hl | unfold s1; unf; rewrite upd_same; exact Hl | unfold s1; unf; rewrite upd_same; reflexivity].
  - (* lock *) unfold mutex_lock. destruct (negb (locked (mx s m))); simpl.
    + apply inv_with_mx. exact Hi.
    + apply inv_block; try assumption; reflexivity || exact Hl.
  - (* unlock *) unfold mutex_unlock.
    set (s1 := if locked (mx s m) then
                 match wake_front (with_mx s (upd (mx s) m {| locked := false; owner := Some (cur s) |})) (EMutex m) with
                 | Some s' => s' | None => with_mx s (upd (mx s) m {| locked := false; owner := Some (cur s) |}) end
               else s).
    assert (H1 : inv s1 /\ cur s1 = cur s /\ th s1 (cur s) = th s (cur s)).
    { unfold s1. destruct (locked (mx s m)); [|tauto].
      set (s0 := with_mx s (upd (mx s) m {| locked := false; owner := Some (cur s) |})).
      assert (Hi0 : inv s0) by (apply inv_with_mx; exact Hi).
      destruct (wake_front s0 (EMutex m)) as [s'|] eqn:E; [|tauto].
      destruct (wake_front_keeps_cur_flags s0 _ s' Hi0 Hw E) as [K1 K2].
      split; [eapply inv_wake_front; eassumption | split; assumption]. }
    destruct H1 as [Hi1 [Hc1 Ht1]].
    destruct cv as [c|]; simpl; [|exact Hi1].
    apply inv_block; [exact Hi1 | rewrite Hc1, Ht1; exact Hl | simpl; rewrite Hc1, Ht1; exact Hl | reflexivity].
  - (* signal *) unfold condvar_signal. destruct (wake_front s (ECond c)) as [s'|] eqn:E; simpl; [|exact Hi].
    eapply inv_wake_front; eassumption.
  - (* broadcast *) unfold condvar_broadcast. apply inv_broadcast_loop; assumption.
  - (* exit *) apply inv_set_dead_cur; assumption.
  - exfalso. eapply Hns. reflexivity.
Qed.
