(** C11 — the scheduler (threads.c:420-634, with the fix) preserves the invariant. *)
From Coq Require Import ZArith List Bool Arith Lia.
From ChibiV Require Import C11.Model C11.Lists C11.Invariant.
Import ListNotations.

(** invariant with a set X of threads "in transit" (unlinked from paused, not yet in the run queue) *)
Record ginv (X : list tid) (s : st) : Prop := {
  g_q : qinv s;
  g_cnf : ~ In (cur s) (front s);
  g_dead : live (th s (cur s)) = false -> ~ In (cur s) (paused s);
  g_cst : started s (cur s) = true;
  g_wp : forall t, waitp (th s t) = true -> live (th s t) = true -> t = cur s \/ In t (paused s) \/ In t X;
  g_alive : forall t, started s t = true -> live (th s t) = true ->
                      t = cur s \/ In t (front s) \/ In t (paused s) \/ In t X;
  g_nd : NoDup X;
  g_X : forall t, In t X -> t <> cur s /\ ~ In t (front s) /\ ~ In t (paused s) /\ started s t = true
}.

Lemma ginv_nil : forall s, ginv [] s <-> inv s.
Proof.
  intros s. split.
  - intros [Hq Hc Hd Hs Hw Ha _ _]. constructor; try assumption.
    + intros t H1 H2. destruct (Hw t H1 H2) as [K|[K|K]]; [tauto | tauto | destruct K].
    + intros t H1 H2. unfold placed. destruct (Ha t H1 H2) as [K|[K|[K|K]]]; [tauto | tauto | tauto | destruct K].
  - intros [Hq Hc Hd Hs Hw Ha]. constructor; try assumption.
    + intros t H1 H2. destruct (Hw t H1 H2); tauto.
    + intros t H1 H2. destruct (Ha t H1 H2) as [K|[K|K]]; tauto.
    + constructor.
    + intros t K. destruct K.
Qed.

Definition wake1 (b : bool) (a : st) (y : tid) : st := enqueue (upd_th a y (set_flags (th a y) false b)) y.

Lemma ginv_wake1 : forall b y X a, ginv (y :: X) a -> ginv X (wake1 b a y).
Proof.
  intros b y X a [[Hf Hp Hd Hb Hw Hs] Hc Hdead Hcs Hwp Hal Hnd HX].
  destruct (HX y (or_introl eq_refl)) as [Y1 [Y2 [Y3 Y4]]].
  inversion Hnd as [|p q Hny HndX]; subst.
  unfold wake1. set (a1 := upd_th a y (set_flags (th a y) false b)).
  assert (Hb1 : back a1 = last_opt (front a1)) by exact Hb.
  destruct (enqueue_front a1 y Hb1) as [E1 E2]. destruct (enqueue_frame a1 y) as [F1 [F2 [F3 [F4 F5]]]].
  constructor; [constructor|..]; repeat rewrite F1; repeat rewrite E1; repeat rewrite E2; repeat rewrite F2;
    repeat rewrite F3; repeat rewrite F4; unfold a1; unf; try assumption.
  - apply NoDup_app_intro; [exact Hf | constructor; [simpl; tauto | constructor] |].
    intros x Hx [K|K]; [subst; tauto | destruct K].
  - intros x Hx. apply in_app_iff in Hx. destruct Hx as [Hx|[Hx|Hx]]; [apply Hd; exact Hx | subst; exact Y3 | destruct Hx].
  - symmetry. apply last_opt_app1.
  - intros x Hx. rewrite upd_other by (intros K; subst; tauto). apply Hw. exact Hx.
  - intros x [Hx|Hx]; [|apply Hs; right; exact Hx].
    apply in_app_iff in Hx. destruct Hx as [Hx|[Hx|Hx]]; [apply Hs; left; exact Hx | subst; exact Y4 | destruct Hx].
  - rewrite in_app_iff. simpl. intuition congruence.
  - rewrite upd_other by (intros K; apply Y1; symmetry; exact K). exact Hdead.
  - intros x H1 H2. destruct (Nat.eq_dec x y) as [E|E]; [subst; rewrite upd_same in H1; simpl in H1; discriminate|].
    rewrite upd_other in H1, H2 by exact E. destruct (Hwp x H1 H2) as [K|[K|[K|K]]]; [tauto | tauto | congruence | tauto].
  - intros x H1 H2. rewrite in_app_iff. simpl. destruct (Nat.eq_dec x y) as [E|E]; [subst; tauto|].
    rewrite upd_other in H2 by exact E. destruct (Hal x H1 H2) as [K|[K|[K|[K|K]]]]; [tauto | tauto | tauto | congruence | tauto].
  - intros x Hx. destruct (HX x (or_intror Hx)) as [Z1 [Z2 [Z3 Z4]]].
    rewrite in_app_iff. simpl. repeat split; try assumption. intros [K|[K|K]]; [tauto | subst; tauto | exact K].
Qed.

Lemma ginv_fold : forall b X a, ginv X a -> inv (fold_left (wake1 b) X a).
Proof.
  induction X as [|y X IH]; simpl; intros a H; [apply ginv_nil; exact H|].
  apply IH. apply ginv_wake1. exact H.
Qed.

Lemma fold_wake1_cur : forall b X a, cur (fold_left (wake1 b) X a) = cur a.
Proof.
  induction X as [|y X IH]; simpl; intros a; [reflexivity|]. rewrite IH. unfold wake1.
  destruct (enqueue_frame (upd_th a y (set_flags (th a y) false b)) y) as [F1 _]. rewrite F1. reflexivity.
Qed.

(** threads.c:505-529 *)
Lemma inv_wake_joiners : forall s, inv s -> live (th s (cur s)) = false -> inv (wake_joiners s) /\ cur (wake_joiners s) = cur s.
Proof.
  intros s [[Hf Hp Hd Hb Hw Hs] Hc Hdead Hcs Hwp Hal] Hl.
  unfold wake_joiners. set (isj := fun y => event_eqb (ev (th s y)) (EThread (cur s))).
  change (fun a y => enqueue (upd_th a y (set_flags (th a y) false false)) y) with (wake1 false).
  split; [|rewrite fold_wake1_cur; reflexivity].
  apply ginv_fold. specialize (Hdead Hl).
  constructor; [constructor|..]; unf; try assumption.
  - apply NoDup_filter. exact Hp.
  - intros t Ht K. apply filter_In in K. exact (Hd t Ht (proj1 K)).
  - intros t Ht. apply filter_In in Ht. apply Hw. tauto.
  - intros t [Ht|Ht]; [apply Hs; left; exact Ht | apply filter_In in Ht; apply Hs; right; tauto].
  - intros _ K. apply filter_In in K. tauto.
  - intros t H1 H2. destruct (Hwp t H1 H2) as [K|K]; [left; exact K|].
    destruct (isj t) eqn:Ej; [right; right | right; left]; apply filter_In; (split; [assumption|]); try exact Ej; cbv beta; unfold isj in *; rewrite Ej; reflexivity.
  - intros t H1 H2. destruct (Hal t H1 H2) as [K|[K|K]]; [tauto | tauto |].
    destruct (isj t) eqn:Ej; [right; right; right | right; right; left]; apply filter_In; (split; [assumption|]); try exact Ej; cbv beta; unfold isj in *; rewrite Ej; reflexivity.
  - apply NoDup_filter. exact Hp.
  - intros t Ht. apply filter_In in Ht. destruct Ht as [Ht Ej]. repeat split.
    + intros K. subst. tauto.
    + intros K. exact (Hd t K Ht).
    + intros K. apply filter_In in K. destruct K as [_ K]. cbv beta in K. unfold isj in *. rewrite Ej in K. discriminate.
    + apply Hs. right. exact Ht.
Qed.

Lemma inv_fields_eq : forall s s', cur s = cur s' -> front s = front s' -> back s = back s' ->
  paused s = paused s' -> th s = th s' -> started s = started s' -> inv s -> inv s'.
Proof.
  intros [c f b p t m st] [c' f' b' p' t' m' st']; simpl; intros; subst.
  destruct H5 as [[? ? ? ? ? ?] ? ? ? ? ?]. constructor; [constructor|..]; unfold placed in *; simpl in *; assumption.
Qed.

Lemma inv_wake_current_timeout : forall s now, inv s ->
  inv (wake_current_timeout s now) /\ cur (wake_current_timeout s now) = cur s /\
  (In (cur s) (paused (wake_current_timeout s now)) ->
   before (th (wake_current_timeout s now) (cur s)) (fst now) (snd now) = false).
Proof.
  intros s now Hi. unfold wake_current_timeout.
  destruct (waitp (th s (cur s)) && before (th s (cur s)) (fst now) (snd now) && memb (cur s) (paused s)) eqn:Ec.
  - destruct Hi as [[Hf Hp Hd Hb Hw Hs] Hc Hdead Hcs Hwp Hal].
    assert (Hn : ~ In (cur s) (remove1 (cur s) (paused s))) by (apply remove1_notin; exact Hp).
    split; [|split; [reflexivity | unf; tauto]].
    constructor; [constructor|..]; unfold placed; unf; try assumption.
    + apply remove1_NoDup. exact Hp.
    + intros t Ht K. exact (Hd t Ht (remove1_In _ _ _ K)).
    + intros t Ht. rewrite upd_other by (intros K; subst; tauto). apply Hw. eapply remove1_In. exact Ht.
    + intros t [Ht|Ht]; [apply Hs; left; exact Ht | apply Hs; right; eapply remove1_In; exact Ht].
    + intros _. exact Hn.
    + intros t H1 H2. destruct (Nat.eq_dec t (cur s)) as [E|E]; [left; exact E|].
      rewrite upd_other in H1, H2 by exact E. destruct (Hwp t H1 H2) as [K|K]; [left; exact K|].
      right. apply remove1_In_neq; assumption.
    + intros t H1 H2. destruct (Nat.eq_dec t (cur s)) as [E|E]; [left; exact E|].
      rewrite upd_other in H2 by exact E. destruct (Hal t H1 H2) as [K|[K|K]]; [tauto | tauto|].
      right; right. apply remove1_In_neq; assumption.
  - split; [exact Hi | split; [reflexivity|]]. intros K.
    rewrite (q_pw s (i_q s Hi) _ K) in Ec. apply memb_In in K. rewrite K in Ec.
    destruct (before (th s (cur s)) (fst now) (snd now)); [discriminate | reflexivity].
Qed.

Lemma fold_wake1_fields : forall X a, back a = last_opt (front a) ->
  let r := fold_left (wake1 true) X a in
  cur r = cur a /\ front r = front a ++ X /\ (X <> [] -> back r = last_opt X) /\ paused r = paused a /\
  started r = started a /\ th r = fold_left (fun f y => upd f y (set_flags (f y) false true)) X (th a).
Proof.
  induction X as [|y X IH]; simpl; intros a Hb.
  - rewrite app_nil_r. repeat split; congruence.
  - set (a' := wake1 true a y).
    assert (Ha' : front a' = front a ++ [y] /\ back a' = Some y /\ cur a' = cur a /\ paused a' = paused a /\
                  started a' = started a /\ th a' = upd (th a) y (set_flags (th a y) false true)).
    { unfold a', wake1. set (a1 := upd_th a y (set_flags (th a y) false true)).
      assert (Hb1 : back a1 = last_opt (front a1)) by exact Hb.
      destruct (enqueue_front a1 y Hb1) as [E1 E2]. destruct (enqueue_frame a1 y) as [F1 [F2 [F3 [F4 F5]]]].
      rewrite E1, E2, F1, F2, F3, F4. unfold a1; unf. tauto. }
    destruct Ha' as [A1 [A2 [A3 [A4 [A5 A6]]]]].
    assert (Hb' : back a' = last_opt (front a')) by (rewrite A1, A2; symmetry; apply last_opt_app1).
    destruct (IH a' Hb') as [I1 [I2 [I3 [I4 [I5 I6]]]]].
    rewrite I1, I2, I4, I5, I6, A1, A3, A4, A5, A6. rewrite <- app_assoc. simpl.
    repeat split; try reflexivity. intros _.
    destruct X as [|z X']; [simpl; exact A2|]. rewrite I3 by discriminate. reflexivity.
Qed.

(** threads.c:531-553 with the fix *)
Lemma inv_wake_timeouts : forall s now, inv s -> inv (wake_timeouts true s now) /\ cur (wake_timeouts true s now) = cur s.
Proof.
  intros s now Hi. unfold wake_timeouts. destruct (paused s) as [|p0 pr] eqn:Ep; [tauto|]. clear Ep p0 pr.
  destruct (inv_wake_current_timeout s now Hi) as [Hi0 [Hc0 Hb0]].
  set (s0 := wake_current_timeout s now) in *.
  destruct (span_before (th s0) now (paused s0)) as [pre post] eqn:Esp.
  destruct (span_before_spec _ _ _ _ _ Esp) as [Epp Hpre].
  assert (Hin_post : forall t, In t post -> In t (paused s0)) by (intros t K; rewrite Epp; apply in_or_app; right; exact K).
  assert (Hin_pre : forall t, In t pre -> In t (paused s0)) by (intros t K; rewrite Epp; apply in_or_app; left; exact K).
  assert (Hsplit : forall t, In t (paused s0) -> In t pre \/ In t post) by (intros t K; rewrite Epp in K; apply in_app_iff in K; exact K).
  assert (Hcp : ~ In (cur s0) pre).
  { intros K. rewrite Hc0 in K. rewrite (Hpre _ K) in Hb0. specialize (Hb0 (Hin_pre _ K)). discriminate. }
  destruct Hi0 as [[Hf Hp Hd Hb Hw Hs] Hc Hdead Hcs Hwp Hal].
  destruct (NoDup_app_inv pre post) as [Nd1 [Nd2 Nd3]]; [rewrite <- Epp; exact Hp|].
  clear Epp Esp.
  assert (Hg : ginv pre (with_paused s0 post)).
  { constructor; [constructor|..]; unf; try assumption.
    - intros t Ht K. exact (Hd t Ht (Hin_post _ K)).
    - intros t Ht. apply Hw. apply Hin_post. exact Ht.
    - intros t [Ht|Ht]; [apply Hs; left; exact Ht | apply Hs; right; apply Hin_post; exact Ht].
    - intros Hl K. exact (Hdead Hl (Hin_post _ K)).
    - intros t H1 H2. destruct (Hwp t H1 H2) as [K|K]; [left; exact K|]. destruct (Hsplit _ K); tauto.
    - intros t H1 H2. destruct (Hal t H1 H2) as [K|[K|K]]; [tauto | tauto|]. destruct (Hsplit _ K); tauto.
    - intros t Ht. repeat split.
      + intros K. subst. tauto.
      + intros K. exact (Hd t K (Hin_pre _ Ht)).
      + apply Nd3. exact Ht.
      + apply Hs. right. apply Hin_pre. exact Ht. }
  assert (Hr := ginv_fold true pre _ Hg).
  assert (Hb1 : back (with_paused s0 post) = last_opt (front (with_paused s0 post))) by exact Hb.
  destruct (fold_wake1_fields pre (with_paused s0 post) Hb1) as [I1 [I2 [I3 [I4 [I5 I6]]]]].
  split; [|destruct pre; exact Hc0].
  destruct pre as [|y pre']; [constructor; [constructor|..]; assumption|].
  eapply inv_fields_eq; [| | | | | | exact Hr]; unf.
  - exact I1.
  - rewrite I2. destruct (back s0) eqn:Eb; [reflexivity|].
    assert (Eb' : last_opt (front s0) = None) by congruence. apply last_opt_nil_iff in Eb'. rewrite Eb'. reflexivity.
  - apply I3. discriminate.
  - exact I4.
  - exact I6.
  - exact I5.
Qed.

(** threads.c:555-591: after the dequeue the chosen thread can become the running one *)
Lemma inv_dequeue : forall s, inv s -> inv (with_cur (snd (dequeue s)) (fst (dequeue s))).
Proof.
  intros s Hi. unfold dequeue. destruct (front s) as [|x rest] eqn:Ef.
  - simpl. eapply inv_fields_eq; [| | | | | | exact Hi]; reflexivity.
  - destruct Hi as [[Hf Hp Hd Hb Hw Hs] Hc Hdead Hcs Hwp Hal]. unfold placed in Hal. rewrite Ef in *.
    inversion Hf as [|p q Hxr Hndr]; subst.
    assert (Hxc : x <> cur s) by (intros K; subst; apply Hc; left; reflexivity).
    assert (Hxp : ~ In x (paused s)) by (apply Hd; left; reflexivity).
    destruct (negb (live (th s (cur s))) || waitp (th s (cur s))) eqn:Eq.
    + (* the old thread is dead or waiting: plain dequeue, insert it untimed if it is nowhere *)
      set (s1 := with_queue s rest (match rest with [] => None | _ :: _ => back s end)).
      assert (Hq1 : qinv s1).
      { constructor; unfold s1; unf; try assumption.
        - intros t Ht. apply Hd. right. exact Ht.
        - destruct rest as [|z r]; [reflexivity | simpl in Hb; exact Hb].
        - intros t [Ht|Ht]; apply Hs; [left; right; exact Ht | right; exact Ht]. }
      destruct (live (th s (cur s)) && negb (memb (cur s) (paused s))) eqn:Ei; simpl.
      * apply andb_prop in Ei. destruct Ei as [El En]. apply negb_true_iff in En. apply memb_false in En.
        rewrite El in Eq. simpl in Eq.
        assert (Hq2 : qinv (insert_timed s1 (cur s) TNone (0%Z, 0%Z))).
        { apply qinv_insert_timed; unfold s1; unf; try assumption. intros K. apply Hc. right. exact K. }
        destruct (insert_timed_frame s1 (cur s) TNone (0%Z, 0%Z)) as [E1 [E2 [E3 [E4 E5]]]].
        destruct Hq2 as [Gf Gp Gd Gb Gw Gs].
        constructor; [constructor|..]; unfold placed; cbn [cur front back paused th started with_cur]; try assumption.
        -- intros _ K. apply insert_timed_paused in K. destruct K as [K|K]; [congruence | apply remove1_In in K; exact (Hxp K)].
        -- rewrite E4. apply Hs. left; left; reflexivity.
        -- intros t H1 H2. destruct (insert_timed_flags s1 (cur s) TNone (0%Z, 0%Z) t) as [F1 [F2 _]]. rewrite F1 in H1. rewrite F2 in H2.
           right. apply insert_timed_paused. destruct (Nat.eq_dec t (cur s)) as [E|E]; [left; exact E|].
           right. destruct (Hwp t H1 H2) as [K|K]; [congruence | apply remove1_In_neq; assumption].
        -- intros t H1 H2. destruct (insert_timed_flags s1 (cur s) TNone (0%Z, 0%Z) t) as [_ [F2 _]]. rewrite F2 in H2. rewrite E4 in H1. rewrite E2.
           destruct (Nat.eq_dec t (cur s)) as [E|E]; [right; right; apply insert_timed_paused; left; exact E|].
           destruct (Hal t H1 H2) as [K|[[K|K]|K]]; [congruence | left; symmetry; exact K | right; left; exact K|].
           right; right. apply insert_timed_paused. right. apply remove1_In_neq; assumption.
      * destruct Hq1 as [Gf Gp Gd Gb Gw Gs].
        constructor; [constructor|..]; unfold placed; unfold s1 in *; unf; try assumption.
        -- intros _. exact Hxp.
        -- apply Hs. left; left; reflexivity.
        -- intros t H1 H2. destruct (Hwp t H1 H2) as [K|K]; [|right; exact K]. subst t.
           rewrite H2 in Ei. simpl in Ei. apply negb_false_iff in Ei. apply memb_In in Ei. right. exact Ei.
        -- intros t H1 H2. destruct (Hal t H1 H2) as [K|[[K|K]|K]]; [| left; symmetry; exact K | right; left; exact K | right; right; exact K].
           subst t. rewrite H2 in Ei, Eq. simpl in Ei, Eq. apply negb_false_iff in Ei. apply memb_In in Ei. right; right. exact Ei.
    + (* the old thread is runnable: swap with the front cell and rotate *)
      apply orb_false_iff in Eq. destruct Eq as [El Ew]. apply negb_false_iff in El. simpl.
      constructor; [constructor|..]; unfold placed; unf; try assumption.
      * apply NoDup_app_intro; [exact Hndr | constructor; [simpl; tauto | constructor] |].
        intros t Ht [K|K]; [subst; apply Hc; right; exact Ht | destruct K].
      * intros t Ht K. apply in_app_iff in Ht. destruct Ht as [Ht|[Ht|Ht]]; [exact (Hd t (or_intror Ht) K) | subst t; rewrite (Hw _ K) in Ew; discriminate | destruct Ht].
      * symmetry. apply last_opt_app1.
      * intros t [Ht|Ht]; [|apply Hs; right; exact Ht].
        apply in_app_iff in Ht. destruct Ht as [Ht|[Ht|Ht]]; [apply Hs; left; right; exact Ht | subst; exact Hcs | destruct Ht].
      * rewrite in_app_iff. simpl. intuition.
      * intros _. exact Hxp.
      * apply Hs. left; left; reflexivity.
      * intros t H1 H2. destruct (Hwp t H1 H2) as [K|K]; [subst; congruence | right; exact K].
      * intros t H1 H2. rewrite in_app_iff. simpl. destruct (Hal t H1 H2) as [K|[[K|K]|K]]; [subst; tauto | left; symmetry; exact K | tauto | tauto].
Qed.

Lemma timeval_lt_irrefl : forall a b, timeval_lt a b a b = false.
Proof. intros. unfold timeval_lt. rewrite !Z.ltb_irrefl. rewrite andb_false_r. reflexivity. Qed.

(* the running thread stops waiting (it is not in the paused list) *)
Lemma inv_cur_wake : forall a b, inv a -> ~ In (cur a) (paused a) ->
  inv (upd_th a (cur a) (set_flags (th a (cur a)) false b)).
Proof.
  intros a b [[Hf Hp Hd Hb Hw Hs] Hc Hdead Hcs Hwp Hal] Hn.
  constructor; [constructor|..]; unfold placed; unf; try assumption.
  - intros t Ht. rewrite upd_other by (intros K; subst; tauto). apply Hw. exact Ht.
  - intros _. exact Hn.
  - intros t H1 H2. destruct (Nat.eq_dec t (cur a)) as [E|E]; [left; exact E|].
    rewrite upd_other in H1, H2 by exact E. apply Hwp; assumption.
  - intros t H1 H2. destruct (Nat.eq_dec t (cur a)) as [E|E]; [left; exact E|].
    rewrite upd_other in H2 by exact E. apply Hal; assumption.
Qed.

(** threads.c:593-630: every thread is blocked and the chosen one is itself waiting *)
Lemma inv_only_waiting : forall s res now2, inv (with_cur s res) ->
  inv (with_cur (snd (only_waiting s res now2)) (fst (only_waiting s res now2))).
Proof.
  intros s res now2 Hi. unfold only_waiting. destruct (waitp (th s res)) eqn:Ew; [|simpl; exact Hi].
  set (pick := match paused s with
               | y :: prest =>
                   if before (th s y) (tsec (th s res)) (tusec (th s res))
                   then (y, if negb (memb res prest) then insert_timed (with_paused s prest) res TSelf (0%Z, 0%Z) else with_paused s prest)
                   else (res, with_paused s (remove1 res (paused s)))
               | [] => (res, s)
               end).
  assert (Hpick : inv (with_cur (snd pick) (fst pick)) /\ ~ In (fst pick) (paused (snd pick))).
  { destruct Hi as [[Hf Hp Hd Hb Hw Hs] Hc Hdead Hcs Hwp Hal]. unfold placed in Hal.
    cbn [cur front back paused th started with_cur] in Hf, Hp, Hd, Hb, Hw, Hs, Hc, Hdead, Hcs, Hwp, Hal.
    unfold pick. clear pick. destruct (paused s) as [|y prest] eqn:Ep.
    - simpl. split; [constructor; [constructor|..]; unfold placed; unf; rewrite ?Ep; assumption | rewrite Ep; tauto].
    - destruct (before (th s y) (tsec (th s res)) (tusec (th s res))) eqn:Eb.
      + (* the head of the paused list wakes earlier: it is chosen, res goes back into the list *)
        assert (Hyr : y <> res).
        { intros K. subst y. unfold before in Eb. rewrite timeval_lt_irrefl in Eb. rewrite andb_false_r in Eb. discriminate. }
        inversion Hp as [|p q Hny Hndp]; subst.
        assert (Hyf : ~ In y (front s)) by (intros K; apply (Hd y K); left; reflexivity).
        set (s0 := with_paused s prest) in *.
        assert (Hq0 : qinv s0).
        { constructor; unfold s0; unf; try assumption.
          - intros t Ht K. apply (Hd t Ht). right. exact K.
          - intros t Ht. apply Hw. right. exact Ht.
          - intros t [Ht|Ht]; apply Hs; [left; exact Ht | right; right; exact Ht]. }
        destruct (negb (memb res prest)) eqn:Em; cbn [fst snd].
        * apply negb_true_iff in Em. apply memb_false in Em.
          assert (Hq2 : qinv (insert_timed s0 res TSelf (0%Z, 0%Z))) by (apply qinv_insert_timed; unfold s0; unf; assumption).
          pose proof (insert_timed_frame s0 res TSelf (0%Z, 0%Z)) as Fr.
          pose proof (insert_timed_flags s0 res TSelf (0%Z, 0%Z)) as Fl.
          pose proof (insert_timed_paused s0 res TSelf (0%Z, 0%Z)) as Fp.
          set (s2 := insert_timed s0 res TSelf (0%Z, 0%Z)) in *. clearbody s2.
          destruct Fr as [E1 [E2 [E3 [E4 E5]]]]. unfold s0 in E1, E2, E3, E4, E5, Fl, Fp. unf.
          destruct Hq2 as [Gf Gp Gd Gb Gw Gs].
          assert (Hyn : ~ In y (paused s2)).
          { intros K. apply Fp in K. destruct K as [K|K]; [congruence | apply remove1_In in K; exact (Hny K)]. }
          split; [|exact Hyn].
          constructor; [constructor|..]; unfold placed; unf; try assumption.
          -- rewrite E2. exact Hyf.
          -- intros _. exact Hyn.
          -- rewrite E4. apply Hs. right; left; reflexivity.
          -- intros t H1 H2. destruct (Fl t) as [F1 [F2 _]]. rewrite F1 in H1. rewrite F2 in H2.
             destruct (Nat.eq_dec t res) as [E|E]; [right; apply Fp; left; exact E|].
             destruct (Hwp t H1 H2) as [K|[K|K]]; [congruence | left; symmetry; exact K|].
             right. apply Fp. right. apply remove1_In_neq; assumption.
          -- intros t H1 H2. destruct (Fl t) as [_ [F2 _]]. rewrite F2 in H2. rewrite E4 in H1. rewrite E2.
             destruct (Nat.eq_dec t res) as [E|E]; [right; right; apply Fp; left; exact E|].
             destruct (Hal t H1 H2) as [K|[K|[K|K]]]; [congruence | right; left; exact K | left; symmetry; exact K|].
             right; right. apply Fp. right. apply remove1_In_neq; assumption.
        * apply negb_false_iff in Em. apply memb_In in Em.
          destruct Hq0 as [Gf Gp Gd Gb Gw Gs]. split; [|exact Hny].
          constructor; [constructor|..]; unfold placed; unfold s0 in *; unf; try assumption.
          -- intros _. exact Hny.
          -- apply Hs. right; left; reflexivity.
          -- intros t H1 H2. destruct (Hwp t H1 H2) as [K|[K|K]]; [subst; tauto | left; symmetry; exact K | tauto].
          -- intros t H1 H2. destruct (Hal t H1 H2) as [K|[K|[K|K]]]; [subst; tauto | tauto | left; symmetry; exact K | tauto].
      + (* res keeps spinning: unlink it from the paused list *)
        cbn [fst snd]. rewrite <- Ep in Hp, Hd, Hw, Hs, Hdead, Hwp, Hal |- *.
        assert (Hn : ~ In res (remove1 res (paused s))) by (apply remove1_notin; exact Hp).
        split; [|exact Hn].
        constructor; [constructor|..]; unfold placed; unf; try assumption.
        * apply remove1_NoDup. exact Hp.
        * intros t Ht K. exact (Hd t Ht (remove1_In _ _ _ K)).
        * intros t Ht. apply Hw. eapply remove1_In. exact Ht.
        * intros t [Ht|Ht]; apply Hs; [left; exact Ht | right; eapply remove1_In; exact Ht].
        * intros _. exact Hn.
        * intros t H1 H2. destruct (Hwp t H1 H2) as [K|K]; [left; exact K|].
          destruct (Nat.eq_dec t res) as [E|E]; [left; exact E | right; apply remove1_In_neq; assumption].
        * intros t H1 H2. destruct (Hal t H1 H2) as [K|[K|K]]; [tauto | tauto|].
          destruct (Nat.eq_dec t res) as [E|E]; [left; exact E | right; right; apply remove1_In_neq; assumption]. }
  fold pick. destruct pick as [res' s1]. simpl in Hpick. destruct Hpick as [Hi1 Hn1].
  destruct (nap_usecs (th s1 res') now2); simpl; [exact Hi1|].
  apply (inv_cur_wake (with_cur s1 res') true Hi1 Hn1).
Qed.

(** the scheduler preserves the invariant *)
Theorem inv_scheduler : forall s n1 n2, inv s -> inv (scheduler true s n1 n2).
Proof.
  intros s n1 n2 Hi. unfold scheduler.
  set (s1 := if negb (live (th s (cur s))) then wake_joiners s else s).
  assert (H1 : inv s1).
  { unfold s1. destruct (live (th s (cur s))) eqn:El; simpl; [exact Hi|]. apply inv_wake_joiners; assumption. }
  assert (H2 : inv (wake_timeouts true s1 n1)) by (apply inv_wake_timeouts; exact H1).
  set (s2 := wake_timeouts true s1 n1) in *.
  assert (H3 := inv_dequeue s2 H2).
  destruct (dequeue s2) as [res s3]. simpl in H3.
  assert (H4 := inv_only_waiting s3 res n2 H3).
  destruct (only_waiting s3 res n2) as [res' s4]. simpl in H4. exact H4.
Qed.

Theorem inv_step : forall s o, inv s -> enabled s o = true -> inv (fst (step true s o)).
Proof.
  intros s o Hi He. destruct o; try (apply inv_step_prim; [exact Hi | exact He | intros; discriminate]).
  simpl. apply inv_scheduler. exact Hi.
Qed.

Theorem inv_run : forall ops s s' tr, inv s -> run true s ops = Some (s', tr) -> inv s'.
Proof.
  induction ops as [|o r IH]; simpl; intros s s' tr Hi H.
  - inversion H; subst. exact Hi.
  - destruct (enabled s o) eqn:Ee; [|discriminate].
    destruct (step true s o) as [s1 b] eqn:Es.
    destruct (run true s1 r) as [[s2 tr2]|] eqn:Er; [|discriminate].
    inversion H; subst. eapply IH; [|exact Er].
    assert (K := inv_step s o Hi Ee). rewrite Es in K. exact K.
Qed.
