(** C11 — property theorems over every reachable scheduler state, wake-up theorems, and the
    refutation of the queue invariant for the pinned (unfixed) scheduler. *)
From Coq Require Import ZArith List Bool Arith Lia.
From ChibiV Require Import C11.Model C11.Lists C11.Invariant C11.SchedProofs.
Import ListNotations.

Definition reachable (s : st) : Prop := exists ops tr, run true init ops = Some (s, tr).

Lemma reachable_inv : forall s, reachable s -> inv s.
Proof. intros s [ops [tr H]]. eapply inv_run; [apply inv_init | exact H]. Qed.

(** queues_wellformed: run queue and paused list duplicate free and disjoint, BACK is the last cell
    of FRONT, the running thread is not in the run queue *)
Theorem queues_wellformed_thm : forall s, reachable s ->
  NoDup (front s) /\ NoDup (paused s) /\ (forall t, In t (front s) -> ~ In t (paused s)) /\
  back s = last_opt (front s) /\ ~ In (cur s) (front s).
Proof.
  intros s H. apply reachable_inv in H. destruct H as [[Hf Hp Hd Hb Hw Hs] Hc _ _ _ _]. tauto.
Qed.

(** waiting_is_paused: a live waiting thread is the running one (it has just blocked and will enter
    the scheduler) or sits in the paused list, where every wake-up looks; and conversely *)
Theorem waiting_is_paused_thm : forall s, reachable s ->
  (forall t, waitp (th s t) = true -> live (th s t) = true -> t = cur s \/ In t (paused s)) /\
  (forall t, In t (paused s) -> waitp (th s t) = true).
Proof.
  intros s H. apply reachable_inv in H. destruct H as [[Hf Hp Hd Hb Hw Hs] Hc _ _ Hwp _]. tauto.
Qed.

(** no_thread_lost: every started thread that has not terminated is running, runnable or paused *)
Theorem no_thread_lost_thm : forall s, reachable s ->
  forall t, started s t = true -> live (th s t) = true -> t = cur s \/ In t (front s) \/ In t (paused s).
Proof. intros s H. apply reachable_inv in H. exact (i_alive s H). Qed.

(** the first paused waiter of an event is woken to the FRONT of the run queue *)
Lemma split_first_intro : forall p pre w post, (forall y, In y pre -> p y = false) -> p w = true ->
  split_first p (pre ++ w :: post) = Some (pre, w, post).
Proof.
  induction pre as [|a r IH]; simpl; intros w post Hpre Hw.
  - rewrite Hw. reflexivity.
  - rewrite (Hpre a (or_introl eq_refl)). rewrite IH; [reflexivity | intros y Hy; apply Hpre; right; exact Hy | exact Hw].
Qed.

Lemma wake_front_first : forall s e pre w post,
  paused s = pre ++ w :: post -> event_eqb (ev (th s w)) e = true ->
  (forall y, In y pre -> event_eqb (ev (th s y)) e = false) ->
  exists s', wake_front s e = Some s' /\ front s' = w :: front s /\ paused s' = pre ++ post /\
    waitp (th s' w) = false /\ timeoutp (th s' w) = false /\
    (forall x, x <> w -> th s' x = th s x) /\ mx s' = mx s /\ cur s' = cur s.
Proof.
  intros s e pre w post Ep Hw Hpre. unfold wake_front. rewrite Ep.
  rewrite (split_first_intro (fun y => event_eqb (ev (th s y)) e) pre w post Hpre Hw).
  eexists. split; [reflexivity|]. unf. rewrite upd_same. simpl. repeat split; try reflexivity.
  intros x Hx. apply upd_other. exact Hx.
Qed.

Lemma event_eqb_refl : forall e, event_eqb e e = true.
Proof. destruct e; simpl; try reflexivity; apply Nat.eqb_refl. Qed.

Lemma event_eqb_eq : forall a b, event_eqb a b = true -> a = b.
Proof. destruct a, b; simpl; intros H; try discriminate; try reflexivity; apply Nat.eqb_eq in H; congruence. Qed.

(** unlock_wakes_one_waiter *)
Theorem unlock_wakes_one_waiter_thm : forall s m pre w post,
  locked (mx s m) = true -> paused s = pre ++ w :: post -> ev (th s w) = EMutex m ->
  (forall y, In y pre -> ev (th s y) <> EMutex m) ->
  let s' := fst (mutex_unlock s m None TNone (0%Z, 0%Z)) in
  front s' = w :: front s /\ paused s' = pre ++ post /\ waitp (th s' w) = false /\
  timeoutp (th s' w) = false /\ locked (mx s' m) = false /\ (forall x, x <> w -> th s' x = th s x).
Proof.
  intros s m pre w post Hl Ep Hw Hpre. unfold mutex_unlock. rewrite Hl. simpl.
  set (s0 := with_mx s (upd (mx s) m {| locked := false; owner := Some (cur s) |})).
  destruct (wake_front_first s0 (EMutex m) pre w post) as [s' [E [F1 [F2 [F3 [F4 [F5 [F6 F7]]]]]]]].
  - exact Ep.
  - unfold s0; unf. rewrite Hw. apply event_eqb_refl.
  - intros y Hy. unfold s0; unf. destruct (event_eqb (ev (th s y)) (EMutex m)) eqn:E; [|reflexivity].
    apply event_eqb_eq in E. exfalso. exact (Hpre y Hy E).
  - rewrite E. repeat split; try assumption. rewrite F6. unfold s0; unf. rewrite upd_same. reflexivity.
Qed.

(** signal_wakes_one_waiter *)
Theorem signal_wakes_one_waiter_thm : forall s c pre w post,
  paused s = pre ++ w :: post -> ev (th s w) = ECond c ->
  (forall y, In y pre -> ev (th s y) <> ECond c) ->
  let r := condvar_signal s c in
  snd r = true /\ front (fst r) = w :: front s /\ paused (fst r) = pre ++ post /\
  waitp (th (fst r) w) = false /\ timeoutp (th (fst r) w) = false /\ (forall x, x <> w -> th (fst r) x = th s x).
Proof.
  intros s c pre w post Ep Hw Hpre. unfold condvar_signal.
  destruct (wake_front_first s (ECond c) pre w post) as [s' [E [F1 [F2 [F3 [F4 [F5 [F6 F7]]]]]]]].
  - exact Ep.
  - rewrite Hw. apply event_eqb_refl.
  - intros y Hy. destruct (event_eqb (ev (th s y)) (ECond c)) eqn:E; [|reflexivity].
    apply event_eqb_eq in E. exfalso. exact (Hpre y Hy E).
  - rewrite E. simpl. tauto.
Qed.

(** signal with no waiter changes nothing (no spurious wake-up, no lost state) *)
Theorem signal_without_waiter_thm : forall s c, (forall y, In y (paused s) -> ev (th s y) <> ECond c) ->
  condvar_signal s c = (s, false).
Proof.
  intros s c H. unfold condvar_signal, wake_front.
  destruct (split_first (fun y => event_eqb (ev (th s y)) (ECond c)) (paused s)) as [[[pre w] post]|] eqn:E; [|reflexivity].
  apply split_first_some in E. destruct E as [E1 [E2 _]]. apply event_eqb_eq in E2.
  exfalso. apply (H w); [rewrite E1; apply in_or_app; right; left; reflexivity | exact E2].
Qed.

(** terminate_wakes_joiners: when a terminated thread enters the scheduler every thread joining it
    leaves the paused list *)
Lemma wake1_paused : forall b X a, paused (fold_left (wake1 b) X a) = paused a.
Proof.
  induction X as [|y X IH]; simpl; intros a; [reflexivity|]. rewrite IH. unfold wake1.
  destruct (enqueue_frame (upd_th a y (set_flags (th a y) false b)) y) as [_ [F2 _]]. rewrite F2. reflexivity.
Qed.

Theorem terminate_wakes_joiners_thm : forall s t, In t (paused (wake_joiners s)) ->
  ev (th s t) <> EThread (cur s) /\ In t (paused s).
Proof.
  intros s t H. unfold wake_joiners in H.
  change (fun a y => enqueue (upd_th a y (set_flags (th a y) false false)) y) with (wake1 false) in H.
  rewrite wake1_paused in H. unf. apply filter_In in H. destruct H as [H1 H2]. split; [|exact H1].
  intros K. rewrite K in H2. rewrite event_eqb_refl in H2. discriminate.
Qed.

(** the pinned scheduler (without fixes/C11-timeout-while-current.patch) violates the queue invariant:
    (thread-start! t1) (thread-sleep! 0) then the scheduler call of the yield — main is queued twice *)
Definition pinned_witness : list op :=
  [OStart 1%nat; OSleep false (TRel 0 0) (1000%Z, 1%Z); OSched (1000%Z, 2%Z) (0%Z, 0%Z)].

Theorem queues_wellformed_pinned_refuted_thm :
  exists s tr, run false init pinned_witness = Some (s, tr) /\ front s = [O; O] /\ ~ NoDup (front s).
Proof.
  destruct (run false init pinned_witness) as [[s tr]|] eqn:E; [|vm_compute in E; discriminate].
  exists s, tr. split; [reflexivity|].
  assert (Hf : front s = [O; O]) by (vm_compute in E; inversion E; reflexivity).
  split; [exact Hf|]. rewrite Hf. intros K. inversion K as [|a b Hn _]; subst. apply Hn. left. reflexivity.
Qed.

(* the same operations on the repaired scheduler *)
Example fixed_witness_ok : exists s tr, run true init pinned_witness = Some (s, tr) /\ front s = [O] /\ cur s = 1%nat.
Proof.
  destruct (run true init pinned_witness) as [[s tr]|] eqn:E; [|vm_compute in E; discriminate].
  exists s, tr. split; [reflexivity|]. vm_compute in E. inversion E. split; reflexivity.
Qed.

(* non-vacuity: a reachable state with a paused mutex waiter, and the unlock that wakes it *)
Definition demo_ops : list op :=
  [OStart 1%nat; OLock O TNone (0%Z, 0%Z) (Some O); OSched (0%Z, 0%Z) (0%Z, 0%Z);
   OLock O TNone (0%Z, 0%Z) (Some 1%nat); OSched (0%Z, 0%Z) (0%Z, 0%Z)].
Example demo_reachable : exists s tr, run true init demo_ops = Some (s, tr) /\ paused s = [1%nat] /\ cur s = O /\
  ev (th s 1%nat) = EMutex O /\ locked (mx s O) = true.
Proof.
  destruct (run true init demo_ops) as [[s tr]|] eqn:E; [|vm_compute in E; discriminate].
  exists s, tr. split; [reflexivity|]. vm_compute in E. inversion E. repeat split; reflexivity.
Qed.
