(** C11 — list lemmas used by the scheduler proofs. *)
From Coq Require Import ZArith List Bool Arith Lia.
From ChibiV Require Import C11.Model.
Import ListNotations.

Lemma memb_In : forall x l, memb x l = true <-> In x l.
Proof.
  unfold memb. intros x l. rewrite existsb_exists. split.
  - intros [y [Hy He]]. apply Nat.eqb_eq in He. subst. exact Hy.
  - intros H. exists x. split; [exact H | apply Nat.eqb_refl].
Qed.

Lemma memb_false : forall x l, memb x l = false <-> ~ In x l.
Proof.
  intros x l. rewrite <- memb_In. destruct (memb x l); split; intros H.
  - discriminate.
  - exfalso. apply H. reflexivity.
  - intros K. discriminate.
  - reflexivity.
Qed.

Lemma remove1_In : forall t l x, In x (remove1 t l) -> In x l.
Proof.
  induction l as [|y r IH]; simpl; intros x H; [exact H|].
  destruct (Nat.eqb y t); [right; exact H|].
  destruct H as [H|H]; [left; exact H | right; apply IH; exact H].
Qed.

Lemma remove1_In_neq : forall t l x, In x l -> x <> t -> In x (remove1 t l).
Proof.
  induction l as [|y r IH]; simpl; intros x H Hn; [exact H|].
  destruct (Nat.eqb_spec y t) as [E|E].
  - destruct H as [H|H]; [subst; congruence | exact H].
  - destruct H as [H|H]; [left; exact H | right; apply IH; assumption].
Qed.

Lemma remove1_NoDup : forall t l, NoDup l -> NoDup (remove1 t l).
Proof.
  induction l as [|y r IH]; simpl; intros H; [exact H|].
  inversion H as [|a b Hn Hr]; subst.
  destruct (Nat.eqb y t); [exact Hr|].
  constructor; [intros K; apply Hn; eapply remove1_In; exact K | apply IH; exact Hr].
Qed.

Lemma remove1_notin : forall t l, NoDup l -> ~ In t (remove1 t l).
Proof.
  induction l as [|y r IH]; simpl; intros H; [tauto|].
  inversion H as [|a b Hn Hr]; subst.
  destruct (Nat.eqb_spec y t) as [E|E]; [subst; exact Hn|].
  intros [K|K]; [congruence | apply IH; assumption].
Qed.

Lemma remove1_id : forall t l, ~ In t l -> remove1 t l = l.
Proof.
  induction l as [|y r IH]; simpl; intros H; [reflexivity|].
  destruct (Nat.eqb_spec y t) as [E|E]; [exfalso; apply H; left; exact E|].
  f_equal. apply IH. tauto.
Qed.

Lemma insert_when_In : forall p t l x, In x (insert_when p t l) <-> x = t \/ In x l.
Proof.
  induction l as [|y r IH]; simpl; intros x.
  - intuition.
  - destruct (p y); simpl; [rewrite IH|]; intuition.
Qed.

Lemma insert_when_NoDup : forall p t l, NoDup l -> ~ In t l -> NoDup (insert_when p t l).
Proof.
  induction l as [|y r IH]; simpl; intros H Hn.
  - constructor; [tauto | constructor].
  - inversion H as [|a b Hy Hr]; subst. destruct (p y).
    + constructor; [rewrite insert_when_In; intuition | apply IH; tauto].
    + constructor; [simpl; tauto | exact H].
Qed.

Lemma split_first_some : forall p l pre w post, split_first p l = Some (pre, w, post) ->
  l = pre ++ w :: post /\ p w = true /\ (forall y, In y pre -> p y = false).
Proof.
  induction l as [|y r IH]; simpl; intros pre w post H; [discriminate|].
  destruct (p y) eqn:Hp.
  - inversion H; subst. simpl. repeat split; [exact Hp | tauto].
  - destruct (split_first p r) as [[[a b] c]|] eqn:Hs; [|discriminate].
    inversion H; subst. destruct (IH a w post eq_refl) as [E [Hw Ha]].
    subst r. simpl. repeat split; [exact Hw|].
    intros z [Hz|Hz]; [subst; exact Hp | apply Ha; exact Hz].
Qed.

Lemma split_first_none : forall p l, split_first p l = None -> forall y, In y l -> p y = false.
Proof.
  induction l as [|y r IH]; simpl; intros H z Hz; [tauto|].
  destruct (p y) eqn:Hp; [discriminate|].
  destruct (split_first p r) as [[[a b] c]|] eqn:Hs; [discriminate|].
  destruct Hz as [Hz|Hz]; [subst; exact Hp | apply IH; [reflexivity | exact Hz]].
Qed.

Lemma split_first_exists : forall p l y, In y l -> p y = true -> exists pre w post, split_first p l = Some (pre, w, post).
Proof.
  intros p l y Hy Hp. destruct (split_first p l) as [[[a b] c]|] eqn:Hs.
  - exists a, b, c. reflexivity.
  - rewrite (split_first_none p l Hs y Hy) in Hp. discriminate.
Qed.

Lemma last_opt_nil_iff : forall l, last_opt l = None <-> l = [].
Proof.
  induction l as [|x r IH]; simpl; [tauto|].
  destruct r as [|y r']; [split; discriminate|].
  split; [|discriminate]. intros H. apply IH in H. discriminate.
Qed.

Lemma last_opt_app1 : forall l x, last_opt (l ++ [x]) = Some x.
Proof.
  induction l as [|y r IH]; simpl; intros x; [reflexivity|].
  destruct (r ++ [x]) eqn:E; [destruct r; discriminate|].
  rewrite <- E. apply IH.
Qed.

Lemma last_opt_app : forall l l', l' <> [] -> last_opt (l ++ l') = last_opt l'.
Proof.
  induction l as [|y r IH]; simpl; intros l' H; [reflexivity|].
  destruct (r ++ l') eqn:E.
  - destruct r; simpl in E; [subst; congruence | discriminate].
  - rewrite <- E. apply IH. exact H.
Qed.

Lemma last_opt_cons : forall x l, l <> [] -> last_opt (x :: l) = last_opt l.
Proof. intros x l H. destruct l; [congruence | reflexivity]. Qed.

Lemma last_opt_In : forall l x, last_opt l = Some x -> In x l.
Proof.
  induction l as [|y r IH]; simpl; intros x H; [discriminate|].
  destruct r as [|z r']; [inversion H; left; reflexivity|].
  right. apply IH. exact H.
Qed.

Lemma span_before_spec : forall thf now l a b, span_before thf now l = (a, b) ->
  l = a ++ b /\ (forall y, In y a -> before (thf y) (fst now) (snd now) = true).
Proof.
  induction l as [|y r IH]; simpl; intros a b H.
  - inversion H; subst. split; [reflexivity | simpl; tauto].
  - destruct (before (thf y) (fst now) (snd now)) eqn:Hb.
    + destruct (span_before thf now r) as [a' b'] eqn:Hs. inversion H; subst.
      destruct (IH a' b eq_refl) as [E Ha]. subst r. split; [reflexivity|].
      intros z [Hz|Hz]; [subst; exact Hb | apply Ha; exact Hz].
    + inversion H; subst. split; [reflexivity | simpl; tauto].
Qed.

Lemma NoDup_app_inv : forall (a b : list tid), NoDup (a ++ b) ->
  NoDup a /\ NoDup b /\ (forall x, In x a -> ~ In x b).
Proof.
  induction a as [|x r IH]; simpl; intros b H.
  - repeat split; [constructor | exact H | tauto].
  - inversion H as [|p q Hn Hr]; subst. destruct (IH b Hr) as [Ha [Hb Hd]].
    repeat split.
    + constructor; [intros K; apply Hn; apply in_or_app; left; exact K | exact Ha].
    + exact Hb.
    + intros z [Hz|Hz]; [subst; intros K; apply Hn; apply in_or_app; right; exact K | apply Hd; exact Hz].
Qed.

Lemma NoDup_app_intro : forall (a b : list tid), NoDup a -> NoDup b -> (forall x, In x a -> ~ In x b) -> NoDup (a ++ b).
Proof.
  induction a as [|x r IH]; simpl; intros b Ha Hb Hd; [exact Hb|].
  inversion Ha as [|p q Hn Hr]; subst. constructor.
  - rewrite in_app_iff. intros [K|K]; [tauto | eapply Hd; [left; reflexivity | exact K]].
  - apply IH; [exact Hr | exact Hb | intros z Hz; apply Hd; right; exact Hz].
Qed.

Lemma NoDup_remove_mid : forall (a : list tid) w b, NoDup (a ++ w :: b) -> NoDup (a ++ b) /\ ~ In w (a ++ b).
Proof.
  intros a w b H. split; [eapply NoDup_remove_1; exact H | eapply NoDup_remove_2; exact H].
Qed.
