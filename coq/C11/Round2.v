(** C11 round 2 — broadcast wakes every waiter, joiners of an ended thread are all made runnable,
    round-robin fairness of the run queue, mutual exclusion over operation sequences. *)
From Coq Require Import ZArith List Bool Arith Lia.
From ChibiV Require Import C11.Model C11.Lists C11.Invariant C11.SchedProofs C11.Theorems.
Import ListNotations.

(** * condition-variable-broadcast! *)

Definition waits_on (s : st) (e : event) (y : tid) : bool := event_eqb (ev (th s y)) e.

Lemma filter_all_true : forall (p : tid -> bool) l, (forall y, In y l -> p y = true) -> filter p l = l.
Proof.
  induction l as [|y r IH]; simpl; intros H; [reflexivity|].
  rewrite (H y (or_introl eq_refl)). f_equal. apply IH. intros z Hz. apply H. right. exact Hz.
Qed.

Lemma filter_ext_in_bool : forall (p q : tid -> bool) l, (forall y, In y l -> p y = q y) -> filter p l = filter q l.
Proof.
  induction l as [|y r IH]; simpl; intros H; [reflexivity|].
  rewrite (H y (or_introl eq_refl)). rewrite IH; [reflexivity|]. intros z Hz. apply H. right. exact Hz.
Qed.

(* SPEC of broadcast: the paused list loses exactly the waiters of c (order of the others kept), every
   waiter of c is in the run queue with waitp = timeoutp = false, run queue members stay, nobody's awaited
   event changes, threads that were not waiting stay so *)
Lemma broadcast_loop_spec : forall fuel s c r, (length (paused s) <= fuel)%nat ->
  let s' := fst (broadcast_loop fuel s c r) in
  paused s' = filter (fun y => negb (waits_on s (ECond c) y)) (paused s) /\
  (forall t, In t (paused s) -> waits_on s (ECond c) t = true ->
     In t (front s') /\ waitp (th s' t) = false /\ timeoutp (th s' t) = false) /\
  (forall x, In x (front s) -> In x (front s')) /\
  (forall x, ev (th s' x) = ev (th s x)) /\
  (forall x, waitp (th s x) = false -> timeoutp (th s x) = false ->
     waitp (th s' x) = false /\ timeoutp (th s' x) = false) /\
  (forall x, waits_on s (ECond c) x = false -> th s' x = th s x) /\
  cur s' = cur s /\ mx s' = mx s.
Proof.
  induction fuel as [|f IH]; intros s c r Hlen.
  - destruct (paused s) as [|y l] eqn:Ep; [|simpl in Hlen; lia].
    simpl. rewrite Ep. simpl. split; [reflexivity | split; [intros t [] | repeat split; tauto]].
  - simpl. destruct (wake_front s (ECond c)) as [s1|] eqn:E.
    + destruct (wake_front_shape s _ s1 E) as [pre [w [post [Ep [Hw [Hpre [P1 [F1 [_ [C1 [_ [M1 T1]]]]]]]]]]]].
      assert (Hev : forall x, ev (th s1 x) = ev (th s x)).
      { intros x. rewrite T1. unfold upd. destruct (Nat.eqb_spec x w); [subst; reflexivity | reflexivity]. }
      assert (Hwo : forall x, waits_on s1 (ECond c) x = waits_on s (ECond c) x).
      { intros x. unfold waits_on. rewrite Hev. reflexivity. }
      assert (Hlen1 : (length (paused s1) <= f)%nat).
      { rewrite P1. rewrite Ep in Hlen. rewrite app_length in *. simpl in Hlen. lia. }
      specialize (IH s1 c true Hlen1). cbv zeta in IH.
      destruct IH as [I1 [I2 [I3 [I4 [I5 [I6 [I7 I8]]]]]]].
      set (s' := fst (broadcast_loop f s1 c true)) in *.
      assert (Hwf : waitp (th s1 w) = false /\ timeoutp (th s1 w) = false).
      { rewrite T1. rewrite upd_same. simpl. tauto. }
      split; [|split; [|split; [|split; [|split; [|split; [|split]]]]]].
      * rewrite I1, P1, Ep. rewrite !filter_app. simpl.
        change (event_eqb (ev (th s w)) (ECond c)) with (waits_on s (ECond c) w) in Hw.
        rewrite Hw. simpl.
        f_equal; apply filter_ext_in_bool; intros y _; rewrite Hwo; reflexivity.
      * intros t Ht Hwt. destruct (in_dec Nat.eq_dec t (paused s1)) as [K|K].
        -- apply I2; [exact K | rewrite Hwo; exact Hwt].
        -- assert (t = w).
           { rewrite Ep in Ht. rewrite P1 in K. rewrite in_app_iff in Ht, K. simpl in Ht. destruct Ht as [Ht|[Ht|Ht]]; [tauto | congruence | tauto]. }
           subst t. split; [apply I3; rewrite F1; left; reflexivity | apply I5; tauto].
      * intros x Hx. apply I3. rewrite F1. right. exact Hx.
      * intros x. rewrite I4. apply Hev.
      * intros x Hx1 Hx2. apply I5; rewrite T1; unfold upd; destruct (Nat.eqb_spec x w); simpl; tauto.
      * intros x Hx. rewrite I6 by (rewrite Hwo; exact Hx). rewrite T1. apply upd_other.
        intros K. subst x. unfold waits_on in Hx. rewrite Hx in Hw. discriminate.
      * rewrite I7. exact C1.
      * rewrite I8. exact M1.
    + simpl. unfold wake_front in E.
      destruct (split_first (fun y => event_eqb (ev (th s y)) (ECond c)) (paused s)) as [[[a b] d]|] eqn:Hs; [discriminate|].
      pose proof (split_first_none _ _ Hs) as Hn.
      split; [|split; [|repeat split; tauto]].
      * symmetry. apply filter_all_true. intros y Hy. unfold waits_on. rewrite (Hn y Hy). reflexivity.
      * intros t Ht Hwt. exfalso. unfold waits_on in Hwt. rewrite (Hn t Ht) in Hwt. discriminate.
Qed.

Theorem broadcast_wakes_all_thm : forall s c,
  let s' := fst (condvar_broadcast s c) in
  (forall t, In t (paused s) -> ev (th s t) = ECond c ->
     In t (front s') /\ ~ In t (paused s') /\ waitp (th s' t) = false /\ timeoutp (th s' t) = false) /\
  paused s' = filter (fun y => negb (event_eqb (ev (th s y)) (ECond c))) (paused s) /\
  (forall x, In x (front s) -> In x (front s')) /\
  (forall x, ev (th s x) <> ECond c -> th s' x = th s x) /\
  cur s' = cur s /\ mx s' = mx s.
Proof.
  intros s c. unfold condvar_broadcast.
  destruct (broadcast_loop_spec (length (paused s)) s c false (le_n _)) as [I1 [I2 [I3 [I4 [I5 [I6 [I7 I8]]]]]]].
  cbv zeta. split; [|split; [exact I1 | split; [exact I3 | split; [|split; assumption]]]].
  - intros t Ht He. assert (Hw : waits_on s (ECond c) t = true) by (unfold waits_on; rewrite He; apply event_eqb_refl).
    destruct (I2 t Ht Hw) as [A [B C]]. repeat split; try assumption.
    rewrite I1. intros K. apply filter_In in K. destruct K as [_ K]. rewrite Hw in K. discriminate.
  - intros x Hx. apply I6. unfold waits_on. destruct (event_eqb (ev (th s x)) (ECond c)) eqn:E; [|reflexivity].
    apply event_eqb_eq in E. congruence.
Qed.

(* non-vacuity: two threads wait on condvar 0, one sleeps; the broadcast wakes exactly the two *)
Definition bc_ops : list op :=
  [OStart 1%nat; OStart 2%nat; OStart 3%nat;
   OSched (0%Z, 0%Z) (0%Z, 0%Z); OUnlock O (Some O) TNone (0%Z, 0%Z);
   OSched (0%Z, 0%Z) (0%Z, 0%Z); OSleep false (TRel 5 0) (1000%Z, 1%Z);
   OSched (1000%Z, 2%Z) (0%Z, 0%Z); OUnlock O (Some O) TNone (0%Z, 0%Z);
   OSched (1000%Z, 3%Z) (0%Z, 0%Z)].
Example broadcast_demo : exists s tr, run true init bc_ops = Some (s, tr) /\ cur s = O /\
  paused s = [2%nat; 3%nat; 1%nat] /\ paused (fst (condvar_broadcast s O)) = [2%nat] /\
  front (fst (condvar_broadcast s O)) = [1%nat; 3%nat].
Proof.
  destruct (run true init bc_ops) as [[s tr]|] eqn:E; [|vm_compute in E; discriminate].
  exists s, tr. split; [reflexivity|]. vm_compute in E. inversion E. repeat split; reflexivity.
Qed.


(** * round-robin fairness of the run queue *)

(* one scheduler call when nothing is paused and the running thread and the head of the run queue are
   live and not waiting: the head runs, the old running thread goes to the back (threads.c:782-792) *)
Lemma sched_rotate : forall s n1 n2 x rest, paused s = [] -> front s = x :: rest ->
  live (th s (cur s)) = true -> waitp (th s (cur s)) = false -> waitp (th s x) = false ->
  let s' := scheduler true s n1 n2 in
  cur s' = x /\ front s' = rest ++ [cur s] /\ paused s' = [] /\ th s' = th s /\ back s' = Some (cur s).
Proof.
  intros s n1 n2 x rest Hp Hf Hl Hw Hx. unfold scheduler. rewrite Hl. simpl.
  unfold wake_timeouts. rewrite Hp. unfold dequeue. rewrite Hf, Hl, Hw. simpl.
  unfold only_waiting. unf. rewrite Hx. simpl. repeat split; try reflexivity. exact Hp.
Qed.

Definition sched_calls (clocks : list ((Z * Z) * (Z * Z))) (s : st) : st :=
  fold_left (fun a c => scheduler true a (fst c) (snd c)) clocks s.

(* SPEC: a thread at position k of the run queue runs after exactly k+1 scheduler calls, as long as nothing is
   paused (no wake-up pushes a thread in front of it) and the threads involved are live and not waiting *)
Theorem round_robin_fair_thm : forall pre clocks s t post,
  paused s = [] -> front s = pre ++ t :: post -> length clocks = S (length pre) ->
  (forall x, x = cur s \/ In x (front s) -> live (th s x) = true /\ waitp (th s x) = false) ->
  cur (sched_calls clocks s) = t.
Proof.
  induction pre as [|a pre IH]; intros clocks s t post Hp Hf Hlen Hok.
  - destruct clocks as [|c [|c2 cl]]; simpl in Hlen; try lia. unfold sched_calls. simpl.
    simpl in Hf.
    destruct (sched_rotate s (fst c) (snd c) t post Hp Hf) as [E _]; try apply Hok; try (left; reflexivity).
    + right. rewrite Hf. left. reflexivity.
    + exact E.
  - destruct clocks as [|c cl]; simpl in Hlen; [lia|]. unfold sched_calls. simpl. simpl in Hf.
    destruct (sched_rotate s (fst c) (snd c) a (pre ++ t :: post) Hp Hf) as [E1 [E2 [E3 [E4 E5]]]]; try apply Hok; try (left; reflexivity).
    + right. rewrite Hf. left. reflexivity.
    + apply (IH cl _ t (post ++ [cur s])).
      * exact E3.
      * rewrite E2. rewrite <- app_assoc. reflexivity.
      * lia.
      * intros x Hx. rewrite E4. apply Hok. rewrite E1, E2 in Hx. rewrite Hf.
        destruct Hx as [Hx|Hx]; [right; left; congruence|].
        rewrite in_app_iff in Hx. simpl in Hx. destruct Hx as [Hx|[Hx|[]]]; [right; right; exact Hx | left; congruence].
Qed.

Definition rr_ops : list op := [OStart 1%nat; OStart 2%nat; OStart 3%nat].
Example round_robin_demo : exists s tr, run true init rr_ops = Some (s, tr) /\ front s = [1%nat; 2%nat; 3%nat] /\
  cur (sched_calls [((0,0),(0,0)); ((0,0),(0,0)); ((0,0),(0,0))]%Z s) = 3%nat.
Proof.
  destruct (run true init rr_ops) as [[s tr]|] eqn:E; [|vm_compute in E; discriminate].
  exists s, tr. split; [reflexivity|]. vm_compute in E. inversion E. split; reflexivity.
Qed.

(** * mutual exclusion over operation sequences *)

Lemma mx_enqueue : forall s t, mx (enqueue s t) = mx s.
Proof. intros. unfold enqueue. destruct (back s); reflexivity. Qed.

Lemma mx_insert_timed : forall s t tmo now, mx (insert_timed s t tmo now) = mx s.
Proof. intros. apply (insert_timed_frame s t tmo now). Qed.

Lemma mx_fold_wake1 : forall b X a, mx (fold_left (wake1 b) X a) = mx a.
Proof.
  induction X as [|y X IH]; simpl; intros a; [reflexivity|]. rewrite IH. unfold wake1. rewrite mx_enqueue. reflexivity.
Qed.

Lemma mx_wake_joiners : forall s, mx (wake_joiners s) = mx s.
Proof.
  intros s. unfold wake_joiners.
  change (fun a y => enqueue (upd_th a y (set_flags (th a y) false false)) y) with (wake1 false).
  rewrite mx_fold_wake1. reflexivity.
Qed.

Lemma mx_wake_timeouts : forall s now, mx (wake_timeouts true s now) = mx s.
Proof.
  intros s now. unfold wake_timeouts. destruct (paused s) eqn:Ep; [reflexivity|].
  set (s0 := wake_current_timeout s now).
  assert (H0 : mx s0 = mx s).
  { unfold s0, wake_current_timeout. destruct (waitp (th s (cur s)) && before (th s (cur s)) (fst now) (snd now) && memb (cur s) (paused s)); reflexivity. }
  destruct (span_before (th s0) now (paused s0)) as [pre post]. destruct pre; [exact H0 | exact H0].
Qed.

Lemma mx_dequeue : forall s, mx (snd (dequeue s)) = mx s.
Proof.
  intros s. unfold dequeue. destruct (front s) as [|x rest]; [reflexivity|].
  destruct (negb (live (th s (cur s))) || waitp (th s (cur s))); [|reflexivity].
  cbn [snd]. destruct (live (th s (cur s)) && negb (memb (cur s) (paused s))); [|reflexivity].
  rewrite mx_insert_timed. reflexivity.
Qed.

Lemma mx_only_waiting : forall s res now2, mx (snd (only_waiting s res now2)) = mx s.
Proof.
  intros s res now2. unfold only_waiting. destruct (waitp (th s res)); [|reflexivity].
  destruct (paused s) as [|y prest].
  - destruct (nap_usecs (th s res) now2); reflexivity.
  - destruct (before (th s y) (tsec (th s res)) (tusec (th s res))).
    + destruct (negb (memb res prest)).
      * match goal with |- context [nap_usecs ?a ?b] => destruct (nap_usecs a b) end; cbn [snd]; unf; rewrite ?mx_insert_timed; reflexivity.
      * match goal with |- context [nap_usecs ?a ?b] => destruct (nap_usecs a b) end; reflexivity.
    + match goal with |- context [nap_usecs ?a ?b] => destruct (nap_usecs a b) end; reflexivity.
Qed.

Lemma mx_scheduler : forall s n1 n2, mx (scheduler true s n1 n2) = mx s.
Proof.
  intros s n1 n2. unfold scheduler.
  set (s1 := if negb (live (th s (cur s))) then wake_joiners s else s).
  assert (H1 : mx s1 = mx s) by (unfold s1; destruct (negb (live (th s (cur s)))); [apply mx_wake_joiners | reflexivity]).
  set (s2 := wake_timeouts true s1 n1).
  assert (H2 : mx s2 = mx s) by (unfold s2; rewrite mx_wake_timeouts; exact H1).
  pose proof (mx_dequeue s2) as H3. destruct (dequeue s2) as [res s3]. cbn [snd] in H3.
  pose proof (mx_only_waiting s3 res n2) as H4. destruct (only_waiting s3 res n2) as [res' s4]. cbn [snd] in H4.
  unf. congruence.
Qed.

Lemma mx_wake_front : forall s e s', wake_front s e = Some s' -> mx s' = mx s.
Proof. intros s e s' H. destruct (wake_front_shape s e s' H) as [pre [w [post [_ [_ [_ [_ [_ [_ [_ [_ [M _]]]]]]]]]]]]. exact M. Qed.

(* ghost: who holds each mutex according to the history of operations *)
Definition holders := mid -> option tid.
Definition held_step (h : holders) (e : tid * op * bool) : holders :=
  match e with
  | (t, OLock m _ _ _, true) => upd h m (Some t)
  | (_, OUnlock m _ _ _, _) => upd h m None
  | _ => h
  end.
Definition held (h : holders) (tr : list (tid * op * bool)) : holders := fold_left held_step tr h.
Definition agrees (s : st) (h : holders) : Prop :=
  forall m, locked (mx s m) = match h m with Some _ => true | None => false end.

Lemma unlock_mx : forall s m cv tmo now x,
  locked (mx (fst (mutex_unlock s m cv tmo now)) x) = if Nat.eqb x m then false else locked (mx s x).
Proof.
  intros s m cv tmo now x. unfold mutex_unlock.
  set (s1 := if locked (mx s m) then _ else s).
  assert (H1 : locked (mx s1 x) = if Nat.eqb x m then false else locked (mx s x)).
  { unfold s1. destruct (locked (mx s m)) eqn:El.
    - set (s0 := with_mx s (upd (mx s) m {| locked := false; owner := Some (cur s) |})).
      assert (H0 : locked (mx s0 x) = if Nat.eqb x m then false else locked (mx s x)).
      { unfold s0; unf. unfold upd. destruct (Nat.eqb x m); reflexivity. }
      destruct (wake_front s0 (EMutex m)) as [s'|] eqn:E; [rewrite (mx_wake_front _ _ _ E)|]; exact H0.
    - destruct (Nat.eqb_spec x m); [subst; exact El | reflexivity]. }
  destruct cv; cbn [fst]; [rewrite mx_insert_timed; unf; exact H1 | exact H1].
Qed.

Lemma agrees_step : forall s o h, agrees s h ->
  agrees (fst (step true s o)) (held_step h (cur s, o, snd (step true s o))).
Proof.
  intros s o h Ha m. destruct o; cbn [step fst snd held_step].
  - unfold thread_start. rewrite mx_enqueue. apply Ha.
  - unfold thread_terminate. cbn [fst].
    destruct (live (th s (cur s))); destruct (memb t _); rewrite ?mx_enqueue; apply Ha.
  - unfold thread_join. destruct (negb (live (th s t))); cbn [fst]; [|rewrite mx_insert_timed]; apply Ha.
  - unfold thread_sleep. destruct forever; cbn [fst]; [|rewrite mx_insert_timed]; apply Ha.
  - unfold mutex_lock. destruct (negb (locked (mx s m0))) eqn:El; cbn [fst snd].
    + unf. unfold upd. destruct (Nat.eqb m m0); [reflexivity | apply Ha].
    + rewrite mx_insert_timed. apply Ha.
  - rewrite unlock_mx. unfold upd. destruct (Nat.eqb m m0); [reflexivity | apply Ha].
  - unfold condvar_signal. destruct (wake_front s (ECond c)) as [s'|] eqn:E; cbn [fst]; [rewrite (mx_wake_front _ _ _ E)|]; apply Ha.
  - destruct (broadcast_wakes_all_thm s c) as [_ [_ [_ [_ [_ M]]]]]. cbv zeta in M. rewrite M. apply Ha.
  - unf. apply Ha.
  - rewrite mx_scheduler. apply Ha.
Qed.

(* SPEC (mutual exclusion): along every operation sequence the lock flag of each mutex says exactly whether the
   history has a holder for it, and a lock request is granted only when the history has no holder: between a
   granted mutex-lock! and the next mutex-unlock! of that mutex no other lock of it is granted *)
Theorem mutex_exclusion_gen : forall ops s h s' tr, agrees s h -> run true s ops = Some (s', tr) ->
  agrees s' (held h tr) /\
  forall tr1 t m tmo now o tr2, tr = tr1 ++ (t, OLock m tmo now o, true) :: tr2 -> held h tr1 m = None.
Proof.
  induction ops as [|o ops IH]; intros s h s' tr Ha Hr; simpl in Hr.
  - inversion Hr; subst. split; [exact Ha|]. intros tr1 t m tmo now o tr2 E. destruct tr1; discriminate.
  - destruct (enabled s o); [|discriminate].
    destruct (step true s o) as [s1 b] eqn:Es.
    destruct (run true s1 ops) as [[s2 tr']|] eqn:Er; [|discriminate]. inversion Hr; subst s' tr; clear Hr.
    pose proof (agrees_step s o h Ha) as Ha1. rewrite Es in Ha1. cbn [fst snd] in Ha1.
    destruct (IH s1 _ s2 tr' Ha1 Er) as [I1 I2]. split; [exact I1|].
    intros tr1 t m tmo now ow tr2 E. destruct tr1 as [|e tr1'].
    + simpl in E. inversion E; subst. simpl.
      unfold step, mutex_lock in Es. destruct (negb (locked (mx s m))) eqn:El; [|inversion Es].
      apply negb_true_iff in El. specialize (Ha m). rewrite El in Ha. destruct (h m); [discriminate | reflexivity].
    + simpl in E. inversion E; subst. simpl. eapply I2. reflexivity.
Qed.

Theorem mutex_exclusion_thm : forall ops s tr, run true init ops = Some (s, tr) ->
  (forall m, locked (mx s m) = true <-> exists t, held (fun _ => None) tr m = Some t) /\
  (forall tr1 t m tmo now o tr2, tr = tr1 ++ (t, OLock m tmo now o, true) :: tr2 ->
     held (fun _ => None) tr1 m = None).
Proof.
  intros ops s tr Hr.
  assert (Ha : agrees init (fun _ => None)) by (intros m; reflexivity).
  destruct (mutex_exclusion_gen ops init _ s tr Ha Hr) as [A B]. split; [|exact B].
  intros m. specialize (A m). destruct (held (fun _ => None) tr m) as [t|]; rewrite A; split; intros H; try discriminate.
  - exists t. reflexivity.
  - reflexivity.
  - destruct H as [t H]. discriminate.
Qed.

(* non-vacuity: thread 0 locks, thread 1 is refused, 0 unlocks, 1 is granted *)
Definition excl_ops : list op :=
  [OStart 1%nat; OLock O TNone (0%Z, 0%Z) (Some O); OSched (0%Z, 0%Z) (0%Z, 0%Z);
   OLock O TNone (0%Z, 0%Z) (Some 1%nat); OSched (0%Z, 0%Z) (0%Z, 0%Z);
   OUnlock O None TNone (0%Z, 0%Z); OSched (0%Z, 0%Z) (0%Z, 0%Z); OLock O TNone (0%Z, 0%Z) (Some 1%nat)].
Example exclusion_demo : exists s tr, run true init excl_ops = Some (s, tr) /\
  held (fun _ => None) tr O = Some 1%nat /\ locked (mx s O) = true.
Proof.
  destruct (run true init excl_ops) as [[s tr]|] eqn:E; [|vm_compute in E; discriminate].
  exists s, tr. split; [reflexivity|]. vm_compute in E. inversion E. split; reflexivity.
Qed.
Lemma fold_wake1_gen : forall b X a, back a = last_opt (front a) ->
  let r := fold_left (wake1 b) X a in
  front r = front a ++ X /\ back r = last_opt (front r) /\ paused r = paused a /\ cur r = cur a /\
  (forall t, In t X -> waitp (th r t) = false /\ timeoutp (th r t) = b) /\
  (forall x, ~ In x X -> th r x = th a x) /\
  (forall x, ev (th r x) = ev (th a x) /\ live (th r x) = live (th a x)).
Proof.
  induction X as [|y X IH]; intros a Hb; cbv zeta; simpl.
  - rewrite app_nil_r. repeat split; tauto.
  - set (a1 := upd_th a y (set_flags (th a y) false b)).
    assert (Hb1 : back a1 = last_opt (front a1)) by exact Hb.
    destruct (enqueue_front a1 y Hb1) as [E1 E2]. destruct (enqueue_frame a1 y) as [F1 [F2 [F3 [F4 F5]]]].
    assert (Hb' : back (wake1 b a y) = last_opt (front (wake1 b a y))).
    { unfold wake1. fold a1. rewrite E1, E2. symmetry. apply last_opt_app1. }
    specialize (IH (wake1 b a y) Hb'). cbv zeta in IH. destruct IH as [I1 [I2 [I3 [I4 [I5 [I6 I7]]]]]].
    assert (Hth : th (wake1 b a y) = upd (th a) y (set_flags (th a y) false b)).
    { unfold wake1. fold a1. rewrite F3. reflexivity. }
    split; [|split; [exact I2 | split; [|split; [|split; [|split]]]]].
    + rewrite I1. unfold wake1. fold a1. rewrite E1. unfold a1; unf. rewrite <- app_assoc. reflexivity.
    + rewrite I3. unfold wake1. fold a1. rewrite F2. reflexivity.
    + rewrite I4. unfold wake1. fold a1. rewrite F1. reflexivity.
    + intros t [Ht|Ht].
      * subst t. destruct (in_dec Nat.eq_dec y X) as [K|K]; [apply I5; exact K|].
        rewrite I6 by exact K. rewrite Hth. rewrite upd_same. simpl. tauto.
      * apply I5. exact Ht.
    + intros x Hx. rewrite I6 by tauto. rewrite Hth. apply upd_other. intros K. apply Hx. left. congruence.
    + intros x. destruct (I7 x) as [J1 J2]. rewrite J1, J2. rewrite Hth. unfold upd.
      destruct (Nat.eqb_spec x y); [subst; simpl; tauto | tauto].
Qed.

(* SPEC: when the running thread has ended, its scheduler call moves exactly the threads joining it, in
   paused-list order, to the back of the run queue; each with waitp = timeoutp = false *)
Theorem join_wakes_all_joiners_thm : forall s, back s = last_opt (front s) ->
  let isj := fun y => event_eqb (ev (th s y)) (EThread (cur s)) in
  let s' := wake_joiners s in
  front s' = front s ++ filter isj (paused s) /\
  paused s' = filter (fun y => negb (isj y)) (paused s) /\
  (forall t, In t (paused s) -> ev (th s t) = EThread (cur s) ->
     In t (front s') /\ ~ In t (paused s') /\ waitp (th s' t) = false /\ timeoutp (th s' t) = false) /\
  (forall x, ev (th s x) <> EThread (cur s) -> th s' x = th s x).
Proof.
  intros s Hb isj s'.
  set (a := with_paused s (filter (fun y => negb (isj y)) (paused s))).
  assert (Heq : s' = fold_left (wake1 false) (filter isj (paused s)) a) by reflexivity.
  rewrite Heq. clear Heq s'.
  assert (Hba : back a = last_opt (front a)) by exact Hb.
  destruct (fold_wake1_gen false (filter isj (paused s)) a Hba) as [I1 [I2 [I3 [I4 [I5 [I6 I7]]]]]].
  split; [exact I1 | split; [exact I3 | split]].
  - intros t Ht He. assert (Hj : isj t = true) by (unfold isj; rewrite He; apply event_eqb_refl).
    assert (Hin : In t (filter isj (paused s))) by (apply filter_In; tauto).
    repeat split.
    + rewrite I1. apply in_or_app. right. exact Hin.
    + rewrite I3. unfold a; unf. intros K. apply filter_In in K. rewrite Hj in K. destruct K. discriminate.
    + apply I5. exact Hin.
    + apply I5. exact Hin.
  - intros x Hx. rewrite I6; [reflexivity|]. intros K. apply filter_In in K. destruct K as [_ K].
    unfold isj in K. apply event_eqb_eq in K. congruence.
Qed.

(* %thread-join! of a thread that has ended returns #t at once and changes nothing *)
Theorem join_terminated_returns_thm : forall s t tmo now, live (th s t) = false -> thread_join s t tmo now = (s, true).
Proof. intros s t tmo now H. unfold thread_join. rewrite H. reflexivity. Qed.

(** the rest of the scheduler call keeps a woken joiner runnable *)

Lemma fold_flags_notin : forall (pre : list tid) (f : tid -> thread) t b,
  ~ In t pre -> fold_left (fun f y => upd f y (set_flags (f y) false b)) pre f t = f t.
Proof.
  induction pre as [|y pre IH]; simpl; intros f t b H; [reflexivity|].
  rewrite IH by tauto. apply upd_other. intros K. apply H. left. congruence.
Qed.

Lemma wake_timeouts_keeps_runnable : forall s now t, inv s -> In t (front s) ->
  In t (front (wake_timeouts true s now)) /\ th (wake_timeouts true s now) t = th s t.
Proof.
  intros s now t Hi Ht. unfold wake_timeouts. destruct (paused s) as [|p0 pr] eqn:Ep; [tauto|]. clear Ep p0 pr.
  assert (Htc : t <> cur s) by (intros K; subst; exact (i_cnf s Hi Ht)).
  assert (Htp : ~ In t (paused s)) by (apply (q_disj s (i_q s Hi)); exact Ht).
  set (s0 := wake_current_timeout s now).
  assert (H0 : front s0 = front s /\ back s0 = back s /\ th s0 t = th s t /\ (forall x, In x (paused s0) -> In x (paused s))).
  { unfold s0, wake_current_timeout.
    destruct (waitp (th s (cur s)) && before (th s (cur s)) (fst now) (snd now) && memb (cur s) (paused s)); unf.
    - repeat split; try reflexivity; [apply upd_other; exact Htc | intros x Hx; eapply remove1_In; exact Hx].
    - tauto. }
  destruct H0 as [A1 [A2 [A3 A4]]].
  destruct (span_before (th s0) now (paused s0)) as [pre post] eqn:Esp.
  destruct (span_before_spec _ _ _ _ _ Esp) as [Epp _].
  destruct pre as [|y pre']; [rewrite A1, A3; tauto|].
  assert (Hnp : ~ In t (y :: pre')).
  { intros K. apply Htp. apply A4. rewrite Epp. apply in_or_app. left. exact K. }
  unf. split.
  - rewrite A2. rewrite (q_back s (i_q s Hi)). destruct (last_opt (front s)) eqn:El.
    + rewrite A1. apply in_or_app. left. exact Ht.
    + apply last_opt_nil_iff in El. rewrite El in Ht. destruct Ht.
  - rewrite <- A3. apply (fold_flags_notin (y :: pre') (th s0) t true Hnp).
Qed.

Lemma dequeue_keeps_runnable : forall s t, In t (front s) ->
  (t = fst (dequeue s) \/ In t (front (snd (dequeue s)))) /\ waitp (th (snd (dequeue s)) t) = waitp (th s t).
Proof.
  intros s t Ht. unfold dequeue. destruct (front s) as [|x rest] eqn:Ef; [destruct Ht|].
  destruct (negb (live (th s (cur s))) || waitp (th s (cur s))); cbn [fst snd].
  - set (s1 := with_queue s rest (match rest with [] => None | _ :: _ => back s end)).
    assert (H1 : (t = x \/ In t (front s1)) /\ waitp (th s1 t) = waitp (th s t)).
    { unfold s1; unf. split; [|reflexivity]. destruct Ht as [Ht|Ht]; [left; congruence | right; exact Ht]. }
    destruct (live (th s (cur s)) && negb (memb (cur s) (paused s))); [|exact H1].
    destruct (insert_timed_frame s1 (cur s) TNone (0%Z, 0%Z)) as [_ [E2 _]]. rewrite E2.
    destruct (insert_timed_flags s1 (cur s) TNone (0%Z, 0%Z) t) as [F1 _]. rewrite F1. exact H1.
  - unf. split; [|reflexivity]. destruct Ht as [Ht|Ht]; [left; congruence | right; apply in_or_app; left; exact Ht].
Qed.

Lemma only_waiting_keeps_runnable : forall s res now2 t,
  (t = res \/ In t (front s)) -> waitp (th s t) = false -> ~ In t (paused s) ->
  (t = fst (only_waiting s res now2) \/ In t (front (snd (only_waiting s res now2)))) /\
  waitp (th (snd (only_waiting s res now2)) t) = false.
Proof.
  intros s res now2 t Ht Hw Hp. unfold only_waiting. destruct (waitp (th s res)) eqn:Er; [|cbn [fst snd]; tauto].
  assert (Htr : t <> res) by (intros K; subst; congruence).
  assert (Htf : In t (front s)) by (destruct Ht; [congruence | assumption]).
  assert (Hfin : forall s1 res', front s1 = front s -> waitp (th s1 t) = false -> t <> res' ->
            (t = fst (match nap_usecs (th s1 res') now2 with Some _ => (res', s1) | None => (res', upd_th s1 res' (set_flags (th s1 res') false true)) end) \/
             In t (front (snd (match nap_usecs (th s1 res') now2 with Some _ => (res', s1) | None => (res', upd_th s1 res' (set_flags (th s1 res') false true)) end)))) /\
            waitp (th (snd (match nap_usecs (th s1 res') now2 with Some _ => (res', s1) | None => (res', upd_th s1 res' (set_flags (th s1 res') false true)) end)) t) = false).
  { intros s1 res' E1 E2 E3. destruct (nap_usecs (th s1 res') now2); cbn [fst snd]; unf.
    - rewrite E1. tauto.
    - rewrite E1. rewrite upd_other by exact E3. tauto. }
  destruct (paused s) as [|y prest] eqn:Ep.
  - apply Hfin; [reflexivity | exact Hw | exact Htr].
  - assert (Hty : t <> y) by (intros K; subst; apply Hp; left; reflexivity).
    destruct (before (th s y) (tsec (th s res)) (tusec (th s res))).
    + destruct (negb (memb res prest)).
      * apply Hfin; [| | exact Hty].
        -- apply (insert_timed_frame (with_paused s prest) res TSelf (0%Z, 0%Z)).
        -- destruct (insert_timed_flags (with_paused s prest) res TSelf (0%Z, 0%Z) t) as [F1 _]. rewrite F1. exact Hw.
      * apply Hfin; [reflexivity | exact Hw | exact Hty].
    + apply Hfin; [reflexivity | exact Hw | exact Htr].
Qed.

(* SPEC (no lost wake-up for join): in any invariant state, when the running thread has ended, after its
   scheduler call every thread that was paused joining it is the running thread or in the run queue, and it
   is not waiting any more *)
Theorem joiner_runnable_after_exit_thm : forall s n1 n2 t, inv s -> live (th s (cur s)) = false ->
  In t (paused s) -> ev (th s t) = EThread (cur s) ->
  let s' := scheduler true s n1 n2 in
  (t = cur s' \/ In t (front s')) /\ waitp (th s' t) = false.
Proof.
  intros s n1 n2 t Hi Hl Ht He. unfold scheduler. rewrite Hl. cbn [negb].
  destruct (inv_wake_joiners s Hi Hl) as [Hi1 Hc1].
  destruct (join_wakes_all_joiners_thm s (q_back s (i_q s Hi))) as [_ [_ [J _]]].
  destruct (J t Ht He) as [J1 [J2 [J3 J4]]]. clear J.
  set (s1 := wake_joiners s) in *.
  destruct (wake_timeouts_keeps_runnable s1 n1 t Hi1 J1) as [K1 K2].
  destruct (inv_wake_timeouts s1 n1 Hi1) as [Hi2 Hc2].
  set (s2 := wake_timeouts true s1 n1) in *.
  destruct (dequeue_keeps_runnable s2 t K1) as [D1 D2].
  pose proof (inv_dequeue s2 Hi2) as Hi3.
  destruct (dequeue s2) as [res s3]. cbn [fst snd] in *.
  assert (Hw3 : waitp (th s3 t) = false) by (rewrite D2, K2; exact J3).
  assert (Hp3 : ~ In t (paused s3)).
  { intros K. destruct D1 as [D1|D1].
    - subst res. pose proof (i_q _ Hi3) as Hq. pose proof (q_pw _ Hq t) as Hpw. unf. rewrite (Hpw K) in Hw3. discriminate.
    - pose proof (q_disj _ (i_q _ Hi3) t) as Hd. unf. exact (Hd D1 K). }
  destruct (only_waiting_keeps_runnable s3 res n2 t D1 Hw3 Hp3) as [O1 O2].
  destruct (only_waiting s3 res n2) as [res' s4]. cbn [fst snd] in *. unf. tauto.
Qed.

(* non-vacuity: threads 1 and 2 join thread 3, thread 3 ends: both run again *)
Definition join_ops : list op :=
  [OStart 1%nat; OStart 2%nat; OStart 3%nat;
   OSched (0%Z, 0%Z) (0%Z, 0%Z); OJoin 3%nat TNone (0%Z, 0%Z);
   OSched (0%Z, 0%Z) (0%Z, 0%Z); OJoin 3%nat (TRel 5 0) (1000%Z, 1%Z);
   OSched (1000%Z, 2%Z) (0%Z, 0%Z); OExit].
Example joiners_demo : exists s tr, run true init join_ops = Some (s, tr) /\ cur s = 3%nat /\
  paused s = [2%nat; 1%nat] /\ live (th s 3%nat) = false /\
  front (scheduler true s (1000%Z, 3%Z) (0%Z, 0%Z)) = [2%nat; 1%nat] /\ cur (scheduler true s (1000%Z, 3%Z) (0%Z, 0%Z)) = O.
Proof.
  destruct (run true init join_ops) as [[s tr]|] eqn:E; [|vm_compute in E; discriminate].
  exists s, tr. split; [reflexivity|]. vm_compute in E. inversion E. repeat split; reflexivity.
Qed.
