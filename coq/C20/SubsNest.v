(** C20 -- the table [subs] of submatches: the enclosing submatch recorded for submatch number [k + n]
    is the inherited one or an earlier submatch of the same subtree, hence always has a smaller number. *)
From ChibiV Require Import C20.Re C20.Proofs.

Lemma subs_anc_bound r : forall ci anc rep k n c body a,
  nth_error (subs ci anc rep k r) n = Some (c, body, a) ->
  a = anc \/ (k <= a /\ a < k + n)%nat.
Proof.
  induction r as [| |cs|r1 IH1 r2 IH2|r1 IH1 r2 IH2|g r1 IH1|r1 IH1|g r1 IH1|g m mx r1 IH1|r1 IH1|k0|r1 IH1|r1 IH1];
    intros ci anc rep k n c body a H; cbn [subs] in H;
    try (destruct n; discriminate H);
    try (eapply IH1; exact H).
  - (* Seq *)
    destruct (Nat.lt_ge_cases n (length (subs ci anc rep k r1))) as [Hlt|Hge].
    + rewrite nth_error_app1 in H by exact Hlt. eapply IH1; exact H.
    + rewrite nth_error_app2 in H by exact Hge. rewrite subs_length in *.
      apply IH2 in H. destruct H as [H|H]; [left; exact H|right; lia].
  - (* Alt *)
    destruct (Nat.lt_ge_cases n (length (subs ci anc rep k r1))) as [Hlt|Hge].
    + rewrite nth_error_app1 in H by exact Hlt. eapply IH1; exact H.
    + rewrite nth_error_app2 in H by exact Hge. rewrite subs_length in *.
      apply IH2 in H. destruct H as [H|H]; [left; exact H|right; lia].
  - (* Rep *)
    destruct m as [|m]; [destruct mx as [[|mx]|]|]; try (eapply IH1; exact H).
    destruct n; discriminate H.
  - (* Sub *)
    destruct n as [|n]; cbn [nth_error] in H.
    + injection H as _ _ <-. left. reflexivity.
    + apply IH1 in H. destruct H as [H|H].
      * destruct rep; [left; exact H|right; lia].
      * right. lia.
Qed.

(** in the table used by [check_spans], the enclosing submatch of submatch [n + 1] is the whole match (0) or a
    submatch with a smaller number: the containment checks follow the nesting of the SRE outside-in *)
Theorem subs_enclosing_earlier r n c body a :
  nth_error (subs false 0 false 1 r) n = Some (c, body, a) -> (a <= n)%nat.
Proof. intros H. apply subs_anc_bound in H. lia. Qed.
