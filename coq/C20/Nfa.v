(** C20 — the NFA engine of lib/chibi/regexp.scm, modelled: the state graph that [regexp] / [->rx]
    builds (regexp.scm:804-1066) and the simulation [posse-advance!] / [regexp-advance!] /
    [regexp-run-offsets] (392-519).                                   NO proofs in this file.

    Surface syntax [xsre]: the Scheme-level SRE forms, n-ary forms as right-nested spines exactly
    as [->rx] recurses on them:  (seq a b c) = XSeq a (XSeq b (XSeq c XEps)), (seq) = XEps,
    (or a b) = XAlt a (XAlt b XFail), (or) = XFail; an operator's implicit sequence
    ( "( * a b)" is [->rx (cons 'seq (cdr sre))] ) is the spine held by the operator node.
    [to_sre] gives the denotation in the SPEC syntax of Re.v.

    State ids: the model numbers states by creation order (position in the table); the code's
    [state-id]s are "for debugging" only and never influence matching, so the tie compares the two
    graphs after renumbering both in depth-first order from the start state (props/C20.py).

    Tied to the running code state for state (graph) and step for step (posse after every
    character) by props/C20.py, stage "engine". *)
From ChibiV Require Export C20.Re.
Import ListNotations.
Local Open Scope nat_scope.

(* ------------------------------------------------------------------------------------------ *)
(** * Surface syntax *)

Inductive xsre : Type :=
| XEps                                   (* (seq) / (:) / end of a sequence spine *)
| XFail                                  (* (or) / end of an alternation spine *)
| XChr (cs : cset)                       (* #\c, any, (/ ..), (~ ..), (- ..), (and ..): one char state *)
| XStr (l : list char)                   (* "abc" = (seq #\a #\b #\c) *)
| XSeq (a b : xsre)                      (* (seq a . b) *)
| XAlt (a b : xsre)                      (* (or a . b) *)
| XBar (x : xsre)                        (* the alternation [x] spelled with the alias "|" of "or": the same states, but
                                            non-greedy-sre? (713-720) only knows the spelling "or" *)
| XStar (g : bool) (b : xsre)            (* ( * . b) / ( *? . b) *)
| XPlus (b : xsre)
| XOpt (g : bool) (b : xsre)             (* (? . b) / (?? . b) *)
| XRep (g : bool) (m : nat) (n : option nat) (b : xsre)   (* (= m . b) (>= m . b) ( ** m n . b) ( **? m n . b) *)
| XSub (b : xsre)                        (* ($ . b) *)
| XNamed (b : xsre)                      (* (-> name . b) *)
| XNoCap (b : xsre)                      (* (w/nocapture . b) *)
| XWord (b : xsre)                       (* (word . b) = (: bow . b eow) *)
| XAnc (k : anchor)
| XNoCase (b : xsre)                     (* (w/nocase . b) *)
| XCase (b : xsre).                      (* (w/case . b) *)

(** denotation in the SPEC syntax; [nocap] = ~nocapture? in force *)
Fixpoint to_sre (nocap : bool) (x : xsre) : sre :=
  match x with
  | XEps => Eps
  | XFail => Fail
  | XChr cs => Chr cs
  | XStr l => fold_right (fun c r => Seq (Chr (CsChar c)) r) Eps l
  | XSeq a b => Seq (to_sre nocap a) (to_sre nocap b)
  | XAlt a b => Alt (to_sre nocap a) (to_sre nocap b)
  | XBar x => to_sre nocap x
  | XStar g b => Star g (to_sre nocap b)
  | XPlus b => Plus (to_sre nocap b)
  | XOpt g b => Opt g (to_sre nocap b)
  | XRep g m n b => Rep g m n (to_sre nocap b)
  | XSub b | XNamed b => if nocap then to_sre nocap b else Sub (to_sre nocap b)
  | XNoCap b => to_sre true b
  | XWord b => Seq (Anc Bow) (Seq (to_sre nocap b) (Anc Eow))
  | XAnc k => Anc k
  | XNoCase b => NoCase (to_sre nocap b)
  | XCase b => Case (to_sre nocap b)
  end.

(** char-set-sre? (regexp.scm:701-711): [is_cset] on an element, [elems_cset] on the spine of a
    w/nocase / w/case body ("every char-set-sre? (cdr sre)") *)
Fixpoint is_cset (x : xsre) : bool :=
  match x with
  | XChr _ => true
  | XStr [_] => true
  | XFail => true
  | XAlt a b => is_cset a && is_cset b
  | XBar x => is_cset x
  | XNoCase b | XCase b => elems_cset b
  | _ => false
  end
with elems_cset (x : xsre) : bool :=
  match x with
  | XEps => true
  | XSeq a r => is_cset a && elems_cset r
  | _ => false
  end.

Definition cs_empty : cset := CsAnd CsAny (CsNot CsAny).

(** sre->char-set (regexp.scm:725-770) on the forms for which char-set-sre? holds; the flags are kept
    symbolically ([CsNoCase]/[CsCase] nodes, membership by [cs_mem ci]) *)
Fixpoint cset_of (x : xsre) : cset :=
  match x with
  | XChr cs => cs
  | XStr [c] => CsChar c
  | XAlt a XFail => cset_of a
  | XAlt a b => CsOr (cset_of a) (cset_of b)
  | XBar x => cset_of x
  | XNoCase (XSeq a XEps) => CsNoCase (cset_of a)
  | XCase (XSeq a XEps) => CsCase (cset_of a)
  | _ => cs_empty
  end.

(** non-greedy-sre? (regexp.scm:713-720): the last element of a sequence decides *)
Fixpoint ngs (x : xsre) : bool :=
  match x with
  | XStar g _ | XOpt g _ | XRep g _ _ _ => negb g
  | XSeq a b => match b with XEps => ngs a | _ => ngs b end
  | XNoCase b | XCase b => ngs b
  | XAlt a b => ngs a || ngs b
  | _ => false
  end.

(* ------------------------------------------------------------------------------------------ *)
(** * States (regexp.scm:26-87) *)

Inductive skind : Type :=
| KAccept                                (* accept? = #t *)
| KChar (ci : bool) (cs : cset)          (* chars = a char / char-set (folded by char-set-ci when ~ci?) *)
| KAnchor (k : anchor)                   (* chars = a procedure match/bos .. match/nwb: guarded epsilon *)
| KEps.                                  (* chars = #f: epsilon / fork *)

Inductive rule : Type := RNone | RLeft | RRight | RNgLeft.

Record state : Type := mkState {
  s_kind : skind;
  s_match : option nat;                  (* state-match: slot of the match vector to record *)
  s_rule : rule;                         (* state-match-rule *)
  s_n1 : option nat;                     (* state-next1 *)
  s_n2 : option nat }.                   (* state-next2 *)

Definition eps_state (n1 : option nat) : state := mkState KEps None RNone n1 None.
Definition fork_state (n1 n2 : option nat) : state := mkState KEps None RNone n1 n2.
Definition char_state (ci : bool) (cs : cset) (next : nat) : state := mkState (KChar ci cs) None RNone (Some next) None.
Definition anchor_state (k : anchor) (next : nat) : state := mkState (KAnchor k) None RNone (Some next) None.

(** compile-time state of [regexp]: the states made so far, current-match, non-greedy-indexes *)
Record cenv : Type := mkEnv { e_tb : list state; e_nsub : nat; e_ngi : list nat }.

Definition alloc (st : state) (e : cenv) : nat * cenv :=
  (length (e_tb e), mkEnv (e_tb e ++ [st]) (e_nsub e) (e_ngi e)).

Fixpoint upd {A} (l : list A) (i : nat) (f : A -> A) : list A :=
  match l, i with
  | [], _ => []
  | x :: r, O => f x :: r
  | x :: r, S i' => x :: upd r i' f
  end.

(** state-next1-set! / state-next2-set! *)
Definition patch1 (id : nat) (n : option nat) (e : cenv) : cenv :=
  mkEnv (upd (e_tb e) id (fun s => mkState (s_kind s) (s_match s) (s_rule s) n (s_n2 s))) (e_nsub e) (e_ngi e).
Definition patch2 (id : nat) (n : option nat) (e : cenv) : cenv :=
  mkEnv (upd (e_tb e) id (fun s => mkState (s_kind s) (s_match s) (s_rule s) (s_n1 s) n)) (e_nsub e) (e_ngi e).

(** a string literal: (->rx (cons 'seq (string->list sre)) flags next) *)
Fixpoint compile_chars (l : list char) (ci : bool) (next : nat) (e : cenv) : option nat * cenv :=
  match l with
  | [] => (Some next, e)
  | c :: r =>
      let '(n2, e) := alloc (eps_state None) e in
      let '(n1, e) := alloc (char_state ci (CsChar c) n2) e in
      let '(n3, e) := compile_chars r ci next e in
      (Some n1, patch1 n2 n3 e)
  end.

(** the sequence sre-expand-reps builds (Re.expand_reps), compiled element by element as [->rx] does
    for (seq . elements).  [cb subs] compiles one copy (seq . body) with ([subs] = true) or without its
    submatches: strip-submatches turns ($ . b) into (: . b), which compiles exactly as under ~nocapture?. *)
Fixpoint compile_items (cb : bool -> nat -> cenv -> option nat * cenv) (items : list rep_item)
                       (next : nat) (e : cenv) : option nat * cenv :=
  match items with
  | [] => (Some next, e)
  | it :: rest =>
      let '(n2, e) := alloc (eps_state None) e in
      let '(n1, e) :=
        match it with
        | RCopy s => cb s n2 e
        | ROptc s =>                        (* (? (seq . body)) *)
            let '(m2, e) := alloc (eps_state (Some n2)) e in
            let '(body, e) := cb s m2 e in
            let '(id, e) := alloc (fork_state body (Some n2)) e in
            (Some id, e)
        | RStarc =>                         (* ( * (seq . body)) *)
            let '(k2, e) := alloc (fork_state (Some n2) None) e in
            let '(m2, e) := alloc (eps_state (Some k2)) e in
            let '(body, e) := cb true m2 e in
            let '(k1, e) := alloc (fork_state body (Some k2)) e in
            (Some k1, patch2 k2 (Some k1) e)
        end in
      let '(n3, e) := compile_items cb rest next e in
      (n1, patch1 n2 n3 e)
  end.

Definition end_rule (ng : bool) : rule := if ng then RNgLeft else RRight.

(** ->rx (regexp.scm:825-1023), case by case.  Result: the entry state ([None] = #f, the empty
    alternation).  Submatches are numbered in the order [->rx] reaches them: left to right. *)
Fixpoint compile (x : xsre) (ci nocap : bool) (next : nat) (e : cenv) {struct x} : option nat * cenv :=
  match x with
  | XEps => (Some next, e)                                              (* 873-874 *)
  | XFail => (None, e)                                                  (* 887-888 *)
  | XChr cs => let '(id, e) := alloc (char_state ci cs next) e in (Some id, e)       (* 828-835, 980-981 *)
  | XAnc k => let '(id, e) := alloc (anchor_state k next) e in (Some id, e)          (* 839-845 *)
  | XStr l => compile_chars l ci next e                                 (* 832-833 *)
  | XSeq a b =>                                                         (* 877-881 *)
      let '(n2, e) := alloc (eps_state None) e in
      let '(n1, e) := compile a ci nocap n2 e in
      let '(n3, e) := compile b ci nocap next e in
      (n1, patch1 n2 n3 e)
  | XAlt a b =>                                                         (* 886-896 *)
      if is_cset (XAlt a b) then
        let '(id, e) := alloc (char_state ci (cset_of (XAlt a b)) next) e in (Some id, e)
      else
        match b with
        | XFail => compile a ci nocap next e
        | _ =>
            let '(n1, e) := compile a ci nocap next e in
            let '(n2, e) := compile b ci nocap next e in
            let '(id, e) := alloc (fork_state n1 n2) e in
            (Some id, e)
        end
  | XOpt _ b =>                                                         (* 897-901 *)
      let '(body, e) := compile b ci nocap next e in
      let '(id, e) := alloc (fork_state body (Some next)) e in
      (Some id, e)
  | XStar _ b =>                                                        (* 902-910 *)
      let '(n2, e) := alloc (fork_state (Some next) None) e in
      let '(body, e) := compile b ci nocap n2 e in
      let '(n1, e) := alloc (fork_state body (Some n2)) e in
      (Some n1, patch2 n2 (Some n1) e)
  | XPlus b =>                                                          (* 911-918 *)
      let '(n2, e) := alloc (fork_state (Some next) None) e in
      let '(n1, e) := compile b ci nocap n2 e in
      (n1, patch2 n2 n1 e)
  | XRep _ m n b =>                                                     (* 919-931 via sre-expand-reps *)
      compile_items (fun subs k e => compile b ci (nocap || negb subs) k e) (expand_reps m n) next e
  | XSub b | XNamed b =>                                                (* 932-941, 949-962, 813-824 *)
      if nocap then compile b ci nocap next e
      else
        let idx := 2 * S (e_nsub e) in
        let e := mkEnv (e_tb e) (S (e_nsub e)) (e_ngi e) in
        let '(n3, e) := alloc (mkState KEps (Some (S idx)) (end_rule (ngs b)) (Some next) None) e in
        let '(n2, e) := compile b ci nocap n3 e in
        let '(n1, e) := alloc (mkState KEps (Some idx) RLeft n2 None) e in
        (Some n1, if ngs b then mkEnv (e_tb e) (e_nsub e) (S idx :: e_ngi e) else e)
  | XBar x => compile x ci nocap next e
  | XNoCap b => compile b ci true next e                                (* 1018-1019 *)
  | XNoCase b => compile b true nocap next e                            (* 1012-1013 *)
  | XCase b => compile b false nocap next e                             (* 1010-1011 *)
  | XWord b =>                                                          (* 982-983: (: bow . b eow) *)
      let '(n2e, e) := alloc (eps_state (Some next)) e in
      let '(ne, e) := alloc (anchor_state Eow n2e) e in
      let '(nb, e) := compile b ci nocap ne e in
      let '(n2b, e) := alloc (eps_state nb) e in
      let '(n1, e) := alloc (anchor_state Bow n2b) e in
      (Some n1, e)
  end.

(** the compiled regexp: Rx record (regexp.scm:7-17) *)
Record nfa : Type := mkNfa {
  n_tb : list state;
  n_start : nat;                         (* rx-start-state *)
  n_nsave : nat;                         (* rx-num-save-indexes *)
  n_ngi : list nat }.                    (* rx-non-greedy-indexes *)

(** regexp (1024-1066): the whole SRE is submatch 0, followed by the accept state *)
Definition compile_top (x : xsre) : nfa :=
  let e := mkEnv [] 0 [] in
  let '(acc, e) := alloc (mkState KAccept None RNone None None) e in
  let '(n3, e) := alloc (mkState KEps (Some 1) (end_rule (ngs x)) (Some acc) None) e in
  let '(n2, e) := compile x false false n3 e in
  let '(n1, e) := alloc (mkState KEps (Some 0) RLeft n2 None) e in
  mkNfa (e_tb e) n1 (2 * S (e_nsub e)) (if ngs x then 1 :: e_ngi e else e_ngi e).

(* ------------------------------------------------------------------------------------------ *)
(** * Simulation *)

(** a match vector (Regexp-Match-matches): start0 end0 start1 end1 ..., positions as character indices *)
Definition mvec : Type := list (option nat).
(** a posse: searchers keyed by state (regexp.scm:314-338; a hash table in the code; the model keeps
    insertion order, the tie compares posses as sets) *)
Definition posse : Type := list (nat * mvec).

Definition getm (m : mvec) (k : nat) : option nat := nth k m None.
Definition setm (m : mvec) (k : nat) (v : nat) : mvec := upd m k (fun _ => Some v).

Fixpoint pfind (p : posse) (q : nat) : option mvec :=
  match p with
  | [] => None
  | (q', m) :: r => if q' =? q then Some m else pfind r q
  end.

(** searcher-merge! into the searcher of state [q]: keep the better vector (regexp-match-max) *)
Fixpoint pmerge (ng : list nat) (p : posse) (q : nat) (m : mvec) : posse :=
  match p with
  | [] => []
  | (q', m') :: r => if q' =? q then (q', if match_ge ng 0 m' m then m' else m) :: r
                     else (q', m') :: pmerge ng r q m
  end.

Definition padd (ng : list nat) (p : posse) (q : nat) (m : mvec) : posse :=
  match pfind p q with
  | Some _ => pmerge ng p q m
  | None => p ++ [(q, m)]
  end.

(** posse-advance! 396-414: record the position in the slot the state names; the end slot of a
    non-greedy submatch keeps an older end that lies right of its start *)
Definition update_match (st : state) (m : mvec) (i : nat) : mvec :=
  match s_match st with
  | None => m
  | Some idx =>
      if (match s_rule st with RNgLeft => true | _ => false end) &&
         (match getm m idx, getm m (idx - 1) with Some e, Some b => b <? e | _, _ => false end)
      then m else setm m idx i
  end.

Definition memb (q : nat) (l : list nat) : bool := existsb (Nat.eqb q) l.

Definition opt_list {A} (o : option A) : list A := match o with Some x => [x] | None => [] end.

(** posse-advance! (392-452) as a stack machine: the recursion [advance!] visits next1's whole subtree
    before next2, which is the order of this stack.  [p]/[n] = the characters before / at position [i],
    [atend] = i >= end, [whole] = not searching (an accept only counts at the end), [seen] = the
    "epsilons" posse (only its key set is ever observable: a merge into a seen searcher changes nothing
    that is read later), [new] = the posse being filled, [acc] = regexp-state-accept.
    [None] = out of fuel (never: Theorem adv_fuel_suffices). *)
Fixpoint adv (fuel : nat) (N : nfa) (p n : option char) (i : nat) (atend whole : bool)
             (stk : list (nat * mvec)) (new : posse) (seen : list nat) (acc : option mvec)
  : option (posse * option mvec) :=
  match stk with
  | [] => Some (new, acc)
  | (q, m0) :: stk' =>
    match fuel with
    | O => None
    | S fuel' =>
      match nth_error (n_tb N) q with
      | None => adv fuel' N p n i atend whole stk' new seen acc
      | Some st =>
        let m := update_match st m0 i in
        match s_kind st with
        | KAccept =>                                                     (* 417-425 *)
            let acc' :=
              if (negb whole || atend) &&
                 (match acc with None => true | Some a => match_ge (n_ngi N) 0 m a end)
              then Some m else acc in
            adv fuel' N p n i atend whole stk' new seen acc'
        | KChar _ _ =>                                                   (* 447-452 *)
            adv fuel' N p n i atend whole stk' (padd (n_ngi N) new q m) seen acc
        | KEps | KAnchor _ =>                                            (* 426-445 *)
            if memb q seen then adv fuel' N p n i atend whole stk' new seen acc
            else if (match s_kind st with KAnchor k => anchor_ok k p n | _ => true end) then
              adv fuel' N p n i atend whole
                  (map (fun q' => (q', m)) (opt_list (s_n1 st) ++ opt_list (s_n2 st)) ++ stk')
                  new (q :: seen) acc
            else adv fuel' N p n i atend whole stk' new seen acc
        end
      end
    end
  end.

Definition adv_fuel (N : nfa) : nat := 2 * length (n_tb N) + 2.

Definition prevc (s : list char) (i : nat) : option char :=
  match i with O => None | S j => nth_error s j end.

(** one call of posse-advance! for the searcher [sr] at position [i] of [s] (epsilons cleared before) *)
Definition advance (N : nfa) (s : list char) (i : nat) (whole : bool) (sr : nat * mvec)
                   (new : posse) (acc : option mvec) : option (posse * option mvec) :=
  adv (adv_fuel N) N (prevc s i) (nth_error s i) i (length s <=? i) whole [sr] new [] acc.

(** make-start-searcher *)
Definition start_searcher (N : nfa) : nat * mvec := (n_start N, repeat None (n_nsave N)).

(** regexp-advance! 493-506: every searcher whose state accepts [ch] moves to next1 and is advanced at [i2] *)
Fixpoint step_all (N : nfa) (s : list char) (i2 : nat) (whole : bool) (ch : char)
                  (l : posse) (new : posse) (acc : option mvec) : option (posse * option mvec) :=
  match l with
  | [] => Some (new, acc)
  | (q, m) :: l' =>
      match nth_error (n_tb N) q with
      | Some (mkState (KChar ci cs) _ _ (Some q') _) =>
          if cs_mem ci cs ch then
            match advance N s i2 whole (q', m) new acc with
            | None => None
            | Some (new', acc') => step_all N s i2 whole ch l' new' acc'
            end
          else step_all N s i2 whole ch l' new acc
      | _ => step_all N s i2 whole ch l' new acc
      end
  end.

(** 474-482: an accept exists and every pending searcher started right of it *)
Definition early_exit (s1 : posse) (acc : option mvec) : bool :=
  match acc with
  | Some a =>
      match getm a 0 with
      | Some a0 => forallb (fun sr => match getm (snd sr) 0 with Some b => a0 <? b | None => false end) s1
      | None => false
      end
  | None => false
  end.

Definition is_nil {A} (l : list A) : bool := match l with [] => true | _ => false end.

(** regexp-advance! (456-507) with from = start = 0, end = the end of the string.  [k] = number of
    characters left, [i] = position.  Returns searchers1 and the accept when the loop stops. *)
Fixpoint loop (search : bool) (N : nfa) (s : list char) (k i : nat) (s1 : posse) (acc : option mvec)
  : option (posse * option mvec) :=
  match (if search || (i =? 0) then advance N s i (negb search) (start_searcher N) s1 acc
         else Some (s1, acc)) with
  | None => None
  | Some (s1, acc) =>
      match k with
      | O => Some (s1, acc)
      | S k' =>
          if (search && early_exit s1 acc) || (negb search && is_nil s1) then Some (s1, acc)
          else
            match nth_error s i with
            | None => Some (s1, acc)
            | Some ch =>
                match step_all N s (S i) (negb search) ch s1 [] acc with
                | None => None
                | Some (s2, acc') => loop search N s k' (S i) s2 acc'
                end
            end
      end
  end.

(** the same loop, keeping the snapshot (position, searchers1, accept) at every termination test:
    what the tie compares with the running code step by step *)
Fixpoint loop_tr (search : bool) (N : nfa) (s : list char) (k i : nat) (s1 : posse) (acc : option mvec)
  : option (list (nat * posse * option mvec)) :=
  match (if search || (i =? 0) then advance N s i (negb search) (start_searcher N) s1 acc
         else Some (s1, acc)) with
  | None => None
  | Some (s1, acc) =>
      match k with
      | O => Some [(i, s1, acc)]
      | S k' =>
          if (search && early_exit s1 acc) || (negb search && is_nil s1) then Some [(i, s1, acc)]
          else
            match nth_error s i with
            | None => Some [(i, s1, acc)]
            | Some ch =>
                match step_all N s (S i) (negb search) ch s1 [] acc with
                | None => None
                | Some (s2, acc') => option_map (cons (i, s1, acc)) (loop_tr search N s k' (S i) s2 acc')
                end
            end
      end
  end.

(** regexp-run-offsets (511-519): the accept's vector; when matching the whole string its end must be the end *)
Definition run (search : bool) (N : nfa) (s : list char) : option (option mvec) :=
  match loop search N s (length s) 0 [] None with
  | None => None
  | Some (_, acc) =>
      Some (match acc with
            | Some m =>
                if search || (match getm m 1 with Some e => length s <=? e | None => false end)
                then Some m else None
            | None => None
            end)
  end.

(** regexp-matches? / regexp-search as booleans; out of fuel counts as no match (never happens) *)
Definition run_nfa (search : bool) (N : nfa) (s : list char) : bool :=
  match run search N s with Some (Some _) => true | _ => false end.

(** regexp-match-submatch-start/end for 0..n from the vector: rules (2k . 2k+1) *)
Fixpoint spans_of (m : mvec) : list (option span) :=
  match m with
  | a :: b :: r => (match a, b with Some i, Some j => Some (i, j) | _, _ => None end) :: spans_of r
  | _ => []
  end.

Definition nfa_spans (search : bool) (x : xsre) (s : list char) : option (list (option span)) :=
  match run search (compile_top x) s with
  | Some (Some m) => Some (spans_of m)
  | _ => None
  end.

Definition nfa_matches (x : xsre) (s : list char) : bool := run_nfa false (compile_top x) s.
Definition nfa_search (x : xsre) (s : list char) : bool := run_nfa true (compile_top x) s.
