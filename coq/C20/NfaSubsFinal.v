(** C20 -- the spans the modelled engine reports pass the exact validator: the unconditional theorem. *)
From ChibiV Require Import C20.Re C20.Proofs C20.Nfa C20.NfaSem C20.NfaThompson
                           C20.NfaSubsDefs C20.NfaSubsTfc C20.NfaSubsGraph C20.NfaSubsU C20.NfaSubsUAlg
                           C20.NfaSubsValid C20.NfaSubs C20.NfaSubsMain.
From Coq Require Import List Arith Lia Bool.
Import ListNotations.
Local Open Scope nat_scope.

Lemma FragM_sound_all : FragM_sound_stmt (fun _ => True).
Proof.
  intros T s x _ Hw ci nocap k0 anc rep next entry lo hi Ha HF.
  exact (FragM_sound T s (U_algebra_holds s) subs_flat subs_wfsl x Hw ci nocap k0 anc rep next entry lo hi Ha HF).
Qed.

(** every vector the simulation returns describes valid spans: span 0 in the language of the SRE, one entry per
    submatch, each set submatch span in the language of its body (with the case flag in force, in its context) and
    inside the span of the nearest enclosing submatch that is not under a repetition *)
Theorem run_vector_spans_valid x s b m : wf_x x = true -> run b (compile_top x) s = Some (Some m) ->
  spans_valid (to_sre false x) s (spans_of m).
Proof. intros Hw E. exact (run_vector_valid _ FragM_sound_all x s b m I Hw E). Qed.

(** regexp-matches (b = false) / regexp-search (b = true) *)
Theorem nfa_submatch_spans_valid : forall x s b spans, wf_x x = true ->
  nfa_spans b x s = Some spans -> check_spans (to_sre false x) s spans = true.
Proof. intros x s b spans Hw E. exact (nfa_submatch_spans_valid_from _ FragM_sound_all x s b spans I Hw E). Qed.

(** nested submatches, one of them under a loop, a non-greedy operator, an anchor:
    (: ($ ( * ($ (or #\a "bc")))) (?? #\c) eos) on "xbcac" *)
Definition exf_x : xsre :=
  XSeq (XSub (XSeq (XStar true (XSeq (XSub (XSeq (XAlt (XChr (CsChar 97%N)) (XAlt (XStr [98%N; 99%N]) XFail)) XEps)) XEps)) XEps))
       (XSeq (XOpt false (XSeq (XChr (CsChar 99%N)) XEps)) (XSeq (XAnc Eos) XEps)).
Definition exf_s : list char := [120%N; 98%N; 99%N; 97%N; 99%N].

Example ex_submatch_spans_valid :
  nfa_spans true exf_x exf_s = Some [Some (1, 5); Some (1, 4); Some (3, 4)] /\
  spans_valid (to_sre false exf_x) exf_s [Some (1, 5); Some (1, 4); Some (3, 4)] /\
  forall b s spans, nfa_spans b exf_x s = Some spans -> check_spans (to_sre false exf_x) s spans = true.
Proof.
  assert (E : nfa_spans true exf_x exf_s = Some [Some (1, 5); Some (1, 4); Some (3, 4)]) by (vm_compute; reflexivity).
  split; [exact E|]. split.
  - apply check_spans_sound. exact (nfa_submatch_spans_valid exf_x exf_s true _ eq_refl E).
  - intros b s spans. exact (nfa_submatch_spans_valid exf_x s b spans eq_refl).
Qed.
