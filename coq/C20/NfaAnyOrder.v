(** C20 — the engine theorems for EVERY walking order of the posse.
    [Nfa.loop] walks searchers1 in insertion order; the running code walks a hash table.  [loop_ord] takes
    the order of every step from outside ([NfaOrd.reorder]: the listed searchers first, then the rest;
    ids that are absent, missing or repeated are all allowed) and the theorems of NfaRun.v / NfaMain.v
    are re-proved for it.  No hypothesis on [ords] anywhere in this file.
    Method: one induction principle for the loop ([loop_ord_ind]); every invariant of NfaRun.v is stated on
    membership / keys / [pfind] of the walked list, which [reorder] preserves. *)
From ChibiV Require Import C20.Re C20.Proofs C20.Nfa C20.NfaSem C20.NfaOrd C20.NfaRun C20.NfaThompson.
From Coq Require Import List Arith Lia Bool.
Import ListNotations.
Local Open Scope nat_scope.
Arguments match_ge : simpl never.

(* ------------------------------------------------------------------------------------------ *)
(** * The loop with a given walking order *)

Fixpoint loop_ord (ords : list (list nat)) (search : bool) (N : nfa) (s : list char) (k i : nat)
                  (s1 : posse) (acc : option mvec) : option (posse * option mvec) :=
  match (if search || (i =? 0) then advance N s i (negb search) (start_searcher N) s1 acc
         else Some (s1, acc)) with
  | None => None
  | Some (s1, acc) =>
      match k with
      | O => Some (s1, acc)
      | S k' =>
          if (search && early_exit s1 acc) || (negb search && is_nil s1) then Some (s1, acc)
          else
            match nth_error s i with
            | None => Some (s1, acc)
            | Some ch =>
                match step_all N s (S i) (negb search) ch (reorder (hd [] ords) s1) [] acc with
                | None => None
                | Some (s2, acc') => loop_ord (tl ords) search N s k' (S i) s2 acc'
                end
            end
      end
  end.

Definition run_ord (ords : list (list nat)) (search : bool) (N : nfa) (s : list char) : option (option mvec) :=
  match loop_ord ords search N s (length s) 0 [] None with
  | None => None
  | Some (_, acc) =>
      Some (match acc with
            | Some m =>
                if search || (match getm m 1 with Some e => length s <=? e | None => false end)
                then Some m else None
            | None => None
            end)
  end.

Definition nfa_spans_ord (ords : list (list nat)) (b : bool) (x : xsre) (s : list char) : option (list (option span)) :=
  match run_ord ords b (compile_top x) s with
  | Some (Some m) => Some (spans_of m)
  | _ => None
  end.

(* ------------------------------------------------------------------------------------------ *)
(** * What [reorder] preserves: membership (one direction), [pfind], the key set *)

Lemma pfind_In0 (p : posse) q m : pfind p q = Some m -> In (q, m) p.
Proof.
  induction p as [|[q' m'] r IH]; cbn [pfind]; [discriminate|].
  destruct (q' =? q) eqn:E.
  - apply Nat.eqb_eq in E. intros [= <-]. left. subst. reflexivity.
  - intros H. right. apply IH. exact H.
Qed.

Lemma pfind_app2 (p1 p2 : posse) q :
  pfind (p1 ++ p2) q = match pfind p1 q with Some m => Some m | None => pfind p2 q end.
Proof.
  induction p1 as [|[q' m'] r IH]; cbn [app pfind]; [reflexivity|]. destruct (q' =? q); [reflexivity | exact IH].
Qed.

Lemma pfind_flat p q : forall ord,
  pfind (flat_map (fun q0 => match pfind p q0 with Some m => [(q0, m)] | None => [] end) ord) q =
  if memb q ord then pfind p q else None.
Proof.
  induction ord as [|q0 r IH]; [reflexivity|]. cbn [flat_map]. rewrite pfind_app2.
  change (memb q (q0 :: r)) with ((q =? q0) || memb q r).
  destruct (q =? q0) eqn:E.
  - apply Nat.eqb_eq in E. subst q0. cbn [orb].
    destruct (pfind p q) as [m|] eqn:F; cbn [pfind].
    + rewrite Nat.eqb_refl. reflexivity.
    + rewrite IH. destruct (memb q r); reflexivity.
  - cbn [orb]. destruct (pfind p q0) as [m|]; cbn [pfind]; [rewrite Nat.eqb_sym, E|]; exact IH.
Qed.

Lemma pfind_filter ord q : forall p,
  pfind (filter (fun sr : nat * mvec => negb (memb (fst sr) ord)) p) q = if memb q ord then None else pfind p q.
Proof.
  induction p as [|[q' m'] r IH]; cbn [filter pfind fst]; [destruct (memb q ord); reflexivity|].
  destruct (memb q' ord) eqn:M; cbn [negb].
  - rewrite IH. destruct (q' =? q) eqn:E; [|reflexivity]. apply Nat.eqb_eq in E. subst q'. rewrite M. reflexivity.
  - cbn [pfind]. destruct (q' =? q) eqn:E.
    + apply Nat.eqb_eq in E. subst q'. rewrite M. reflexivity.
    + exact IH.
Qed.

Lemma pfind_reorder ord p q : pfind (reorder ord p) q = pfind p q.
Proof.
  unfold reorder. rewrite pfind_app2, pfind_flat, pfind_filter.
  destruct (memb q ord); [destruct (pfind p q); reflexivity | reflexivity].
Qed.

Lemma reorder_In ord p sr : In sr (reorder ord p) -> In sr p.
Proof.
  unfold reorder. intros H. apply in_app_iff in H. destruct H as [H|H].
  - apply in_flat_map in H. destruct H as (q & _ & H).
    destruct (pfind p q) as [m|] eqn:F; [|destruct H]. destruct H as [<-|[]]. apply pfind_In0. exact F.
  - apply filter_In in H. apply H.
Qed.

Lemma keys_pfind (p : posse) q : In q (keys p) <-> pfind p q <> None.
Proof.
  split.
  - intros H E. apply pfind_none_keys in E. contradiction.
  - intros H. destruct (in_dec Nat.eq_dec q (keys p)) as [I|I]; [exact I|].
    apply pfind_none_keys in I. contradiction.
Qed.

Lemma reorder_keys ord p q : In q (keys (reorder ord p)) <-> In q (keys p).
Proof. rewrite !keys_pfind, pfind_reorder. tauto. Qed.

Lemma reorder_pfind_In ord p q m : pfind p q = Some m -> In (q, m) (reorder ord p).
Proof. intros H. apply pfind_In0. rewrite pfind_reorder. exact H. Qed.

(* ------------------------------------------------------------------------------------------ *)
(** * 0. [loop_ord] against [loop] and [loop_tr_ord] *)

Lemma reorder_nil0 p : reorder [] p = p.
Proof. unfold reorder. cbn. induction p as [|a p IH]; cbn; [reflexivity|]. f_equal. exact IH. Qed.

Theorem loop_ord_nil search N s : forall k i s1 acc,
  loop_ord [] search N s k i s1 acc = loop search N s k i s1 acc.
Proof.
  induction k as [|k IH]; intros i s1 acc; cbn [loop_ord loop].
  - reflexivity.
  - destruct (if search || (i =? 0) then _ else _) as [[s1' acc']|]; [|reflexivity].
    destruct ((search && early_exit s1' acc') || (negb search && is_nil s1')); [reflexivity|].
    destruct (nth_error s i) as [ch|]; [|reflexivity].
    cbn [hd tl]. rewrite reorder_nil0.
    destruct (step_all N s (S i) (negb search) ch s1' [] acc') as [[s2 acc2]|]; [|reflexivity].
    apply IH.
Qed.

Corollary run_ord_nil search N s : run_ord [] search N s = run search N s.
Proof. unfold run_ord, run. rewrite loop_ord_nil. reflexivity. Qed.

(** the last snapshot of the trace-keeping loop is the result of [loop_ord] *)
Theorem loop_tr_ord_last search N s : forall k ords i s1 acc,
  match loop_tr_ord ords search N s k i s1 acc, loop_ord ords search N s k i s1 acc with
  | Some tr, Some (p, a) => tr <> [] /\ exists j, last tr (0, [], None) = (j, p, a)
  | None, None => True
  | _, _ => False
  end.
Proof.
  induction k as [|k IH]; intros ords i s1 acc; cbn [loop_tr_ord loop_ord].
  - destruct (if search || (i =? 0) then _ else _) as [[s1' acc']|]; [|exact I]. split; [discriminate|]. exists i. reflexivity.
  - destruct (if search || (i =? 0) then _ else _) as [[s1' acc']|]; [|exact I].
    destruct ((search && early_exit s1' acc') || (negb search && is_nil s1')); [split; [discriminate|]; exists i; reflexivity|].
    destruct (nth_error s i) as [ch|]; [|split; [discriminate|]; exists i; reflexivity].
    destruct (step_all N s (S i) (negb search) ch (reorder (hd [] ords) s1') [] acc') as [[s2 acc2]|]; [|exact I].
    specialize (IH (tl ords) (S i) s2 acc2).
    destruct (loop_tr_ord (tl ords) search N s k (S i) s2 acc2) as [tr|];
      destruct (loop_ord (tl ords) search N s k (S i) s2 acc2) as [[p a]|]; cbn [option_map]; try exact IH.
    destruct IH as [Hne [j Hj]]. split; [discriminate|]. exists j.
    destruct tr as [|t tr']; [congruence|]. cbn [last]. exact Hj.
Qed.

(** hence [result_of] on the replayed trace is [run_ord] *)
Theorem loop_tr_ord_result ords search N s :
  option_map (result_of search s) (loop_tr_ord ords search N s (length s) 0 [] None) = run_ord ords search N s.
Proof.
  unfold run_ord. pose proof (loop_tr_ord_last search N s (length s) ords 0 [] None) as H.
  destruct (loop_tr_ord ords search N s (length s) 0 [] None) as [tr|];
    destruct (loop_ord ords search N s (length s) 0 [] None) as [[p a]|]; try contradiction; [|reflexivity].
  destruct H as [_ [j Hj]]. cbn [option_map]. unfold result_of. rewrite Hj. reflexivity.
Qed.

(* ------------------------------------------------------------------------------------------ *)
(** * 1. Totality *)

Theorem loop_ord_total search N s : forall k ords i s1 acc, loop_ord ords search N s k i s1 acc <> None.
Proof.
  induction k as [|k IH]; intros ords i s1 acc; cbn [loop_ord].
  - destruct (search || (i =? 0)).
    + destruct (advance N s i (negb search) (start_searcher N) s1 acc) as [[a b]|] eqn:E; [discriminate|].
      exfalso. exact (advance_total _ _ _ _ _ _ _ E).
    + discriminate.
  - assert (K : forall s1 acc,
       (if (search && early_exit s1 acc) || (negb search && is_nil s1) then Some (s1, acc)
        else match nth_error s i with
             | None => Some (s1, acc)
             | Some ch => match step_all N s (S i) (negb search) ch (reorder (hd [] ords) s1) [] acc with
                          | None => None
                          | Some (s2, acc') => loop_ord (tl ords) search N s k (S i) s2 acc'
                          end
             end) <> None).
    { intros s1' acc'. destruct ((search && early_exit s1' acc') || (negb search && is_nil s1')); [discriminate|].
      destruct (nth_error s i) as [ch|]; [|discriminate].
      destruct (step_all N s (S i) (negb search) ch (reorder (hd [] ords) s1') [] acc') as [[s2 acc2]|] eqn:E; [apply IH|].
      exfalso. exact (step_all_total _ _ _ _ _ _ _ _ E). }
    destruct (search || (i =? 0)).
    + destruct (advance N s i (negb search) (start_searcher N) s1 acc) as [[a b]|] eqn:E; [apply K|].
      exfalso. exact (advance_total _ _ _ _ _ _ _ E).
    + apply K.
Qed.

Theorem run_ord_total ords search N s : run_ord ords search N s <> None.
Proof.
  unfold run_ord. destruct (loop_ord ords search N s (length s) 0 [] None) as [[a b]|] eqn:E; [discriminate|].
  exfalso. exact (loop_ord_total _ _ _ _ _ _ _ _ E).
Qed.

(* ------------------------------------------------------------------------------------------ *)
(** * The induction principle of the loop *)

Definition exitc (search : bool) (s1 : posse) (acc : option mvec) : bool :=
  (search && early_exit s1 acc) || (negb search && is_nil s1).

Lemma loop_ord_ind search N s (P Q : nat -> posse -> option mvec -> Prop) :
  (forall i s1 acc s1' acc', i <= length s -> P i s1 acc ->
     (if search || (i =? 0) then advance N s i (negb search) (start_searcher N) s1 acc else Some (s1, acc))
       = Some (s1', acc') -> Q i s1' acc') ->
  (forall i ch ord s1 acc s2 acc2, nth_error s i = Some ch -> Q i s1 acc -> exitc search s1 acc = false ->
     step_all N s (S i) (negb search) ch (reorder ord s1) [] acc = Some (s2, acc2) -> P (S i) s2 acc2) ->
  forall k ords i s1 acc s1' acc', k + i = length s -> P i s1 acc ->
    loop_ord ords search N s k i s1 acc = Some (s1', acc') ->
    exists j, j <= length s /\ Q j s1' acc' /\ (j = length s \/ (j < length s /\ exitc search s1' acc' = true)).
Proof.
  intros Hstart Hstep.
  induction k as [|k IH]; intros ords i s1 acc s1' acc' Hk HP E; cbn [loop_ord] in E.
  - match type of E with match ?X with _ => _ end = _ => destruct X as [[s1a acca]|] eqn:ES; [|discriminate] end.
    cbv beta iota in E. injection E as <- <-.
    assert (Hi : i <= length s) by lia.
    exists i. split; [exact Hi|]. split; [exact (Hstart _ _ _ _ _ Hi HP ES)|]. left. lia.
  - match type of E with match ?X with _ => _ end = _ => destruct X as [[s1a acca]|] eqn:ES; [|discriminate] end.
    cbv beta iota in E.
    assert (Hi : i <= length s) by lia.
    pose proof (Hstart _ _ _ _ _ Hi HP ES) as HQ.
    fold (exitc search s1a acca) in E. destruct (exitc search s1a acca) eqn:EX.
    + injection E as <- <-. exists i. split; [exact Hi|]. split; [exact HQ|]. right. split; [lia | exact EX].
    + destruct (nth_error s i) as [ch|] eqn:Ech.
      2:{ exfalso. apply nth_error_None in Ech. lia. }
      destruct (step_all N s (S i) (negb search) ch (reorder (hd [] ords) s1a) [] acca) as [[s2 acc2]|] eqn:ESA; [|discriminate].
      apply (IH (tl ords) (S i) s2 acc2 s1' acc'); [lia | | exact E].
      exact (Hstep _ _ _ _ _ _ _ Ech HQ EX ESA).
Qed.

(* ------------------------------------------------------------------------------------------ *)
(** * The accept register of [loop_ord] against the path semantics *)

Section Paths.
Variable N : nfa.
Variable s : list char.
Variable search : bool.

Lemma loop_ord_sound ords s1 acc :
  loop_ord ords search N s (length s) 0 [] None = Some (s1, acc) -> acc <> None -> AccFound N s search.
Proof.
  intros E.
  pose (P := fun (i : nat) (p : posse) (a : option mvec) =>
               (forall q, In q (keys p) -> Reach N s search i q) /\ (a <> None -> AccFound N s search)).
  destruct (loop_ord_ind search N s P P) with (3 := Nat.add_0_r (length s)) (5 := E) as (j & _ & [_ B] & _).
  - intros i p a p' a' Hi [H1 H2] ES. exact (start_sound N s search i p a p' a' Hi ES H1 H2).
  - intros i ch ord p a p2 a2 Ech [H1 H2] _ ESA.
    assert (Hnil : forall q, In q (keys (@nil (nat * mvec))) -> Reach N s search (S i) q) by (intros q []).
    assert (Hl : forall q, In q (keys (reorder ord p)) -> Reach N s search i q)
      by (intros q Hq; apply H1; apply (reorder_keys ord p q); exact Hq).
    exact (step_all_sound N s search i ch Ech _ [] a p2 a2 ESA Hl Hnil H2).
  - split; [intros q [] | intros H; exfalso; apply H; reflexivity].
  - exact B.
Qed.

Lemma exit_complete j s1 acc : j < length s -> exitc search s1 acc = true ->
  AfterC N s search j s1 -> AccAfterC N s search j acc -> AccAfterC N s search (length s) acc.
Proof.
  intros Hj EX A B. unfold exitc in EX. apply orb_true_iff in EX.
  destruct EX as [EX|EX]; apply andb_true_iff in EX; destruct EX as [X1 X2].
  - intros i0 j0 qa _ _ _ _ _. unfold early_exit in X2. destruct acc as [a|]; [discriminate | discriminate X2].
  - destruct s1 as [|x r]; [|discriminate X2]. apply negb_true_iff in X1.
    intros i0 j0 qa S0 Hj0 Cj P0 Ha. exfalso.
    destruct S0 as [S0|S0]; [congruence|]. destruct Cj as [Cj|Cj]; [congruence|]. subst i0 j0.
    assert (L1 : snd (n_start N, 0) <= j) by (cbn [snd]; lia).
    assert (L2 : j < snd (qa, length s)) by (cbn [snd]; lia).
    destruct (path_split N s _ _ P0 j L1 L2) as (qc & st & ci & cs & c & qn & P1 & Est & Ek & _).
    exact (A qc st ci cs 0 Est Ek (or_intror eq_refl) P1).
Qed.

Lemma loop_ord_complete ords s1 acc :
  loop_ord ords search N s (length s) 0 [] None = Some (s1, acc) -> AccAfterC N s search (length s) acc.
Proof.
  intros E.
  pose (P := fun (i : nat) (p : posse) (a : option mvec) => EntryC N s search i p /\ AccEntryC N s search i a).
  pose (Q := fun (i : nat) (p : posse) (a : option mvec) => AfterC N s search i p /\ AccAfterC N s search i a).
  destruct (loop_ord_ind search N s P Q) with (3 := Nat.add_0_r (length s)) (5 := E) as (j & Lj & [A B] & Fin).
  - intros i p a p' a' Hi [H1 H2] ES. exact (start_complete N s search i p a p' a' ES H1 H2).
  - intros i ch ord p a p2 a2 Ech [H1 H2] _ ESA.
    assert (H1' : AfterC N s search i (reorder ord p)).
    { intros q st ci cs i0 Est Ek S0 P0. apply reorder_keys. eapply H1; eassumption. }
    exact (step_complete N s search i ch _ a p2 a2 Ech ESA H1' H2).
  - split; [intros q st ci cs i1 _ _ _ L; lia | intros i1 j1 qa1 _ L; lia].
  - destruct Fin as [->|[Lt EX]]; [exact B|]. exact (exit_complete j s1 acc Lt EX A B).
Qed.

Theorem loop_ord_acc_iff_path ords s1 acc :
  loop_ord ords search N s (length s) 0 [] None = Some (s1, acc) -> (acc <> None <-> AccFound N s search).
Proof.
  intros E. split; [exact (loop_ord_sound ords s1 acc E)|].
  intros (i0 & j & qa & S0 & Hj & P0 & Ha & Cj).
  exact (loop_ord_complete ords s1 acc E i0 j qa S0 Hj Cj P0 Ha).
Qed.

End Paths.

Theorem run_ord_search_iff_path ords N s :
  (exists m, run_ord ords true N s = Some (Some m)) <-> finds_path N s.
Proof.
  unfold run_ord.
  destruct (loop_ord ords true N s (length s) 0 [] None) as [[s1 acc]|] eqn:E;
    [|exfalso; exact (loop_ord_total _ _ _ _ _ _ _ _ E)].
  pose proof (loop_ord_acc_iff_path N s true ords s1 acc E) as [F1 F2]. cbn [orb]. split.
  - intros [m H]. assert (HA : acc <> None) by (destruct acc; [discriminate | discriminate H]).
    destruct (F1 HA) as (i0 & j & qa & S0 & Hj & P0 & Ha & Cj).
    exists i0, j, qa. split; [|split; assumption].
    pose proof (path_mono _ _ _ _ P0) as M. cbn [snd] in M. lia.
  - intros (i0 & j & qa & Hi0 & P0 & Ha).
    assert (HA : acc <> None).
    { apply F2. exists i0, j, qa. split; [left; reflexivity|]. split; [|split; [exact P0 | split; [exact Ha | left; reflexivity]]].
      apply (path_bound _ _ _ _ P0). exact Hi0. }
    destruct acc as [m|]; [exists m; reflexivity | contradiction].
Qed.

(** the slot-1 discipline, for every order *)
Lemma loop_ord_disc N s (D : slot1_discipline N = true) search ords s1 acc :
  loop_ord ords search N s (length s) 0 [] None = Some (s1, acc) -> acc_ok s (negb search) acc.
Proof.
  intros E.
  pose (P := fun (i : nat) (p : posse) (a : option mvec) => posse_v0 p /\ acc_ok s (negb search) a).
  destruct (loop_ord_ind search N s P P) with (3 := Nat.add_0_r (length s)) (5 := E) as (j & _ & [_ B] & _).
  - intros i p a p' a' Hi [H1 H2] ES. exact (start_disc N s (negb search) D _ i p a p' a' ES H1 H2).
  - intros i ch ord p a p2 a2 Ech [H1 H2] _ ESA.
    assert (Hnil : posse_v0 []) by (intros q m []).
    assert (Hl : posse_v0 (reorder ord p)) by (intros q m H; apply (H1 q m); apply (reorder_In ord p); exact H).
    exact (step_all_disc N s (negb search) D (S i) ch _ [] a p2 a2 ESA Hl Hnil H2).
  - split; [intros q m [] | intros a H; discriminate H].
  - exact B.
Qed.

Theorem run_ord_matches_iff_path ords x s :
  (exists m, run_ord ords false (compile_top x) s = Some (Some m)) <-> accepts_path (compile_top x) s.
Proof.
  set (N := compile_top x). pose proof (compile_top_slot1_discipline x) as D. fold N in D.
  unfold run_ord.
  destruct (loop_ord ords false N s (length s) 0 [] None) as [[s1 acc]|] eqn:E;
    [|exfalso; exact (loop_ord_total _ _ _ _ _ _ _ _ E)].
  pose proof (loop_ord_acc_iff_path N s false ords s1 acc E) as [F1 F2]. split.
  - intros [m H]. assert (HA : acc <> None) by (destruct acc; [discriminate | discriminate H]).
    destruct (F1 HA) as (i0 & j & qa & S0 & Hj & P0 & Ha & Cj).
    destruct S0 as [S0|S0]; [discriminate|]. destruct Cj as [Cj|Cj]; [discriminate|]. subst i0 j.
    exists qa. split; assumption.
  - intros (qa & P0 & Ha).
    assert (HA : acc <> None).
    { apply F2. exists 0, (length s), qa.
      split; [right; reflexivity|]. split; [lia|]. split; [exact P0|]. split; [exact Ha | right; reflexivity]. }
    destruct acc as [m|]; [|contradiction]. exists m.
    destruct (loop_ord_disc N s D false ords s1 (Some m) E m eq_refl) as (e & G & L).
    cbn [orb]. rewrite G. specialize (L eq_refl). apply Nat.leb_le in L. rewrite L. reflexivity.
Qed.

(* ------------------------------------------------------------------------------------------ *)
(** * 2, 3. The engine theorems for every walking order *)

Theorem nfa_search_iff_substring_any_order : forall ords x s, wf_x x = true ->
  ((exists m, run_ord ords true (compile_top x) s = Some (Some m)) <->
   exists i j, in_lang false (to_sre false x) s i j).
Proof.
  intros ords x s W. rewrite run_ord_search_iff_path. apply compile_top_finds_iff_substring. exact W.
Qed.

Theorem nfa_accepts_iff_language_any_order : forall ords x s, wf_x x = true ->
  ((exists m, run_ord ords false (compile_top x) s = Some (Some m)) <-> L false (to_sre false x) None s None).
Proof.
  intros ords x s W. rewrite run_ord_matches_iff_path. apply compile_top_path_iff_language. exact W.
Qed.

(* ------------------------------------------------------------------------------------------ *)
(** * Examples: (: ( * ($ (or #\a "bc"))) eos) walked in reversed order at every step, with a repeated and an
      absent id in the order lists *)

Definition exo_all_rev (n : nat) : list (list nat) := repeat (rev (seq 0 40) ++ [7; 99]) n.

Example ex_reorder :
  reorder [9; 7; 9; 99] [(7, [Some 1]); (8, [Some 2]); (9, [Some 3])]
  = [(9, [Some 3]); (7, [Some 1]); (9, [Some 3]); (8, [Some 2])].
Proof. reflexivity. Qed.

Example ex_loop_tr_ord_result :
  option_map (result_of true [120%N; 98%N; 99%N; 97%N])
             (loop_tr_ord (exo_all_rev 4) true NfaRun.ex_N [120%N; 98%N; 99%N; 97%N] 4 0 [] None)
  = Some (Some [Some 1; Some 4; Some 3; Some 4]).
Proof. rewrite loop_tr_ord_result. vm_compute. reflexivity. Qed.

Example ex_search_any_order :
  (exists i j, in_lang false (to_sre false NfaRun.ex_x) [120%N; 98%N; 99%N; 97%N] i j) /\
  ~ (exists i j, in_lang false (to_sre false (XSeq (XChr (CsChar 97%N)) (XSeq (XAnc Bos) XEps))) [97%N; 97%N] i j).
Proof.
  split.
  - apply (nfa_search_iff_substring_any_order (exo_all_rev 4) NfaRun.ex_x _ eq_refl).
    eexists. vm_compute. reflexivity.
  - intros H. apply (nfa_search_iff_substring_any_order (exo_all_rev 2) (XSeq (XChr (CsChar 97%N)) (XSeq (XAnc Bos) XEps)) _ eq_refl) in H.
    destruct H as [m H]. vm_compute in H. discriminate H.
Qed.

Example ex_accepts_any_order :
  L false (to_sre false NfaRun.ex_x) None [98%N; 99%N; 97%N; 97%N] None /\
  ~ L false (to_sre false NfaRun.ex_x) None [98%N; 97%N] None.
Proof.
  split.
  - apply (nfa_accepts_iff_language_any_order (exo_all_rev 4) NfaRun.ex_x _ eq_refl).
    eexists. vm_compute. reflexivity.
  - intros H. apply (nfa_accepts_iff_language_any_order (exo_all_rev 2) NfaRun.ex_x _ eq_refl) in H.
    destruct H as [m H]. vm_compute in H. discriminate H.
Qed.

Example ex_run_ord_total : run_ord (exo_all_rev 3) false NfaRun.ex_N [97%N; 98%N; 99%N] <> None.
Proof. apply run_ord_total. Qed.
