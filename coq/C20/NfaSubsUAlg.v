(** C20 -- the algebra of the relation [U] of NfaSubsU.v: proofs of the statements [S_id] ... [S_sub], and the two
    structural facts about the table [subs] ([flat] inside a repetition, [wfsl] in general). *)
From ChibiV Require Import C20.Re C20.Proofs C20.Nfa C20.NfaSem C20.NfaThompson C20.SubsNest C20.NfaSubsDefs
  C20.NfaSubsTfc C20.NfaSubsU.
From Coq Require Import List Arith Lia Bool.
Import ListNotations.
Local Open Scope nat_scope.

(* ------------------------------------------------------------------------------------------ *)
(** * The match vector *)

Lemma getm_setm_eq m : forall k v, k < length m -> getm (setm m k v) k = Some v.
Proof.
  unfold getm, setm. induction m as [|x m IH]; intros k v H; cbn [length] in H; [lia|].
  destruct k; cbn [upd nth]; [reflexivity|]. apply IH. lia.
Qed.

Lemma getm_setm_neq m : forall k j v, j <> k -> getm (setm m k v) j = getm m j.
Proof.
  unfold getm, setm. induction m as [|x m IH]; intros k j v H; [destruct k; reflexivity|].
  destruct k, j; cbn [upd nth]; try reflexivity; [lia|]. apply IH; lia.
Qed.

Lemma length_setm m k v : length (setm m k v) = length m.
Proof. unfold setm. apply length_upd. Qed.

Lemma getm_setm_some m k v j w : getm (setm m k v) j = Some w -> w = v \/ getm m j = Some w.
Proof.
  intros H. destruct (Nat.eq_dec j k) as [->|Hne].
  - destruct (Nat.lt_ge_cases k (length m)) as [Hlt|Hge].
    + rewrite getm_setm_eq in H by exact Hlt. left. congruence.
    + right. unfold getm, setm in *. rewrite nth_overflow in H; [discriminate H|]. rewrite length_upd. exact Hge.
  - rewrite getm_setm_neq in H by exact Hne. right. exact H.
Qed.

Lemma umark_left idx m i : umark idx RLeft m i = setm m idx i.
Proof. unfold umark, update_match. cbn [s_match s_rule andb]. reflexivity. Qed.

Lemma umark_other idx r m i slot : slot <> idx -> getm (umark idx r m i) slot = getm m slot.
Proof.
  intros H. unfold umark, update_match. cbn [s_match s_rule].
  match goal with |- getm (if ?b then _ else _) _ = _ => destruct b end; [reflexivity|].
  apply getm_setm_neq. exact H.
Qed.

Lemma umark_exit m k a r j :
  getm m (2 * k) = Some a -> (forall e, getm m (S (2 * k)) = Some e -> e <= a) ->
  umark (S (2 * k)) r m j = setm m (S (2 * k)) j.
Proof.
  intros Ha He. unfold umark, update_match. cbn [s_match s_rule].
  replace (S (2 * k) - 1) with (2 * k) by lia. rewrite Ha.
  destruct (getm m (S (2 * k))) as [e|] eqn:E.
  - specialize (He e eq_refl). assert (a <? e = false) as -> by (apply Nat.ltb_ge; exact He).
    rewrite andb_false_r. reflexivity.
  - rewrite andb_false_r. reflexivity.
Qed.

Lemma Bnd_mono i j m : i <= j -> Bnd i m -> Bnd j m.
Proof. intros H HB k v Hk. specialize (HB k v Hk). lia. Qed.

Lemma Bnd_setm j m k : Bnd j m -> Bnd j (setm m k j).
Proof.
  intros HB k' v Hk. apply getm_setm_some in Hk. destruct Hk as [->|Hk]; [apply le_n|]. exact (HB _ _ Hk).
Qed.

(* ------------------------------------------------------------------------------------------ *)
(** * The table of submatches *)

Lemma flat_app sl1 sl2 b : flat sl1 b -> flat sl2 b -> flat (sl1 ++ sl2) b.
Proof.
  intros H1 H2 t ci body a H. destruct (Nat.lt_ge_cases t (length sl1)) as [Hlt|Hge].
  - rewrite nth_error_app1 in H by exact Hlt. eapply H1; exact H.
  - rewrite nth_error_app2 in H by exact Hge. eapply H2; exact H.
Qed.

Lemma subs_flat r : forall ci anc k, flat (subs ci anc true k r) anc.
Proof.
  induction r as [| |cs|r1 IH1 r2 IH2|r1 IH1 r2 IH2|g r1 IH1|r1 IH1|g r1 IH1|g m mx r1 IH1|r1 IH1|k0|r1 IH1|r1 IH1];
    intros ci anc k; cbn [subs];
    try (intros t c body a H; destruct t; discriminate H);
    try (apply IH1).
  - apply flat_app; [apply IH1|apply IH2].
  - apply flat_app; [apply IH1|apply IH2].
  - destruct m as [|m]; [destruct mx as [[|mx]|]|]; try (apply IH1).
    intros t c body a H; destruct t; discriminate H.
  - intros t c body a H. destruct t as [|t]; cbn [nth_error] in H.
    + injection H as _ _ <-. apply le_n.
    + eapply IH1; exact H.
Qed.

Lemma subs_wfsl r ci anc rep k0 : wfsl (subs ci anc rep (S k0) r) anc k0.
Proof.
  intros t c body a H. apply subs_anc_bound in H. destruct H as [->|H]; [left; apply le_n|right; exact H].
Qed.

(* ------------------------------------------------------------------------------------------ *)
(** * Generalities on [U] *)

Section Alg.
Variable s : list char.

Lemma U_refl sl k0 i j m : U s sl k0 i j m m.
Proof.
  split; [reflexivity|]. split; [intros; reflexivity|]. intros t ci body anc _. left. split; reflexivity.
Qed.

Lemma U_mono sl k0 i j i' j' m0 m1 : i' <= i -> j <= j' -> U s sl k0 i j m0 m1 -> U s sl k0 i' j' m0 m1.
Proof.
  intros Hi Hj (L & F & V). split; [exact L|]. split; [exact F|].
  intros t ci body anc Hn. destruct (V t ci body anc Hn) as [HS|(a & e & Ga & Ge & Hia & Hej & Hl & Hnest)].
  - left. exact HS.
  - right. exists a, e. split; [exact Ga|]. split; [exact Ge|]. split; [lia|]. split; [lia|].
    split; [exact Hl|exact Hnest].
Qed.

(** two traversals of the same fragment, inside a repetition *)
Lemma U_trans_flat sl k0 b i k j m0 m1 m2 : b <= k0 -> flat sl b -> i <= k -> k <= j ->
  U s sl k0 i k m0 m1 -> U s sl k0 k j m1 m2 -> U s sl k0 i j m0 m2.
Proof.
  intros Hb Hf Hik Hkj (L1 & F1 & V1) (L2 & F2 & V2).
  split; [congruence|]. split.
  - intros slot Hs. rewrite F2 by exact Hs. apply F1. exact Hs.
  - intros t ci body anc Hn. pose proof (Hf _ _ _ _ Hn) as Hanc.
    destruct (V2 t ci body anc Hn) as [[E1 E2]|(a & e & Ga & Ge & Hia & Hej & Hl & Hnest)].
    + destruct (V1 t ci body anc Hn) as [[E1' E2']|(a & e & Ga & Ge & Hia & Hej & Hl & Hnest)].
      * left. split; congruence.
      * right. exists a, e. split; [congruence|]. split; [congruence|]. split; [lia|]. split; [lia|].
        split; [exact Hl|]. intros Hk. lia.
    + right. exists a, e. split; [exact Ga|]. split; [exact Ge|]. split; [lia|]. split; [lia|].
      split; [exact Hl|]. intros Hk. lia.
Qed.

Lemma pstar_le (P : plang) : pb s P -> forall i j, pstar s P i j -> i <= j.
Proof.
  intros HP i j H. induction H as [i Hi|i k j HPik _ IH]; [apply le_n|]. destruct (HP _ _ HPik). lia.
Qed.

(* ------------------------------------------------------------------------------------------ *)
(** * The algebra *)

Lemma L_id : S_id s.
Proof.
  intros sl k0 P HP i j m0 m1 [HPij ->] HB Hl. destruct (HP _ _ HPij) as [Hij _].
  split; [exact HPij|]. split; [eapply Bnd_mono; eassumption|apply U_refl].
Qed.

Lemma L_extP : S_extP s.
Proof.
  intros sl k0 P P' HPP i j m0 m1 H HB Hl. destruct (H HB Hl) as (A & B & C).
  split; [apply HPP; exact A|]. split; assumption.
Qed.

Lemma L_or : S_or s.
Proof.
  intros sl k0 P1 P2 i j m0 m1 [H|H] HB Hl; destruct (H HB Hl) as (A & B & C).
  - split; [left; exact A|]. split; assumption.
  - split; [right; exact A|]. split; assumption.
Qed.

Lemma L_widenR : S_widenR s.
Proof.
  intros sl1 sl2 k0 P i j m0 m1 H HB Hl. rewrite app_length in Hl.
  destruct (H HB ltac:(lia)) as (A & B & (L & F & V)).
  split; [exact A|]. split; [exact B|]. split; [exact L|]. split.
  - intros slot Hs. rewrite app_length in Hs. apply F. lia.
  - intros t ci body anc Hn. destruct (Nat.lt_ge_cases t (length sl1)) as [Hlt|Hge].
    + rewrite nth_error_app1 in Hn by exact Hlt. exact (V _ _ _ _ Hn).
    + left. split; apply F; right; lia.
Qed.

Lemma L_widenL : S_widenL s.
Proof.
  intros sl1 sl2 k0 b P Hb Hwf i j m0 m1 H HB Hl. rewrite app_length in Hl.
  destruct (H HB ltac:(lia)) as (A & B & (L & F & V)).
  split; [exact A|]. split; [exact B|]. split; [exact L|]. split.
  - intros slot Hs. rewrite app_length in Hs. apply F. lia.
  - intros t ci body anc Hn. destruct (Nat.lt_ge_cases t (length sl1)) as [Hlt|Hge].
    + left. split; apply F; left; lia.
    + rewrite nth_error_app2 in Hn by exact Hge.
      replace (S k0 + t) with (S (k0 + length sl1) + (t - length sl1)) by lia.
      destruct (V _ _ _ _ Hn) as [HS|(a & e & Ga & Ge & Hia & Hej & Hl' & Hnest)].
      * left. exact HS.
      * right. exists a, e. split; [exact Ga|]. split; [exact Ge|]. split; [exact Hia|]. split; [exact Hej|].
        split; [exact Hl'|]. intros Hk. apply Hnest.
        destruct (Hwf _ _ _ _ Hn) as [Hw|Hw]; lia.
Qed.

Lemma L_seq : S_seq s.
Proof.
  intros sl1 sl2 k0 b P1 P2 Hb W1 W2 HP1 HP2 i j m0 m2 (k & m1 & H1 & H2) HB Hl. rewrite app_length in Hl.
  destruct (H1 HB ltac:(lia)) as (A1 & B1 & (L1 & F1 & V1)).
  destruct (H2 B1 ltac:(rewrite L1; lia)) as (A2 & B2 & (L2 & F2 & V2)).
  destruct (HP1 _ _ A1) as [Hik _]. destruct (HP2 _ _ A2) as [Hkj _].
  split; [exists k; split; assumption|]. split; [exact B2|]. split; [congruence|]. split.
  - intros slot Hs. rewrite app_length in Hs. rewrite F2 by lia. apply F1. lia.
  - intros t ci body anc Hn. destruct (Nat.lt_ge_cases t (length sl1)) as [Hlt|Hge].
    + rewrite nth_error_app1 in Hn by exact Hlt.
      destruct (V1 _ _ _ _ Hn) as [[E1 E2]|(a & e & Ga & Ge & Hia & Hej & Hl' & Hnest)].
      * left. split; (rewrite F2 by (left; lia)); assumption.
      * right. exists a, e. split; [rewrite F2 by (left; lia); exact Ga|].
        split; [rewrite F2 by (left; lia); exact Ge|]. split; [exact Hia|]. split; [lia|].
        split; [exact Hl'|]. intros Hk. destruct (Hnest Hk) as (oa & oe & Goa & Goe & Ho).
        exists oa, oe. destruct (W1 _ _ _ _ Hn) as [Hw|Hw]; [lia|].
        split; [rewrite F2 by (left; lia); exact Goa|]. split; [rewrite F2 by (left; lia); exact Goe|exact Ho].
    + rewrite nth_error_app2 in Hn by exact Hge.
      replace (S k0 + t) with (S (k0 + length sl1) + (t - length sl1)) by lia.
      destruct (V2 _ _ _ _ Hn) as [[E1 E2]|(a & e & Ga & Ge & Hia & Hej & Hl' & Hnest)].
      * left. split; [rewrite E1|rewrite E2]; apply F1; right; lia.
      * right. exists a, e. split; [exact Ga|]. split; [exact Ge|]. split; [lia|]. split; [exact Hej|].
        split; [exact Hl'|]. intros Hk. apply Hnest.
        destruct (W2 _ _ _ _ Hn) as [Hw|Hw]; lia.
Qed.

Lemma L_idl : S_idl s.
Proof.
  intros sl k0 P1 P2 HP1 HP2 i j m0 m2 (k & m1 & [A1 ->] & H2) HB Hl.
  destruct (HP1 _ _ A1) as [Hik _].
  destruct (H2 (Bnd_mono _ _ _ Hik HB) Hl) as (A2 & B2 & C2).
  split; [exists k; split; assumption|]. split; [exact B2|].
  eapply U_mono; [exact Hik|apply le_n|exact C2].
Qed.

Lemma L_idr : S_idr s.
Proof.
  intros sl k0 P1 P2 HP1 HP2 i j m0 m2 (k & m1 & H1 & [A2 ->]) HB Hl.
  destruct (HP2 _ _ A2) as [Hkj _].
  destruct (H1 HB Hl) as (A1 & B1 & C1).
  split; [exists k; split; assumption|]. split; [eapply Bnd_mono; eassumption|].
  eapply U_mono; [apply le_n|exact Hkj|exact C1].
Qed.

Lemma L_seq_flat : S_seq_flat s.
Proof.
  intros sl k0 b P1 P2 Hb Hf HP1 HP2 i j m0 m2 (k & m1 & H1 & H2) HB Hl.
  destruct (H1 HB Hl) as (A1 & B1 & C1).
  assert (length m1 = length m0) as L1 by (destruct C1 as [L _]; exact L).
  destruct (H2 B1 ltac:(rewrite L1; exact Hl)) as (A2 & B2 & C2).
  destruct (HP1 _ _ A1) as [Hik _]. destruct (HP2 _ _ A2) as [Hkj _].
  split; [exists k; split; assumption|]. split; [exact B2|].
  eapply U_trans_flat; eassumption.
Qed.

Lemma L_star : S_star s.
Proof.
  intros sl k0 b P Hb Hf HP i j m0 m1 HS.
  induction HS as [i m Hi|i k j m0 m1 m2 H1 _ IH]; intros HB Hl.
  - split; [constructor; exact Hi|]. split; [exact HB|apply U_refl].
  - destruct (H1 HB Hl) as (A1 & B1 & C1).
    assert (length m1 = length m0) as L1 by (destruct C1 as [L _]; exact L).
    destruct (IH B1 ltac:(rewrite L1; exact Hl)) as (A2 & B2 & C2).
    destruct (HP _ _ A1) as [Hik _]. pose proof (pstar_le P HP _ _ A2) as Hkj.
    split; [econstructor; eassumption|]. split; [exact B2|].
    eapply U_trans_flat; eassumption.
Qed.

Lemma L_sub : S_sub s.
Proof.
  intros sl k0 ci body anc r P Hanc HP Hin i j m0 m2 (m1 & H & ->) HB Hl. cbn [length] in Hl.
  rewrite umark_left in H.
  remember (setm m0 (2 * S k0) i) as ma eqn:Ema.
  assert (Bnd i ma) as HBa by (rewrite Ema; apply Bnd_setm; exact HB).
  assert (length ma = length m0) as La by (rewrite Ema; apply length_setm).
  destruct (H HBa ltac:(lia)) as (A & B & (L1 & F1 & V1)).
  destruct (HP _ _ A) as [Hij Hjs].
  assert (getm m1 (2 * S k0) = Some i) as G0.
  { rewrite F1 by (left; lia). rewrite Ema. apply getm_setm_eq. lia. }
  assert (getm m1 (S (2 * S k0)) = getm m0 (S (2 * S k0))) as G1.
  { rewrite F1 by (left; lia). rewrite Ema. apply getm_setm_neq. lia. }
  rewrite (umark_exit m1 (S k0) i r j G0)
    by (intros e He; rewrite G1 in He; exact (HB _ _ He)).
  assert (getm (setm m1 (S (2 * S k0)) j) (2 * S k0) = Some i) as G0'.
  { rewrite getm_setm_neq by lia. exact G0. }
  assert (getm (setm m1 (S (2 * S k0)) j) (S (2 * S k0)) = Some j) as G1'.
  { apply getm_setm_eq. lia. }
  split; [exact A|]. split; [apply Bnd_setm; exact B|].
  split; [rewrite length_setm; congruence|]. split.
  - intros slot Hs. cbn [length] in Hs. rewrite getm_setm_neq by lia. rewrite F1 by lia.
    rewrite Ema. apply getm_setm_neq. lia.
  - intros t ci' body' anc' Hn. destruct t as [|t]; cbn [nth_error] in Hn.
    + injection Hn as <- <- <-. right. exists i, j. replace (S k0 + 0) with (S k0) by lia.
      split; [exact G0'|]. split; [exact G1'|]. split; [apply le_n|]. split; [apply le_n|].
      split; [apply Hin; exact A|]. intros Hk. lia.
    + replace (S k0 + S t) with (S (S k0) + t) by lia.
      destruct (V1 _ _ _ _ Hn) as [[E1 E2]|(a & e & Ga & Ge & Hia & Hej & Hl' & Hnest)].
      * left. split; (rewrite getm_setm_neq by lia); [rewrite E1|rewrite E2]; rewrite Ema;
          apply getm_setm_neq; lia.
      * right. exists a, e. split; [rewrite getm_setm_neq by lia; exact Ga|].
        split; [rewrite getm_setm_neq by lia; exact Ge|]. split; [exact Hia|]. split; [exact Hej|].
        split; [exact Hl'|]. intros Hk.
        destruct (Nat.eq_dec anc' (S k0)) as [->|Hne].
        -- exists i, j. split; [exact G0'|]. split; [exact G1'|]. split; assumption.
        -- destruct (Hnest ltac:(lia)) as (oa & oe & Goa & Goe & Ho).
           exists oa, oe. split; [rewrite getm_setm_neq by lia; exact Goa|].
           split; [rewrite getm_setm_neq by lia; exact Goe|exact Ho].
Qed.

Theorem U_algebra_holds : U_algebra s.
Proof.
  unfold U_algebra.
  split; [exact L_id|]. split; [exact L_extP|]. split; [exact L_widenR|]. split; [exact L_widenL|].
  split; [exact L_seq|]. split; [exact L_idl|]. split; [exact L_idr|]. split; [exact L_or|].
  split; [exact L_seq_flat|]. split; [exact L_star|exact L_sub].
Qed.

End Alg.
