(** C20 -- the traced analogue of [NfaThompson.Frag_good]: every traversal of a compiled fragment of shape [FragM]
    transforms the match vector as [QV] says (language of the traversed segment, recorded positions bounded, [U] for
    the submatches of the fragment), given the algebra of [U] (NfaSubsU.v / NfaSubsUAlg.v) and the two structural
    facts [flat] / [wfsl] about [Re.subs]. *)
From ChibiV Require Import C20.Re C20.Proofs C20.Nfa C20.NfaSem C20.NfaThompson C20.NfaCount C20.NfaSubsDefs C20.NfaSubsTfc C20.NfaSubsGraph C20.NfaSubsU.
From Coq Require Import List Arith Lia Bool.
Import ListNotations.
Local Open Scope nat_scope.

Lemma subs_nil r ci anc rep k : count_subs r = 0 -> subs ci anc rep k r = [].
Proof. intros H. apply length_zero_iff_nil. rewrite subs_length. exact H. Qed.

Section Valid.
Variable T : list state.
Variable s : list char.
Hypothesis HA : U_algebra s.
Hypothesis Hflat : forall r ci anc k, flat (subs ci anc true k r) anc.
Hypothesis Hwfsl : forall r ci anc rep k0, wfsl (subs ci anc rep (S k0) r) anc k0.

Lemma A_id : S_id s. Proof. apply HA. Qed.
Lemma A_extP : S_extP s. Proof. apply HA. Qed.
Lemma A_widenR : S_widenR s. Proof. apply HA. Qed.
Lemma A_widenL : S_widenL s. Proof. apply HA. Qed.
Lemma A_seq : S_seq s. Proof. apply HA. Qed.
Lemma A_idl : S_idl s. Proof. apply HA. Qed.
Lemma A_idr : S_idr s. Proof. apply HA. Qed.
Lemma A_or : S_or s. Proof. apply HA. Qed.
Lemma A_seq_flat : S_seq_flat s. Proof. apply HA. Qed.
Lemma A_star : S_star s. Proof. apply HA. Qed.
Lemma A_sub : S_sub s. Proof. apply HA. Qed.

Notation TFC := (TFC T s).
Notation Lat := (Lat s).
Notation QV := (QV s).

Lemma pb_Lat (P : lang) : pb s (Lat P).
Proof. intros i j H. exact (Lat_bounds s P i j H). Qed.

(** a fragment that records nothing *)
Lemma TFC_leaf (P : plang) (P' : lang) sl k0 next entry R :
  (forall i j, P i j -> Lat P' i j) -> TFC (Qid P) next entry R -> TFC (QV sl k0 (Lat P')) next entry R.
Proof.
  intros E H. eapply TFC_ext; [|exact H]. intros i j m0 m1 [HP ->].
  apply A_id; [apply pb_Lat|]. split; [apply E; exact HP|reflexivity].
Qed.

Lemma TFC_lang (P P' : plang) sl k0 next entry R :
  (forall i j, P i j -> P' i j) -> TFC (QV sl k0 P) next entry R -> TFC (QV sl k0 P') next entry R.
Proof.
  intros E H. eapply TFC_ext; [|exact H]. intros i j m0 m1. apply A_extP. exact E.
Qed.

Lemma FragM_le x ci nocap k0 next entry lo hi :
  wf_x x = true -> FragM T x ci nocap k0 next entry lo hi -> lo <= hi.
Proof.
  intros W H. apply FragM_Frag in H. apply (Frag_good T s x W) in H. exact (proj1 H).
Qed.

Ltac rg := unfold Rg; lia.
Ltac wkn H := eapply TFC_weaken; [|exact H]; unfold Rg; intros; lia.

Lemma FragCharsM_sound l : forall ci next entry lo hi, FragCharsM T l ci next entry lo hi ->
  lo <= hi /\
  TFC (Qid (Lat (L ci (fold_right (fun c r => Seq (Chr (CsChar c)) r) Eps l)))) next entry (Rg lo hi).
Proof.
  induction l as [|c r IH]; intros ci next entry lo hi H; cbn [FragCharsM fold_right] in *.
  - destruct H as [-> ->]. split; [lia|]. eapply TFC_ext; [|apply TFC_eps].
    intros i j m0 m1 [HP ->]. split; [|reflexivity]. exact (proj2 (Lat_eps s i j) HP).
  - destruct H as (n3 & H1 & H2 & H3 & ->). apply IH in H3. destruct H3 as [Hle H3].
    split; [lia|].
    eapply TFC_ext.
    2:{ eapply TFC_seq.
        - eapply TFC_chr; [exact H2|rg].
        - eapply TFC_before; [exact H1|rg|wkn H3]. }
    intros i j m0 m2 (k & m1 & [A ->] & [B ->]). split; [|reflexivity].
    set (rest := fold_right (fun c r => Seq (Chr (CsChar c)) r) Eps r) in *.
    apply (proj2 (Lat_seq s (L ci (Chr (CsChar c))) (L ci rest) i j)). exists k. split; [|exact B].
    apply (proj2 (Lat_chr s (cs_in ci (CsChar c)) i k)). exact A.
Qed.

Section ItemsM.
Variable B : bool -> bodyp.
Variable P : lang.
Variable sl : subl.
Variables k0 anc : nat.
Hypothesis Hanc : anc <= k0.
Hypothesis Hfl : flat sl anc.
Hypothesis HB : forall sb nx en lo hi, B sb nx en lo hi -> lo <= hi /\ TFC (QV sl k0 (Lat P)) nx en (Rg lo hi).

Lemma ItemFragM_sound it nx entry lo hi : ItemFragM T B it nx entry lo hi ->
  lo <= hi /\ TFC (QV sl k0 (Lat (item_lang P it))) nx entry (Rg lo hi).
Proof.
  destruct it as [sb|sb|]; cbn [ItemFragM item_lang].
  - apply HB.
  - intros (body & h & H1 & H2 & H3 & -> & ->). apply HB in H2. destruct H2 as [Hle H2].
    split; [lia|].
    eapply TFC_lang; [intros i j; exact (proj2 (Lat_or s (fun _ t _ => t = []) P i j))|].
    eapply TFC_ext.
    2:{ eapply TFC_fork; [exact H3|rg| |apply TFC_eps].
        eapply TFC_after; [exact H1|rg|wkn H2]. }
    intros i j m0 m1 HQ. apply A_or. destruct HQ as [HQ|[HP ->]]; [right; exact HQ|left].
    apply A_id; [apply pb_Lat|]. split; [exact (proj2 (Lat_eps s i j) HP)|reflexivity].
  - intros (body & h & H1 & H2 & H3 & H4 & -> & ->). apply HB in H3. destruct H3 as [Hle H3].
    split; [lia|].
    eapply TFC_lang; [intros i j; exact (proj2 (Lat_star s P i j))|].
    eapply TFC_ext.
    2:{ eapply TFC_star; [exact H1|exact H4|rg|rg|].
        eapply TFC_after; [exact H2|rg|wkn H3]. }
    intros i j m0 m1 HQ. apply (A_star _ k0 anc); [exact Hanc|exact Hfl|apply pb_Lat|exact HQ].
Qed.

Lemma FragItemsM_sound items : forall next entry lo hi, FragItemsM T B items next entry lo hi ->
  lo <= hi /\ TFC (QV sl k0 (Lat (items_lang P items))) next entry (Rg lo hi).
Proof.
  induction items as [|it rest IH]; intros next entry lo hi H; cbn [FragItemsM] in *.
  - destruct H as [-> ->]. split; [lia|]. eapply TFC_leaf; [|apply TFC_eps].
    intros i j. exact (proj2 (Lat_eps s i j)).
  - destruct H as (n3 & mid & H1 & H2 & H3). apply ItemFragM_sound in H2. apply IH in H3.
    destruct H2 as [Hl2 H2]. destruct H3 as [Hl3 H3]. split; [lia|].
    eapply TFC_lang; [intros i j; exact (proj2 (Lat_seq s (item_lang P it) (items_lang P rest) i j))|].
    eapply TFC_ext.
    2:{ eapply TFC_seq.
        - wkn H2.
        - eapply TFC_before; [exact H1|rg|]. wkn H3. }
    intros i j m0 m2 HQ.
    apply (A_seq_flat _ k0 anc); [exact Hanc|exact Hfl|apply pb_Lat|apply pb_Lat|exact HQ].
Qed.
End ItemsM.

Theorem FragM_sound x : wf_x x = true -> forall ci nocap k0 anc rep next entry lo hi, anc <= k0 ->
  FragM T x ci nocap k0 next entry lo hi ->
  TFC (QV (subs ci anc rep (S k0) (to_sre nocap x)) k0 (Lat (L ci (to_sre true x)))) next entry (Rg lo hi).
Proof.
  induction x as [| |cs|l|a IHa b IHb|a IHa b IHb|a IHa|g a IHa|a IHa|g a IHa|g m n a IHa|a IHa|a IHa|a IHa|a IHa|k|a IHa|a IHa];
    intros Hw ci nocap k0 anc rep next entry lo hi Hanc H; cbn [FragM to_sre wf_x] in *.
  - (* XEps *) destruct H as [-> ->]. eapply TFC_leaf; [|apply TFC_eps].
    intros i j. exact (proj2 (Lat_eps s i j)).
  - (* XFail *) destruct H as [-> ->]. eapply TFC_ext; [|apply TFC_fail]. intros i j m0 m1 [].
  - (* XChr *) destruct H as (H & -> & ->). eapply TFC_leaf; [|eapply TFC_chr; [exact H|rg]].
    intros i j. exact (proj2 (Lat_chr s (cs_in ci cs) i j)).
  - (* XStr *) apply FragCharsM_sound in H. destruct H as [_ H]. eapply TFC_leaf; [|exact H]. auto.
  - (* XSeq *) apply andb_true_iff in Hw. destruct Hw as [Wa Wb].
    destruct H as (n3 & mid & H1 & H2 & H3).
    pose proof (FragM_le _ _ _ _ _ _ _ _ Wa H2) as Hl2. pose proof (FragM_le _ _ _ _ _ _ _ _ Wb H3) as Hl3.
    apply (IHa Wa ci nocap k0 anc rep) in H2; [|exact Hanc].
    apply (IHb Wb ci nocap _ anc rep) in H3; [|lia].
    cbn [subs].
    set (A := to_sre nocap a) in *. set (B := to_sre nocap b) in *.
    eapply TFC_lang; [intros i j; exact (proj2 (Lat_seq s (L ci (to_sre true a)) (L ci (to_sre true b)) i j))|].
    eapply TFC_ext.
    2:{ eapply TFC_seq.
        - wkn H2.
        - eapply TFC_before; [exact H1|rg|]. wkn H3. }
    intros i j m0 m2 HQ.
    apply (A_seq _ _ k0 anc); try assumption; try apply pb_Lat.
    + apply Hwfsl.
    + rewrite subs_length. apply (Hwfsl B ci anc rep (k0 + count_subs A)).
    + rewrite subs_length. exact HQ.
  - (* XAlt *) destruct (is_cset (XAlt a b)) eqn:Ecs.
    + destruct H as (H & -> & ->). eapply TFC_leaf; [|eapply TFC_chr; [exact H|rg]].
      intros i j HP.
      apply (proj2 (Lat_ext s _ _ (fun p t n0 => cset_lang (XAlt a b) Ecs Hw ci p t n0) i j)).
      exact (proj2 (Lat_chr s (cs_in ci (cset_of (XAlt a b))) i j) HP).
    + apply andb_true_iff in Hw. destruct Hw as [Wa Wb]. destruct (is_fail b) eqn:Ef.
      * destruct b; try discriminate Ef.
        pose proof (IHa Wa ci nocap k0 anc rep _ _ _ _ Hanc H) as H'. cbn [to_sre subs].
        eapply TFC_lang; [|eapply TFC_ext; [|exact H']].
        { intros i j HP. apply (proj2 (Lat_or s (L ci (to_sre true a)) (L ci Fail) i j)). left; exact HP. }
        intros i j m0 m1. apply A_widenR.
      * destruct H as (n1 & n2 & mid & h & H1 & H2 & H3 & -> & ->).
        pose proof (FragM_le _ _ _ _ _ _ _ _ Wa H1) as Hl1. pose proof (FragM_le _ _ _ _ _ _ _ _ Wb H2) as Hl2.
        apply (IHa Wa ci nocap k0 anc rep) in H1; [|exact Hanc].
        apply (IHb Wb ci nocap _ anc rep) in H2; [|lia].
        cbn [subs].
        set (A := to_sre nocap a) in *. set (B := to_sre nocap b) in *.
        eapply TFC_lang; [intros i j; exact (proj2 (Lat_or s (L ci (to_sre true a)) (L ci (to_sre true b)) i j))|].
        eapply TFC_ext.
        2:{ eapply TFC_fork; [exact H3|rg| |]; [wkn H1|wkn H2]. }
        intros i j m0 m1 HQ. apply A_or. destruct HQ as [HQ|HQ]; [left; apply A_widenR; exact HQ|right].
        apply (A_widenL _ _ k0 anc); [exact Hanc| |].
        -- rewrite subs_length. apply (Hwfsl B ci anc rep (k0 + count_subs A)).
        -- rewrite subs_length. exact HQ.
  - (* XBar *) apply IHa; assumption.
  - (* XStar *) destruct H as (body & h & H1 & H2 & H3 & -> & ->).
    pose proof (FragM_le _ _ _ _ _ _ _ _ Hw H2) as Hl.
    apply (IHa Hw ci nocap k0 anc true) in H2; [|exact Hanc].
    cbn [subs].
    eapply TFC_lang; [intros i j; exact (proj2 (Lat_star s (L ci (to_sre true a)) i j))|].
    eapply TFC_ext.
    2:{ eapply TFC_star; [exact H1|exact H3|rg|rg|wkn H2]. }
    intros i j m0 m1 HQ. apply (A_star _ k0 anc); [exact Hanc|apply Hflat|apply pb_Lat|exact HQ].
  - (* XPlus *) destruct H as (H1 & H2).
    pose proof (FragM_le _ _ _ _ _ _ _ _ Hw H2) as Hl.
    apply (IHa Hw ci nocap k0 anc true) in H2; [|exact Hanc].
    cbn [subs].
    eapply (TFC_lang (Pseq (Lat (L ci (to_sre true a))) (Lat (LStar (L ci (to_sre true a)))))).
    { intros i j HP. apply (proj2 (plus_lang s (L ci (to_sre true a)) i j)).
      destruct HP as (k & A & B). exists k. split; [exact A|].
      exact (proj1 (Lat_star s (L ci (to_sre true a)) k j) B). }
    eapply TFC_ext.
    2:{ eapply TFC_plus; [exact H1|rg|wkn H2]. }
    intros i j m0 m2 (k & m1 & Q1 & Q2).
    apply (A_seq_flat _ k0 anc); [exact Hanc|apply Hflat|apply pb_Lat|apply pb_Lat|].
    exists k, m1. split; [exact Q1|].
    eapply A_extP; [intros i' j'; exact (proj2 (Lat_star s (L ci (to_sre true a)) i' j'))|].
    apply (A_star _ k0 anc); [exact Hanc|apply Hflat|apply pb_Lat|exact Q2].
  - (* XOpt *) destruct H as (body & h & H1 & H2 & -> & ->).
    pose proof (FragM_le _ _ _ _ _ _ _ _ Hw H1) as Hl.
    apply (IHa Hw ci nocap k0 anc rep) in H1; [|exact Hanc].
    cbn [subs].
    eapply TFC_lang; [intros i j; exact (proj2 (Lat_or s (fun _ t _ => t = []) (L ci (to_sre true a)) i j))|].
    eapply TFC_ext.
    2:{ eapply TFC_fork; [exact H2|rg| |apply TFC_eps]. wkn H1. }
    intros i j m0 m1 HQ. apply A_or. destruct HQ as [HQ|[HP ->]]; [right; exact HQ|left].
    apply A_id; [apply pb_Lat|]. split; [exact (proj2 (Lat_eps s i j) HP)|reflexivity].
  - (* XRep *) apply andb_true_iff in Hw. destruct Hw as [Wa Wn].
    set (A := to_sre nocap a) in *. set (A0 := to_sre true a) in *.
    assert (Hlang : forall i j, Lat (items_lang (L ci A0) (expand_reps m n)) i j -> Lat (L ci (Rep g m n A0)) i j).
    { intros i j.
      apply (proj2 (Lat_ext s _ _ (fun p t n0 => rep_lang (L ci A0) g ci m n A0 p t n0 (fun _ _ _ => iff_refl _) Wn) i j)). }
    assert (Hgen : TFC (QV (subs ci anc true (S k0) A) k0 (Lat (L ci (Rep g m n A0)))) next entry (Rg lo hi)).
    { eapply TFC_lang; [exact Hlang|].
      refine (proj2 (FragItemsM_sound _ (L ci A0) (subs ci anc true (S k0) A) k0 anc Hanc (Hflat _ _ _ _) _ _ _ _ _ _ H)).
      intros sb nx en lo' hi' HF. destruct sb; cbn [negb] in HF.
      - rewrite orb_false_r in HF. split; [exact (FragM_le _ _ _ _ _ _ _ _ Wa HF)|].
        apply (IHa Wa ci nocap k0 anc true); assumption.
      - rewrite orb_true_r in HF. split; [exact (FragM_le _ _ _ _ _ _ _ _ Wa HF)|].
        pose proof (IHa Wa ci true k0 anc true _ _ _ _ Hanc HF) as H'.
        rewrite (subs_nil _ ci anc true (S k0) (count_subs_nocap a)) in H'.
        eapply TFC_ext; [|exact H']. intros i j m0 m1 HQ.
        exact (A_widenR [] (subs ci anc true (S k0) A) k0 _ i j m0 m1 HQ). }
    destruct m as [|m']; [destruct n as [[|n']|]|]; cbn [subs]; try exact Hgen.
    change (expand_reps 0 (Some 0)) with (@nil rep_item) in H. cbn [FragItemsM] in H. destruct H as [-> ->].
    eapply TFC_leaf; [|apply TFC_eps]. intros i j HP. apply Hlang. exact (proj2 (Lat_eps s i j) HP).
  - (* XSub *) destruct nocap.
    + apply (IHa Hw ci true k0 anc rep); assumption.
    + destruct H as (n2 & h & H1 & H2 & H3 & -> & ->).
      pose proof (FragM_le _ _ _ _ _ _ _ _ Hw H2) as Hl.
      apply (IHa Hw ci false (S k0) (if rep then anc else S k0) rep) in H2; [|destruct rep; lia].
      cbn [subs].
      eapply TFC_ext.
      2:{ eapply TFC_mark_before; [exact H3|rg|]. eapply TFC_mark_after; [exact H1|rg|]. wkn H2. }
      intros i j m0 m2 HQ. cbv beta in HQ.
      eapply (A_sub _ k0 ci (to_sre false a) anc (end_rule (ngs a))); [exact Hanc|apply pb_Lat| |exact HQ].
      intros i' j' HL. apply (Lat_in_lang (L ci (to_sre false a)) s i' j').
      apply (proj2 (Lat_ext s _ _ (to_sre_nocap a false ci) i' j')). exact HL.
  - (* XNamed *) destruct nocap.
    + apply (IHa Hw ci true k0 anc rep); assumption.
    + destruct H as (n2 & h & H1 & H2 & H3 & -> & ->).
      pose proof (FragM_le _ _ _ _ _ _ _ _ Hw H2) as Hl.
      apply (IHa Hw ci false (S k0) (if rep then anc else S k0) rep) in H2; [|destruct rep; lia].
      cbn [subs].
      eapply TFC_ext.
      2:{ eapply TFC_mark_before; [exact H3|rg|]. eapply TFC_mark_after; [exact H1|rg|]. wkn H2. }
      intros i j m0 m2 HQ. cbv beta in HQ.
      eapply (A_sub _ k0 ci (to_sre false a) anc (end_rule (ngs a))); [exact Hanc|apply pb_Lat| |exact HQ].
      intros i' j' HL. apply (Lat_in_lang (L ci (to_sre false a)) s i' j').
      apply (proj2 (Lat_ext s _ _ (to_sre_nocap a false ci) i' j')). exact HL.
  - (* XNoCap *) apply IHa; assumption.
  - (* XWord *) destruct H as (nb & h & H1 & H2 & H3 & H4 & H5 & -> & ->).
    pose proof (FragM_le _ _ _ _ _ _ _ _ Hw H3) as Hl.
    apply (IHa Hw ci nocap k0 anc rep) in H3; [|exact Hanc].
    set (A := to_sre nocap a) in *. set (A0 := to_sre true a) in *.
    replace (subs ci anc rep (S k0) (Seq (Anc Bow) (Seq A (Anc Eow)))) with (subs ci anc rep (S k0) A).
    2:{ cbn [subs count_subs app]. rewrite app_nil_r, Nat.add_0_r. reflexivity. }
    eapply TFC_ext.
    2:{ eapply TFC_seq; [eapply TFC_anc; [exact H5|rg]|].
        eapply TFC_seq; [eapply TFC_before; [exact H4|rg|wkn H3]|].
        eapply TFC_after; [exact H1|rg|eapply TFC_anc; [exact H2|rg]]. }
    intros i j m0 m3 (k1 & m1 & [A1 ->] & (k2 & m2 & Q2 & [A3 ->])).
    pose proof (fun i j => Lat_nil s (fun p n => anchor_ok Bow p n = true) i j) as NB.
    pose proof (fun i j => Lat_nil s (fun p n => anchor_ok Eow p n = true) i j) as NE.
    eapply A_extP; [intros i' j'; exact (proj2 (Lat_seq s (L ci (Anc Bow)) (L ci (Seq A0 (Anc Eow))) i' j'))|].
    apply A_idl; [apply pb_Lat|apply pb_Lat|].
    exists k1, m0. split; [split; [apply NB; exact A1|reflexivity]|].
    eapply A_extP; [intros i' j'; exact (proj2 (Lat_seq s (L ci A0) (L ci (Anc Eow)) i' j'))|].
    apply A_idr; [apply pb_Lat|apply pb_Lat|].
    exists k2, m2. split; [exact Q2|]. split; [apply NE; exact A3|reflexivity].
  - (* XAnc *) destruct H as (H & -> & ->). eapply TFC_leaf; [|eapply TFC_anc; [exact H|rg]].
    intros i j. exact (proj2 (Lat_nil s (fun p n => anchor_ok k p n = true) i j)).
  - (* XNoCase *) apply andb_true_iff in Hw. destruct Hw as [Wa _]. apply (IHa Wa true nocap k0 anc rep); assumption.
  - (* XCase *) apply andb_true_iff in Hw. destruct Hw as [Wa _]. apply (IHa Wa false nocap k0 anc rep); assumption.
Qed.

End Valid.
