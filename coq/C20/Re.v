(** C20 — SRFI 115 regular expressions: syntax of the supported SRE subset, the denotational
    SPEC [L], and an executable matcher by context-indexed Brzozowski derivatives, plus the
    validator [check_spans] for reported match / submatch spans.      NO proofs in this file.

    Code this is tied to (differentially, props/C20.py): lib/chibi/regexp.scm
      regexp (787-1051: SRE -> NFA), regexp-advance!/posse-advance! (392-497: NFA run),
      regexp-matches / regexp-matches? / regexp-search (518-531),
      regexp-match-submatch-start/end (183-190), char-set-ci (67-73), match/bos..nwb (563-587),
      sre-expand-reps (771-785), sre->char-set (712-757), regexp-fold (1069-1088).
    Mirrors of leaf functions, tied at function level through the module environment:
      [anchor_ok] ~ match/bos..match/nwb, [expand_reps] ~ sre-expand-reps, [match_ge] ~ regexp-match>=?;
      [fold_from] mirrors the loop of regexp-fold.  The NFA itself is not modelled. *)
From ChibiV Require Export C20.Chars.
Local Open Scope N_scope.

(* ------------------------------------------------------------------------------------------ *)
(** * Syntax *)

(** character-set SREs: #\c, (/ lo hi), any, (or ..), (and ..), (~ ..), (- a b), w/nocase, w/case *)
Inductive cset : Type :=
| CsChar (c : char)
| CsRange (lo hi : char)
| CsAny
| CsOr (a b : cset)
| CsAnd (a b : cset)
| CsNot (a : cset)
| CsDiff (a b : cset)
| CsNoCase (a : cset)
| CsCase (a : cset).

(** bos eos bol eol bow eow nwb *)
Inductive anchor : Type := Bos | Eos | Bol | Eol | Bow | Eow | Nwb.

(** SREs.  [(: a b c)] is [Seq a (Seq b c)], [(:)] is [Eps], [(or)] is [Fail], a string literal
    is the [Seq] of its characters, [(= n a)] is [Rep g n (Some n) a], [(>= n a)] is
    [Rep g n None a].  The boolean of [Star]/[Opt]/[Rep] is "greedy": [*?], [??], the non-greedy "**" denote
    the same language as [*], [?], "**" (SRFI 115: "non-greedy ... matches the same"). *)
Inductive sre : Type :=
| Eps
| Fail
| Chr (cs : cset)
| Seq (a b : sre)
| Alt (a b : sre)
| Star (greedy : bool) (a : sre)
| Plus (a : sre)
| Opt (greedy : bool) (a : sre)
| Rep (greedy : bool) (m : nat) (n : option nat) (a : sre)
| Sub (a : sre)
| Anc (k : anchor)
| NoCase (a : sre)
| Case (a : sre).

(* ------------------------------------------------------------------------------------------ *)
(** * SPEC: the language of an SRE, relative to the characters around the matched text *)

(** [p] = the character just before the matched text ([None]: the text starts the subject),
    [n] = the character just after it ([None]: the text ends the subject). *)
Definition lastc (p : option char) (s : list char) : option char :=
  fold_left (fun _ c => Some c) s p.
Definition firstc (s : list char) (n : option char) : option char :=
  match s with [] => n | c :: _ => Some c end.

Definition ci_eq (ci : bool) (c d : char) : Prop := c = d \/ (ci = true /\ fold c = fold d).

Fixpoint cs_in (ci : bool) (cs : cset) (c : char) : Prop :=
  match cs with
  | CsChar d => ci_eq ci c d
  | CsRange lo hi => exists d, (lo <= d /\ d <= hi) /\ ci_eq ci c d
  | CsAny => True
  | CsOr a b => cs_in ci a c \/ cs_in ci b c
  | CsAnd a b => cs_in ci a c /\ cs_in ci b c
  | CsNot a => ~ cs_in ci a c
  | CsDiff a b => cs_in ci a c /\ ~ cs_in ci b c
  | CsNoCase a => cs_in true a c
  | CsCase a => cs_in false a c
  end.

Definition wordp (o : option char) : bool := match o with Some c => is_word c | None => false end.

(** regexp.scm:563-587 match/bos, match/eos, match/bol, match/eol, match/bow, match/eow, match/nwb
    written on (previous char, next char) *)
Definition anchor_ok (k : anchor) (p n : option char) : bool :=
  match k with
  | Bos => match p with None => true | Some _ => false end
  | Eos => match n with None => true | Some _ => false end
  | Bol => match p with None => true | Some c => c =? newline end
  | Eol => match n with None => true | Some c => c =? newline end
  | Bow => wordp n && negb (wordp p)
  | Eow => wordp p && negb (wordp n)
  | Nwb => negb (wordp n && negb (wordp p)) && negb (wordp p && negb (wordp n))
  end.

Definition lang : Type := option char -> list char -> option char -> Prop.

(** zero or more consecutive pieces, each in [P] within its own context *)
Inductive LStar (P : lang) : lang :=
| LStar_nil : forall p n, LStar P p [] n
| LStar_cons : forall p s1 s2 n,
    P p s1 (firstc s2 n) -> LStar P (lastc p s1) s2 n -> LStar P p (s1 ++ s2) n.

(** exactly [k] consecutive pieces *)
Fixpoint LPow (P : lang) (k : nat) : lang :=
  fun p s n =>
  match k with
  | O => s = []
  | S k' => exists s1 s2, s = s1 ++ s2 /\ P p s1 (firstc s2 n) /\ LPow P k' (lastc p s1) s2 n
  end.

Fixpoint L (ci : bool) (r : sre) : lang :=
  fun p s n =>
  match r with
  | Eps => s = []
  | Fail => False
  | Chr cs => exists c, s = [c] /\ cs_in ci cs c
  | Seq a b => exists s1 s2, s = s1 ++ s2 /\ L ci a p s1 (firstc s2 n) /\ L ci b (lastc p s1) s2 n
  | Alt a b => L ci a p s n \/ L ci b p s n
  | Star _ a => LStar (L ci a) p s n
  | Plus a => exists k, (1 <= k)%nat /\ LPow (L ci a) k p s n
  | Opt _ a => s = [] \/ L ci a p s n
  | Rep _ m None a => exists k, (m <= k)%nat /\ LPow (L ci a) k p s n
  | Rep _ m (Some m') a => exists k, (m <= k /\ k <= m')%nat /\ LPow (L ci a) k p s n
  | Sub a => L ci a p s n
  | Anc k => s = [] /\ anchor_ok k p n = true
  | NoCase a => L true a p s n
  | Case a => L false a p s n
  end.

(** the text s[i..j) of a subject [s], in its context, belongs to the language *)
Definition pre (i : nat) (s : list char) := firstn i s.
Definition mid (i j : nat) (s : list char) := firstn (j - i) (skipn i s).
Definition post (j : nat) (s : list char) := skipn j s.
Definition in_lang (ci : bool) (r : sre) (s : list char) (i j : nat) : Prop :=
  (i <= j /\ j <= length s)%nat /\
  L ci r (lastc None (pre i s)) (mid i j s) (firstc (post j s) None).

(* ------------------------------------------------------------------------------------------ *)
(** * Executable matcher *)

Definition ci_eqb (ci : bool) (c d : char) : bool := (c =? d) || (ci && (fold c =? fold d)).

Fixpoint cs_mem (ci : bool) (cs : cset) (c : char) : bool :=
  match cs with
  | CsChar d => ci_eqb ci c d
  | CsRange lo hi => in_rng lo hi c || (ci && existsb (fun d => fold c =? fold d) (nrange lo hi))
  | CsAny => true
  | CsOr a b => cs_mem ci a c || cs_mem ci b c
  | CsAnd a b => cs_mem ci a c && cs_mem ci b c
  | CsNot a => negb (cs_mem ci a c)
  | CsDiff a b => cs_mem ci a c && negb (cs_mem ci b c)
  | CsNoCase a => cs_mem true a c
  | CsCase a => cs_mem false a c
  end.

(** core expressions: case flag pushed to the leaves, sugar expanded *)
Inductive re : Type :=
| REmpty
| REps
| RChr (ci : bool) (cs : cset)
| RSeq (a b : re)
| RAlt (a b : re)
| RStar (a : re)
| RAnc (k : anchor).

Fixpoint rpow (k : nat) (d : re) (tail : re) : re :=
  match k with O => tail | S k' => RSeq d (rpow k' d tail) end.
(** (d (d (d)?)?)? with [k] levels *)
Fixpoint ropt (k : nat) (d : re) : re :=
  match k with O => REps | S k' => RAlt REps (RSeq d (ropt k' d)) end.

Fixpoint desugar (ci : bool) (r : sre) : re :=
  match r with
  | Eps => REps
  | Fail => REmpty
  | Chr cs => RChr ci cs
  | Seq a b => RSeq (desugar ci a) (desugar ci b)
  | Alt a b => RAlt (desugar ci a) (desugar ci b)
  | Star _ a => RStar (desugar ci a)
  | Plus a => let d := desugar ci a in RSeq d (RStar d)
  | Opt _ a => RAlt REps (desugar ci a)
  | Rep _ m None a => let d := desugar ci a in rpow m d (RStar d)
  | Rep _ m (Some m') a =>
      let d := desugar ci a in
      if (m' <? m)%nat then REmpty else rpow m d (ropt (m' - m) d)
  | Sub a => desugar ci a
  | Anc k => RAnc k
  | NoCase a => desugar true a
  | Case a => desugar false a
  end.

(** does [r] match the empty text between [p] and [n]? *)
Fixpoint nullable (r : re) (p n : option char) : bool :=
  match r with
  | REmpty => false
  | REps => true
  | RChr _ _ => false
  | RSeq a b => nullable a p n && nullable b p n
  | RAlt a b => nullable a p n || nullable b p n
  | RStar _ => true
  | RAnc k => anchor_ok k p n
  end.

Definition re_eq_dec : forall a b : re, {a = b} + {a <> b}.
Proof.
  assert (forall a b : cset, {a = b} + {a <> b}) by (decide equality; apply N.eq_dec).
  assert (forall a b : anchor, {a = b} + {a <> b}) by decide equality.
  decide equality. apply bool_dec.
Defined.

(** is [a] one of the alternatives of the right-nested alternation [b]? *)
Fixpoint alt_mem (a b : re) : bool :=
  if re_eq_dec a b then true
  else match b with RAlt b1 b2 => (if re_eq_dec a b1 then true else false) || alt_mem a b2 | _ => false end.

Definition mkAlt (a b : re) : re :=
  match a, b with
  | REmpty, _ => b
  | _, REmpty => a
  | _, _ => if alt_mem a b then b else RAlt a b
  end.

Definition mkSeq (a b : re) : re :=
  match a with
  | REmpty => REmpty
  | REps => b
  | _ => match b with REmpty => REmpty | _ => RSeq a b end
  end.

(** derivative with respect to the character [c] that follows the left context [p] *)
Fixpoint deriv (p : option char) (c : char) (r : re) : re :=
  match r with
  | REmpty | REps | RAnc _ => REmpty
  | RChr ci cs => if cs_mem ci cs c then REps else REmpty
  | RSeq a b =>
      mkAlt (mkSeq (deriv p c a) b)
            (if nullable a p (Some c) then deriv p c b else REmpty)
  | RAlt a b => mkAlt (deriv p c a) (deriv p c b)
  | RStar a => mkSeq (deriv p c a) (RStar a)
  end.

(** whole text [s] between contexts [p] and [n] *)
Fixpoint matchc (r : re) (p : option char) (s : list char) (n : option char) : bool :=
  match s with
  | [] => nullable r p n
  | c :: s' => matchc (deriv p c r) (Some c) s' n
  end.

(** some prefix of [s] (the rest of the subject, ending the subject) *)
Fixpoint prefixb (r : re) (p : option char) (s : list char) : bool :=
  nullable r p (firstc s None) ||
  match s with
  | [] => false
  | c :: s' => prefixb (deriv p c r) (Some c) s'
  end.

(** some substring starting at or after the current position *)
Fixpoint searchc (r : re) (p : option char) (s : list char) : bool :=
  prefixb r p s ||
  match s with
  | [] => false
  | c :: s' => searchc r (Some c) s'
  end.

Definition matchb (r : sre) (s : list char) : bool := matchc (desugar false r) None s None.
Definition searchb (r : sre) (s : list char) : bool := searchc (desugar false r) None s.

(** length of the longest prefix of [s] (the rest of the subject) that matches, if any *)
Fixpoint longest (r : re) (p : option char) (s : list char) : option nat :=
  match (match s with
         | [] => None
         | c :: s' => option_map S (longest (deriv p c r) (Some c) s')
         end) with
  | Some k => Some k
  | None => if nullable r p (firstc s None) then Some O else None
  end.

(** leftmost start at or after the current position [i], longest end for that start *)
Fixpoint search_from (r : re) (p : option char) (s : list char) (i : nat) : option (nat * nat) :=
  match longest r p s with
  | Some k => Some (i, (i + k)%nat)
  | None => match s with [] => None | c :: s' => search_from r (Some c) s' (S i) end
  end.

(** the span POSIX leftmost-longest matching reports for a search of the whole subject *)
Definition search_span (r : sre) (s : list char) : option (nat * nat) :=
  search_from (desugar false r) None s O.

(** regexp-fold (regexp.scm, after fixes/C20-regexp-fold-restart-context.patch): successive searches over the
    rest [s] of the subject, [i] = index where the next search starts; returns the spans handed to kons, in
    order (empty matches included; the loop then steps one character, as the code does when i = j).  The
    restarted search keeps the true previous character [p]: bos/bol/bow refer to the string, not to the restart
    point (the pinned code passed the restart point as string start: F-C20-6).  [None] = out of fuel. *)
Fixpoint fold_from (fuel : nat) (r : re) (p : option char) (s : list char) (i : nat)
  : option (list (nat * nat)) :=
  match s with
  | [] => Some []
  | _ :: _ =>
    match fuel with
    | O => None
    | S fuel' =>
      match search_from r p s i with
      | None => Some []
      | Some (a, b) =>
          let d := if (b =? i)%nat then 1%nat else (b - i)%nat in
          option_map (cons (a, b)) (fold_from fuel' r (lastc p (firstn d s)) (skipn d s) (i + d)%nat)
      end
    end
  end.

Definition fold_spans (r : sre) (s : list char) : option (list (nat * nat)) :=
  fold_from (length s) (desugar false r) None s O.

(** sre-expand-reps (regexp.scm:771-785, with fixes/C20-zero-repeat.patch): the shape of the sequence a
    repetition (= n x) / (>= n x) / the bounded "**" form is rewritten to before compilation.  [true] = the copy keeps its
    submatches (only the last one does), [false] = submatches stripped (strip-submatches). *)
Inductive rep_item : Type := RCopy (subs : bool) | ROptc (subs : bool) | RStarc.

Definition expand_reps (from : nat) (to : option nat) : list rep_item :=
  match to with
  | None => repeat (RCopy false) from ++ [RStarc]
  | Some t =>
      if (from =? t)%nat then
        match from with O => [] | S k => repeat (RCopy false) k ++ [RCopy true] end
      else repeat (RCopy false) from ++ repeat (ROptc false) (t - from - 1) ++ [ROptc true]
  end.

(** the language of such a sequence over a body language [P] *)
Definition item_lang (P : lang) (it : rep_item) : lang :=
  match it with
  | RCopy _ => P
  | ROptc _ => fun p s n => s = [] \/ P p s n
  | RStarc => LStar P
  end.

Fixpoint items_lang (P : lang) (l : list rep_item) : lang :=
  fun p s n =>
  match l with
  | [] => s = []
  | it :: l' => exists s1 s2, s = s1 ++ s2 /\ item_lang P it p s1 (firstc s2 n) /\ items_lang P l' (lastc p s1) s2 n
  end.

(** regexp-match>=? (regexp.scm:262-292, with fixes/C20-nongreedy-leftmost.patch): the preference between the
    match vectors of two searchers that meet in one NFA state (or at the accept state).  A vector is
    start0 end0 start1 end1 ... ([None] = #f, not set); [ng] = rx-non-greedy-indexes (positions of the end
    slots of non-greedy submatches); [i] = position of the current start slot.  Submatch-list slots are not
    modelled.  [true] = keep m1. *)
Definition oeqb (a b : option nat) : bool :=
  match a, b with
  | None, None => true
  | Some x, Some y => (x =? y)%nat
  | _, _ => false
  end.

Fixpoint match_ge (ng : list nat) (i : nat) (m1 m2 : list (option nat)) : bool :=
  match m1, m2 with
  | s1 :: e1 :: r1, s2 :: e2 :: r2 =>
      if oeqb s1 s2 && oeqb e1 e2 then match_ge ng (i + 2) r1 r2
      else negb
        match s2 with
        | None => false
        | Some b2 =>
            match s1 with
            | None => true
            | Some b1 =>
                (b2 <? b1)%nat
                || match e1 with Some x1 => (x1 <? b1)%nat | None => false end
                || ((b2 =? b1)%nat &&
                    (if existsb (Nat.eqb (i + 1)) ng then negb else (fun b : bool => b))
                      match e2 with
                      | None => true
                      | Some x2 => match e1 with Some x1 => (x1 <? x2)%nat | None => false end
                      end)
            end
        end
  | _, _ => true
  end.

(** no anchor at all: the language does not depend on the surrounding characters *)
Fixpoint anchor_free (r : sre) : bool :=
  match r with
  | Anc _ => false
  | Eps | Fail | Chr _ => true
  | Seq a b | Alt a b => anchor_free a && anchor_free b
  | Star _ a | Opt _ a | Rep _ _ _ a | Plus a | Sub a | NoCase a | Case a => anchor_free a
  end.

(** anchors that look at the character before the match position *)
Fixpoint left_anchored (r : sre) : bool :=
  match r with
  | Anc Bos | Anc Bol | Anc Bow | Anc Eow | Anc Nwb => true
  | Eps | Fail | Chr _ | Anc _ => false
  | Seq a b | Alt a b => left_anchored a || left_anchored b
  | Star _ a | Opt _ a | Rep _ _ _ a | Plus a | Sub a | NoCase a | Case a => left_anchored a
  end.

(** does the SRE contain a non-greedy operator?  (then the overall match need not be longest) *)
Fixpoint has_nongreedy (r : sre) : bool :=
  match r with
  | Eps | Fail | Chr _ | Anc _ => false
  | Seq a b | Alt a b => has_nongreedy a || has_nongreedy b
  | Star g a | Opt g a | Rep g _ _ a => negb g || has_nongreedy a
  | Plus a | Sub a | NoCase a | Case a => has_nongreedy a
  end.

(* ------------------------------------------------------------------------------------------ *)
(** * Submatches and the span validator *)

(** number of submatches the compiled regexp reports (rx-num-matches); after the repair of
    sre-expand-reps, [(= 0 a)] / the same with "**" compile to [(:)] and their body registers none *)
Fixpoint count_subs (r : sre) : nat :=
  match r with
  | Eps | Fail | Chr _ | Anc _ => 0
  | Seq a b | Alt a b => count_subs a + count_subs b
  | Star _ a | Plus a | Opt _ a | NoCase a | Case a => count_subs a
  | Rep _ O (Some O) _ => 0
  | Rep _ _ _ a => count_subs a
  | Sub a => S (count_subs a)
  end.

(** The submatches in the order chibi numbers them (order of the opening parentheses;
    [current-match] in [regexp]), entry [k] of the list describing submatch [k+1]:
    (case flag in force, body, index of the nearest enclosing submatch that is not inside a
    repetition -- 0 = the whole match).  [anc] = that index for the current position, [rep] =
    "inside a repetition", [k] = number the next submatch gets.
    A submatch inside a repetition may keep the span of an earlier iteration (SRFI 115 does
    not say; chibi keeps it), so only an enclosing submatch that is entered at most once is
    required to contain it. *)
Fixpoint subs (ci : bool) (anc : nat) (rep : bool) (k : nat) (r : sre) : list (bool * sre * nat) :=
  match r with
  | Eps | Fail | Chr _ | Anc _ => []
  | Seq a b | Alt a b => subs ci anc rep k a ++ subs ci anc rep (k + count_subs a) b
  | Star _ a | Plus a => subs ci anc true k a
  | Rep _ O (Some O) _ => []
  | Rep _ _ _ a => subs ci anc true k a
  | Opt _ a => subs ci anc rep k a
  | Sub a => (ci, a, anc) :: subs ci (if rep then anc else k) rep (S k) a
  | NoCase a => subs true anc rep k a
  | Case a => subs false anc rep k a
  end.

Definition span : Type := (nat * nat)%type.

Definition span_ok (ci : bool) (r : sre) (s : list char) (sp : span) : bool :=
  let '(i, j) := sp in
  (i <=? j)%nat && (j <=? length s)%nat &&
  matchc (desugar ci r) (lastc None (pre i s)) (mid i j s) (firstc (post j s) None).

Definition within (sp outer : span) : bool :=
  (fst outer <=? fst sp)%nat && (snd sp <=? snd outer)%nat.

Definition sub_ok (s : list char) (spans : list (option span)) (e : bool * sre * nat) (o : option span) : bool :=
  match o with
  | None => true
  | Some sp =>
      let '(ci, body, anc) := e in
      span_ok ci body s sp &&
      match nth anc spans None with Some outer => within sp outer | None => false end
  end.

Fixpoint forallb2 {A B} (f : A -> B -> bool) (l : list A) (m : list B) : bool :=
  match l, m with
  | [], [] => true
  | x :: l', y :: m' => f x y && forallb2 f l' m'
  | _, _ => false
  end.

(** [spans] = what regexp-match-submatch-start/end report for indices 0..n ([None] = #f) *)
Definition check_spans (r : sre) (s : list char) (spans : list (option span)) : bool :=
  match spans with
  | Some sp0 :: rest =>
      span_ok false r s sp0 && forallb2 (sub_ok s spans) (subs false 0 false 1 r) rest
  | _ => false
  end.
