(** C20 -- what one traversal of a compiled fragment does to the match vector: the relation [U] (frame, and for each
    submatch of the fragment: pair of slots untouched, or a valid span inside the traversed segment, nested in the
    span of its recorded enclosing submatch), and the STATEMENTS of its algebra (sequence, alternative, iteration,
    submatch brackets).  The statements are [Definition]s of [Prop]s so that the algebra (NfaSubsUAlg.v) and the
    structural induction over the compiled shape (NfaSubsValid.v) can be developed against the same text. *)
From ChibiV Require Import C20.Re C20.Proofs C20.Nfa C20.NfaSem C20.NfaThompson C20.NfaSubsDefs C20.NfaSubsTfc.
From Coq Require Import List Arith Lia Bool.
Import ListNotations.
Local Open Scope nat_scope.

Section U.
Variable s : list char.

(** every recorded position is at most the current position *)
Definition Bnd (i : nat) (m : mvec) : Prop := forall k v, getm m k = Some v -> v <= i.

Definition subl : Type := list (bool * sre * nat).

(** the enclosing submatch recorded for entry [t] of [sl] (submatch number S k0 + t) is inherited (<= b) or an
    earlier member of [sl] *)
Definition wfsl (sl : subl) (b k0 : nat) : Prop :=
  forall t ci body a, nth_error sl t = Some (ci, body, a) -> a <= b \/ (S k0 <= a /\ a < S k0 + t).
(** inside a repetition: all inherited *)
Definition flat (sl : subl) (b : nat) : Prop :=
  forall t ci body a, nth_error sl t = Some (ci, body, a) -> a <= b.

Definition pair_same (m0 m1 : mvec) (k : nat) : Prop :=
  getm m1 (2 * k) = getm m0 (2 * k) /\ getm m1 (S (2 * k)) = getm m0 (S (2 * k)).

(** [sl] = the submatches of the fragment, entry [t] describing submatch number [S k0 + t] (slots 2(S k0 + t), +1);
    the fragment was traversed from position [i] to position [j], turning [m0] into [m1] *)
Definition U (sl : subl) (k0 i j : nat) (m0 m1 : mvec) : Prop :=
  length m1 = length m0 /\
  (forall slot, slot < 2 * S k0 \/ 2 * S (k0 + length sl) <= slot -> getm m1 slot = getm m0 slot) /\
  (forall t ci body anc, nth_error sl t = Some (ci, body, anc) ->
     pair_same m0 m1 (S k0 + t) \/
     exists a e, getm m1 (2 * (S k0 + t)) = Some a /\ getm m1 (S (2 * (S k0 + t))) = Some e /\
       i <= a /\ e <= j /\ in_lang ci body s a e /\
       (k0 < anc -> exists oa oe, getm m1 (2 * anc) = Some oa /\ getm m1 (S (2 * anc)) = Some oe /\
                                  oa <= a /\ e <= oe)).

Definition QV (sl : subl) (k0 : nat) (P : plang) : vrel := fun i j m0 m1 =>
  Bnd i m0 -> 2 * S (k0 + length sl) <= length m0 -> P i j /\ Bnd j m1 /\ U sl k0 i j m0 m1.

(** position languages inside the subject *)
Definition pb (P : plang) : Prop := forall i j, P i j -> i <= j /\ j <= length s.

(** * Statements of the algebra *)

Definition S_id : Prop := forall sl k0 (P : plang), pb P ->
  forall i j m0 m1, Qid P i j m0 m1 -> QV sl k0 P i j m0 m1.

Definition S_extP : Prop := forall sl k0 (P P' : plang), (forall i j, P i j -> P' i j) ->
  forall i j m0 m1, QV sl k0 P i j m0 m1 -> QV sl k0 P' i j m0 m1.

Definition S_widenR : Prop := forall sl1 sl2 k0 (P : plang) i j m0 m1,
  QV sl1 k0 P i j m0 m1 -> QV (sl1 ++ sl2) k0 P i j m0 m1.

Definition S_widenL : Prop := forall sl1 sl2 k0 b (P : plang), b <= k0 -> wfsl sl2 b (k0 + length sl1) ->
  forall i j m0 m1, QV sl2 (k0 + length sl1) P i j m0 m1 -> QV (sl1 ++ sl2) k0 P i j m0 m1.

Definition S_seq : Prop := forall sl1 sl2 k0 b (P1 P2 : plang), b <= k0 ->
  wfsl sl1 b k0 -> wfsl sl2 b (k0 + length sl1) -> pb P1 -> pb P2 ->
  forall i j m0 m2, Qseq (QV sl1 k0 P1) (QV sl2 (k0 + length sl1) P2) i j m0 m2 ->
                    QV (sl1 ++ sl2) k0 (Pseq P1 P2) i j m0 m2.

Definition S_idl : Prop := forall sl k0 (P1 P2 : plang), pb P1 -> pb P2 ->
  forall i j m0 m2, Qseq (Qid P1) (QV sl k0 P2) i j m0 m2 -> QV sl k0 (Pseq P1 P2) i j m0 m2.

Definition S_idr : Prop := forall sl k0 (P1 P2 : plang), pb P1 -> pb P2 ->
  forall i j m0 m2, Qseq (QV sl k0 P1) (Qid P2) i j m0 m2 -> QV sl k0 (Pseq P1 P2) i j m0 m2.

Definition S_or : Prop := forall sl k0 (P1 P2 : plang),
  forall i j m0 m1, Qor (QV sl k0 P1) (QV sl k0 P2) i j m0 m1 -> QV sl k0 (Por P1 P2) i j m0 m1.

Definition S_seq_flat : Prop := forall sl k0 b (P1 P2 : plang), b <= k0 -> flat sl b -> pb P1 -> pb P2 ->
  forall i j m0 m2, Qseq (QV sl k0 P1) (QV sl k0 P2) i j m0 m2 -> QV sl k0 (Pseq P1 P2) i j m0 m2.

Definition S_star : Prop := forall sl k0 b (P : plang), b <= k0 -> flat sl b -> pb P ->
  forall i j m0 m1, Qstar s (QV sl k0 P) i j m0 m1 -> QV sl k0 (pstar s P) i j m0 m1.

(** the brackets of submatch number S k0: entry mark (slot 2 (S k0), RLeft), body, exit mark (slot 2 (S k0) + 1, any
    rule [r]: RNgLeft never keeps the old end on a single path, the old end being at most the new start) *)
Definition S_sub : Prop := forall sl k0 ci body anc (r : rule) (P : plang), anc <= k0 -> pb P ->
  (forall i j, P i j -> in_lang ci body s i j) ->
  forall i j m0 m2,
    (exists m1, QV sl (S k0) P i j (umark (2 * S k0) RLeft m0 i) m1 /\ m2 = umark (S (2 * S k0)) r m1 j) ->
    QV ((ci, body, anc) :: sl) k0 P i j m0 m2.

End U.

(** all the algebra at once *)
Definition U_algebra (s : list char) : Prop :=
  S_id s /\ S_extP s /\ S_widenR s /\ S_widenL s /\ S_seq s /\ S_idl s /\ S_idr s /\ S_or s /\
  S_seq_flat s /\ S_star s /\ S_sub s.
