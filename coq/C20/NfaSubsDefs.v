(** C20 -- traces of match vectors along paths of the state graph (shared definitions of the NfaSubs*.v files).

    A configuration (q, i) is ENTERED with a vector m: the state of q records the position i in the slot it names
    ([update_match], exactly as [adv] does when it pops (q, m0)).  The trace of a path is the fold of these updates
    over the configurations the path visits.  Two presentations:
      [chain c l] / [trace m l] : [l] = the configurations visited after [c], consecutive ones related by [step];
      [tp k c m c' m']          : a path of [k] steps from c to c'; [m] = the vector BEFORE entering c,
                                  [m'] = the vector BEFORE entering c'.                                         *)
From ChibiV Require Import C20.Re C20.Nfa C20.NfaSem.
From Coq Require Import List Arith Lia Bool.
Import ListNotations.
Local Open Scope nat_scope.

Section TraceDefs.
Variable T : list state.
Variable s : list char.

Definition ent (m : mvec) (c : nat * nat) : mvec :=
  match nth_error T (fst c) with Some st => update_match st m (snd c) | None => m end.

Fixpoint chain (c : nat * nat) (l : list (nat * nat)) : Prop :=
  match l with [] => True | c1 :: r => step T s c c1 /\ chain c1 r end.

Definition trace (m : mvec) (l : list (nat * nat)) : mvec := fold_left ent l m.

Inductive tp : nat -> nat * nat -> mvec -> nat * nat -> mvec -> Prop :=
| tp_0 : forall c m, tp 0 c m c m
| tp_S : forall k c m c1 c' m', step T s c c1 -> tp k c1 (ent m c) c' m' -> tp (S k) c m c' m'.

Lemma last_cons {A} (a : A) r d : last (a :: r) d = last r a.
Proof.
  revert a d. induction r as [|b r IH]; intros a d; [reflexivity|].
  change (last (a :: b :: r) d) with (last (b :: r) d). rewrite (IH b d), (IH b a). reflexivity.
Qed.

Lemma chain_app c l l' : chain c l -> chain (last l c) l' -> chain c (l ++ l').
Proof.
  revert c. induction l as [|c1 r IH]; intros c H1 H2; cbn [app]; [exact H2|].
  destruct H1 as [S1 C1]. split; [exact S1|]. apply IH; [exact C1|]. rewrite last_cons in H2. exact H2.
Qed.

Lemma chain_snoc c l c' : chain c l -> step T s (last l c) c' -> chain c (l ++ [c']).
Proof. intros H1 H2. apply chain_app; [exact H1|]. split; [exact H2 | exact I]. Qed.

Lemma last_snoc {A} (l : list A) (x d : A) : last (l ++ [x]) d = x.
Proof. apply last_last. Qed.

Lemma trace_snoc m l c : trace m (l ++ [c]) = ent (trace m l) c.
Proof. unfold trace. rewrite fold_left_app. reflexivity. Qed.

Lemma trace_cons m c l : trace m (c :: l) = trace (ent m c) l.
Proof. reflexivity. Qed.

Lemma chain_path c l : chain c l -> path T s c (last l c).
Proof.
  revert c. induction l as [|c1 r IH]; intros c H; [constructor|].
  destruct H as [S1 C1]. rewrite last_cons. econstructor; [exact S1 | apply IH; exact C1].
Qed.

Lemma path_chain c c' : path T s c c' -> exists l, chain c l /\ last l c = c'.
Proof.
  induction 1 as [c|c c1 c2 S1 _ (l & C & E)]; [exists []; split; [exact I | reflexivity]|].
  exists (c1 :: l). split; [split; assumption|]. rewrite last_cons. exact E.
Qed.

(** the two presentations agree *)
Lemma chain_tp : forall l c m, chain c l ->
  tp (length l) c m (last l c) (trace m (removelast (c :: l))).
Proof.
  induction l as [|c1 r IH]; intros c m H.
  - cbn [length last removelast trace fold_left]. constructor.
  - destruct H as [S1 C1]. rewrite last_cons. cbn [length].
    replace (removelast (c :: c1 :: r)) with (c :: removelast (c1 :: r)) by reflexivity.
    rewrite trace_cons. econstructor; [exact S1|]. apply IH. exact C1.
Qed.

Lemma tp_chain k c m c' m' : tp k c m c' m' ->
  exists l, length l = k /\ chain c l /\ last l c = c' /\ m' = trace m (removelast (c :: l)).
Proof.
  induction 1 as [c m|k c m c1 c' m' S1 _ (l & L & C & E & M)].
  - exists []. repeat split.
  - exists (c1 :: l). split; [cbn [length]; congruence|]. split; [split; assumption|].
    split; [rewrite last_cons; exact E|].
    replace (removelast (c :: c1 :: l)) with (c :: removelast (c1 :: l)) by reflexivity.
    rewrite trace_cons. exact M.
Qed.

Lemma trace_full m c l : trace m (c :: l) = ent (trace m (removelast (c :: l))) (last l c).
Proof.
  assert (E : c :: l = removelast (c :: l) ++ [last l c]).
  { rewrite <- (last_cons c l c). apply app_removelast_last. discriminate. }
  rewrite E at 1. apply trace_snoc.
Qed.

Lemma tp_trans k1 k2 c1 m1 c2 m2 c3 m3 : tp k1 c1 m1 c2 m2 -> tp k2 c2 m2 c3 m3 -> tp (k1 + k2) c1 m1 c3 m3.
Proof. induction 1 as [c m|k c m c1 c' m' S1 _ IH]; intros H; [exact H|]. cbn [Nat.add]. econstructor; [exact S1 | apply IH; exact H]. Qed.

Lemma tp_path k c m c' m' : tp k c m c' m' -> path T s c c'.
Proof. induction 1; [constructor | econstructor; eassumption]. Qed.

End TraceDefs.
