(** C20 — bookkeeping facts about the compiler of Nfa.v, for all SREs:
    the number of save slots of the compiled regexp is 2 * (1 + number of submatches the SPEC syntax
    counts), i.e. rx-num-save-indexes / rx-num-matches agree with [count_subs]; the trace-keeping
    loop is the loop. *)
From ChibiV Require Import C20.Re C20.Nfa C20.NfaOrd.
Import ListNotations.
Local Open Scope nat_scope.

Lemma alloc_nsub st e : e_nsub (snd (alloc st e)) = e_nsub e.
Proof. reflexivity. Qed.

Lemma compile_chars_nsub l : forall ci next e, e_nsub (snd (compile_chars l ci next e)) = e_nsub e.
Proof.
  induction l as [|c r IH]; intros ci next e; cbn [compile_chars]; [reflexivity|].
  cbn [alloc]. specialize (IH ci next (mkEnv ((e_tb e ++ [eps_state None]) ++ [char_state ci (CsChar c) (length (e_tb e))]) (e_nsub e) (e_ngi e))).
  destruct (compile_chars r ci next _) as [n3 e3]. cbn [snd patch1 e_nsub] in *. exact IH.
Qed.

(** one copy of the body registers [k] submatches when it keeps them, none when stripped *)
Definition cb_counts (cb : bool -> nat -> cenv -> option nat * cenv) (k : nat) : Prop :=
  forall subs next e, e_nsub (snd (cb subs next e)) = e_nsub e + (if subs then k else 0).

Definition item_subs (it : rep_item) : bool :=
  match it with RCopy s | ROptc s => s | RStarc => true end.

Lemma compile_items_nsub cb k : cb_counts cb k -> forall items next e,
  e_nsub (snd (compile_items cb items next e)) =
  e_nsub e + k * length (filter item_subs items).
Proof.
  intros Hcb. induction items as [|it rest IH]; intros next e; cbn [compile_items].
  - cbn. lia.
  - cbn [alloc].
    destruct it as [sb|sb|]; cbn [item_subs filter alloc].
    + match goal with |- context [cb sb ?m ?e0] => pose proof (Hcb sb m e0) as H; destruct (cb sb m e0) as [n1 e2] end.
      match goal with |- context [compile_items cb rest next ?e0] => pose proof (IH next e0) as H2; destruct (compile_items cb rest next e0) as [n3 e3] end.
      cbn [snd patch1 e_nsub] in *. rewrite H2, H. destruct sb; cbn [length]; lia.
    + match goal with |- context [cb sb ?m ?e0] => pose proof (Hcb sb m e0) as H; destruct (cb sb m e0) as [n1 e2] end.
      match goal with |- context [compile_items cb rest next ?e0] => pose proof (IH next e0) as H2; destruct (compile_items cb rest next e0) as [n3 e3] end.
      cbn [snd patch1 e_nsub] in *. rewrite H2, H. destruct sb; cbn [length]; lia.
    + match goal with |- context [cb true ?m ?e0] => pose proof (Hcb true m e0) as H; destruct (cb true m e0) as [n1 e2] end.
      match goal with |- context [compile_items cb rest next ?e0] => pose proof (IH next e0) as H2; destruct (compile_items cb rest next e0) as [n3 e3] end.
      cbn [snd patch1 patch2 e_nsub] in *. rewrite H2, H. cbn [length]; lia.
Qed.

Lemma filter_repeat_false (it : rep_item) k : item_subs it = false -> filter item_subs (repeat it k) = [].
Proof. intros H. induction k; cbn; [reflexivity|]. rewrite H. exact IHk. Qed.

Lemma expand_reps_one_copy m n :
  length (filter item_subs (expand_reps m n)) =
  match m, n with O, Some O => 0 | _, _ => 1 end.
Proof.
  unfold expand_reps. destruct n as [t|].
  - destruct (m =? t) eqn:E.
    + apply Nat.eqb_eq in E. subst t. destruct m as [|k]; [reflexivity|].
      rewrite filter_app, filter_repeat_false by reflexivity. reflexivity.
    + rewrite !filter_app, !filter_repeat_false by reflexivity. cbn.
      destruct m; [destruct t; [discriminate|reflexivity]|reflexivity].
  - rewrite filter_app, filter_repeat_false by reflexivity. destruct m; reflexivity.
Qed.

Lemma count_subs_rep g m n a :
  count_subs (Rep g m n a) = count_subs a * match m, n with O, Some O => 0 | _, _ => 1 end.
Proof. destruct m; [destruct n as [[|]|]|]; cbn [count_subs]; lia. Qed.

Lemma count_subs_chars l : count_subs (fold_right (fun c r => Seq (Chr (CsChar c)) r) Eps l) = 0.
Proof. induction l; cbn [fold_right count_subs]; [reflexivity|exact IHl]. Qed.

(** is_cset forms contain no submatch *)
Lemma is_cset_no_subs x : (is_cset x = true -> forall nocap, count_subs (to_sre nocap x) = 0)
                       /\ (elems_cset x = true -> forall nocap, count_subs (to_sre nocap x) = 0).
Proof.
  induction x; split; cbn [is_cset elems_cset]; try discriminate; intros H nocap; cbn [to_sre count_subs]; try reflexivity.
  - apply count_subs_chars.
  - apply andb_prop in H. destruct H as [Ha Hb]. destruct IHx1 as [I1 _], IHx2 as [_ I2]. rewrite I1, I2; auto.
  - apply andb_prop in H. destruct H as [Ha Hb]. destruct IHx1 as [I1 _], IHx2 as [I2 _]. rewrite I1, I2; auto.
  - destruct IHx as [I _]. auto.
  - destruct IHx as [_ I]. auto.
  - destruct IHx as [_ I]. auto.
Qed.

Lemma compile_nsub x : forall ci nocap next e,
  e_nsub (snd (compile x ci nocap next e)) = e_nsub e + count_subs (to_sre nocap x).
Proof.
  induction x; intros ci nocap next e; cbn [compile to_sre count_subs]; try (cbn; lia).
  - (* XStr *) rewrite compile_chars_nsub, count_subs_chars. lia.
  - (* XSeq *) cbn [alloc].
    match goal with |- context [compile x1 ci nocap ?n ?e0] => pose proof (IHx1 ci nocap n e0) as H1; destruct (compile x1 ci nocap n e0) as [n1 e1] end.
    pose proof (IHx2 ci nocap next e1) as H2. destruct (compile x2 ci nocap next e1) as [n3 e3].
    cbn [snd patch1 e_nsub] in *. lia.
  - (* XAlt *)
    destruct (is_cset (XAlt x1 x2)) eqn:Ec.
    + pose proof (proj1 (is_cset_no_subs (XAlt x1 x2)) Ec nocap) as H. cbn [to_sre count_subs] in H. cbn. lia.
    + assert (G : forall r, (let '(n1, e0) := compile x1 ci nocap next e in
                 let '(n2, e1) := compile x2 ci nocap next e0 in
                 let '(id, e2) := alloc (fork_state n1 n2) e1 in (Some id, e2)) = r ->
                 e_nsub (snd r) = e_nsub e + (count_subs (to_sre nocap x1) + count_subs (to_sre nocap x2))).
      { intros r <-. pose proof (IHx1 ci nocap next e) as H1. destruct (compile x1 ci nocap next e) as [n1 e1].
        pose proof (IHx2 ci nocap next e1) as H2. destruct (compile x2 ci nocap next e1) as [n2 e2].
        cbn [snd alloc e_nsub] in *. lia. }
      destruct x2; try (apply G; reflexivity).
      rewrite IHx1. cbn [to_sre count_subs]. lia.
  - (* XBar *) apply IHx.
  - (* XStar *) cbn [alloc].
    match goal with |- context [compile x ci nocap ?n ?e0] => pose proof (IHx ci nocap n e0) as H1; destruct (compile x ci nocap n e0) as [n1 e1] end.
    cbn [snd patch2 e_nsub] in *. lia.
  - (* XPlus *) cbn [alloc].
    match goal with |- context [compile x ci nocap ?n ?e0] => pose proof (IHx ci nocap n e0) as H1; destruct (compile x ci nocap n e0) as [n1 e1] end.
    cbn [snd patch2 e_nsub] in *. lia.
  - (* XOpt *)
    pose proof (IHx ci nocap next e) as H1. destruct (compile x ci nocap next e) as [n1 e1].
    cbn [snd alloc e_nsub] in *. lia.
  - (* XRep *)
    rewrite (compile_items_nsub _ (count_subs (to_sre nocap x))).
    + rewrite expand_reps_one_copy. destruct m as [|m']; [destruct n as [[|n']|]|]; lia.
    + intros subs k e0. rewrite IHx. destruct subs; cbn [negb orb].
      * rewrite Bool.orb_false_r. reflexivity.
      * rewrite Bool.orb_true_r.
        (* a stripped copy: to_sre true has no submatch *)
        assert (Hs : forall y, count_subs (to_sre true y) = 0).
        { clear. induction y; cbn [to_sre count_subs]; try reflexivity; try lia.
          - apply count_subs_chars.
          - destruct m; [destruct n as [[|]|]|]; cbn [count_subs]; lia. }
        rewrite Hs. reflexivity.
  - (* XSub *) destruct nocap.
    + apply IHx.
    + cbn [alloc e_tb e_nsub e_ngi].
      match goal with |- context [compile x ci false ?n ?e0] => pose proof (IHx ci false n e0) as H1; destruct (compile x ci false n e0) as [n1 e1] end.
      cbn [snd e_nsub] in *. destruct (ngs x); cbn [snd e_nsub count_subs]; lia.
  - (* XNamed *) destruct nocap.
    + apply IHx.
    + cbn [alloc e_tb e_nsub e_ngi].
      match goal with |- context [compile x ci false ?n ?e0] => pose proof (IHx ci false n e0) as H1; destruct (compile x ci false n e0) as [n1 e1] end.
      cbn [snd e_nsub] in *. destruct (ngs x); cbn [snd e_nsub count_subs]; lia.
  - (* XNoCap *) apply IHx.
  - (* XWord *) cbn [alloc].
    match goal with |- context [compile x ci nocap ?n ?e0] => pose proof (IHx ci nocap n e0) as H1; destruct (compile x ci nocap n e0) as [n1 e1] end.
    cbn [snd e_nsub] in *. lia.
  - (* XNoCase *) apply IHx.
  - (* XCase *) apply IHx.
Qed.

(** rx-num-save-indexes of the compiled regexp = 2 * (1 + submatches of the SPEC syntax): the vector
    regexp-match-submatch-start/end index has exactly one pair per [$] the validator expects *)
Theorem compile_top_nsave x : n_nsave (compile_top x) = 2 * S (count_subs (to_sre false x)).
Proof.
  unfold compile_top. cbn [alloc e_tb e_nsub e_ngi].
  match goal with |- context [compile x false false ?n ?e0] => pose proof (compile_nsub x false false n e0) as H1; destruct (compile x false false n e0) as [n1 e1] end.
  cbn [snd e_nsub n_nsave] in *. rewrite H1. reflexivity.
Qed.

Lemma reorder_nil p : reorder [] p = p.
Proof. unfold reorder. cbn. induction p as [|a p IH]; cbn; [reflexivity|]. f_equal. exact IH. Qed.

(** replaying no order is the insertion-order loop; and the last snapshot of the trace is the loop's result *)
Lemma loop_tr_ord_nil search N s : forall k i s1 acc,
  loop_tr_ord [] search N s k i s1 acc = loop_tr search N s k i s1 acc.
Proof.
  induction k as [|k IH]; intros i s1 acc; cbn [loop_tr_ord loop_tr].
  - reflexivity.
  - destruct (if search || (i =? 0) then _ else _) as [[s1' acc']|]; [|reflexivity].
    destruct ((search && early_exit s1' acc') || (negb search && is_nil s1')); [reflexivity|].
    destruct (nth_error s i) as [ch|]; [|reflexivity].
    cbn [hd tl]. rewrite reorder_nil.
    destruct (step_all N s (S i) (negb search) ch s1' [] acc') as [[s2 acc2]|]; [|reflexivity].
    rewrite IH. reflexivity.
Qed.

Theorem loop_tr_last search N s : forall k i s1 acc,
  match loop_tr search N s k i s1 acc, loop search N s k i s1 acc with
  | Some tr, Some (p, a) => tr <> [] /\ exists j, last tr (0, [], None) = (j, p, a)
  | None, None => True
  | _, _ => False
  end.
Proof.
  induction k as [|k IH]; intros i s1 acc; cbn [loop_tr loop].
  - destruct (if search || (i =? 0) then _ else _) as [[s1' acc']|]; [|exact I]. split; [discriminate|]. exists i. reflexivity.
  - destruct (if search || (i =? 0) then _ else _) as [[s1' acc']|]; [|exact I].
    destruct ((search && early_exit s1' acc') || (negb search && is_nil s1')); [split; [discriminate|]; exists i; reflexivity|].
    destruct (nth_error s i) as [ch|]; [|split; [discriminate|]; exists i; reflexivity].
    destruct (step_all N s (S i) (negb search) ch s1' [] acc') as [[s2 acc2]|]; [|exact I].
    specialize (IH (S i) s2 acc2).
    destruct (loop_tr search N s k (S i) s2 acc2) as [tr|]; destruct (loop search N s k (S i) s2 acc2) as [[p a]|]; cbn [option_map]; try exact IH.
    destruct IH as [Hne [j Hj]]. split; [discriminate|]. exists j.
    destruct tr as [|t tr']; [congruence|]. cbn [last]. exact Hj.
Qed.
