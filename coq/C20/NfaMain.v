(** C20 — the engine theorems: the modelled NFA construction and simulation of regexp.scm decide the
    SPEC language.  Composition of NfaThompson.v (graph of [compile_top x] <-> language) and NfaRun.v
    (simulation [run] <-> accepting path in the graph). *)
From ChibiV Require Import C20.Re C20.Proofs C20.Nfa C20.NfaSem C20.NfaThompson C20.NfaRun.
Import ListNotations.

(** regexp-search of the modelled engine (Thompson graph + posse simulation with match vectors, merging and
    the early exit) succeeds exactly when some substring, in its context, is in the SPEC language *)
Theorem nfa_search_iff_substring_all x s : wf_x x = true ->
  (nfa_search x s = true <-> exists i j, in_lang false (to_sre false x) s i j).
Proof.
  intros W. unfold nfa_search. rewrite run_search_iff_path. apply compile_top_finds_iff_substring. exact W.
Qed.

(** regexp-matches? of the modelled engine accepts exactly the strings of the SPEC language *)
Theorem nfa_accepts_iff_language_all x s : wf_x x = true ->
  (nfa_matches x s = true <-> L false (to_sre false x) None s None).
Proof.
  intros W. unfold nfa_matches. rewrite run_matches_iff_path. apply compile_top_path_iff_language. exact W.
Qed.

Example ex_wf : wf_x (XSeq (XStar true (XSeq (XSub (XSeq (XStr [97; 98]%N) XEps)) XEps))
                           (XSeq (XRep true 1 (Some 2) (XSeq (XNoCase (XSeq (XChr (CsChar 97%N)) XEps)) XEps)) XEps)) = true.
Proof. reflexivity. Qed.
